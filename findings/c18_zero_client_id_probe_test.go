package server

// REFERENCE DEFECT (fails on the unmodified code) - property C18, "replies addressed to a
// vanished connection are dropped ... never delivered to an unrelated client".
// Goes to: server/C18_zero_client_id_misroute_test.go ; run: go test -vet=off -count=1 -run TestRefDefectC18ZeroClientId ./server/
//
// History:
//   H holds key K. Connection A never sends INIT (it never announces a client id), leaves a
//   LOCK K request queued (timeout 10 s) and disconnects. Connection B - a different client -
//   sends INIT with the all-zero client id. H unlocks K, A's queued request is granted.
// What goes wrong:
//   the ProxyServerProtocol of the never-initialised connection A carries the zero value
//   [16]byte{} as client id. After A's Close() the proxy points at the default protocol and
//   ProxyServerProtocol.ProcessLockResultCommandLocked looks the reply's destination up in
//   SLock.clients by that zero id - without checking that A ever announced an id (the direct
//   path BinaryServerProtocol.ProcessLockResultCommand does check self.inited). B registered
//   itself under the zero id, so the grant for A's request is written to B, which receives a
//   LOCK result frame for a request it never made (and its proxy list adopts A's proxy).

import (
	"io"
	"net"
	"testing"
	"time"

	"github.com/jessevdk/go-flags"
	"github.com/snower/slock/protocol"
)

type refC18zeroEnv struct {
	t      *testing.T
	slock  *SLock
	server *Server
	ln     net.Listener
}

func newrefC18zeroEnv(t *testing.T) *refC18zeroEnv {
	serverConfig := &ServerConfig{}
	parse := flags.NewParser(serverConfig, flags.Default)
	if _, err := parse.ParseArgs([]string{}); err != nil {
		t.Fatalf("config: %v", err)
	}
	logger, _ := InitLogger(serverConfig)
	slock := NewSLock(serverConfig, logger)
	slock.state = STATE_LEADER
	server := NewServer(slock)
	slock.server = server
	ln, err := net.Listen("tcp", "127.0.0.1:0")
	if err != nil {
		t.Fatalf("listen: %v", err)
	}
	go func() {
		for {
			conn, aerr := ln.Accept()
			if aerr != nil {
				return
			}
			stream := NewStream(conn)
			_ = server.addStream(stream)
			go server.handle(stream)
		}
	}()
	return &refC18zeroEnv{t, slock, server, ln}
}

func (e *refC18zeroEnv) close() {
	_ = e.ln.Close()
	for _, db := range e.slock.dbs {
		if db != nil {
			db.Close()
		}
	}
}

type refC18zeroConn struct {
	t    *testing.T
	name string
	c    net.Conn
}

func (e *refC18zeroEnv) dial(name string) *refC18zeroConn {
	c, err := net.Dial("tcp", e.ln.Addr().String())
	if err != nil {
		e.t.Fatalf("dial: %v", err)
	}
	return &refC18zeroConn{e.t, name, c}
}

func refC18zeroId(s string) [16]byte {
	var k [16]byte
	copy(k[:], s)
	return k
}

func (p *refC18zeroConn) send(cmd protocol.CommandEncode) {
	buf := make([]byte, 64)
	if err := cmd.Encode(buf); err != nil {
		p.t.Fatalf("%s encode: %v", p.name, err)
	}
	if _, err := p.c.Write(buf); err != nil {
		p.t.Fatalf("%s write: %v", p.name, err)
	}
}

func (p *refC18zeroConn) readFrame(d time.Duration) []byte {
	buf := make([]byte, 64)
	_ = p.c.SetReadDeadline(time.Now().Add(d))
	if _, err := io.ReadFull(p.c, buf); err != nil {
		return nil
	}
	return buf
}

func (p *refC18zeroConn) lockCmd(ctype uint8, key string, lockId string, timeout uint16, expried uint16) *protocol.LockCommand {
	cmd := protocol.NewLockCommand(0, refC18zeroId(key), refC18zeroId(lockId), timeout, expried, 0)
	cmd.CommandType = ctype
	p.send(cmd)
	return cmd
}

func (p *refC18zeroConn) do(ctype uint8, key string, lockId string, timeout uint16, expried uint16) uint8 {
	cmd := p.lockCmd(ctype, key, lockId, timeout, expried)
	f := p.readFrame(2 * time.Second)
	if f == nil {
		p.t.Fatalf("%s: no reply for request %x", p.name, cmd.RequestId)
	}
	var rid [16]byte
	copy(rid[:], f[3:19])
	if rid != cmd.RequestId {
		p.t.Fatalf("%s: reply for request %x, want %x", p.name, rid, cmd.RequestId)
	}
	return f[19]
}

func (p *refC18zeroConn) ping() {
	p.send(protocol.NewPingCommand())
	f := p.readFrame(2 * time.Second)
	if f == nil || f[2] != protocol.COMMAND_PING {
		p.t.Fatalf("%s: no ping reply", p.name)
	}
}

func TestRefDefectC18ZeroClientId(t *testing.T) {
	e := newrefC18zeroEnv(t)
	defer e.close()

	h := e.dial("H")
	if r := h.do(protocol.COMMAND_LOCK, "refzero-key", "lock-h", 0, 30); r != protocol.RESULT_SUCCED {
		t.Fatalf("H lock: %d", r)
	}

	a := e.dial("A") // never sends INIT
	ca := a.lockCmd(protocol.COMMAND_LOCK, "refzero-key", "lock-a", 10, 30)
	a.ping()
	_ = a.c.Close()
	time.Sleep(300 * time.Millisecond)

	b := e.dial("B")
	b.send(protocol.NewInitCommand([16]byte{}))
	if f := b.readFrame(2 * time.Second); f == nil || f[2] != protocol.COMMAND_INIT {
		t.Fatalf("B: no init reply")
	}

	if r := h.do(protocol.COMMAND_UNLOCK, "refzero-key", "lock-h", 0, 0); r != protocol.RESULT_SUCCED {
		t.Fatalf("H unlock: %d", r)
	}

	if f := b.readFrame(700 * time.Millisecond); f != nil {
		var rid [16]byte
		copy(rid[:], f[3:19])
		t.Fatalf("B received a frame for a request it never made: command %d result %d request %x (A's request was %x)", f[2], f[19], rid, ca.RequestId)
	}
}
