package protocol

import (
	"reflect"
	"testing"
)

// Feeds one text request to the parser in the given chunks (each chunk = one
// read from the connection, as TextServerProtocol.Process does it).
func probeParseChunks(t *testing.T, chunks []string) ([]string, error) {
	rbuf := make([]byte, 1024)
	parser := NewTextParser(rbuf, make([]byte, 1024))
	for _, c := range chunks {
		n := copy(parser.GetReadBuf(), c)
		parser.BufferUpdate(n)
		if err := parser.ParseRequest(); err != nil {
			return nil, err
		}
	}
	if !parser.IsParseFinish() {
		return parser.GetArgs(), nil
	}
	return parser.GetArgs(), nil
}

func TestProbeTextParserChunkingTrailerSplit(t *testing.T) {
	whole := []string{"*2\r\n$3\r\nGET\r\n$10\r\n0123456789\r\n"}
	want, err := probeParseChunks(t, whole)
	if err != nil || !reflect.DeepEqual(want, []string{"GET", "0123456789"}) {
		t.Fatalf("whole: %v %v", want, err)
	}
	// same bytes, three reads: the second read ends exactly at the end of the payload
	split := []string{"*2\r\n$3\r\nGET\r\n$10\r\n0123", "456789", "\r\n"}
	got, err := probeParseChunks(t, split)
	if err != nil {
		t.Fatalf("split: error %v", err)
	}
	if !reflect.DeepEqual(got, want) {
		t.Fatalf("same byte stream, different chunking: got %q want %q", got, want)
	}
}
func TestProbeAllSplits(t *testing.T) {
	reqs := []struct {
		raw  string
		want []string
	}{
		{"*2\r\n$3\r\nGET\r\n$10\r\n0123456789\r\n", []string{"GET", "0123456789"}},
		{"*3\r\n$3\r\nSET\r\n$0\r\n\r\n$4\r\na\r\nb\r\n", []string{"SET", "", "a\r\nb"}},
		{"*1\r\n$4\r\nPING\r\n", []string{"PING"}},
	}
	bad := 0
	for _, rq := range reqs {
		n := len(rq.raw)
		for i := 1; i < n; i++ {
			for j := i; j < n; j++ {
				chunks := []string{rq.raw[:i], rq.raw[i:j], rq.raw[j:]}
				if i == j {
					chunks = []string{rq.raw[:i], rq.raw[j:]}
				}
				got, err := probeParseChunks(t, chunks)
				if err != nil || !reflect.DeepEqual(got, rq.want) {
					bad++
					if bad < 15 {
						t.Errorf("split %q: got %q err %v", chunks, got, err)
					}
				}
			}
		}
	}
	if bad > 0 {
		t.Errorf("%d bad splits", bad)
	}
}
