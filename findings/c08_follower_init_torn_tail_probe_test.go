package server

// REFERENCE DEFECT (property C08), found on the unmodified worktree.
// Goes in server/ (package server); run with
//   go test -vet=off -count=1 -run TestRefDefectC08FollowerInitTornTail ./server/
//
// History
//   1. A node persists ten lock records in append.aof.1 and dies while the last
//      record is only partly on disk (the file is cut 20 bytes short, i.e. inside
//      its last 64-byte record).
//   2. The node is restarted as a FOLLOWER (slaveof): SLock.initFollower calls
//      Aof.Init(), which asks LoadFileMaxAofLock -> AofFile.ReadTail for the last
//      record of the newest append file in order to resume replication from it.
//
// Expected (C08): the start succeeds and resumes from the last COMPLETE record
// (record 9, aof offset 9).
//
// Observed: AofFile.ReadTail blindly reads the last 64 bytes of the file
// (ReadAt(buf, fileSize-64)) whatever the file length modulo 64, so on a torn
// file it decodes a window that straddles two records, finds a wrong length
// prefix and returns "Lock Len error"; Aof.Init() returns that error and the
// follower refuses to start. (The leader path is not affected only because
// LoadAndInit reopens the file in append mode, which truncates the torn tail,
// before LoadMaxAofId runs; Aof.LoadMaxAofId on the torn file fails the same way.)

import (
	"fmt"
	"io"
	"os"
	"path/filepath"
	"testing"

	"github.com/jessevdk/go-flags"
	"github.com/snower/slock/protocol"
)

func refC08fiNewSLock(t *testing.T, dir string) *SLock {
	serverConfig := &ServerConfig{}
	parse := flags.NewParser(serverConfig, flags.Default)
	if _, err := parse.ParseArgs([]string{}); err != nil {
		t.Fatal(err)
	}
	serverConfig.DataDir = dir
	serverConfig.LogLevel = "ERROR"
	serverConfig.DBConcurrent = 1
	serverConfig.DBFastKeyCount = 4096
	logger, _ := InitLogger(serverConfig)
	return NewSLock(serverConfig, logger)
}

func TestRefDefectC08FollowerInitTornTail(t *testing.T) {
	base := t.TempDir()
	originDir := filepath.Join(base, "origin")
	slock := refC08fiNewSLock(t, originDir)
	if err := slock.initLeader(); err != nil {
		t.Fatalf("first start failed: %v", err)
	}
	proto := NewMemWaiterServerProtocol(slock)
	_ = proto.SetResultCallback(func(_ *MemWaiterServerProtocol, _ *protocol.LockCommand, _ uint8, _ uint16, _ uint8, _ []byte) error {
		return nil
	})
	for i := 0; i < 10; i++ {
		cmd := &protocol.LockCommand{Command: protocol.Command{Magic: protocol.MAGIC, Version: protocol.VERSION, CommandType: protocol.COMMAND_LOCK}}
		copy(cmd.LockKey[:], fmt.Sprintf("c08f-key-%05d", i))
		cmd.LockId = cmd.LockKey
		cmd.LockId[15] = 7
		cmd.RequestId = cmd.LockKey
		cmd.RequestId[15] = 1
		cmd.Expried = 3600
		cmd.ExpriedFlag = protocol.EXPRIED_FLAG_ZEOR_AOF_TIME
		if err := slock.GetOrNewDB(0).Lock(proto, cmd, 1); err != nil {
			t.Fatalf("lock %d: %v", i, err)
		}
	}
	_ = slock.aof.WaitFlushAofChannel()
	slock.aof.FlushWithLocked()

	crashDir := filepath.Join(base, "crash")
	if err := os.MkdirAll(crashDir, 0755); err != nil {
		t.Fatal(err)
	}
	for _, name := range []string{"append.aof.1", "append.aof.1.dat"} {
		in, err := os.Open(filepath.Join(originDir, name))
		if err != nil {
			t.Fatal(err)
		}
		out, err := os.Create(filepath.Join(crashDir, name))
		if err != nil {
			t.Fatal(err)
		}
		_, _ = io.Copy(out, in)
		_ = in.Close()
		_ = out.Close()
	}
	slock.Close()

	aofName := filepath.Join(crashDir, "append.aof.1")
	fi, err := os.Stat(aofName)
	if err != nil {
		t.Fatal(err)
	}
	if fi.Size() != 12+64*10 {
		t.Fatalf("unexpected append file size %d", fi.Size())
	}
	// the crash: the tenth record is cut 20 bytes short
	if err := os.Truncate(aofName, fi.Size()-20); err != nil {
		t.Fatal(err)
	}

	follower := refC08fiNewSLock(t, crashDir)
	aofId, err := follower.aof.Init() // first step of SLock.initFollower
	if err != nil {
		t.Fatalf("follower start on the torn log failed: Aof.Init() = %v", err)
	}
	lastLock := NewAofLock()
	lastLock.SetAofId(aofId)
	if lastLock.AofIndex != 1 || lastLock.AofOffset != 9 {
		t.Errorf("follower resumes from aof index %d offset %d, want the last complete record: index 1 offset 9", lastLock.AofIndex, lastLock.AofOffset)
	}
}
