package server

import (
	"bufio"
	"fmt"
	"io"
	"net"
	"strings"
	"testing"
	"time"

	"github.com/jessevdk/go-flags"
	"github.com/snower/slock/protocol"
)

// REFERENCE DEFECT candidate for C10 ("a client gets the same outcome from any
// node"), text protocol. Goes in package server
// (server/C10_text_push_reply_shifts_on_leader_only_test.go).
//
// Script on ONE text connection:   PUSH k1 EXPRIED 0   then   UNLOCK k3
// (k3 was never locked, the correct answer of the second command is
// "6 UNLOCK_ERROR", in any case NOT "0 OK").
//
// On the LEADER TextServerProtocol.commandHandlerPush calls db.Lock(self, ...);
// the engine answers through TextServerProtocol.ProcessLockResultCommand which
// unconditionally puts the result into lockWaiter (buffered, 4) although PUSH
// never reads it. The next LOCK/UNLOCK handler reads the stale PUSH result
// from lockWaiter: the client is told "0 OK" for an UNLOCK that failed, and
// every later reply on that connection is shifted by one.
// Through a FOLLOWER the same script is answered correctly (the relay
// TransparencyBinaryClientProtocol.processTextProcotol drops the result of the
// forwarded PUSH because its request id is not lockRequestId), so the outcome of
// the same script differs between leader and follower.

func refDefectC10bSendText(conn net.Conn, args ...string) error {
	sb := strings.Builder{}
	sb.WriteString(fmt.Sprintf("*%d\r\n", len(args)))
	for _, arg := range args {
		sb.WriteString(fmt.Sprintf("$%d\r\n%s\r\n", len(arg), arg))
	}
	_, err := conn.Write([]byte(sb.String()))
	return err
}

func refDefectC10bReadReply(reader *bufio.Reader) ([]string, error) {
	line, err := reader.ReadString('\n')
	if err != nil {
		return nil, err
	}
	line = strings.TrimRight(line, "\r\n")
	if len(line) == 0 {
		return nil, fmt.Errorf("empty line")
	}
	switch line[0] {
	case '+', '-', ':':
		return []string{line}, nil
	case '$':
		data, derr := reader.ReadString('\n')
		if derr != nil {
			return nil, derr
		}
		return []string{strings.TrimRight(data, "\r\n")}, nil
	case '*':
		n := 0
		_, _ = fmt.Sscanf(line[1:], "%d", &n)
		values := make([]string, 0, n)
		for i := 0; i < n; i++ {
			v, verr := refDefectC10bReadReply(reader)
			if verr != nil {
				return nil, verr
			}
			values = append(values, v...)
		}
		return values, nil
	}
	return nil, fmt.Errorf("unknown reply %s", line)
}

// refDefectC10bRunScript starts a node in the given state, runs the script over one
// text connection and returns the reply of the second command (UNLOCK).
func refDefectC10bRunScript(t *testing.T, state uint8, leaderAddress string) []string {
	serverConfig := &ServerConfig{}
	parse := flags.NewParser(serverConfig, flags.Default)
	if _, err := parse.ParseArgs([]string{}); err != nil {
		t.Fatalf("parse config fail %v", err)
	}
	serverConfig.DBConcurrent = 2
	logger, _ := InitLogger(serverConfig)
	slock := NewSLock(serverConfig, logger)
	slock.state = state
	server := NewServer(slock)
	slock.server = server
	if leaderAddress != "" {
		_ = slock.replicationManager.transparencyManager.ChangeLeader(leaderAddress)
	}
	listener, err := net.Listen("tcp", "127.0.0.1:0")
	if err != nil {
		t.Fatalf("listen fail %v", err)
	}
	defer listener.Close()
	go func() {
		for {
			conn, aerr := listener.Accept()
			if aerr != nil {
				return
			}
			stream := NewStream(conn)
			_ = server.addStream(stream)
			go server.handle(stream)
		}
	}()

	conn, err := net.Dial("tcp", listener.Addr().String())
	if err != nil {
		t.Fatalf("connect fail %v", err)
	}
	defer conn.Close()
	_ = conn.SetDeadline(time.Now().Add(10 * time.Second))
	reader := bufio.NewReader(conn)

	if err = refDefectC10bSendText(conn, "PUSH", "refC10pushk1", "EXPRIED", "0"); err != nil {
		t.Fatalf("send push fail %v", err)
	}
	reply, err := refDefectC10bReadReply(reader)
	if err != nil || len(reply) != 1 || reply[0] != "+OK" {
		t.Fatalf("push reply %v %v", reply, err)
	}
	time.Sleep(200 * time.Millisecond)

	if err = refDefectC10bSendText(conn, "UNLOCK", "refC10neverlockedk3"); err != nil {
		t.Fatalf("send unlock fail %v", err)
	}
	reply, err = refDefectC10bReadReply(reader)
	if err != nil {
		t.Fatalf("unlock reply read fail %v", err)
	}
	if len(reply) < 2 {
		t.Fatalf("short unlock reply %v", reply)
	}
	return reply
}

// a stand-in leader for the follower run: grants every LOCK, answers every UNLOCK
// with RESULT_UNLOCK_ERROR (the key was never locked), like the real engine does.
func refDefectC10bFakeLeader(listener net.Listener) {
	for {
		conn, err := listener.Accept()
		if err != nil {
			return
		}
		go func(conn net.Conn) {
			defer conn.Close()
			buf := make([]byte, 64)
			for {
				if _, rerr := io.ReadFull(conn, buf); rerr != nil {
					return
				}
				if buf[2] != protocol.COMMAND_LOCK && buf[2] != protocol.COMMAND_UNLOCK {
					continue
				}
				command := &protocol.LockCommand{}
				if derr := command.Decode(buf); derr != nil {
					return
				}
				result := uint8(protocol.RESULT_SUCCED)
				if command.CommandType == protocol.COMMAND_UNLOCK {
					result = protocol.RESULT_UNLOCK_ERROR
				}
				wbuf := make([]byte, 64)
				_ = protocol.NewLockResultCommand(command, result, 0, 0, command.Count, 0, command.Rcount, nil).Encode(wbuf)
				if _, werr := conn.Write(wbuf); werr != nil {
					return
				}
			}
		}(conn)
	}
}

func TestRefDefectC10TextPushReplyShiftsOnLeader(t *testing.T) {
	leaderListener, err := net.Listen("tcp", "127.0.0.1:0")
	if err != nil {
		t.Fatalf("listen fail %v", err)
	}
	defer leaderListener.Close()
	go refDefectC10bFakeLeader(leaderListener)

	followerReply := refDefectC10bRunScript(t, STATE_FOLLOWER, leaderListener.Addr().String())
	if followerReply[0] == "0" {
		t.Fatalf("follower relayed a success for the UNLOCK of a never locked key: %v", followerReply)
	}

	leaderReply := refDefectC10bRunScript(t, STATE_LEADER, "")
	if leaderReply[0] == "0" {
		t.Fatalf("same script, different outcome: through a follower UNLOCK of a never locked key is answered %s %s, the leader itself answers %s %s - the stale result of the preceding PUSH (full leader reply %v)",
			followerReply[0], followerReply[1], leaderReply[0], leaderReply[1], leaderReply)
	}
}
