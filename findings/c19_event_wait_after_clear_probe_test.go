package server

// Reference defect (UNMODIFIED code) against property C19:
//   "Event.Wait returns only once the event is set".
//
// Place this file at server/zz_refdefect_C19_event_wait_after_clear_test.go and run from the repository root:
//   go test -vet=off -count=1 -run 'TestRefDefectC19EventWaitSucceedsAfterClear' ./server/
// It FAILS on the unmodified worktree (hundreds of violations within a few seconds on a 16 core box, the
// test stops at the first one).
//
// History (Go client over TCP against an in-process leader, event created in "default clear" mode, i.e.
// client.Event(key, timeout, expried, false)):
//   connection A:  Event.Set()   -> returns
//   connection A:  Event.Clear() -> returns            (the event is clear from here on, nobody sets it again)
//   connection B:  Event.Wait(5ms) is invoked AFTER Clear() has returned (same goroutine, sequentially)
// Expected: Wait ends with client.WaitTimeout.  Observed (about 0.5% of the iterations): Wait returns success
// although no Set happened after the Clear that had already completed.
//
// Why: in default-clear mode Clear() is an UNLOCK of the event lock.  LockDB.UnLock releases the key mutex,
// writes the reply to the clearing client and only then calls wakeUpWaitLocks(lockManager).  A Wait (a LOCK
// with TIMEOUT_FLAG_LOCK_WAIT_WHEN_UNLOCK) that reaches the server in that window is queued because
// locked == 0, and the trailing wakeUpWaitLocks of the Clear then grants it: doLock() answers true whenever
// lockManager.locked == 0 and does not look at TIMEOUT_FLAG_LOCK_WAIT_WHEN_UNLOCK.  So the waiter is woken
// "by the Clear".  With a 2ms pause between Clear() returning and Wait() the violation disappears, and without
// the Set/Clear cycle (event simply never set) it never happens, which pins the cause to that window.

import (
	"net"
	"os"
	"sync"
	"sync/atomic"
	"testing"
	"time"

	"github.com/jessevdk/go-flags"
	"github.com/snower/slock/client"
	"github.com/snower/slock/protocol"
)

var refDefectC19ServerOnce sync.Once
var refDefectC19ServerPort uint
var refDefectC19ServerErr error

func refDefectC19StartServer(t *testing.T) uint {
	refDefectC19ServerOnce.Do(func() {
		l, err := net.Listen("tcp", "127.0.0.1:0")
		if err != nil {
			refDefectC19ServerErr = err
			return
		}
		port := uint(l.Addr().(*net.TCPAddr).Port)
		_ = l.Close()
		dir, err := os.MkdirTemp("", "refdefectC19")
		if err != nil {
			refDefectC19ServerErr = err
			return
		}
		cfg := &ServerConfig{}
		if _, err = flags.NewParser(cfg, flags.Default).ParseArgs([]string{}); err != nil {
			refDefectC19ServerErr = err
			return
		}
		cfg.Port = port
		cfg.DataDir = dir
		cfg.LogLevel = "ERROR"
		logger, _ := InitLogger(cfg)
		sl := NewSLock(cfg, logger)
		srv := NewServer(sl)
		if err = sl.Init(srv); err != nil {
			refDefectC19ServerErr = err
			return
		}
		if err = srv.Listen(); err != nil {
			refDefectC19ServerErr = err
			return
		}
		go srv.Serve()
		time.Sleep(100 * time.Millisecond)
		refDefectC19ServerPort = port
	})
	if refDefectC19ServerErr != nil {
		t.Fatalf("start in-process server: %v", refDefectC19ServerErr)
	}
	return refDefectC19ServerPort
}

func TestRefDefectC19EventWaitSucceedsAfterClear(t *testing.T) {
	port := refDefectC19StartServer(t)
	var bad, iters int32
	var wg sync.WaitGroup
	deadline := time.Now().Add(40 * time.Second)
	for g := 0; g < 48; g++ {
		wg.Add(1)
		go func(g int) {
			defer wg.Done()
			a := client.NewClient("127.0.0.1", port)
			b := client.NewClient("127.0.0.1", port)
			if err := a.Open(); err != nil {
				t.Errorf("open: %v", err)
				return
			}
			defer a.Close()
			if err := b.Open(); err != nil {
				t.Errorf("open: %v", err)
				return
			}
			defer b.Close()
			key := [16]byte{}
			copy(key[:], "refdefC19-ev")
			key[15] = byte(g) // every goroutine has its own event, there is no cross talk between goroutines
			setter := a.Event(key, 5, 30, false)
			waiter := b.Event(key, 5, 30, false)
			for time.Now().Before(deadline) && atomic.LoadInt32(&bad) == 0 {
				if _, err := setter.Set(); err != nil {
					t.Errorf("set: %v", err)
					return
				}
				if _, err := setter.Clear(); err != nil {
					t.Errorf("clear: %v", err)
					return
				}
				// Clear() has returned: the event is clear and stays clear until the next loop iteration
				_, err := waiter.Wait(5 | uint32(protocol.TIMEOUT_FLAG_MILLISECOND_TIME)<<16)
				atomic.AddInt32(&iters, 1)
				if err == nil {
					atomic.AddInt32(&bad, 1)
				} else if err != client.WaitTimeout {
					t.Errorf("wait: unexpected error %v", err)
					return
				}
			}
		}(g)
	}
	wg.Wait()
	if bad > 0 {
		t.Fatalf("Event.Wait invoked after Event.Clear() had returned (and with no later Set) returned success %d time(s) in %d iterations", bad, iters)
	}
	t.Logf("no violation in %d iterations", iters)
}
