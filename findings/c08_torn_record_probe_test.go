package server

// Reproducer for C08/R1 (copy into server/ of a scratch copy;
// go test -vet=off -run TestFindingC08TornRecord ./server/): an append file cut
// in the middle of its last 64-byte record. AofFile.ReadLock must not report
// success for the torn record (before the fix it returned the first read's nil
// error, so the record was replayed padded with the previous record's bytes).

import (
	"os"
	"path/filepath"
	"testing"
)

func TestFindingC08TornRecord(t *testing.T) {
	dir := t.TempDir()
	name := filepath.Join(dir, "append.aof.1")
	var b []byte
	b = append(b, 'S', 'L', 'O', 'C', 'K', 'A', 'O', 'F', 1, 0, 0, 0)
	rec := make([]byte, 64)
	rec[0], rec[1] = 62, 0
	for i := 2; i < 64; i++ {
		rec[i] = byte(i)
	}
	b = append(b, rec...)
	torn := make([]byte, 30) // a record cut after 30 bytes
	torn[0], torn[1] = 62, 0
	b = append(b, torn...)
	if err := os.WriteFile(name, b, 0o644); err != nil {
		t.Fatal(err)
	}
	aof := NewAof()
	f := NewAofFile(aof, name, os.O_RDONLY, 4096)
	if err := f.Open(); err != nil {
		t.Fatal(err)
	}
	defer f.Close()
	lock := NewAofLock()
	if err := f.ReadLock(lock); err != nil {
		t.Fatalf("complete record: %v", err)
	}
	if err := f.ReadLock(lock); err == nil {
		t.Fatalf("FINDING REPRODUCED: ReadLock reports success for a record torn after 30 of 64 bytes (bytes 30..63 are left over from the previous record)")
	}
}
