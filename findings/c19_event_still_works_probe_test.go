package server

import (
	"testing"
	"time"

	"github.com/snower/slock/client"
)

// sanity after the doLock change: the event primitives still work in both modes
func TestProbeC19EventStillWorks(t *testing.T) {
	port := refDefectC19StartServer(t)
	a := client.NewClient("127.0.0.1", port)
	b := client.NewClient("127.0.0.1", port)
	if err := a.Open(); err != nil {
		t.Fatal(err)
	}
	defer a.Close()
	if err := b.Open(); err != nil {
		t.Fatal(err)
	}
	defer b.Close()
	for mode, defaultSet := range []bool{false, true} {
		key := [16]byte{}
		copy(key[:], "probeC19-still")
		key[15] = byte(mode)
		setter := a.Event(key, 5, 30, defaultSet)
		waiter := b.Event(key, 5, 30, defaultSet)
		if defaultSet {
			if _, err := setter.Clear(); err != nil {
				t.Fatalf("mode %d clear: %v", mode, err)
			}
		}
		// clear: wait times out
		if _, err := waiter.Wait(1); err != client.WaitTimeout {
			t.Fatalf("mode %d: wait on a clear event: %v", mode, err)
		}
		// a queued wait is woken by Set
		done := make(chan error, 1)
		go func() { _, err := waiter.Wait(5); done <- err }()
		time.Sleep(300 * time.Millisecond)
		if _, err := setter.Set(); err != nil {
			t.Fatalf("mode %d set: %v", mode, err)
		}
		select {
		case err := <-done:
			if err != nil {
				t.Fatalf("mode %d: queued wait after Set: %v", mode, err)
			}
		case <-time.After(3 * time.Second):
			t.Fatalf("mode %d: queued wait not woken by Set", mode)
		}
		// set: wait succeeds at once; IsSet true
		if _, err := waiter.Wait(1); err != nil {
			t.Fatalf("mode %d: wait on a set event: %v", mode, err)
		}
		if ok, err := waiter.IsSet(); err != nil || !ok {
			t.Fatalf("mode %d: IsSet after Set: %v %v", mode, ok, err)
		}
		if _, err := setter.Clear(); err != nil {
			t.Fatalf("mode %d clear: %v", mode, err)
		}
		if ok, err := waiter.IsSet(); err != nil || ok {
			t.Fatalf("mode %d: IsSet after Clear: %v %v", mode, ok, err)
		}
		if _, err := waiter.Wait(1); err != client.WaitTimeout {
			t.Fatalf("mode %d: wait after Clear: %v", mode, err)
		}
	}
}
