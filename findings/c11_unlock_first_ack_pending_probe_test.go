package server

// REFERENCE DEFECT (fails on the unmodified tree) -- property C03
// "exactly one terminal reply per request, bearing its own RequestId, to the right client".
//
// Goes in package server (server/C03_unlock_first_of_ack_pending_hold_recycles_command_test.go).
// Run:  go test -vet=off -count=1 -run TestRefDefectC03UnlockFirstOfAckPendingHold ./server/
// (the in-package LockDB writes append.aof.* files into server/; delete them afterwards)
//
// History (all flags are in the core subset: require-ack 0x1000 timeout flag, unlock-first 0x01 unlock flag):
//   1. connection A: LOCK key K, LockId 7, Timeout 3, TimeoutFlag=REQUIRE_ACKED, Expried 10.
//      The engine adds the hold (ackCount=0, "ack pending"), pushes it to the AOF channel and returns WITHOUT
//      replying; the terminal reply of this request is to be produced later by the ack handler (DoAckLock).
//   2. connection B: UNLOCK key K, some other LockId, Flag=UNLOCK_FIRST_LOCK_WHEN_UNLOCKED.
//      LockDB.UnLock only tests `currentLock.ackCount != 0xff` (-> RESULT_LOCK_ACK_WAITING) when the LockId matched;
//      on the unlock-first path it takes lockManager.currentLock unchecked, removes A's ack-pending hold, answers B
//      with SUCCED and executes serverProtocol.FreeLockCommand(currentLockCommand): A's *LockCommand* (the object that
//      carries A's RequestId and that lock.command still points to) is put into B's per-connection free list.
//   3. connection B decodes its next two (pipelined) requests exactly as BinaryServerProtocol.ProcessParse does: it
//      pops command objects from its free list (LIFO: first its own unlock object, then A's object) and overwrites
//      RequestId/LockKey/LockId with the new requests (LOCKs of other keys, "req3" and "req4"), both answered SUCCED
//      at once. A's object now carries RequestId "req4".
//   4. the AOF channel goroutine now handles the queued lock / unlock records; ReplicationAckDB calls
//      DoAckLock(lock, false); lock.locked==0 so DoAckLock sends the terminal reply of A's request as
//      ProcessLockResultCommandLocked(lock.command, RESULT_LOCKED_ERROR, ...) -- but lock.command is the recycled
//      object, so connection A receives a LOCKED_ERROR frame carrying RequestId "req4" (and key/lock id of B's
//      request), a RequestId connection A never sent; A's own request "req1" never gets any terminal reply, and
//      "req4" has now been answered twice (once to B, once to A).
//
// Step 3 races with step 4 only in the sense that B's next frame must be parsed before the AOF goroutine gets to the
// records (a pipelined client does this within microseconds; the AOF side needs a goroutine wake-up and file work).

import (
	"fmt"
	"sync"
	"testing"
	"time"

	"github.com/jessevdk/go-flags"
	"github.com/snower/slock/protocol"
)

type refDefectC03Reply struct {
	conn      string
	requestId [16]byte
	result    uint8
}

func TestRefDefectC03UnlockFirstOfAckPendingHold(t *testing.T) {
	serverConfig := &ServerConfig{}
	parse := flags.NewParser(serverConfig, flags.Default)
	if _, err := parse.ParseArgs([]string{}); err != nil {
		t.Fatalf("config parse fail %v", err)
	}
	logger, _ := InitLogger(serverConfig)
	slock := NewSLock(serverConfig, logger)
	slock.state = STATE_LEADER
	db := NewLockDB(slock, 0)
	slock.dbs[0] = db
	defer func() { db.status = STATE_CLOSE }()

	var mu sync.Mutex
	replies := make([]refDefectC03Reply, 0)
	sent := make(map[[16]byte]string)
	callback := func(name string) MemWaiterServerProtocolResultCallback {
		return func(_ *MemWaiterServerProtocol, command *protocol.LockCommand, result uint8, _ uint16, _ uint8, _ []byte) error {
			mu.Lock()
			replies = append(replies, refDefectC03Reply{name, command.RequestId, result})
			mu.Unlock()
			return nil
		}
	}
	connA := NewMemWaiterServerProtocol(slock)
	_ = connA.SetResultCallback(callback("A"))
	connB := NewMemWaiterServerProtocol(slock)
	_ = connB.SetResultCallback(callback("B"))

	fill := func(conn string, command *protocol.LockCommand, commandType uint8, requestTag byte, key byte, lockId byte) *protocol.LockCommand {
		command.Magic, command.Version, command.CommandType = protocol.MAGIC, protocol.VERSION, commandType
		command.RequestId = [16]byte{'r', 'e', 'q', requestTag}
		command.Flag, command.DbId = 0, 0
		command.LockKey = [16]byte{'k', 'e', 'y', key}
		command.LockId = [16]byte{'l', 'i', 'd', lockId}
		command.Timeout, command.TimeoutFlag, command.Expried, command.ExpriedFlag, command.Count, command.Rcount = 0, 0, 0, 0, 0, 0
		mu.Lock()
		sent[command.RequestId] = conn
		mu.Unlock()
		return command
	}

	// 1. A: LOCK K require-ack
	lockA := fill("A", connA.GetLockCommand(), protocol.COMMAND_LOCK, '1', 'K', 7)
	lockA.Timeout, lockA.TimeoutFlag, lockA.Expried = 3, protocol.TIMEOUT_FLAG_REQUIRE_ACKED, 10
	if err := db.Lock(connA, lockA, 0); err != nil {
		t.Fatal(err)
	}
	// 2. B: UNLOCK K unlock-first
	unlockB := fill("B", connB.GetLockCommand(), protocol.COMMAND_UNLOCK, '2', 'K', 9)
	unlockB.Flag = protocol.UNLOCK_FLAG_UNLOCK_FIRST_LOCK_WHEN_UNLOCKED
	if err := db.UnLock(connB, unlockB, 0); err != nil {
		t.Fatal(err)
	}
	// 3. B: next two (pipelined) requests, decoded into command objects from B's free list like ProcessParse does.
	//    UnLock freed A's object first and B's own unlock object second, so the free list (LIFO) hands out B's own
	//    object for the first request and A's object for the second one.
	lockB := fill("B", connB.GetLockCommand(), protocol.COMMAND_LOCK, '3', 'Q', 5)
	lockB.Expried, lockB.ExpriedFlag = 30, protocol.EXPRIED_FLAG_UNLIMITED_AOF_TIME
	if err := db.Lock(connB, lockB, 0); err != nil {
		t.Fatal(err)
	}
	lockB2 := fill("B", connB.GetLockCommand(), protocol.COMMAND_LOCK, '4', 'R', 6)
	lockB2.Expried, lockB2.ExpriedFlag = 30, protocol.EXPRIED_FLAG_UNLIMITED_AOF_TIME
	if err := db.Lock(connB, lockB2, 0); err != nil {
		t.Fatal(err)
	}

	// 4. let the AOF channel / ack handler and A's wait-timeout sweeper run
	time.Sleep(6 * time.Second)

	mu.Lock()
	defer mu.Unlock()
	desc := ""
	perRequest := make(map[[16]byte]int)
	for _, reply := range replies {
		desc += fmt.Sprintf(" [conn=%s req=%q result=%d]", reply.conn, string(reply.requestId[:4]), reply.result)
		perRequest[reply.requestId]++
		if sender := sent[reply.requestId]; sender != reply.conn {
			t.Errorf("connection %s was handed a reply (result=%d) carrying RequestId %q, which was sent by connection %q",
				reply.conn, reply.result, string(reply.requestId[:4]), sender)
		}
	}
	for requestId, conn := range sent {
		if perRequest[requestId] != 1 {
			t.Errorf("request %q of connection %s drew %d terminal replies, want exactly 1", string(requestId[:4]), conn, perRequest[requestId])
		}
	}
	t.Logf("all replies:%s", desc)
}
