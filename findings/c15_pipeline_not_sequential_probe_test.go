package server

// REFERENCE DEFECT (property C15: key values behave as an atomic register; PIPELINE must leave
// exactly the value a sequential interpreter computes).  Place in server/ (package server).
//
// Input / history (single LockId, one key, no faults, no concurrency):
//   1. LOCK key with value op PIPELINE[ APPEND "a", APPEND "b" ] on a key that has no value.
//      A sequential interpreter leaves "ab"; the server leaves "b".
//   2. UPDATE (LOCK_FLAG_UPDATE_WHEN_LOCKED) with PIPELINE[ SET "x", APPEND "y", APPEND "z" ].
//      A sequential interpreter leaves "xyz"; the server leaves "bz" (the value from before the
//      pipeline with only the LAST sub-operation applied).
//
// What goes wrong: in LockManager.ProcessLockData, case LOCK_DATA_COMMAND_TYPE_PIPELINE, the loop does
//     if command.Data.CommandType != EXECUTE && command.CommandType != LOCK_DATA_COMMAND_TYPE_PIPELINE {
//         self.currentData = currentLockData
//     }
// `command.CommandType` is the LOCK/UNLOCK request type (1 or 2), never 6, so the condition is always
// true for a non-EXECUTE sub-operation and the register is reset to the pre-pipeline value before
// EVERY sub-operation: only the last value sub-operation of a pipeline takes effect.
// (The existing TestLockManager_ProcessLockDataPipeline uses INCR then SET, where the last op
// overwrites anyway, so it cannot notice.)

import (
	"testing"

	"github.com/snower/slock/protocol"
)

func TestRefDefectC15PipelineNotSequential(t *testing.T) {
	testWithLockDB(t, func(db *LockDB) {
		db.slock.dbs[0] = db
		serverProtocol := NewMemWaiterServerProtocol(db.slock)
		var lastResult uint8
		var lastData []byte
		_ = serverProtocol.SetResultCallback(func(_ *MemWaiterServerProtocol, _ *protocol.LockCommand, result uint8, _ uint16, _ uint8, data []byte) error {
			lastResult, lastData = result, nil
			if data != nil {
				lastData = append([]byte{}, data...)
			}
			return nil
		})
		show := func(lockKey [16]byte) string {
			command := protocol.NewLockCommand(0, lockKey, protocol.GenLockId(), 0, 60, 0)
			command.Flag = protocol.LOCK_FLAG_SHOW_WHEN_LOCKED
			_ = db.Lock(serverProtocol, command, 0)
			if lastResult != protocol.RESULT_UNOWN_ERROR {
				t.Fatalf("SHOW result %d", lastResult)
			}
			if lastData == nil {
				return "<nil>"
			}
			return string(lastData[6:])
		}

		lockKey, lockId := protocol.GenLockId(), protocol.GenLockId()
		command := protocol.NewLockCommand(0, lockKey, lockId, 0, 60, 0)
		command.Flag = protocol.LOCK_FLAG_CONTAINS_DATA
		command.Data = protocol.NewLockCommandDataPipelineData([]*protocol.LockCommandData{
			protocol.NewLockCommandDataAppendString("a"),
			protocol.NewLockCommandDataAppendString("b"),
		})
		_ = db.Lock(serverProtocol, command, 0)
		if lastResult != protocol.RESULT_SUCCED {
			t.Fatalf("lock result %d", lastResult)
		}
		if got := show(lockKey); got != "ab" {
			t.Errorf("PIPELINE[APPEND a, APPEND b] on an empty key left %q, a sequential interpreter leaves %q", got, "ab")
		}

		command = protocol.NewLockCommand(0, lockKey, lockId, 0, 60, 0)
		command.Flag = protocol.LOCK_FLAG_UPDATE_WHEN_LOCKED | protocol.LOCK_FLAG_CONTAINS_DATA
		command.Data = protocol.NewLockCommandDataPipelineData([]*protocol.LockCommandData{
			protocol.NewLockCommandDataSetString("x"),
			protocol.NewLockCommandDataAppendString("y"),
			protocol.NewLockCommandDataAppendString("z"),
		})
		_ = db.Lock(serverProtocol, command, 0)
		if lastResult != protocol.RESULT_LOCKED_ERROR {
			t.Fatalf("update result %d", lastResult)
		}
		if got := show(lockKey); got != "xyz" {
			t.Errorf("PIPELINE[SET x, APPEND y, APPEND z] left %q, a sequential interpreter leaves %q", got, "xyz")
		}
	})
}
