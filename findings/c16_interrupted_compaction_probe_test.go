package server

// Reproducer for the known finding C16/R1 (copy into server/ of a scratch copy;
// go test -vet=off -run TestFindingC16InterruptedCompaction ./server/).
// Aof.clearRewriteAofFiles removes the compaction inputs (the old rewrite.aof
// and the retired append files) BEFORE it renames rewrite.aof.tmp into place.
// The test builds the directory image that exists between the removal loop and
// the rename (every file operation up to that point is the real code's own:
// rotation, findRewriteAofFiles, loadRewriteAofFiles; the removals replay the
// function's first loop) and shows that a restart on that image has lost a
// persisted, still-live hold.

import (
	"fmt"
	"os"
	"path/filepath"
	"testing"
	"time"

	"github.com/jessevdk/go-flags"
	"github.com/snower/slock/protocol"
)

func findingC16Instance(t *testing.T, dir string) *SLock {
	serverConfig := &ServerConfig{}
	parse := flags.NewParser(serverConfig, flags.Default)
	if _, err := parse.ParseArgs([]string{}); err != nil {
		t.Fatal(err)
	}
	serverConfig.DataDir = dir
	serverConfig.LogLevel = "ERROR"
	logger, _ := InitLogger(serverConfig)
	s := NewSLock(serverConfig, logger)
	if err := s.initLeader(); err != nil {
		t.Fatalf("init: %v", err)
	}
	return s
}

func findingC16Held(s *SLock, key [16]byte) uint32 {
	db := s.GetDB(0)
	if db == nil {
		return 0
	}
	m := db.GetLockManager(&protocol.LockCommand{LockKey: key})
	if m == nil {
		return 0
	}
	return m.locked
}

func TestFindingC16InterruptedCompaction(t *testing.T) {
	root := t.TempDir()
	dir := filepath.Join(root, "live")
	s := findingC16Instance(t, dir)
	p := NewMemWaiterServerProtocol(s)
	var key [16]byte
	copy(key[:], "c16-key")
	c := &protocol.LockCommand{Command: protocol.Command{Magic: protocol.MAGIC, Version: protocol.VERSION, CommandType: protocol.COMMAND_LOCK}}
	copy(c.RequestId[:], "req-1")
	c.LockKey, c.LockId = key, key
	c.Expried, c.ExpriedFlag = 600, protocol.EXPRIED_FLAG_ZEOR_AOF_TIME
	w := make(chan *protocol.LockResultCommand, 1)
	_ = p.AddWaiter(c, w)
	if err := p.ProcessLockCommand(c); err != nil {
		t.Fatal(err)
	}
	if r := <-w; r.Result != protocol.RESULT_SUCCED {
		t.Fatalf("lock: %d", r.Result)
	}
	time.Sleep(100 * time.Millisecond)
	_ = s.aof.WaitFlushAofChannel()
	s.aof.FlushWithLocked()

	// rotate (no background rewrite), then run the compaction up to the commit
	s.aof.aofGlock.Lock()
	err := s.aof.RewriteAofFile(false)
	s.aof.aofGlock.Unlock()
	if err != nil {
		t.Fatal(err)
	}
	names, err := s.aof.findRewriteAofFiles()
	if err != nil || len(names) == 0 {
		t.Fatalf("no compaction inputs: %v %v", names, err)
	}
	if _, _, err = s.aof.loadRewriteAofFiles(names); err != nil {
		t.Fatalf("loadRewriteAofFiles: %v", err)
	}
	if findingC16Held(s, key) != 1 {
		t.Fatal("hold not live before the crash")
	}
	// crash image: clearRewriteAofFiles interrupted after its removal loop, before os.Rename
	image := filepath.Join(root, "crash")
	_ = os.MkdirAll(image, 0o755)
	entries, _ := os.ReadDir(dir)
	for _, e := range entries {
		b, _ := os.ReadFile(filepath.Join(dir, e.Name()))
		_ = os.WriteFile(filepath.Join(image, e.Name()), b, 0o644)
	}
	for _, n := range names {
		_ = os.Remove(filepath.Join(image, n))
		_ = os.Remove(filepath.Join(image, fmt.Sprintf("%s.%s", n, "dat")))
	}
	s.Close()

	r := findingC16Instance(t, image)
	time.Sleep(200 * time.Millisecond)
	_ = r.aof.WaitFlushAofChannel()
	got := findingC16Held(r, key)
	r.Close()
	if got != 1 {
		t.Fatalf("FINDING REPRODUCED: after a crash between the removal of the compaction inputs and the rename of rewrite.aof.tmp, a restart recovers %d holds on the key (want 1): the persisted hold is lost", got)
	}
}
