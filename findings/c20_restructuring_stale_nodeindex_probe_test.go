package server

import (
	"fmt"
	"testing"
)

// REFERENCE DEFECT (property C20): LockQueue.Restructuring() (and the identical
// copies LockCommandQueue.Restructuring / LockManagerQueue.Restructuring) break
// the queue when allocated nodes exist ABOVE the tail node at the time of the
// call.
//
// History (all public queue operations, unmodified code):
//
//   q := NewLockQueue(1, 5, 2)      node sizes 2,4,8,16,32
//   Push x30                        fills nodes 0..3, tail = (4,0), nodeIndex = 4
//   PopRight x1                     tail = (3,15); node 4 stays allocated (nodeIndex 4)
//   Pop x28                         one element left, at (3,14)
//   Restructuring()                 moves it to (0,0); frees nodes 3 and 2 (everything
//                                   between the new tail+1 and the OLD tail) and does
//                                   nodeIndex-- for each of them -> nodeIndex = 2,
//                                   which is a freed node (node 4 is still allocated but
//                                   no longer counted); queueSize = nodeQueueSizes[2] = 0
//   Push x5                         fills node 0 and node 1; mallocQueue for node 2
//                                   allocates make([]*Lock, 0*2) -> a node of size 0
//   Push                            panics: index out of range [0] with length 0
//
// A plain deque simply holds 7 elements afterwards.  The same root cause
// (nodeIndex decremented once per freed node although the freed nodes are not
// the top-most allocated ones) also makes two Restructuring() calls in a row
// drift nodeIndex below the real top node.
func TestRefDefectC20RestructuringStaleNodeIndex(t *testing.T) {
	run := func() (err error) {
		defer func() {
			if p := recover(); p != nil {
				err = fmt.Errorf("panic: %v", p)
			}
		}()
		q := NewLockQueue(1, 5, 2)
		model := make([]*Lock, 0)
		for i := 0; i < 30; i++ {
			lock := &Lock{}
			_ = q.Push(lock)
			model = append(model, lock)
		}
		if q.PopRight() != model[len(model)-1] {
			return fmt.Errorf("PopRight differs from model")
		}
		model = model[:len(model)-1]
		for i := 0; i < 28; i++ {
			if q.Pop() != model[0] {
				return fmt.Errorf("Pop differs from model")
			}
			model = model[1:]
		}
		_ = q.Restructuring()
		if int(q.Len()) != len(model) || q.Head() != model[0] {
			return fmt.Errorf("after Restructuring: Len %d model %d", q.Len(), len(model))
		}
		for i := 0; i < 6; i++ {
			lock := &Lock{}
			_ = q.Push(lock)
			model = append(model, lock)
			if int(q.Len()) != len(model) {
				return fmt.Errorf("after Restructuring and %d pushes: Len %d model %d", i+1, q.Len(), len(model))
			}
		}
		for len(model) > 0 {
			if q.Pop() != model[0] {
				return fmt.Errorf("Pop after Restructuring differs from model")
			}
			model = model[1:]
		}
		return nil
	}
	if err := run(); err != nil {
		t.Errorf("LockQueue vs deque model: %v", err)
	}
}
