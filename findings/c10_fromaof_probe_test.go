package server

// Reproducer for the known finding C10/R6 (copy into /repo's server/ directory
// of a scratch copy and run `go test -vet=off -run TestFindingC10FromAof ./server/`).
// A request whose Flag carries the client-settable bit 0x04 (FROM_AOF) is
// granted by a database that is not the leader.

import (
	"testing"

	"github.com/jessevdk/go-flags"
	"github.com/snower/slock/protocol"
)

func TestFindingC10FromAof(t *testing.T) {
	serverConfig := &ServerConfig{}
	parse := flags.NewParser(serverConfig, flags.Default)
	if _, err := parse.ParseArgs([]string{}); err != nil {
		t.Fatal(err)
	}
	logger, _ := InitLogger(serverConfig)
	slock := NewSLock(serverConfig, logger)
	slock.state = STATE_FOLLOWER
	db := NewLockDB(slock, 0)
	defer db.Close()
	db.status = STATE_FOLLOWER

	results := map[[16]byte]uint8{}
	sp := NewMemWaiterServerProtocol(slock)
	_ = sp.SetResultCallback(func(_ *MemWaiterServerProtocol, c *protocol.LockCommand, result uint8, _ uint16, _ uint8, _ []byte) error {
		results[c.RequestId] = result
		return nil
	})
	mk := func(id byte, flag uint8) *protocol.LockCommand {
		c := &protocol.LockCommand{}
		c.Magic, c.Version, c.CommandType = protocol.MAGIC, protocol.VERSION, protocol.COMMAND_LOCK
		c.RequestId[0] = id
		c.LockKey[0] = 7
		c.LockId[0] = id
		c.Flag = flag
		c.Timeout, c.Expried = 0, 60
		return c
	}
	a, b := mk(1, 0), mk(2, protocol.LOCK_FLAG_FROM_AOF)
	_ = db.Lock(sp, a, 0)
	_ = db.Lock(sp, b, 0)
	if results[a.RequestId] != protocol.RESULT_STATE_ERROR {
		t.Fatalf("plain request on a follower: result %d, want STATE_ERROR", results[a.RequestId])
	}
	if results[b.RequestId] == protocol.RESULT_SUCCED {
		t.Fatalf("FINDING REPRODUCED: a follower granted a lock to a request with client-settable flag 0x04 (result SUCCED)")
	}
}
