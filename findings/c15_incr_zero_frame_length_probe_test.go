package server

// REFERENCE DEFECT (property C15: key values behave as an atomic register; every reply / SHOW query
// carries the value as a well formed value frame).  Place in server/ (package server).
//
// Input / history (single LockId, one key, no faults, no concurrency):
//   1. LOCK key with SET <8 byte number 5> carrying a property header (property KEY="kk") - this is
//      what every Redis-style text SET/INCR produces, they always attach the KEY property.
//   2. UPDATE with INCR whose operand is SHORTER than 8 bytes (4 byte operand 3, no property header);
//      the binary protocol allows any operand length and GetIncrValue() reads short operands.
//   3. SHOW query.
//
// What goes wrong: LockManager.ProcessLockData, case INCR, branch "operand size != 8 and the stored
// value has a property header" builds the new frame with
//     dataLen := currentLockData.GetValueOffset() + 4
//     data := make([]byte, dataLen+4)
//     data[4], data[5] = ...
// and never writes dataLen into data[0:4].  The stored frame therefore has a 4-byte length header of
// ZERO in front of 17 bytes of content.  The numeric value (8) is right, but the frame is what
// replies, SHOW queries, the AOF and replication carry verbatim: a binary client reads "length 0"
// and then treats the 17 content bytes as the start of the next 64 byte message, i.e. the reply does
// not carry the value and the connection loses framing.  (ProcessRecoverLockData's INCR branch has
// the same omission.)

import (
	"testing"

	"github.com/snower/slock/protocol"
)

func TestRefDefectC15IncrShortOperandZeroFrameLength(t *testing.T) {
	testWithLockDB(t, func(db *LockDB) {
		db.slock.dbs[0] = db
		serverProtocol := NewMemWaiterServerProtocol(db.slock)
		var lastResult uint8
		var lastData []byte
		_ = serverProtocol.SetResultCallback(func(_ *MemWaiterServerProtocol, _ *protocol.LockCommand, result uint8, _ uint16, _ uint8, data []byte) error {
			lastResult, lastData = result, nil
			if data != nil {
				lastData = append([]byte{}, data...)
			}
			return nil
		})

		lockKey, lockId := protocol.GenLockId(), protocol.GenLockId()
		command := protocol.NewLockCommand(0, lockKey, lockId, 0, 60, 0)
		command.Flag = protocol.LOCK_FLAG_CONTAINS_DATA
		command.Data = protocol.NewLockCommandDataSetDataWithProperty([]byte{5, 0, 0, 0, 0, 0, 0, 0},
			[]*protocol.LockCommandDataProperty{protocol.NewLockCommandDataProperty(protocol.LOCK_DATA_PROPERTY_CODE_KEY, []byte("kk"))})
		_ = db.Lock(serverProtocol, command, 0)
		if lastResult != protocol.RESULT_SUCCED {
			t.Fatalf("lock result %d", lastResult)
		}

		command = protocol.NewLockCommand(0, lockKey, lockId, 0, 60, 0)
		command.Flag = protocol.LOCK_FLAG_UPDATE_WHEN_LOCKED | protocol.LOCK_FLAG_CONTAINS_DATA
		command.Data = protocol.NewLockCommandDataFromBytes([]byte{3, 0, 0, 0}, protocol.LOCK_DATA_STAGE_CURRENT,
			protocol.LOCK_DATA_COMMAND_TYPE_INCR, protocol.LOCK_DATA_FLAG_VALUE_TYPE_NUMBER, nil)
		_ = db.Lock(serverProtocol, command, 0)
		if lastResult != protocol.RESULT_LOCKED_ERROR {
			t.Fatalf("update result %d", lastResult)
		}

		show := protocol.NewLockCommand(0, lockKey, protocol.GenLockId(), 0, 60, 0)
		show.Flag = protocol.LOCK_FLAG_SHOW_WHEN_LOCKED
		_ = db.Lock(serverProtocol, show, 0)
		if lastResult != protocol.RESULT_UNOWN_ERROR || lastData == nil {
			t.Fatalf("SHOW result %d data %v", lastResult, lastData)
		}
		frameLen := int(uint32(lastData[0]) | uint32(lastData[1])<<8 | uint32(lastData[2])<<16 | uint32(lastData[3])<<24)
		if frameLen != len(lastData)-4 {
			t.Errorf("SHOW after INCR(4 byte operand) on a value with a property header: value frame announces %d bytes but has %d (frame %v); a wire client cannot read the value 8 out of it",
				frameLen, len(lastData)-4, lastData)
		}
		if value := protocol.NewLockResultCommandDataFromOriginBytes(lastData).GetIncrValue(); value != 8 {
			t.Errorf("value %d, want 8", value)
		}
	})
}
