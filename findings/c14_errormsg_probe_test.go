package protocol

// Reproducer for the (now fixed) defect C14/R5 = C13/R2: result code
// RESULT_LOCK_ACK_WAITING (12) had no entry in ERROR_MSG, so rendering it in the
// text protocol (WriteTextLockAndUnLockCommandResult: ERROR_MSG[Result])
// panicked with "index out of range [12] with length 12" in the connection
// goroutine, which has no recover(). Copy into protocol/ of a scratch copy:
//   go test -vet=off -run TestFindingErrorMsgCoversEveryResult ./protocol/
import "testing"

func TestFindingErrorMsgCoversEveryResult(t *testing.T) {
	defer func() {
		if e := recover(); e != nil {
			t.Fatalf("FINDING REPRODUCED: rendering RESULT_LOCK_ACK_WAITING panics: %v", e)
		}
	}()
	if ERROR_MSG[RESULT_LOCK_ACK_WAITING] == "" {
		t.Fatal("empty rendering")
	}
}
