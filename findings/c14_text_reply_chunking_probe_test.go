package protocol

import (
	"reflect"
	"testing"
)

func probeParseRespChunks(chunks []string) ([]string, int, error) {
	rbuf := make([]byte, 1024)
	parser := NewTextParser(rbuf, make([]byte, 1024))
	for _, c := range chunks {
		n := copy(parser.GetReadBuf(), c)
		parser.BufferUpdate(n)
		if err := parser.ParseResponse(); err != nil {
			return nil, 0, err
		}
	}
	return append([]string{}, parser.GetArgs()...), parser.GetArgsType(), nil
}

func TestProbeTextResponseChunking(t *testing.T) {
	for _, raw := range []string{"+OK\r\n", "-ERR unknown command\r\n", "+PONG\r\n"} {
		want, wt, err := probeParseRespChunks([]string{raw})
		if err != nil {
			t.Fatalf("whole %q: %v", raw, err)
		}
		for i := 1; i < len(raw); i++ {
			got, gt, err := probeParseRespChunks([]string{raw[:i], raw[i:]})
			if err != nil || gt != wt || !reflect.DeepEqual(got, want) {
				t.Errorf("reply %q split at %d: got %q (type %d, err %v), want %q (type %d)", raw, i, got, gt, err, want, wt)
			}
		}
	}
}
