package server

// Reproducer for C13/R3 findings (copy into server/ of a scratch copy;
// go test -vet=off -run TestFindingC13NilValue ./server/): a value operation on
// a key that has no value yet dereferences a nil value frame and panics in the
// connection goroutine (before the fix commits).

import (
	"net"
	"testing"

	"github.com/jessevdk/go-flags"
	"github.com/snower/slock/protocol"
)

func TestFindingC13NilValue(t *testing.T) {
	serverConfig := &ServerConfig{}
	parse := flags.NewParser(serverConfig, flags.Default)
	if _, err := parse.ParseArgs([]string{}); err != nil {
		t.Fatal(err)
	}
	logger, _ := InitLogger(serverConfig)
	slock := NewSLock(serverConfig, logger)
	slock.state = STATE_LEADER
	db := slock.GetOrNewDB(0)

	// (1) binary LOCK carrying an INCR operation with a 1-byte operand on a fresh key
	func() {
		defer func() {
			if e := recover(); e != nil {
				t.Errorf("FINDING REPRODUCED: LOCK with a 1-byte INCR operand on a fresh key crashes: %v", e)
			}
		}()
		sp := NewMemWaiterServerProtocol(slock)
		c := &protocol.LockCommand{}
		c.Magic, c.Version, c.CommandType = protocol.MAGIC, protocol.VERSION, protocol.COMMAND_LOCK
		c.RequestId[0], c.LockKey[0], c.LockId[0] = 1, 0x31, 1
		c.Flag = protocol.LOCK_FLAG_CONTAINS_DATA
		c.Expried = 30
		c.Data = protocol.NewLockCommandDataFromBytes([]byte{5}, protocol.LOCK_DATA_STAGE_CURRENT, protocol.LOCK_DATA_COMMAND_TYPE_INCR, protocol.LOCK_DATA_FLAG_VALUE_TYPE_NUMBER, nil)
		_ = db.Lock(sp, c, 0)
	}()

	// (2) text APPEND on a fresh key
	c1, c2 := net.Pipe()
	go func() {
		buf := make([]byte, 4096)
		for {
			if _, err := c2.Read(buf); err != nil {
				return
			}
		}
	}()
	sp := NewTextServerProtocol(slock, NewStream(c1))
	func() {
		defer func() {
			if e := recover(); e != nil {
				t.Errorf("FINDING REPRODUCED: text 'APPEND k v' on a fresh key crashes: %v", e)
			}
		}()
		_ = sp.ProcessParse([]byte("*3\r\n$6\r\nAPPEND\r\n$9\r\nfreshkey1\r\n$1\r\nv\r\n"))
	}()
	_ = c1.Close()
	_ = c2.Close()
}
