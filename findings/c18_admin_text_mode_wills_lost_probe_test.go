package server

// REFERENCE DEFECT (fails on the unmodified code) - property C18, "when a client connection
// ends for any reason, the commands it registered as WILL are each executed exactly once".
// Goes to: server/C18_admin_text_mode_wills_lost_test.go ; run: go test -vet=off -count=1 -run TestRefDefectC18AdminTextModeWills ./server/
//
// History:
//   a binary connection sends COMMAND_ADMIN; the server answers and switches the same stream to
//   a nested TextServerProtocol (BinaryServerProtocol.ProcessCommad, case COMMAND_ADMIN). In text
//   mode the client registers "LOCK <key> LOCK_ID <id> TIMEOUT 0 EXPRIED 60 WILL 1" and gets +OK.
//   The client closes the connection.
// What goes wrong:
//   when the nested text Process() returns, the ADMIN branch only does
//   serverProtocol.UnInitLockCommand(); serverProtocol.closed = true - it never calls
//   serverProtocol.Close(), so the nested protocol's willCommands queue is never drained
//   (and its session / proxy are never released either). The outer BinaryServerProtocol.Close()
//   has no wills of its own. The acknowledged will is silently lost.

import (
	"io"
	"net"
	"testing"
	"time"

	"github.com/jessevdk/go-flags"
	"github.com/snower/slock/protocol"
)

type refC18adminEnv struct {
	t      *testing.T
	slock  *SLock
	server *Server
	ln     net.Listener
}

func newrefC18adminEnv(t *testing.T) *refC18adminEnv {
	serverConfig := &ServerConfig{}
	parse := flags.NewParser(serverConfig, flags.Default)
	if _, err := parse.ParseArgs([]string{}); err != nil {
		t.Fatalf("config: %v", err)
	}
	logger, _ := InitLogger(serverConfig)
	slock := NewSLock(serverConfig, logger)
	slock.state = STATE_LEADER
	server := NewServer(slock)
	slock.server = server
	ln, err := net.Listen("tcp", "127.0.0.1:0")
	if err != nil {
		t.Fatalf("listen: %v", err)
	}
	go func() {
		for {
			conn, aerr := ln.Accept()
			if aerr != nil {
				return
			}
			stream := NewStream(conn)
			_ = server.addStream(stream)
			go server.handle(stream)
		}
	}()
	return &refC18adminEnv{t, slock, server, ln}
}

func (e *refC18adminEnv) close() {
	_ = e.ln.Close()
	for _, db := range e.slock.dbs {
		if db != nil {
			db.Close()
		}
	}
}

type refC18adminConn struct {
	t    *testing.T
	name string
	c    net.Conn
}

func (e *refC18adminEnv) dial(name string) *refC18adminConn {
	c, err := net.Dial("tcp", e.ln.Addr().String())
	if err != nil {
		e.t.Fatalf("dial: %v", err)
	}
	return &refC18adminConn{e.t, name, c}
}

func refC18adminId(s string) [16]byte {
	var k [16]byte
	copy(k[:], s)
	return k
}

func (p *refC18adminConn) send(cmd protocol.CommandEncode) {
	buf := make([]byte, 64)
	if err := cmd.Encode(buf); err != nil {
		p.t.Fatalf("%s encode: %v", p.name, err)
	}
	if _, err := p.c.Write(buf); err != nil {
		p.t.Fatalf("%s write: %v", p.name, err)
	}
}

func (p *refC18adminConn) readFrame(d time.Duration) []byte {
	buf := make([]byte, 64)
	_ = p.c.SetReadDeadline(time.Now().Add(d))
	if _, err := io.ReadFull(p.c, buf); err != nil {
		return nil
	}
	return buf
}

func (p *refC18adminConn) lockCmd(ctype uint8, key string, lockId string, timeout uint16, expried uint16) *protocol.LockCommand {
	cmd := protocol.NewLockCommand(0, refC18adminId(key), refC18adminId(lockId), timeout, expried, 0)
	cmd.CommandType = ctype
	p.send(cmd)
	return cmd
}

func (p *refC18adminConn) do(ctype uint8, key string, lockId string, timeout uint16, expried uint16) uint8 {
	cmd := p.lockCmd(ctype, key, lockId, timeout, expried)
	f := p.readFrame(2 * time.Second)
	if f == nil {
		p.t.Fatalf("%s: no reply for request %x", p.name, cmd.RequestId)
	}
	var rid [16]byte
	copy(rid[:], f[3:19])
	if rid != cmd.RequestId {
		p.t.Fatalf("%s: reply for request %x, want %x", p.name, rid, cmd.RequestId)
	}
	return f[19]
}

func (p *refC18adminConn) ping() {
	p.send(protocol.NewPingCommand())
	f := p.readFrame(2 * time.Second)
	if f == nil || f[2] != protocol.COMMAND_PING {
		p.t.Fatalf("%s: no ping reply", p.name)
	}
}

func TestRefDefectC18AdminTextModeWills(t *testing.T) {
	e := newrefC18adminEnv(t)
	defer e.close()

	a := e.dial("A")
	a.ping()
	a.send(protocol.NewAdminCommand(0))
	if f := a.readFrame(2 * time.Second); f == nil || f[2] != protocol.COMMAND_ADMIN || f[19] != protocol.RESULT_SUCCED {
		t.Fatalf("A: no admin reply")
	}
	msg := "*10\r\n$4\r\nLOCK\r\n$16\r\nrefadmin-key-001\r\n$7\r\nLOCK_ID\r\n$16\r\nrefadmin-lock-01\r\n$7\r\nTIMEOUT\r\n$1\r\n0\r\n$7\r\nEXPRIED\r\n$2\r\n60\r\n$4\r\nWILL\r\n$1\r\n1\r\n"
	if _, err := a.c.Write([]byte(msg)); err != nil {
		t.Fatalf("write: %v", err)
	}
	buf := make([]byte, 256)
	_ = a.c.SetReadDeadline(time.Now().Add(2 * time.Second))
	n, err := a.c.Read(buf)
	if err != nil || string(buf[:n]) != "+OK\r\n" {
		t.Fatalf("text WILL LOCK not acknowledged: %q %v", string(buf[:n]), err)
	}
	_ = a.c.Close()
	time.Sleep(400 * time.Millisecond)

	b := e.dial("B")
	if r := b.do(protocol.COMMAND_LOCK, "refadmin-key-001", "lock-b", 0, 5); r != protocol.RESULT_TIMEOUT {
		t.Fatalf("the WILL LOCK registered in ADMIN text mode was not executed at disconnect: key can be locked by somebody else (result %d, want %d)", r, protocol.RESULT_TIMEOUT)
	}
}
