package server

import (
	"sync"
	"testing"
	"time"

	"github.com/jessevdk/go-flags"
	"github.com/snower/slock/protocol"
)

// REFERENCE DEFECT candidate for C10 ("only the leader decides").
// Goes in package server (server/C10_demoted_leader_grants_queued_waiter_test.go).
//
// History:
//   1. The node is LEADER. Client A takes key K (Expried 2s, flag
//      EXPRIED_FLAG_UNLIMITED_AOF_TIME so the hold is never written to the AOF /
//      replicated - a legal client option; a normal hold younger than
//      db_lock_aof_time behaves the same).
//   2. Client B sends LOCK K with Timeout 30s -> queued behind A (no reply yet).
//   3. The node is demoted (SLock.updateState(STATE_FOLLOWER), what
//      ReplicationManager.SwitchToFollower / the arbiter do). Queued waiters are
//      NOT flushed by the role change (FlushDB only happens on a full resync).
//   4. A's hold expires on the (now non-leader) node's own clock. doExpried ->
//      wakeUpWaitLocks has no role check: the FOLLOWER grants K to B and sends
//      B RESULT_SUCCED by itself. PushLockAof is a no-op on a non-leader, so the
//      real leader never hears about this grant: B "holds" a lock nobody else
//      knows, while the real leader can grant K to somebody else.
//
// Expected (property C10): a non-leader never grants anything on its own in
// answer to a client; B must be refused (STATE_ERROR / timeout) or not answered.

func TestRefDefectC10DemotedLeaderGrantsQueuedWaiter(t *testing.T) {
	serverConfig := &ServerConfig{}
	parse := flags.NewParser(serverConfig, flags.Default)
	if _, err := parse.ParseArgs([]string{}); err != nil {
		t.Fatalf("parse config fail %v", err)
	}
	serverConfig.DBConcurrent = 2
	logger, _ := InitLogger(serverConfig)
	slock := NewSLock(serverConfig, logger)
	slock.state = STATE_LEADER
	db := slock.GetOrNewDB(0)

	type reply struct {
		requestId [16]byte
		result    uint8
		at        time.Time
	}
	var glock sync.Mutex
	replies := make([]reply, 0)
	client := NewMemWaiterServerProtocol(slock)
	_ = client.SetResultCallback(func(_ *MemWaiterServerProtocol, command *protocol.LockCommand, result uint8, _ uint16, _ uint8, _ []byte) error {
		glock.Lock()
		replies = append(replies, reply{command.RequestId, result, time.Now()})
		glock.Unlock()
		return nil
	})
	find := func(requestId [16]byte) *reply {
		glock.Lock()
		defer glock.Unlock()
		for i := range replies {
			if replies[i].requestId == requestId {
				return &replies[i]
			}
		}
		return nil
	}

	key := [16]byte{'r', 'e', 'f', 'C', '1', '0', 'd', 'e', 'm', 'o', 't', 'e', 0, 0, 0, 1}
	requestA := [16]byte{0xa, 1}
	requestB := [16]byte{0xb, 2}

	commandA := &protocol.LockCommand{Command: protocol.Command{Magic: protocol.MAGIC, Version: protocol.VERSION, CommandType: protocol.COMMAND_LOCK, RequestId: requestA},
		DbId: 0, LockId: [16]byte{0xa}, LockKey: key, Timeout: 0, Expried: 2, ExpriedFlag: protocol.EXPRIED_FLAG_UNLIMITED_AOF_TIME}
	if err := db.Lock(client, commandA, 0); err != nil {
		t.Fatalf("lock A fail %v", err)
	}
	if r := find(requestA); r == nil || r.result != protocol.RESULT_SUCCED {
		t.Fatalf("leader did not grant A: %v", r)
	}

	commandB := &protocol.LockCommand{Command: protocol.Command{Magic: protocol.MAGIC, Version: protocol.VERSION, CommandType: protocol.COMMAND_LOCK, RequestId: requestB},
		DbId: 0, LockId: [16]byte{0xb}, LockKey: key, Timeout: 30, Expried: 30, ExpriedFlag: protocol.EXPRIED_FLAG_UNLIMITED_AOF_TIME}
	if err := db.Lock(client, commandB, 0); err != nil {
		t.Fatalf("lock B fail %v", err)
	}
	if r := find(requestB); r != nil {
		t.Fatalf("B should be queued behind A, got result %d", r.result)
	}

	// role change: this node is no longer the leader
	slock.updateState(STATE_FOLLOWER)
	demotedAt := time.Now()
	if db.status != STATE_FOLLOWER {
		t.Fatalf("db status not updated")
	}

	time.Sleep(5 * time.Second)
	if r := find(requestB); r != nil && r.result == protocol.RESULT_SUCCED {
		t.Fatalf("a non-leader granted the queued request B on its own %.1fs after being demoted (RESULT_SUCCED sent to the client, nothing recorded for the real leader)",
			r.at.Sub(demotedAt).Seconds())
	}
}
