package server

// REFERENCE DEFECT (fails on the UNMODIFIED worktree). Goes into server/ (package server).
// Property C07: a restart restores each persisted hold "keeping its original deadline to
// within one unit of its expiry granularity plus a second, so the outage never renews a hold".
//
// History: a hold with EXPRIED_FLAG_MILLISECOND_TIME, Expried=60000 (60 s) and the
// persist-immediately flag is taken at t0; the server is quiesced and stopped about 5 s later
// and a fresh instance is started on a copy of the data directory.
//
// What goes wrong: for millisecond holds AofChannel.Push/GetAofLockExpriedTime store the FULL
// Expried value (not the remaining life) and GetLockCommandExpriedTime hands the full value
// back on load, so LockManager.AddLock computes deadline = restartTime + 60 + 1: the hold's
// deadline moves forward by the whole age of the hold (here ~5-6 s; up to ~65 s in general).
// Second- and minute-granularity holds are stored as remaining time and do not show this.

import (
	"fmt"
	"io"
	"os"
	"path/filepath"
	"sort"
	"testing"
	"time"

	"github.com/jessevdk/go-flags"
	"github.com/snower/slock/protocol"
)

type refC07msHold struct {
	Key      [16]byte
	LockId   [16]byte
	Depth    uint8
	Count    uint16
	Rcount   uint8
	Deadline int64
	Value    string
}

func refC07msStart(t *testing.T, dir string) *SLock {
	cfg := &ServerConfig{}
	parse := flags.NewParser(cfg, flags.Default)
	if _, err := parse.ParseArgs([]string{}); err != nil {
		t.Fatalf("parse config: %v", err)
	}
	cfg.DataDir = dir
	cfg.LogLevel = "ERROR"
	cfg.DBFastKeyCount = 4096
	logger, _ := InitLogger(cfg)
	s := NewSLock(cfg, logger)
	if err := s.initLeader(); err != nil {
		t.Fatalf("initLeader: %v", err)
	}
	return s
}

func refC07msStop(s *SLock) {
	_ = s.aof.WaitFlushAofChannel()
	s.Close()
}

func refC07msCopyDir(t *testing.T, src string, dst string) {
	entries, err := os.ReadDir(src)
	if err != nil {
		t.Fatalf("readdir: %v", err)
	}
	for _, e := range entries {
		if e.IsDir() {
			continue
		}
		in, err := os.Open(filepath.Join(src, e.Name()))
		if err != nil {
			t.Fatalf("open: %v", err)
		}
		out, err := os.Create(filepath.Join(dst, e.Name()))
		if err != nil {
			t.Fatalf("create: %v", err)
		}
		_, _ = io.Copy(out, in)
		_ = in.Close()
		_ = out.Close()
	}
}

func refC07msSnapshot(s *SLock) []refC07msHold {
	holds := make([]refC07msHold, 0)
	for _, db := range s.dbs {
		if db == nil {
			continue
		}
		managers := make([]*LockManager, 0)
		db.mGlock.RLock()
		for _, m := range db.locks {
			managers = append(managers, m)
		}
		db.mGlock.RUnlock()
		for i := range db.fastLocks {
			if m := db.fastLocks[i].manager; m != nil {
				managers = append(managers, m)
			}
		}
		seen := map[*LockManager]bool{}
		for _, m := range managers {
			if seen[m] {
				continue
			}
			seen[m] = true
			m.glock.LowPriorityLock()
			value := ""
			if m.currentData != nil && m.currentData.GetData() != nil {
				value = string(m.currentData.GetData())
			}
			add := func(l *Lock) {
				if l == nil || l.locked == 0 || l.command == nil {
					return
				}
				holds = append(holds, refC07msHold{m.lockKey, l.command.LockId, l.locked, l.command.Count, l.command.Rcount, l.expriedTime, value})
			}
			add(m.currentLock)
			if m.locks != nil {
				for _, node := range m.locks.IterNodes() {
					for _, l := range node {
						add(l)
					}
				}
			}
			m.glock.LowPriorityUnlock()
		}
	}
	sort.Slice(holds, func(i, j int) bool {
		a, b := holds[i], holds[j]
		if a.Key != b.Key {
			return string(a.Key[:]) < string(b.Key[:])
		}
		return string(a.LockId[:]) < string(b.LockId[:])
	})
	return holds
}

type refC07msClient struct {
	sp     *MemWaiterServerProtocol
	result uint8
	seq    int
}

func refC07msNewClient(s *SLock) *refC07msClient {
	c := &refC07msClient{sp: NewMemWaiterServerProtocol(s)}
	_ = c.sp.SetResultCallback(func(_ *MemWaiterServerProtocol, _ *protocol.LockCommand, result uint8, _ uint16, _ uint8, _ []byte) error {
		c.result = result
		return nil
	})
	return c
}

func refC07msId(prefix string, n int) [16]byte {
	var id [16]byte
	copy(id[:], fmt.Sprintf("%s%08d", prefix, n))
	return id
}

func (c *refC07msClient) do(commandType uint8, flag uint8, key [16]byte, lockId [16]byte, expried uint16, expriedFlag uint16, count uint16, rcount uint8, data *protocol.LockCommandData) uint8 {
	c.seq++
	cmd := &protocol.LockCommand{}
	cmd.Magic, cmd.Version, cmd.CommandType = protocol.MAGIC, protocol.VERSION, commandType
	cmd.RequestId = refC07msId("req", c.seq)
	cmd.Flag, cmd.DbId, cmd.LockKey, cmd.LockId = flag, 0, key, lockId
	cmd.Expried, cmd.ExpriedFlag, cmd.Count, cmd.Rcount = expried, expriedFlag, count, rcount
	if data != nil {
		cmd.Data = data
		cmd.Flag |= protocol.LOCK_FLAG_CONTAINS_DATA
	}
	c.result = 0xee
	_ = c.sp.ProcessLockCommand(cmd)
	return c.result
}

func TestRefDefectC07MillisecondHoldRenewedByRestart(t *testing.T) {
	dir := t.TempDir()
	s1 := refC07msStart(t, dir)
	c := refC07msNewClient(s1)
	if r := c.do(protocol.COMMAND_LOCK, 0, refC07msId("kms", 0), refC07msId("lms", 0), 60000, protocol.EXPRIED_FLAG_MILLISECOND_TIME|protocol.EXPRIED_FLAG_ZEOR_AOF_TIME, 0, 0, nil); r != protocol.RESULT_SUCCED {
		t.Fatalf("lock result %d", r)
	}
	time.Sleep(5 * time.Second)
	_ = s1.aof.WaitFlushAofChannel()
	before := refC07msSnapshot(s1)
	refC07msStop(s1)

	dir2 := t.TempDir()
	refC07msCopyDir(t, dir, dir2)
	s2 := refC07msStart(t, dir2)
	after := refC07msSnapshot(s2)
	refC07msStop(s2)

	if len(before) != 1 || len(after) != 1 {
		t.Fatalf("expected one hold before and after, got %d / %d", len(before), len(after))
	}
	if d := after[0].Deadline - before[0].Deadline; d < -2 || d > 2 {
		t.Errorf("millisecond hold: deadline %d before the restart, %d after it (moved by %d s): the outage renewed the hold", before[0].Deadline, after[0].Deadline, d)
	}
}
