package server

// Reproducer for C13/R12 (copy into server/ of a scratch copy;
// go test -vet=off -run TestFindingC13ShiftLongerThanValue ./server/): a LOCK
// request whose value operation is SHIFT with a length larger than the stored
// value. ProcessLockData clamps the length to the length of the whole stored
// frame (header included) instead of the value, and then slices the stored
// frame with it: slice bounds / index out of range in the connection goroutine.

import (
	"fmt"
	"testing"

	"github.com/jessevdk/go-flags"
	"github.com/snower/slock/protocol"
)

func findingC13ShiftOnce(t *testing.T, length uint32) (msg string) {
	serverConfig := &ServerConfig{}
	parse := flags.NewParser(serverConfig, flags.Default)
	if _, err := parse.ParseArgs([]string{}); err != nil {
		t.Fatal(err)
	}
	logger, _ := InitLogger(serverConfig)
	slock := NewSLock(serverConfig, logger)
	slock.state = STATE_LEADER
	db := slock.GetOrNewDB(0)
	db.status = STATE_LEADER
	sp := NewMemWaiterServerProtocol(slock)
	_ = sp.SetResultCallback(func(_ *MemWaiterServerProtocol, _ *protocol.LockCommand, _ uint8, _ uint16, _ uint8, _ []byte) error { return nil })
	key := [16]byte{'s', 'h', 'i', 'f', 't'}
	send := func(id byte, data *protocol.LockCommandData) {
		command := &protocol.LockCommand{Command: protocol.Command{Magic: protocol.MAGIC, Version: protocol.VERSION, CommandType: protocol.COMMAND_LOCK}}
		command.RequestId = [16]byte{1, id}
		command.LockId = [16]byte{2, id}
		command.LockKey = key
		command.Count = 10
		command.Expried = 60
		command.ExpriedFlag = protocol.EXPRIED_FLAG_UNLIMITED_AOF_TIME
		command.Flag = protocol.LOCK_FLAG_CONTAINS_DATA
		command.Data = data
		_ = sp.ProcessLockCommand(command)
	}
	defer func() {
		if r := recover(); r != nil {
			msg = fmt.Sprint(r) // the shard mutex is still held: this instance is abandoned
		}
	}()
	send(1, protocol.NewLockCommandDataSetString("abcdef"))
	send(2, protocol.NewLockCommandDataShiftData(length))
	return ""
}

func TestFindingC13ShiftLongerThanValue(t *testing.T) {
	for _, length := range []uint32{2, 6, 7, 11, 13, 100000} {
		if msg := findingC13ShiftOnce(t, length); msg != "" {
			t.Errorf("FINDING REPRODUCED: value \"abcdef\" (6 bytes), SHIFT %d: PANIC: %s", length, msg)
		}
	}
}
