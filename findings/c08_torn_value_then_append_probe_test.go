package server

// Reproducer for C08/R10 (copy into server/ of a scratch copy together with
// c08_torn_tail_header_boundary_probe_test.go, whose helpers it uses;
// go test -vet=off -run TestFindingC08TornValueThenAppend ./server/): a crash
// between the two writes of a flush leaves the last record complete and its
// value cut short. The restart treats the short value as the end of the log,
// then appends new values right behind the torn bytes of the value file: the
// values persisted after that restart are read misaligned by the next one.

import (
	"fmt"
	"os"
	"sync/atomic"
	"testing"

	"github.com/snower/slock/protocol"
)

func findingC08LockWithValue(t *testing.T, slock *SLock, i int, value string) {
	sp := NewMemWaiterServerProtocol(slock)
	var ok int64
	_ = sp.SetResultCallback(func(_ *MemWaiterServerProtocol, _ *protocol.LockCommand, result uint8, _ uint16, _ uint8, _ []byte) error {
		if result == protocol.RESULT_SUCCED {
			atomic.AddInt64(&ok, 1)
		}
		return nil
	})
	command := &protocol.LockCommand{Command: protocol.Command{Magic: protocol.MAGIC, Version: protocol.VERSION, CommandType: protocol.COMMAND_LOCK}}
	command.RequestId = findingC08Key(fmt.Sprintf("req%08d", i))
	command.LockId = findingC08Key(fmt.Sprintf("lid%08d", i))
	command.LockKey = findingC08Key(fmt.Sprintf("key%08d", i))
	command.ExpriedFlag = protocol.EXPRIED_FLAG_ZEOR_AOF_TIME
	command.Expried = 3600
	command.Flag = protocol.LOCK_FLAG_CONTAINS_DATA
	command.Data = protocol.NewLockCommandDataSetString(value)
	if err := sp.ProcessLockCommand(command); err != nil {
		t.Fatalf("lock %d: %v", i, err)
	}
	if atomic.LoadInt64(&ok) != 1 {
		t.Fatalf("lock %d not granted", i)
	}
}

func findingC08Value(slock *SLock, i int) string {
	db := slock.GetDB(0)
	if db == nil {
		return "<no db>"
	}
	command := &protocol.LockCommand{}
	command.LockKey = findingC08Key(fmt.Sprintf("key%08d", i))
	manager := db.GetLockManager(command)
	if manager == nil {
		return "<no key>"
	}
	manager.glock.Lock()
	defer manager.glock.Unlock()
	if manager.locked == 0 || manager.currentData == nil || manager.currentData.GetData() == nil {
		return "<no value>"
	}
	data := manager.currentData.GetData()
	return string(data[6:])
}

func TestFindingC08TornValueThenAppend(t *testing.T) {
	dir := t.TempDir()
	slock, err := findingC08NewSLock(t, dir)
	if err != nil {
		t.Fatal(err)
	}
	for i := 0; i < 3; i++ {
		findingC08LockWithValue(t, slock, i, fmt.Sprintf("value-%d-abcdefghij", i))
	}
	findingC08Quiesce(slock)
	slock.Close()
	dat := findingC08Newest(t, dir) + ".dat"
	st, err := os.Stat(dat)
	if err != nil {
		t.Fatal(err)
	}
	if err := os.Truncate(dat, st.Size()-7); err != nil { // the last value was cut short by the crash
		t.Fatal(err)
	}
	slock1, err := findingC08NewSLock(t, dir)
	if err != nil {
		t.Fatalf("restart #1 failed: %v", err)
	}
	t.Logf("restart #1 recovered values: %q %q %q", findingC08Value(slock1, 0), findingC08Value(slock1, 1), findingC08Value(slock1, 2))
	findingC08LockWithValue(t, slock1, 10, "persisted-after-restart-1")
	findingC08Quiesce(slock1)
	slock1.Close()
	recovered := ""
	func() {
		defer func() {
			if r := recover(); r != nil {
				recovered = fmt.Sprintf("PANIC %v", r)
			}
		}()
		slock2, err := findingC08NewSLock(t, dir)
		if err != nil {
			recovered = fmt.Sprintf("restart failed: %v", err)
			return
		}
		recovered = findingC08Value(slock2, 10)
		slock2.Close()
	}()
	if recovered != "persisted-after-restart-1" {
		t.Fatalf("FINDING REPRODUCED: value persisted after restart #1 is recovered by restart #2 as %q, want %q", recovered, "persisted-after-restart-1")
	}
}
