package server

// Demonstration for seeded change C09c.
// Place this file at server/zz_seed_C09c_test.go and run (from the repository root):
//   go test -vet=off -count=1 -run 'TestSeedC09c' ./server/
//
// Scenario: a leader persists a handful of holds, is stopped and started again on the same
// data directory (so its in-memory replication ring buffer is empty while its append file is not),
// and then a brand-new follower with an empty directory joins and is caught up by full transfer.
// Once the leader is quiescent the follower must hold exactly the leader's persisted holds and
// its append file must contain exactly the leader's records.

import (
	"bytes"
	"fmt"
	"net"
	"os"
	"path/filepath"
	"sort"
	"sync"
	"testing"
	"time"

	"github.com/hhkbp2/go-logging"
	"github.com/jessevdk/go-flags"
	"github.com/snower/slock/protocol"
)

var probeC09LoggerOnce sync.Once
var probeC09Logger logging.Logger

type probeC09Node struct {
	slock  *SLock
	server *Server
	proto  *MemWaiterServerProtocol
	result chan uint8
	port   uint
	dir    string
}

func probeC09FreePort(t *testing.T) uint {
	l, err := net.Listen("tcp", "127.0.0.1:0")
	if err != nil {
		t.Fatalf("free port: %v", err)
	}
	port := uint(l.Addr().(*net.TCPAddr).Port)
	_ = l.Close()
	return port
}

func probeC09StartNode(t *testing.T, dir string, port uint, slaveOf string) *probeC09Node {
	config := &ServerConfig{}
	parse := flags.NewParser(config, flags.Default)
	if _, err := parse.ParseArgs([]string{}); err != nil {
		t.Fatalf("parse config: %v", err)
	}
	config.Bind = "127.0.0.1"
	config.Port = port
	config.DataDir = dir
	config.SlaveOf = slaveOf
	config.LogLevel = "ERROR"
	if os.Getenv("SEED_C09_DEBUG") != "" {
		config.LogLevel = "INFO"
	}
	probeC09LoggerOnce.Do(func() {
		probeC09Logger, _ = InitLogger(config)
	})

	slock := NewSLock(config, probeC09Logger)
	server := NewServer(slock)
	if err := slock.Init(server); err != nil {
		t.Fatalf("slock init: %v", err)
	}
	if err := server.Listen(); err != nil {
		t.Fatalf("listen: %v", err)
	}
	go func() {
		for {
			conn, err := server.server.Accept()
			if err != nil {
				return
			}
			stream := NewStream(conn)
			if err = server.addStream(stream); err != nil {
				_ = stream.Close()
				continue
			}
			go server.handle(stream)
		}
	}()
	slock.Start()

	node := &probeC09Node{slock: slock, server: server, result: make(chan uint8, 64), port: port, dir: dir}
	node.proto = NewMemWaiterServerProtocol(slock)
	_ = node.proto.SetResultCallback(func(_ *MemWaiterServerProtocol, _ *protocol.LockCommand, result uint8, _ uint16, _ uint8, _ []byte) error {
		node.result <- result
		return nil
	})
	return node
}

func (self *probeC09Node) stop() {
	self.server.Close()
}

func probeC09Key(i int) [16]byte {
	key := [16]byte{}
	copy(key[:], fmt.Sprintf("probeC09-key-%03d", i))
	return key
}

func probeC09Id(i int) [16]byte {
	id := [16]byte{}
	copy(id[:], fmt.Sprintf("probeC09-lid-%03d", i))
	return id
}

func (self *probeC09Node) command(commandType uint8, i int) *protocol.LockCommand {
	command := &protocol.LockCommand{}
	command.Magic, command.Version, command.CommandType = protocol.MAGIC, protocol.VERSION, commandType
	command.RequestId = protocol.GenRequestId()
	command.DbId = 0
	command.LockKey, command.LockId = probeC09Key(i), probeC09Id(i)
	command.Timeout = 0
	command.Expried = 600
	command.ExpriedFlag = protocol.EXPRIED_FLAG_ZEOR_AOF_TIME
	return command
}

func (self *probeC09Node) do(t *testing.T, commandType uint8, i int) {
	if err := self.proto.ProcessLockCommand(self.command(commandType, i)); err != nil {
		t.Fatalf("process command: %v", err)
	}
	select {
	case result := <-self.result:
		if result != protocol.RESULT_SUCCED {
			t.Fatalf("command %d on key %d failed with result %d", commandType, i, result)
		}
	case <-time.After(5 * time.Second):
		t.Fatalf("command %d on key %d got no reply", commandType, i)
	}
}

func (self *probeC09Node) holds(i int) bool {
	db := self.slock.dbs[0]
	if db == nil {
		return false
	}
	return db.HasLock(self.command(protocol.COMMAND_LOCK, i), nil)
}

func (self *probeC09Node) heldKeys(n int) []int {
	keys := make([]int, 0)
	for i := 0; i < n; i++ {
		if self.holds(i) {
			keys = append(keys, i)
		}
	}
	return keys
}

// records returns the 64 byte records of all append files of the node's data directory in file order.
func (self *probeC09Node) records(t *testing.T) [][]byte {
	names, err := filepath.Glob(filepath.Join(self.dir, "append.aof.*"))
	if err != nil {
		t.Fatalf("glob: %v", err)
	}
	files := make([]string, 0)
	for _, name := range names {
		if filepath.Ext(name) != ".dat" {
			files = append(files, name)
		}
	}
	sort.Strings(files)
	// Records are de-duplicated by their aof id (first occurrence wins): on the unmodified code the
	// follower's receive loop and its aof channels occasionally flush the same file buffer twice during
	// the file transfer, which repeats records; this demonstration is about records that are missing.
	seen := make(map[string]bool)
	records := make([][]byte, 0)
	for _, name := range files {
		content, rerr := os.ReadFile(name)
		if rerr != nil {
			t.Fatalf("read %s: %v", name, rerr)
		}
		for off := 12; off+64 <= len(content); off += 64 {
			aofId := string(content[off+3 : off+19])
			if seen[aofId] {
				probeC09Duplicates++
			}
			seen[aofId] = true
			records = append(records, content[off:off+64])
		}
	}
	return records
}

var probeC09Duplicates int

func probeC09WaitFor(timeout time.Duration, cond func() bool) bool {
	deadline := time.Now().Add(timeout)
	for time.Now().Before(deadline) {
		if cond() {
			return true
		}
		time.Sleep(50 * time.Millisecond)
	}
	return cond()
}

func TestProbeC09FollowerTransferIntoLiveAppendFile(t *testing.T) {
	const keyCount = 8
	leaderDir, followerDir := t.TempDir(), t.TempDir()
	leaderPort, followerPort := probeC09FreePort(t), probeC09FreePort(t)

	// phase 1: the leader persists keyCount holds and releases one of them again
	leader := probeC09StartNode(t, leaderDir, leaderPort, "")
	for i := 0; i < keyCount; i++ {
		leader.do(t, protocol.COMMAND_LOCK, i)
	}
	leader.do(t, protocol.COMMAND_UNLOCK, 2)
	_ = leader.slock.aof.WaitFlushAofChannel()
	time.Sleep(300 * time.Millisecond)
	leader.stop()

	// phase 2: the leader comes back on the same directory; nothing is written afterwards
	leader = probeC09StartNode(t, leaderDir, leaderPort, "")
	defer leader.stop()
	probeC09WaitFor(3*time.Second, func() bool { return len(leader.heldKeys(keyCount)) == keyCount-1 })
	leaderHeld := leader.heldKeys(keyCount)
	if len(leaderHeld) != keyCount-1 {
		t.Fatalf("leader restarted with holds %v, expected %d holds", leaderHeld, keyCount-1)
	}
	leaderRecords := leader.records(t)
	if len(leaderRecords) != keyCount+1 {
		t.Fatalf("leader persisted %d records, expected %d", len(leaderRecords), keyCount+1)
	}

	// phase 3: an empty follower joins and is caught up by full transfer
	follower := probeC09StartNode(t, followerDir, followerPort, fmt.Sprintf("127.0.0.1:%d", leaderPort))
	defer follower.stop()
	if !probeC09WaitFor(10*time.Second, func() bool { return follower.slock.state == STATE_FOLLOWER }) {
		t.Fatalf("follower never finished its initial sync")
	}
	probeC09WaitFor(3*time.Second, func() bool {
		return fmt.Sprint(follower.heldKeys(keyCount)) == fmt.Sprint(leaderHeld)
	})
	time.Sleep(500 * time.Millisecond)

	followerHeld := follower.heldKeys(keyCount)
	if fmt.Sprint(followerHeld) != fmt.Sprint(leaderHeld) {
		t.Errorf("follower holds keys %v but the leader's persisted state holds keys %v", followerHeld, leaderHeld)
	}
	follower.slock.aof.FlushWithLocked()
	probeC09Duplicates = 0
	followerRecords := follower.records(t)
	if probeC09Duplicates > 0 {
		t.Errorf("follower append files repeat %d record(s) of the transfer (%d records on disk, leader has %d)", probeC09Duplicates, len(followerRecords), len(leaderRecords))
	}
	if len(followerRecords) != len(leaderRecords) {
		t.Errorf("follower append files contain %d records, leader append files contain %d", len(followerRecords), len(leaderRecords))
	}
	if os.Getenv("SEED_C09_DEBUG") != "" {
		for i, r := range leaderRecords {
			t.Logf("leader %d: type %d off %d idx %d key %s", i, r[2], uint32(r[3])|uint32(r[4])<<8, r[7], string(r[37:53]))
		}
		for i, r := range followerRecords {
			t.Logf("follower %d: type %d off %d idx %d key %s", i, r[2], uint32(r[3])|uint32(r[4])<<8, r[7], string(r[37:53]))
		}
	}
	for i := 0; i < len(followerRecords) && i < len(leaderRecords); i++ {
		if !bytes.Equal(followerRecords[i], leaderRecords[i]) {
			t.Errorf("record %d differs between leader and follower append files", i)
		}
	}

	// phase 4: the live stream continues from there; the follower has to stay identical
	leader.do(t, protocol.COMMAND_LOCK, 2)
	leader.do(t, protocol.COMMAND_UNLOCK, 5)
	leaderHeld = leader.heldKeys(keyCount)
	probeC09WaitFor(3*time.Second, func() bool {
		return fmt.Sprint(follower.heldKeys(keyCount)) == fmt.Sprint(leaderHeld)
	})
	followerHeld = follower.heldKeys(keyCount)
	if fmt.Sprint(followerHeld) != fmt.Sprint(leaderHeld) {
		t.Errorf("after live streaming the follower holds keys %v but the leader holds keys %v", followerHeld, leaderHeld)
	}
}
