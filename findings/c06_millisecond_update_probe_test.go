package server

// Reproducer for C06 (copy into server/ of a scratch copy;
// go test -vet=off -run TestFindingC06MillisecondUpdate ./server/): a hold with a
// millisecond expiry below 3000 ms sits in the millisecond wheel. An update
// (LOCK with the update flag) restarts its period, but the wheel's timer for
// the original deadline still fires and ends the hold: the holder gets EXPRIED
// before E has passed since the update.

import (
	"sync"
	"testing"
	"time"

	"github.com/jessevdk/go-flags"
	"github.com/snower/slock/protocol"
)

func TestFindingC06MillisecondUpdate(t *testing.T) {
	serverConfig := &ServerConfig{}
	parse := flags.NewParser(serverConfig, flags.Default)
	if _, err := parse.ParseArgs([]string{}); err != nil {
		t.Fatal(err)
	}
	logger, _ := InitLogger(serverConfig)
	slock := NewSLock(serverConfig, logger)
	slock.state = STATE_LEADER
	db := slock.GetOrNewDB(0)
	db.status = STATE_LEADER
	sp := NewMemWaiterServerProtocol(slock)
	var mu sync.Mutex
	type reply struct {
		result uint8
		at     time.Time
	}
	var replies []reply
	_ = sp.SetResultCallback(func(_ *MemWaiterServerProtocol, _ *protocol.LockCommand, result uint8, _ uint16, _ uint8, _ []byte) error {
		mu.Lock()
		replies = append(replies, reply{result, time.Now()})
		mu.Unlock()
		return nil
	})
	send := func(id byte, flag uint8) {
		command := &protocol.LockCommand{Command: protocol.Command{Magic: protocol.MAGIC, Version: protocol.VERSION, CommandType: protocol.COMMAND_LOCK}}
		command.RequestId = [16]byte{1, id}
		command.LockId = [16]byte{2, 1}
		command.LockKey = [16]byte{'m', 's'}
		command.Flag = flag
		command.Expried = 1500
		command.ExpriedFlag = protocol.EXPRIED_FLAG_MILLISECOND_TIME | protocol.EXPRIED_FLAG_UNLIMITED_AOF_TIME
		if err := sp.ProcessLockCommand(command); err != nil {
			t.Fatalf("lock: %v", err)
		}
	}
	send(1, 0)
	time.Sleep(1000 * time.Millisecond)
	updatedAt := time.Now()
	send(2, protocol.LOCK_FLAG_UPDATE_WHEN_LOCKED) // restarts the 1500 ms period
	time.Sleep(3500 * time.Millisecond)
	mu.Lock()
	defer mu.Unlock()
	for _, r := range replies {
		t.Logf("reply result=%d", r.result)
	}
	for _, r := range replies {
		if r.result == protocol.RESULT_EXPRIED {
			held := r.at.Sub(updatedAt)
			if held < 1500*time.Millisecond {
				t.Fatalf("FINDING REPRODUCED: hold with a 1500 ms expiry updated at +1000 ms was ended %v after the update (the original deadline), want >= 1.5s", held)
			}
			return
		}
	}
	t.Fatalf("no EXPRIED notice at all")
}
