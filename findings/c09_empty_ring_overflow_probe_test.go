// REFERENCE DEFECT (C09): a follower that full-syncs from a leader whose replication ring is still
// empty is silently skipped ahead when the ring overflows before the leader's sender takes its
// first record.
//
// History / schedule:
//  1. Leader starts (ring empty, e.g. fresh start or just restarted). The ring is small and not
//     allowed to grow (aof_ring_buffer_size == aof_ring_buffer_max_size == 1024 bytes = 16 records);
//     with the default sizes the same thing needs 65536 records in the window instead of 17.
//  2. A follower with an empty data dir sends SYNC. handleInitSync finds the ring empty
//     (Head -> io.EOF), answers with the bound (aofFileIndex, aofFileOffset+1) and leaves the cursor
//     at currentItem == nil, seq == 0xffffffffffffffff.
//  3. The follower's "started" message is delayed on the link (slow follower / slow network; here a
//     TCP relay holds it). Meanwhile clients make the leader persist 200 lock records. They are pushed
//     to the ring with pollCount 0 (the follower is not registered as a poller before "started"), so
//     the full ring simply recycles its tail: only the last 16 records stay in the ring.
//  4. "started" arrives. sendFiles sends only records below the bound of step 2 (none of the 200),
//     then SendProcess calls Pop: for a cursor with seq == 0xffffffffffffffff the continuity check in
//     ReplicationBufferQueue.Pop is waived, it starts at the current tail.
//
// Expected: every record the leader persisted reaches the follower (or the follower is resynchronised
// from scratch). Observed: the follower only gets the last ~16 records; the ~184 before them are in
// neither the file transfer nor the stream, no error is raised, and the follower stays "in sync" with
// most of the leader's locks missing from its DB and log.
//
// Place in server/ (package server) and run:
//
//	go test -vet=off -count=1 -run TestRefDefectC09EmptyRingOverflow ./server/
package server

import (
	"bytes"
	"fmt"
	"net"
	"os"
	"path/filepath"
	"sort"
	"sync"
	"testing"
	"time"

	"github.com/jessevdk/go-flags"
	"github.com/snower/slock/protocol"
)

type seedC09refNode struct {
	slock    *SLock
	server   *Server
	dir      string
	port     int
	listener net.Listener
}

func seedC09refFreePort(t *testing.T) int {
	l, err := net.Listen("tcp", "127.0.0.1:0")
	if err != nil {
		t.Fatalf("listen %v", err)
	}
	port := l.Addr().(*net.TCPAddr).Port
	_ = l.Close()
	return port
}

func seedC09refStartNode(t *testing.T, dir string, slaveOf string, ringSize uint, rewriteSize uint) *seedC09refNode {
	cfg := &ServerConfig{}
	parse := flags.NewParser(cfg, flags.Default)
	if _, err := parse.ParseArgs([]string{}); err != nil {
		t.Fatalf("config %v", err)
	}
	cfg.DataDir = dir
	cfg.Port = uint(seedC09refFreePort(t))
	cfg.SlaveOf = slaveOf
	cfg.LogLevel = "ERROR"
	cfg.DBConcurrent = 2
	cfg.DBFastKeyCount = 4096
	if ringSize != 0 {
		cfg.AofRingBufferSize = ringSize
		cfg.AofRingBufferMaxSize = ringSize
	}
	if rewriteSize != 0 {
		cfg.AofFileRewriteSize = rewriteSize
	}
	logger, _ := InitLogger(cfg)
	slock := NewSLock(cfg, logger)
	server := NewServer(slock)
	if err := server.Listen(); err != nil {
		t.Fatalf("listen %v", err)
	}
	if err := slock.Init(server); err != nil {
		t.Fatalf("init %v", err)
	}
	slock.Start()
	node := &seedC09refNode{slock, server, dir, int(cfg.Port), server.server}
	go func() {
		for {
			conn, err := node.listener.Accept()
			if err != nil {
				return
			}
			stream := NewStream(conn)
			if server.addStream(stream) != nil {
				_ = stream.Close()
				continue
			}
			go server.handle(stream)
		}
	}()
	return node
}

func seedC09refKey(i int) [16]byte {
	k := [16]byte{}
	copy(k[:], fmt.Sprintf("seedkey%09d", i))
	return k
}

var seedC09refReqSeq uint64
var seedC09refReqGlock sync.Mutex

func seedC09refReqId() [16]byte {
	seedC09refReqGlock.Lock()
	seedC09refReqSeq++
	v := seedC09refReqSeq
	seedC09refReqGlock.Unlock()
	r := [16]byte{}
	copy(r[:], fmt.Sprintf("rq%014d", v))
	return r
}

func seedC09refDo(t *testing.T, node *seedC09refNode, proto *MemWaiterServerProtocol, commandType uint8, key [16]byte, lockId [16]byte, data []byte) uint8 {
	return seedC09refDoCount(t, node, proto, commandType, key, lockId, 0, data)
}

func seedC09refDoCount(t *testing.T, node *seedC09refNode, proto *MemWaiterServerProtocol, commandType uint8, key [16]byte, lockId [16]byte, count uint16, data []byte) uint8 {
	cmd := &protocol.LockCommand{Command: protocol.Command{Magic: protocol.MAGIC, Version: protocol.VERSION, CommandType: commandType, RequestId: seedC09refReqId()},
		DbId: 0, LockId: lockId, LockKey: key, Timeout: 0, Expried: 600, Count: count, Rcount: 0}
	if commandType == protocol.COMMAND_LOCK {
		cmd.ExpriedFlag = protocol.EXPRIED_FLAG_ZEOR_AOF_TIME
	}
	if data != nil {
		cmd.Flag |= protocol.LOCK_FLAG_CONTAINS_DATA
		cmd.Data = protocol.NewLockCommandDataSetData(data)
	}
	waiter := make(chan *protocol.LockResultCommand, 1)
	_ = proto.AddWaiter(cmd, waiter)
	if err := proto.ProcessLockCommand(cmd); err != nil {
		t.Fatalf("process %v", err)
	}
	select {
	case r := <-waiter:
		return r.Result
	case <-time.After(5 * time.Second):
		t.Fatalf("command timeout")
	}
	return 0xff
}

// seedC09refReadRecords returns the 64 byte records of all append files of a data dir, keyed by aof id.
func seedC09refReadRecords(t *testing.T, dir string) map[string][]byte {
	records := make(map[string][]byte)
	files, _ := filepath.Glob(filepath.Join(dir, "append.aof.*"))
	sort.Strings(files)
	for _, f := range files {
		if filepath.Ext(f) == ".dat" {
			continue
		}
		b, err := os.ReadFile(f)
		if err != nil {
			t.Fatalf("read %v", err)
		}
		if len(b) < 12 {
			continue
		}
		b = b[12:]
		for len(b) >= 64 {
			rec := b[:64]
			records[fmt.Sprintf("%x", rec[3:19])] = append([]byte{}, rec...)
			b = b[64:]
		}
	}
	return records
}

func seedC09refWaitConverged(t *testing.T, leader *seedC09refNode, follower *seedC09refNode, timeout time.Duration) bool {
	deadline := time.Now().Add(timeout)
	for time.Now().Before(deadline) {
		leader.slock.aof.FlushWithLocked()
		follower.slock.aof.FlushWithLocked()
		lr, fr := seedC09refReadRecords(t, leader.dir), seedC09refReadRecords(t, follower.dir)
		ok := len(lr) > 0
		for id, rec := range lr {
			if frec, exists := fr[id]; !exists || !bytes.Equal(rec, frec) {
				ok = false
				break
			}
		}
		if ok {
			return true
		}
		time.Sleep(100 * time.Millisecond)
	}
	return false
}

func seedC09refLocked(node *seedC09refNode, key [16]byte) int {
	db := node.slock.dbs[0]
	if db == nil {
		return 0
	}
	lm := db.GetLockManager(&protocol.LockCommand{LockKey: key})
	if lm == nil {
		return 0
	}
	return int(lm.locked)
}

func seedC09refValue(node *seedC09refNode, key [16]byte) []byte {
	db := node.slock.dbs[0]
	if db == nil {
		return nil
	}
	lm := db.GetLockManager(&protocol.LockCommand{LockKey: key})
	if lm == nil {
		return nil
	}
	return lm.GetLockData()
}

type seedC09refRelay struct {
	listener   net.Listener
	leaderAddr string
	release    chan struct{}
	held       chan struct{}
}

func seedC09refNewRelay(t *testing.T, leaderAddr string) *seedC09refRelay {
	l, err := net.Listen("tcp", "127.0.0.1:0")
	if err != nil {
		t.Fatalf("listen %v", err)
	}
	relay := &seedC09refRelay{l, leaderAddr, make(chan struct{}), make(chan struct{}, 1)}
	go func() {
		first := true
		for {
			conn, aerr := l.Accept()
			if aerr != nil {
				return
			}
			up, derr := net.Dial("tcp", leaderAddr)
			if derr != nil {
				_ = conn.Close()
				continue
			}
			hold := first
			first = false
			var replied int32
			var glock sync.Mutex
			go func() { // leader -> follower
				buf := make([]byte, 65536)
				for {
					n, rerr := up.Read(buf)
					if n > 0 {
						glock.Lock()
						replied = 1
						glock.Unlock()
						_, _ = conn.Write(buf[:n])
					}
					if rerr != nil {
						_ = conn.Close()
						return
					}
				}
			}()
			go func() { // follower -> leader
				buf := make([]byte, 65536)
				for {
					n, rerr := conn.Read(buf)
					if n > 0 {
						glock.Lock()
						r := replied
						glock.Unlock()
						if hold && r == 1 {
							// first bytes after the leader's SYNC answer: the "started" message
							relay.held <- struct{}{}
							<-relay.release
							hold = false
						}
						_, _ = up.Write(buf[:n])
					}
					if rerr != nil {
						_ = up.Close()
						return
					}
				}
			}()
		}
	}()
	return relay
}

func TestRefDefectC09EmptyRingOverflow(t *testing.T) {
	ldir, _ := os.MkdirTemp("", "seedref_leader")
	fdir, _ := os.MkdirTemp("", "seedref_follower")
	defer os.RemoveAll(ldir)
	defer os.RemoveAll(fdir)
	leader := seedC09refStartNode(t, ldir, "", 1024, 0)
	proto := NewMemWaiterServerProtocol(leader.slock)
	relay := seedC09refNewRelay(t, fmt.Sprintf("127.0.0.1:%d", leader.port))
	follower := seedC09refStartNode(t, fdir, relay.listener.Addr().String(), 1024, 0)

	select {
	case <-relay.held:
	case <-time.After(5 * time.Second):
		t.Fatalf("follower never sent the started message")
	}
	total := 200
	for i := 0; i < total; i++ {
		if r := seedC09refDo(t, leader, proto, protocol.COMMAND_LOCK, seedC09refKey(i), seedC09refKey(i), nil); r != 0 {
			t.Fatalf("lock result %d", r)
		}
	}
	close(relay.release)

	converged := seedC09refWaitConverged(t, leader, follower, 6*time.Second)
	lrecords, frecords := seedC09refReadRecords(t, ldir), seedC09refReadRecords(t, fdir)
	missing := 0
	for id := range lrecords {
		if _, ok := frecords[id]; !ok {
			missing++
		}
	}
	held := 0
	for i := 0; i < total; i++ {
		held += seedC09refLocked(follower, seedC09refKey(i))
	}
	if !converged || missing > 0 || held != total {
		t.Errorf("follower silently skipped ahead: its log lacks %d of the leader's %d records and it holds %d of %d locks", missing, len(lrecords), held, total)
	}
}
