package server

// Reproducer for C13/R13 (copy into server/ of a scratch copy;
// go test -vet=off -run TestFindingC13PropertyHeader ./server/): a binary client
// stores a value whose data flag announces a property header and whose header
// announces more property bytes than the frame carries. The value is stored as
// it is. When any other client then lists keys over the text protocol (KEYS *,
// SCAN), the handler walks the property header of every stored value without
// checking it against the frame's length: index out of range in that
// connection's goroutine - the process ends.

import (
	"fmt"
	"net"
	"testing"
	"time"

	"github.com/jessevdk/go-flags"
	"github.com/snower/slock/protocol"
)

func TestFindingC13PropertyHeader(t *testing.T) {
	serverConfig := &ServerConfig{}
	parse := flags.NewParser(serverConfig, flags.Default)
	if _, err := parse.ParseArgs([]string{}); err != nil {
		t.Fatal(err)
	}
	logger, _ := InitLogger(serverConfig)
	slock := NewSLock(serverConfig, logger)
	slock.state = STATE_LEADER
	db := slock.GetOrNewDB(0)
	db.status = STATE_LEADER

	// client A (binary frame semantics): SET with a lying property header
	sp := NewMemWaiterServerProtocol(slock)
	var setResult uint8 = 0xff
	_ = sp.SetResultCallback(func(_ *MemWaiterServerProtocol, _ *protocol.LockCommand, result uint8, _ uint16, _ uint8, _ []byte) error {
		setResult = result
		return nil
	})
	frame := []byte{8, 0, 0, 0, protocol.LOCK_DATA_COMMAND_TYPE_SET, protocol.LOCK_DATA_FLAG_CONTAINS_PROPERTY,
		200, 0, // property header: 200 bytes of properties follow (they do not)
		protocol.LOCK_DATA_PROPERTY_CODE_KEY + 1, 1, 0, 'x'}
	frame[0] = byte(len(frame) - 4)
	command := &protocol.LockCommand{Command: protocol.Command{Magic: protocol.MAGIC, Version: protocol.VERSION, CommandType: protocol.COMMAND_LOCK}}
	command.RequestId = [16]byte{1}
	command.LockId = [16]byte{2}
	command.LockKey = [16]byte{'p', 'r', 'o', 'p'}
	command.Expried = 60
	command.ExpriedFlag = protocol.EXPRIED_FLAG_UNLIMITED_AOF_TIME
	command.Flag = protocol.LOCK_FLAG_CONTAINS_DATA
	command.Data = protocol.NewLockCommandDataFromOriginBytes(frame)
	func() {
		defer func() {
			if r := recover(); r != nil {
				t.Fatalf("the SET itself panicked: %v", r)
			}
		}()
		if err := sp.ProcessLockCommand(command); err != nil {
			t.Logf("SET refused: %v", err)
		}
	}()
	t.Logf("SET result code %d", setResult)
	if setResult != protocol.RESULT_SUCCED {
		return // the malformed frame was refused at the door: nothing stored, nothing to trip over
	}

	// client B (text protocol): KEYS *
	c1, c2 := net.Pipe()
	go func() {
		buf := make([]byte, 4096)
		for {
			if _, err := c2.Read(buf); err != nil {
				return
			}
		}
	}()
	tp := NewTextServerProtocol(slock, NewStream(c1))
	panicked := make(chan string, 1)
	go func() {
		defer func() {
			if r := recover(); r != nil {
				panicked <- fmt.Sprint(r)
				return
			}
			panicked <- ""
		}()
		_ = tp.ProcessParse([]byte("*2\r\n$4\r\nKEYS\r\n$1\r\n*\r\n"))
	}()
	select {
	case msg := <-panicked:
		if msg != "" {
			t.Fatalf("FINDING REPRODUCED: KEYS * after another client stored a value with a lying property header: PANIC in the connection goroutine: %s", msg)
		}
	case <-time.After(2 * time.Second):
		t.Fatalf("KEYS did not return")
	}
}

func findingC13NewLeader(t *testing.T) (*SLock, *LockDB) {
	serverConfig := &ServerConfig{}
	parse := flags.NewParser(serverConfig, flags.Default)
	if _, err := parse.ParseArgs([]string{}); err != nil {
		t.Fatal(err)
	}
	logger, _ := InitLogger(serverConfig)
	slock := NewSLock(serverConfig, logger)
	slock.state = STATE_LEADER
	db := slock.GetOrNewDB(0)
	db.status = STATE_LEADER
	return slock, db
}

func findingC13Store(t *testing.T, slock *SLock, key string, id byte, frame []byte) uint8 {
	sp := NewMemWaiterServerProtocol(slock)
	var result uint8 = 0xff
	_ = sp.SetResultCallback(func(_ *MemWaiterServerProtocol, _ *protocol.LockCommand, res uint8, _ uint16, _ uint8, _ []byte) error {
		result = res
		return nil
	})
	frame[0] = byte(len(frame) - 4)
	command := &protocol.LockCommand{Command: protocol.Command{Magic: protocol.MAGIC, Version: protocol.VERSION, CommandType: protocol.COMMAND_LOCK}}
	command.RequestId = [16]byte{1, id}
	command.LockId = [16]byte{2, id}
	copy(command.LockKey[16-len(key):], key) // the text protocol right-aligns short keys
	command.Count = 10
	command.Expried = 60
	command.ExpriedFlag = protocol.EXPRIED_FLAG_UNLIMITED_AOF_TIME
	command.Flag = protocol.LOCK_FLAG_CONTAINS_DATA
	command.Data = protocol.NewLockCommandDataFromOriginBytes(frame)
	if err := sp.ProcessLockCommand(command); err != nil {
		t.Logf("store refused: %v", err)
	}
	return result
}

func findingC13Text(t *testing.T, slock *SLock, request string) string {
	c1, c2 := net.Pipe()
	go func() {
		buf := make([]byte, 4096)
		for {
			if _, err := c2.Read(buf); err != nil {
				return
			}
		}
	}()
	defer c2.Close()
	tp := NewTextServerProtocol(slock, NewStream(c1))
	panicked := make(chan string, 1)
	go func() {
		defer func() {
			if r := recover(); r != nil {
				panicked <- fmt.Sprint(r)
				return
			}
			panicked <- ""
		}()
		_ = tp.ProcessParse([]byte(request))
	}()
	select {
	case msg := <-panicked:
		return msg
	case <-time.After(2 * time.Second):
		return "no return"
	}
}

// a stored ARRAY value whose element announces more bytes than the frame has; then a text GET
func TestFindingC13ArrayElementLength(t *testing.T) {
	slock, _ := findingC13NewLeader(t)
	frame := []byte{0, 0, 0, 0, protocol.LOCK_DATA_COMMAND_TYPE_SET, protocol.LOCK_DATA_FLAG_VALUE_TYPE_ARRAY,
		200, 0, 0, 0, 'x', 'y'}
	if res := findingC13Store(t, slock, "arr", 1, frame); res != protocol.RESULT_SUCCED {
		t.Logf("store result %d: refused at the door", res)
		return
	}
	if msg := findingC13Text(t, slock, "*2\r\n$3\r\nGET\r\n$3\r\narr\r\n"); msg != "" {
		t.Fatalf("FINDING REPRODUCED: GET of an ARRAY value whose element announces 200 bytes in a 12-byte frame: PANIC in the connection goroutine: %s", msg)
	}
}

// the same stored ARRAY value, then a LOCK whose value operation is POP
func TestFindingC13PopOnLyingArray(t *testing.T) {
	slock, _ := findingC13NewLeader(t)
	frame := []byte{0, 0, 0, 0, protocol.LOCK_DATA_COMMAND_TYPE_SET, protocol.LOCK_DATA_FLAG_VALUE_TYPE_ARRAY,
		200, 0, 0, 0, 'x', 'y'}
	if res := findingC13Store(t, slock, "arr", 1, frame); res != protocol.RESULT_SUCCED {
		t.Logf("store result %d: refused at the door", res)
		return
	}
	msg := func() (m string) {
		defer func() {
			if r := recover(); r != nil {
				m = fmt.Sprint(r)
			}
		}()
		pop := []byte{0, 0, 0, 0, protocol.LOCK_DATA_COMMAND_TYPE_POP, protocol.LOCK_DATA_FLAG_VALUE_TYPE_NUMBER, 1, 0, 0, 0}
		findingC13Store(t, slock, "arr", 2, pop)
		return ""
	}()
	if msg != "" {
		t.Fatalf("FINDING REPRODUCED: POP on an ARRAY value whose element announces 200 bytes in a 12-byte frame: PANIC under the shard mutex: %s", msg)
	}
}
