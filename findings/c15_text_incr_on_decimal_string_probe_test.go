package server

// REFERENCE DEFECT (property C15, second sentence: the Redis-style text commands SET / GET / INCR /
// INCRBY / APPEND / STRLEN answer like a plain key-value store).  Place in server/ (package server).
//
// History on one text connection, no faults, no concurrency:
//   SET n 10        -> +OK
//   INCRBY n 1      -> a key-value store answers :11, the server answers :12338
//   GET n           -> a key-value store answers "11", the server answers :12338
//   INCR c          -> :1
//   APPEND c x      -> a key-value store answers :2 (value "1x"), the server answers :9
//   GET c           -> a key-value store answers "1x", the server answers :1
//
// What goes wrong: text SET stores the argument as raw bytes ("10" = 0x31 0x30), text INCR sends a
// binary little-endian 8 byte operand and LockManager.ProcessLockData / LockManagerData.GetIncrValue
// read the stored bytes as a little-endian integer (0x3031 = 12337) instead of a decimal string;
// conversely APPEND on a stored number appends raw bytes behind the 8 byte integer and keeps the
// NUMBER type flag, so GET/STRLEN still print the integer and the appended bytes are invisible.
// The numeric and the string representation of the register are never converted into each other.

import (
	"bufio"
	"fmt"
	"io"
	"net"
	"strconv"
	"strings"
	"testing"
	"time"

	"github.com/jessevdk/go-flags"
)

func TestRefDefectC15TextIncrOnDecimalString(t *testing.T) {
	serverConfig := &ServerConfig{}
	parse := flags.NewParser(serverConfig, flags.Default)
	if _, err := parse.ParseArgs([]string{}); err != nil {
		t.Fatalf("config: %v", err)
	}
	logger, _ := InitLogger(serverConfig)
	slock := NewSLock(serverConfig, logger)
	slock.state = STATE_LEADER
	clientConn, serverConn := net.Pipe()
	defer clientConn.Close()
	serverProtocol := NewTextServerProtocol(slock, NewStream(serverConn))
	go func() { _ = serverProtocol.Process() }()
	defer serverConn.Close()
	reader := bufio.NewReader(clientConn)

	call := func(args ...string) string {
		request := fmt.Sprintf("*%d\r\n", len(args))
		for _, arg := range args {
			request += fmt.Sprintf("$%d\r\n%s\r\n", len(arg), arg)
		}
		_ = clientConn.SetDeadline(time.Now().Add(3 * time.Second))
		if _, err := clientConn.Write([]byte(request)); err != nil {
			t.Fatalf("%v: write: %v", args, err)
		}
		line, err := reader.ReadString('\n')
		if err != nil {
			t.Fatalf("%v: read: %v", args, err)
		}
		line = strings.TrimRight(line, "\r\n")
		if line[0] != '$' {
			return line
		}
		n, _ := strconv.Atoi(line[1:])
		if n < 0 {
			return "(nil)"
		}
		buf := make([]byte, n+2)
		if _, err = io.ReadFull(reader, buf); err != nil {
			t.Fatalf("%v: read bulk: %v", args, err)
		}
		return "\"" + string(buf[:n]) + "\""
	}
	expect := func(want []string, args ...string) {
		got := call(args...)
		for _, w := range want {
			if got == w {
				return
			}
		}
		t.Errorf("%s: server answered %s, a plain key-value store answers %s", strings.Join(args, " "), got, strings.Join(want, " or "))
	}

	expect([]string{"+OK"}, "SET", "n", "10")
	expect([]string{":11"}, "INCRBY", "n", "1")
	expect([]string{"\"11\"", ":11"}, "GET", "n")
	expect([]string{":1"}, "INCR", "c")
	expect([]string{":2"}, "APPEND", "c", "x")
	expect([]string{"\"1x\""}, "GET", "c")
}
