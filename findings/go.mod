module slockverif/findings

go 1.23
