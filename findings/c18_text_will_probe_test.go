package server

// Reproducer for C18/R3 (copy into server/ of a scratch copy;
// go test -vet=off -run TestFindingC18TextWill ./server/): a will registered
// over the text protocol ("LOCK key WILL 1") must be executed when the
// connection ends. Before the fix the text handlers queued the command with its
// WILL command type, so Close() only re-registered it and it never ran.

import (
	"net"
	"testing"
	"time"

	"github.com/jessevdk/go-flags"
	"github.com/snower/slock/protocol"
)

func TestFindingC18TextWill(t *testing.T) {
	serverConfig := &ServerConfig{}
	parse := flags.NewParser(serverConfig, flags.Default)
	if _, err := parse.ParseArgs([]string{}); err != nil {
		t.Fatal(err)
	}
	logger, _ := InitLogger(serverConfig)
	slock := NewSLock(serverConfig, logger)
	slock.state = STATE_LEADER
	db := slock.GetOrNewDB(0)
	c1, c2 := net.Pipe()
	go func() {
		buf := make([]byte, 4096)
		for {
			if _, err := c2.Read(buf); err != nil {
				return
			}
		}
	}()
	sp := NewTextServerProtocol(slock, NewStream(c1))
	if err := sp.ProcessParse([]byte("*6\r\n$4\r\nLOCK\r\n$8\r\nwill-key\r\n$7\r\nEXPRIED\r\n$2\r\n60\r\n$4\r\nWILL\r\n$1\r\n1\r\n")); err != nil {
		t.Fatalf("register will: %v", err)
	}
	key := [16]byte{}
	sp.GetCommandConverter().ConvertArgId2LockId("will-key", &key)
	held := func() uint32 {
		m := db.GetLockManager(&protocol.LockCommand{LockKey: key})
		if m == nil {
			return 0
		}
		return m.locked
	}
	if held() != 0 {
		t.Fatal("will executed at registration")
	}
	_ = sp.Close()
	_ = c2.Close()
	time.Sleep(100 * time.Millisecond)
	if held() != 1 {
		t.Fatalf("FINDING REPRODUCED: the will registered over the text protocol was not executed when the connection ended (holds on the key: %d, want 1)", held())
	}
}
