package server

// REFERENCE DEFECT candidate for property C11 (fails on the UNMODIFIED code).
// Place at server/C11_majority_acks_before_leader_flush_test.go and run
//   go test -vet=off -count=1 -run TestRefDefectC11MajorityAcksBeforeLeaderFlush ./server/
//
// Configuration: leader with 2 followers, ack mode "majority" (Config.AofAckMode = 1, no arbiter).
// ReplicationManager.UpdateDBAckCount then computes ackCount = (2+1)/2+1 = 2.
// ReplicationAckDB keeps ONE counter per pending lock that is decremented both by the leader's
// own log flush (ProcessLeaderAofed) and by every follower acknowledgement (ProcessLeaderAcked).
//
// History: an ack-required lock is granted; its record sits in the leader's AofFile write buffer
// (the buffer is flushed only when every AofChannel is idle: Aof.waitLockAofChannel checks
// channelActiveCount == 0 - here another channel is kept busy, as under load on other keys).
// Both followers acknowledge the record before the leader has flushed it.
//
// Expected by C11: SUCCED only after the record has been written to the leader's own log AND
// acknowledged by the configured followers. Actual: the two follower acks bring the counter to 0
// and the requester gets SUCCED while the leader's append file still does not contain the record
// (a leader crash here loses a lock it reported as durable on itself).

import (
	"os"
	"path/filepath"
	"sync"
	"sync/atomic"
	"testing"
	"time"

	"github.com/jessevdk/go-flags"
	"github.com/snower/slock/protocol"
)

func TestRefDefectC11MajorityAcksBeforeLeaderFlush(t *testing.T) {
	dir := t.TempDir()
	cfg := &ServerConfig{}
	parse := flags.NewParser(cfg, flags.Default)
	if _, err := parse.ParseArgs([]string{"--data_dir", dir, "--log_level", "ERROR", "--aof_ack_mode", "1"}); err != nil {
		t.Fatalf("config: %v", err)
	}
	logger, _ := InitLogger(cfg)
	slock := NewSLock(cfg, logger)
	if err := slock.initLeader(); err != nil {
		t.Fatalf("initLeader: %v", err)
	}
	defer slock.Close()
	db := slock.GetOrNewDB(0)

	var mu sync.Mutex
	results := map[[16]byte]uint8{}
	proto := NewMemWaiterServerProtocol(slock)
	_ = proto.SetResultCallback(func(_ *MemWaiterServerProtocol, c *protocol.LockCommand, result uint8, _ uint16, _ uint8, _ []byte) error {
		mu.Lock()
		results[c.RequestId] = result
		mu.Unlock()
		return nil
	})

	// two followers connected, majority mode: let the real code compute the ack count.
	manager := slock.replicationManager
	ackDb := manager.GetOrNewAckDB(0)
	manager.serverChannels = append(manager.serverChannels, &ReplicationServer{}, &ReplicationServer{})
	manager.UpdateDBAckCount()
	manager.serverChannels = manager.serverChannels[:0] // the dummies must not be woken up
	if ackDb.ackCount != 2 {
		t.Fatalf("unexpected ack count %d", ackDb.ackCount)
	}

	// another AofChannel is busy: the leader's buffered record is not flushed yet.
	atomic.AddUint32(&slock.aof.channelActiveCount, 1)
	released := false
	release := func() {
		if !released {
			released = true
			atomic.AddUint32(&slock.aof.channelActiveCount, 0xffffffff)
		}
	}
	defer release()

	var key, lockId [16]byte
	for i := range key {
		key[i], lockId[i] = 0x6d, 0x01
	}
	c := &protocol.LockCommand{}
	c.CommandType = protocol.COMMAND_LOCK
	c.RequestId = protocol.GenRequestId()
	c.LockKey, c.LockId = key, lockId
	c.Timeout, c.TimeoutFlag, c.Expried = 10, protocol.TIMEOUT_FLAG_REQUIRE_ACKED, 60
	req := c.RequestId
	_ = db.Lock(proto, c, 0)

	// wait until the record is registered as pending on the leader and fetch its log id.
	var aofId [16]byte
	found := false
	for i := 0; i < 200 && !found; i++ {
		for g := range ackDb.commandAofs {
			ackDb.ackGlocks[g].Lock()
			if id, ok := ackDb.commandAofs[g][req]; ok {
				aofId, found = id, true
			}
			ackDb.ackGlocks[g].Unlock()
		}
		if !found {
			time.Sleep(5 * time.Millisecond)
		}
	}
	if !found {
		t.Fatalf("ack lock never registered")
	}

	logSize := func() int64 {
		var total int64
		files, _ := filepath.Glob(filepath.Join(dir, "append.aof.*"))
		for _, f := range files {
			if st, err := os.Stat(f); err == nil {
				total += st.Size()
			}
		}
		return total
	}
	sizeBefore := logSize()

	// both followers acknowledge (this is what ReplicationServer does for each ack frame).
	for i := 0; i < 2; i++ {
		ack := protocol.NewLockResultCommand(c, protocol.RESULT_SUCCED, 0, 1, 0, 1, 0, nil)
		ack.RequestId = aofId
		if err := slock.aof.loadLockAck(ack); err != nil {
			t.Fatalf("loadLockAck: %v", err)
		}
	}
	time.Sleep(500 * time.Millisecond)

	mu.Lock()
	result, answered := results[req]
	mu.Unlock()
	if answered && result == protocol.RESULT_SUCCED {
		t.Errorf("SUCCED reported before the record reached the leader's own log: append log size %d (was %d before the lock, record still in the write buffer: windex=%d)",
			logSize(), sizeBefore, slock.aof.aofFile.windex)
	}
	release()
}
