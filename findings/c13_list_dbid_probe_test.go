package server

// Reproducer for C13/R11 (copy into server/ of a scratch copy;
// go test -vet=off -run TestFindingC13ListLockDbId ./server/): the three
// listing calls of the binary protocol (LIST_LOCK, LIST_LOCKED, LIST_WAIT)
// index the 256-entry database table with the 32-bit DbId of the client's
// protobuf request. A DbId >= 256 panics in the connection goroutine, which has
// no recover(): one frame from any client ends the server process.

import (
	"fmt"
	"net"
	"testing"
	"time"

	"github.com/jessevdk/go-flags"
	"github.com/snower/slock/client"
	"github.com/snower/slock/protocol"
	"github.com/snower/slock/protocol/protobuf"
	"google.golang.org/protobuf/proto"
)

func TestFindingC13ListLockDbId(t *testing.T) {
	serverConfig := &ServerConfig{}
	parse := flags.NewParser(serverConfig, flags.Default)
	if _, err := parse.ParseArgs([]string{}); err != nil {
		t.Fatal(err)
	}
	logger, _ := InitLogger(serverConfig)
	slock := NewSLock(serverConfig, logger)
	slock.state = STATE_LEADER
	slock.GetOrNewDB(0)

	for _, tc := range []struct {
		method string
		data   func(uint32) proto.Message
	}{
		{"LIST_LOCK", func(id uint32) proto.Message { return &protobuf.LockDBListLockRequest{DbId: id} }},
		{"LIST_LOCKED", func(id uint32) proto.Message { return &protobuf.LockDBListLockedRequest{DbId: id} }},
		{"LIST_WAIT", func(id uint32) proto.Message { return &protobuf.LockDBListWaitRequest{DbId: id} }},
	} {
		for _, dbId := range []uint32{0, 255, 256, 70000} {
			serverConn, clientConn := net.Pipe()
			serverProtocol := NewBinaryServerProtocol(slock, NewStream(serverConn))
			panicked := make(chan string, 1)
			go func() {
				defer func() {
					if r := recover(); r != nil {
						panicked <- fmt.Sprint(r)
						_ = serverConn.Close()
					}
				}()
				_ = serverProtocol.Process()
			}()
			clientProtocol := client.NewBinaryClientProtocol(client.NewStream(clientConn))
			data, err := proto.Marshal(tc.data(dbId))
			if err != nil {
				t.Fatal(err)
			}
			_ = clientConn.SetDeadline(time.Now().Add(2 * time.Second))
			if err = clientProtocol.Write(protocol.NewCallCommand(tc.method, data)); err != nil {
				t.Errorf("%s DbId=%d: write: %v", tc.method, dbId, err)
			}
			_, rerr := clientProtocol.Read()
			select {
			case msg := <-panicked:
				t.Errorf("FINDING REPRODUCED: CALL %s with DbId=%d: PANIC in the connection goroutine: %s", tc.method, dbId, msg)
			default:
				if rerr != nil {
					t.Errorf("%s DbId=%d: no reply: %v", tc.method, dbId, rerr)
				}
			}
			_ = clientConn.Close()
			_ = serverConn.Close()
		}
	}
}
