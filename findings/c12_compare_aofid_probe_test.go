package server

// Reproducer for C12/R7 (copy into server/ of a scratch copy;
// go test -vet=off -run TestFindingC12CompareAofIdAcrossRotation ./server/):
// the election picks "the newest log position" with ArbiterManager.CompareAofId.
// A log position is (append file index, record offset in that file); rotating
// the append file increments the index and restarts the offset at 0. Before the
// fix the comparator used the offset as the major key, so every position in a
// fresh file compared OLDER than a late position of the previous file: a
// follower that missed the rotation would be preferred over an up-to-date one.

import (
	"testing"
	"time"

	"github.com/jessevdk/go-flags"
	"github.com/snower/slock/protocol"
)

func TestFindingC12CompareAofIdAcrossRotation(t *testing.T) {
	serverConfig := &ServerConfig{}
	parse := flags.NewParser(serverConfig, flags.Default)
	if _, err := parse.ParseArgs([]string{}); err != nil {
		t.Fatal(err)
	}
	serverConfig.DataDir = t.TempDir()
	serverConfig.DBConcurrent = 2
	serverConfig.Log = "-"
	serverConfig.LogLevel = "ERROR"
	logger, _ := InitLogger(serverConfig)
	slock := NewSLock(serverConfig, logger)
	if err := slock.initLeader(); err != nil {
		t.Fatalf("initLeader: %v", err)
	}
	defer slock.Close()
	sp := NewMemWaiterServerProtocol(slock)
	lock := func(i byte) {
		command := &protocol.LockCommand{Command: protocol.Command{Magic: protocol.MAGIC, Version: protocol.VERSION, CommandType: protocol.COMMAND_LOCK}}
		command.RequestId = [16]byte{1, i}
		command.LockId = [16]byte{2, i}
		command.LockKey = [16]byte{3, i}
		command.ExpriedFlag = protocol.EXPRIED_FLAG_ZEOR_AOF_TIME
		command.Expried = 3600
		if err := sp.ProcessLockCommand(command); err != nil {
			t.Fatalf("lock %d: %v", i, err)
		}
	}
	flush := func() {
		_ = slock.aof.WaitFlushAofChannel()
		time.Sleep(50 * time.Millisecond)
		_ = slock.aof.WaitFlushAofChannel()
	}
	for i := byte(0); i < 5; i++ {
		lock(i)
	}
	flush()
	before := slock.aof.GetCurrentAofID()
	slock.aof.aofGlock.Lock()
	err := slock.aof.RewriteAofFile(false)
	slock.aof.aofGlock.Unlock()
	if err != nil {
		t.Fatalf("rotate: %v", err)
	}
	lock(100)
	flush()
	after := slock.aof.GetCurrentAofID()
	a, b := NewAofLock(), NewAofLock()
	a.SetAofId(before)
	b.SetAofId(after)
	t.Logf("position before rotation: file %d record %d; after rotation and one more record: file %d record %d", a.AofIndex, a.AofOffset, b.AofIndex, b.AofOffset)
	if b.AofIndex <= a.AofIndex || b.AofOffset >= a.AofOffset {
		t.Fatalf("harness: expected a later file with a smaller offset")
	}
	manager := &ArbiterManager{}
	if c := manager.CompareAofId(after, before); c <= 0 {
		t.Errorf("CompareAofId(later position, earlier position) = %d, want > 0: the election treats the up-to-date log as older", c)
	}
	if c := manager.CompareAofId(before, after); c >= 0 {
		t.Errorf("CompareAofId(earlier position, later position) = %d, want < 0", c)
	}
}
