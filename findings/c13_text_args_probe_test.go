package server

// Reproducer for C13/R1 findings (copy into server/ of a scratch copy;
// go test -vet=off -run TestFindingC13TextArgs ./server/): text command lines
// with too few arguments index past the argument list and panic in the
// connection goroutine (no recover) - before the fix commits.

import (
	"fmt"
	"net"
	"testing"

	"github.com/jessevdk/go-flags"
)

func respLine(args ...string) []byte {
	s := fmt.Sprintf("*%d\r\n", len(args))
	for _, a := range args {
		s += fmt.Sprintf("$%d\r\n%s\r\n", len(a), a)
	}
	return []byte(s)
}

func TestFindingC13TextArgs(t *testing.T) {
	serverConfig := &ServerConfig{}
	parse := flags.NewParser(serverConfig, flags.Default)
	if _, err := parse.ParseArgs([]string{}); err != nil {
		t.Fatal(err)
	}
	logger, _ := InitLogger(serverConfig)
	slock := NewSLock(serverConfig, logger)
	slock.state = STATE_LEADER
	_ = slock.GetOrNewDB(0)
	for _, line := range [][]string{{"SET", "k", "v", "EX"}, {"SETEX", "k", "10"}, {"SCAN", "0", "MATCH"}} {
		c1, c2 := net.Pipe()
		go func() {
			buf := make([]byte, 4096)
			for {
				if _, err := c2.Read(buf); err != nil {
					return
				}
			}
		}()
		sp := NewTextServerProtocol(slock, NewStream(c1))
		func() {
			defer func() {
				if e := recover(); e != nil {
					t.Errorf("FINDING REPRODUCED: %v crashes the connection goroutine: %v", line, e)
				}
			}()
			_ = sp.ProcessParse(respLine(line...))
		}()
		_ = c1.Close()
		_ = c2.Close()
	}
}
