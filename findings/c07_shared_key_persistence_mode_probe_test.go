package server

// REFERENCE DEFECT (fails on the UNMODIFIED worktree). Goes into server/ (package server).
// Property C07: "Every hold taken with the persist-immediately flag ... counts as persisted;
// holds taken with the never-persist flag are not restored."
//
// History (shared keys, Count=2 so several holders coexist):
//   key S1: holder a taken with EXPRIED_FLAG_UNLIMITED_AOF_TIME (never persist), then
//           holder b taken with EXPRIED_FLAG_ZEOR_AOF_TIME (persist immediately);
//   key S2: holder a taken with EXPRIED_FLAG_ZEOR_AOF_TIME, then holder b taken with
//           EXPRIED_FLAG_UNLIMITED_AOF_TIME.
// Quiesce after 3 s, stop, start a fresh instance on a copy of the data directory.
//
// What goes wrong: LockManager.AddLock only evaluates the persistence flags of the FIRST
// holder of a key (`if self.currentLock == nil {switch ...} else {lock.aofTime =
// self.currentLock.aofTime}`), every later holder silently inherits the first holder's mode.
// So S1/b (persist-immediately) is never written to the log and is lost by the restart, and
// S2/b (never-persist) is written and comes back.

import (
	"fmt"
	"io"
	"os"
	"path/filepath"
	"sort"
	"testing"
	"time"

	"github.com/jessevdk/go-flags"
	"github.com/snower/slock/protocol"
)

type refC07shHold struct {
	Key      [16]byte
	LockId   [16]byte
	Depth    uint8
	Count    uint16
	Rcount   uint8
	Deadline int64
	Value    string
}

func refC07shStart(t *testing.T, dir string) *SLock {
	cfg := &ServerConfig{}
	parse := flags.NewParser(cfg, flags.Default)
	if _, err := parse.ParseArgs([]string{}); err != nil {
		t.Fatalf("parse config: %v", err)
	}
	cfg.DataDir = dir
	cfg.LogLevel = "ERROR"
	cfg.DBFastKeyCount = 4096
	logger, _ := InitLogger(cfg)
	s := NewSLock(cfg, logger)
	if err := s.initLeader(); err != nil {
		t.Fatalf("initLeader: %v", err)
	}
	return s
}

func refC07shStop(s *SLock) {
	_ = s.aof.WaitFlushAofChannel()
	s.Close()
}

func refC07shCopyDir(t *testing.T, src string, dst string) {
	entries, err := os.ReadDir(src)
	if err != nil {
		t.Fatalf("readdir: %v", err)
	}
	for _, e := range entries {
		if e.IsDir() {
			continue
		}
		in, err := os.Open(filepath.Join(src, e.Name()))
		if err != nil {
			t.Fatalf("open: %v", err)
		}
		out, err := os.Create(filepath.Join(dst, e.Name()))
		if err != nil {
			t.Fatalf("create: %v", err)
		}
		_, _ = io.Copy(out, in)
		_ = in.Close()
		_ = out.Close()
	}
}

func refC07shSnapshot(s *SLock) []refC07shHold {
	holds := make([]refC07shHold, 0)
	for _, db := range s.dbs {
		if db == nil {
			continue
		}
		managers := make([]*LockManager, 0)
		db.mGlock.RLock()
		for _, m := range db.locks {
			managers = append(managers, m)
		}
		db.mGlock.RUnlock()
		for i := range db.fastLocks {
			if m := db.fastLocks[i].manager; m != nil {
				managers = append(managers, m)
			}
		}
		seen := map[*LockManager]bool{}
		for _, m := range managers {
			if seen[m] {
				continue
			}
			seen[m] = true
			m.glock.LowPriorityLock()
			value := ""
			if m.currentData != nil && m.currentData.GetData() != nil {
				value = string(m.currentData.GetData())
			}
			add := func(l *Lock) {
				if l == nil || l.locked == 0 || l.command == nil {
					return
				}
				holds = append(holds, refC07shHold{m.lockKey, l.command.LockId, l.locked, l.command.Count, l.command.Rcount, l.expriedTime, value})
			}
			add(m.currentLock)
			if m.locks != nil {
				for _, node := range m.locks.IterNodes() {
					for _, l := range node {
						add(l)
					}
				}
			}
			m.glock.LowPriorityUnlock()
		}
	}
	sort.Slice(holds, func(i, j int) bool {
		a, b := holds[i], holds[j]
		if a.Key != b.Key {
			return string(a.Key[:]) < string(b.Key[:])
		}
		return string(a.LockId[:]) < string(b.LockId[:])
	})
	return holds
}

type refC07shClient struct {
	sp     *MemWaiterServerProtocol
	result uint8
	seq    int
}

func refC07shNewClient(s *SLock) *refC07shClient {
	c := &refC07shClient{sp: NewMemWaiterServerProtocol(s)}
	_ = c.sp.SetResultCallback(func(_ *MemWaiterServerProtocol, _ *protocol.LockCommand, result uint8, _ uint16, _ uint8, _ []byte) error {
		c.result = result
		return nil
	})
	return c
}

func refC07shId(prefix string, n int) [16]byte {
	var id [16]byte
	copy(id[:], fmt.Sprintf("%s%08d", prefix, n))
	return id
}

func (c *refC07shClient) do(commandType uint8, flag uint8, key [16]byte, lockId [16]byte, expried uint16, expriedFlag uint16, count uint16, rcount uint8, data *protocol.LockCommandData) uint8 {
	c.seq++
	cmd := &protocol.LockCommand{}
	cmd.Magic, cmd.Version, cmd.CommandType = protocol.MAGIC, protocol.VERSION, commandType
	cmd.RequestId = refC07shId("req", c.seq)
	cmd.Flag, cmd.DbId, cmd.LockKey, cmd.LockId = flag, 0, key, lockId
	cmd.Expried, cmd.ExpriedFlag, cmd.Count, cmd.Rcount = expried, expriedFlag, count, rcount
	if data != nil {
		cmd.Data = data
		cmd.Flag |= protocol.LOCK_FLAG_CONTAINS_DATA
	}
	c.result = 0xee
	_ = c.sp.ProcessLockCommand(cmd)
	return c.result
}

func TestRefDefectC07SharedKeyHolderInheritsPersistenceMode(t *testing.T) {
	dir := t.TempDir()
	s1 := refC07shStart(t, dir)
	c := refC07shNewClient(s1)
	steps := []struct {
		key, id string
		n       int
		flag    uint16
	}{
		{"ks1", "ls1", 0, protocol.EXPRIED_FLAG_UNLIMITED_AOF_TIME},
		{"ks1", "ls1", 1, protocol.EXPRIED_FLAG_ZEOR_AOF_TIME},
		{"ks2", "ls2", 0, protocol.EXPRIED_FLAG_ZEOR_AOF_TIME},
		{"ks2", "ls2", 1, protocol.EXPRIED_FLAG_UNLIMITED_AOF_TIME},
	}
	for _, st := range steps {
		if r := c.do(protocol.COMMAND_LOCK, 0, refC07shId(st.key, 0), refC07shId(st.id, st.n), 300, st.flag, 2, 0, nil); r != protocol.RESULT_SUCCED {
			t.Fatalf("lock %s/%d result %d", st.key, st.n, r)
		}
	}
	time.Sleep(3 * time.Second)
	_ = s1.aof.WaitFlushAofChannel()
	before := refC07shSnapshot(s1)
	refC07shStop(s1)

	dir2 := t.TempDir()
	refC07shCopyDir(t, dir, dir2)
	s2 := refC07shStart(t, dir2)
	after := refC07shSnapshot(s2)
	refC07shStop(s2)

	if len(before) != 4 {
		t.Fatalf("expected 4 live holds before the restart, got %d", len(before))
	}
	held := map[string]bool{}
	for _, h := range after {
		held[string(h.LockId[:11])] = true
	}
	if !held["ls100000001"] {
		t.Errorf("key S1 holder b was taken with the persist-immediately flag but is not held after the restart")
	}
	if held["ls100000000"] {
		t.Errorf("key S1 holder a was taken with the never-persist flag but is held after the restart")
	}
	if !held["ls200000000"] {
		t.Errorf("key S2 holder a was taken with the persist-immediately flag but is not held after the restart")
	}
	if held["ls200000001"] {
		t.Errorf("key S2 holder b was taken with the never-persist flag but is held again after the restart")
	}
}
