package server

import (
	"sync"
	"testing"
	"time"

	"github.com/snower/slock/protocol"
)

// REFERENCE DEFECT CANDIDATE for C04 (fails on the UNMODIFIED code; place in server/).
//
// "at every quiescent moment no key has a live queued request at the head of its queue
// that could be admitted" does not hold when the HEAD WAITER itself leaves the queue
// (wait timeout, or UNLOCK with cancel_wait) and the request behind it is admissible.
//
// History on one key:
//  1. H holds the key shared, Count=5 (locked=1);
//  2. A asks for it exclusively (Count=0, Timeout=1s): inadmissible, queued at the head;
//  3. B asks for it shared (Count=5, Timeout=60s): B would be admissible (1 <= 5), but
//     the queue is not empty, so it is queued behind A (no overtaking - correct);
//  4a. A's wait times out (doTimeOut, lock.locked==0 branch), or
//  4b. A is cancelled with UNLOCK_FLAG_CANCEL_WAIT_LOCK_WHEN_UNLOCKED (cancelWaitLock,
//      lockLocked==0 branch).
//
// Both paths only do `if GetWaitLock()==nil { waited=false }` and never run
// wakeUpWaitLocks (it is called only when the leaving lock was a holder), so B - now the
// live head of the queue and admissible - stays queued although nothing blocks it; it
// is only served when some later hold ends, or it times out.

type refC04Recorder struct {
	glock   sync.Mutex
	results map[[16]byte]uint8
}

func (self *refC04Recorder) callback(_ *MemWaiterServerProtocol, command *protocol.LockCommand, result uint8, _ uint16, _ uint8, _ []byte) error {
	self.glock.Lock()
	if command.CommandType == protocol.COMMAND_LOCK {
		self.results[command.LockId] = result
	}
	self.glock.Unlock()
	return nil
}

func (self *refC04Recorder) get(lockId [16]byte) (uint8, bool) {
	self.glock.Lock()
	defer self.glock.Unlock()
	result, ok := self.results[lockId]
	return result, ok
}

func refC04Command(commandType uint8, name byte, lockKey [16]byte, flag uint8, timeout uint16, count uint16) *protocol.LockCommand {
	command := &protocol.LockCommand{}
	command.Magic = protocol.MAGIC
	command.Version = protocol.VERSION
	command.CommandType = commandType
	command.RequestId = protocol.GenRequestId()
	command.Flag = flag
	command.LockId = [16]byte{'l', 'o', 'c', 'k', name}
	command.LockKey = lockKey
	command.Timeout = timeout
	command.Expried = 60
	command.Count = count
	return command
}

func refC04Run(t *testing.T, lockKey [16]byte, removeHead func(serverProtocol *MemWaiterServerProtocol, recorder *refC04Recorder)) {
	testWithLockDB(t, func(db *LockDB) {
		db.slock.dbs[0] = db
		recorder := &refC04Recorder{results: make(map[[16]byte]uint8)}
		serverProtocol := NewMemWaiterServerProtocol(db.slock)
		_ = serverProtocol.SetResultCallback(recorder.callback)

		_ = serverProtocol.ProcessLockCommand(refC04Command(protocol.COMMAND_LOCK, 'H', lockKey, 0, 0, 5))
		if result, ok := recorder.get([16]byte{'l', 'o', 'c', 'k', 'H'}); !ok || result != protocol.RESULT_SUCCED {
			t.Fatalf("H must be granted")
		}
		_ = serverProtocol.ProcessLockCommand(refC04Command(protocol.COMMAND_LOCK, 'A', lockKey, 0, 1, 0))
		_ = serverProtocol.ProcessLockCommand(refC04Command(protocol.COMMAND_LOCK, 'B', lockKey, 0, 60, 5))
		if _, ok := recorder.get([16]byte{'l', 'o', 'c', 'k', 'A'}); ok {
			t.Fatalf("A must be queued")
		}
		if _, ok := recorder.get([16]byte{'l', 'o', 'c', 'k', 'B'}); ok {
			t.Fatalf("B must be queued behind A")
		}

		removeHead(serverProtocol, recorder)
		if _, ok := recorder.get([16]byte{'l', 'o', 'c', 'k', 'A'}); !ok {
			t.Fatalf("A did not leave the queue")
		}
		time.Sleep(200 * time.Millisecond)

		lockManager := db.GetLockManager(refC04Command(protocol.COMMAND_LOCK, 'Q', lockKey, 0, 0, 0))
		if lockManager == nil {
			t.Fatalf("lock manager vanished")
		}
		lockManager.glock.Lock()
		locked := lockManager.locked
		headWaiter := lockManager.GetWaitLock()
		headAdmissible := headWaiter != nil && db.doLock(lockManager, headWaiter)
		lockManager.glock.Unlock()

		result, ok := recorder.get([16]byte{'l', 'o', 'c', 'k', 'B'})
		if !ok {
			t.Errorf("B is the live head of the queue and got no reply (locked=%d, head admissible=%v)", locked, headAdmissible)
		} else if result != protocol.RESULT_SUCCED {
			t.Errorf("B got result %d, want SUCCED", result)
		}
		if headAdmissible {
			t.Errorf("at quiescence the head of the wait queue is live and admissible (locked=%d)", locked)
		}
		_ = serverProtocol.Close()
	})
}

func TestRefDefectC04HeadWaiterTimeoutLeavesAdmissibleHead(t *testing.T) {
	refC04Run(t, [16]byte{'r', 'e', 'f', 'C', '0', '4', 't', 'o'}, func(_ *MemWaiterServerProtocol, recorder *refC04Recorder) {
		deadline := time.Now().Add(6 * time.Second)
		for time.Now().Before(deadline) {
			if _, ok := recorder.get([16]byte{'l', 'o', 'c', 'k', 'A'}); ok {
				return
			}
			time.Sleep(50 * time.Millisecond)
		}
	})
}

func TestRefDefectC04HeadWaiterCancelLeavesAdmissibleHead(t *testing.T) {
	lockKey := [16]byte{'r', 'e', 'f', 'C', '0', '4', 'c', 'a'}
	refC04Run(t, lockKey, func(serverProtocol *MemWaiterServerProtocol, _ *refC04Recorder) {
		_ = serverProtocol.ProcessLockCommand(refC04Command(protocol.COMMAND_UNLOCK, 'A', lockKey, protocol.UNLOCK_FLAG_CANCEL_WAIT_LOCK_WHEN_UNLOCKED, 0, 0))
	})
}
