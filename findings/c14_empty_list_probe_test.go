package protocol

// Reference defect candidate for C14 (place in <repo>/protocol/, run
//   go test -vet=off -count=1 -run TestRefDefectC14EmptyArgList ./protocol/ ).
// FAILS on the unmodified code.
//
// Input: the empty argument list. TextParser.BuildRequest([]string{}) encodes it as
// "*0\r\n". ParseRequest reads the count 0 in stage 1 and then unconditionally moves to
// stage 2 ("expect '$'") instead of finishing the command, so
//   - after the complete encoding has been consumed IsParseFinish() is still false
//     (the parser does not parse its own BuildRequest output back to the original list);
//   - the next, perfectly valid, request on the same connection is rejected with
//     "Command first byte must by $" and the server drops the connection.

import "testing"

func TestRefDefectC14EmptyArgListRoundTrip(t *testing.T) {
	parser := NewTextParser(make([]byte, 1024), make([]byte, 1024))
	data := parser.BuildRequest([]string{})
	data = append(data, parser.BuildRequest([]string{"PING"})...)

	copy(parser.GetReadBuf(), data[:4])
	parser.BufferUpdate(4)
	if err := parser.ParseRequest(); err != nil {
		t.Fatalf("parse %q: %v", data[:4], err)
	}
	if !parser.IsParseFinish() || len(parser.GetArgs()) != 0 {
		t.Errorf("BuildRequest([]) = %q was consumed completely but the parser has not finished a command (finish=%v args=%q)",
			data[:4], parser.IsParseFinish(), parser.GetArgs())
	}
	parser.Reset()

	copy(parser.GetReadBuf(), data[4:])
	parser.BufferUpdate(len(data) - 4)
	if err := parser.ParseRequest(); err != nil {
		t.Errorf("the request following an empty argument list is rejected: %v", err)
	} else if !parser.IsParseFinish() || len(parser.GetArgs()) != 1 || parser.GetArgs()[0] != "PING" {
		t.Errorf("the request following an empty argument list parsed to %q", parser.GetArgs())
	}
}
