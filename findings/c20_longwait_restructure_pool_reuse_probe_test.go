package server

import (
	"fmt"
	"testing"
	"time"

	"github.com/snower/slock/protocol"
)

// REFERENCE DEFECT (property C20, LongWaitLockQueue.Remove + restructuringLongTimeOutQueue;
// restructuringLongExpriedQueue is the same code).
//
// restructuringLongTimeOutQueue frees every node between the new tail+1 and the
// old tail but leaves LockQueue.nodeIndex untouched.  When the restructure
// leaves the queue empty it is handed to the free pool, whose Reset() computes
// queueSize = nodeQueueSizes[nodeIndex] - the size of a node that has just been
// freed, i.e. 0.  The next user of the pooled queue gets a zero-length node as
// soon as it grows past the nodes that survived, and the push after that
// panics (a plain deque would just hold the elements).
//
// History at queue level (holes made with LongWaitLockQueue.Remove, which -
// unlike LockDB.RemoveLongTimeOut - does not restructure early).  NOTE: through
// LockDB.RemoveLongTimeOut the restructure fires as soon as a third of the
// entries (and >= 256) are holes, so the tail never drops by two nodes in one
// restructure and the engine itself does not reach this state; it is a defect
// of the queue + restructure pair under the property's "any operation mix"
// quantifier (holes left by in-place removal before a restructure):
//
//   1800 locks with the same long timeout second are added on glock 0
//        (LONG queue nodes 256,512,1024,2048 -> tail in node 3, nodeIndex 3)
//   all 1800 are removed in place (holes)
//   restructuringLongTimeOutQueue: nothing to move, new tail (0,0); frees nodes
//        3 and 2; queue is empty -> Reset() -> queueSize = nodeQueueSizes[3] = 0 -> pool
//   a later timeout second takes the queue from the pool; its 769th lock
//        (first slot of node 2) lands in a node of size 0 -> panic
func TestRefDefectC20LongWaitRestructurePoolReuse(t *testing.T) {
	testWithLockDB(t, func(db *LockDB) {
		run := func() (err error) {
			defer func() {
				if p := recover(); p != nil {
					err = fmt.Errorf("panic: %v", p)
				}
			}()
			newLock := func(timeoutTime int64) *Lock {
				command := &protocol.LockCommand{DbId: 0}
				lock := NewLock(NewLockManager(db, command, db.managerGlocks[0], 0, db.freeLocks[0], db.states[0]), defaultServerProtocol, command)
				lock.timeoutCheckedCount = TIMEOUT_QUEUE_MAX_WAIT + 1
				lock.timeoutTime = timeoutTime
				return lock
			}

			firstTime := time.Now().Unix() + 200
			locks := make([]*Lock, 0)
			for i := 0; i < 1800; i++ {
				lock := newLock(firstTime)
				db.AddTimeOut(lock)
				locks = append(locks, lock)
			}
			longLocks := db.longTimeoutLocks[0][firstTime]
			if longLocks == nil || longLocks.Len() != 1800 {
				return fmt.Errorf("scenario error")
			}
			for _, lock := range locks {
				longLocks.Remove(lock)
			}
			db.restructuringLongTimeOutQueue(longLocks)
			if _, ok := db.longTimeoutLocks[0][firstTime]; ok {
				return fmt.Errorf("scenario error: emptied queue still registered")
			}

			secondTime := firstTime + 100
			for i := 0; i < 1000; i++ {
				db.AddTimeOut(newLock(secondTime))
				if reused := db.longTimeoutLocks[0][secondTime]; reused != longLocks {
					return fmt.Errorf("scenario error: pooled queue not reused")
				} else if int(reused.Len()) != i+1 {
					return fmt.Errorf("after %d pushes Len()=%d", i+1, reused.Len())
				}
			}
			return nil
		}
		if err := run(); err != nil {
			t.Errorf("pooled LongWaitLockQueue vs deque model: %v", err)
		}
	})
}
