package server

// Reproducers for C08 (copy into server/ of a scratch copy;
// go test -vet=off -run TestFindingC08 ./server/).
//
//   TestFindingC08TornTailThenAppend: the newest append file is cut inside its
//   last record; the restart succeeds and drops the torn record, but then
//   appends new records right behind the torn bytes, so the file is no longer
//   a sequence of 64-byte records: the following restart does not recover what
//   was persisted after the first one.
//   TestFindingC08TornHeader: the newest append file is cut inside its 12-byte
//   header (crash while the file was being created): the restart must succeed.
//   TestFindingC08TornRecordAcrossReadBuffer: the cut leaves 1..11 bytes of a
//   record that straddles the reader's 4096-byte buffer: the restart must
//   succeed (and drop the torn record).

import (
	"fmt"
	"os"
	"path/filepath"
	"sort"
	"strings"
	"sync/atomic"
	"testing"
	"time"

	"github.com/jessevdk/go-flags"
	"github.com/snower/slock/protocol"
)

func findingC08NewSLock(t *testing.T, dataDir string) (*SLock, error) {
	serverConfig := &ServerConfig{}
	parse := flags.NewParser(serverConfig, flags.Default)
	if _, err := parse.ParseArgs([]string{}); err != nil {
		t.Fatalf("parse config: %v", err)
	}
	serverConfig.DataDir = dataDir
	serverConfig.DBConcurrent = 2
	serverConfig.Log = "-"
	serverConfig.LogLevel = "ERROR"
	logger, _ := InitLogger(serverConfig)
	slock := NewSLock(serverConfig, logger)
	return slock, slock.initLeader()
}

func findingC08Key(s string) [16]byte {
	var k [16]byte
	copy(k[:], s)
	return k
}

func findingC08Lock(t *testing.T, slock *SLock, from, n int) {
	sp := NewMemWaiterServerProtocol(slock)
	var ok int64
	_ = sp.SetResultCallback(func(_ *MemWaiterServerProtocol, _ *protocol.LockCommand, result uint8, _ uint16, _ uint8, _ []byte) error {
		if result == protocol.RESULT_SUCCED {
			atomic.AddInt64(&ok, 1)
		}
		return nil
	})
	for i := from; i < from+n; i++ {
		command := &protocol.LockCommand{Command: protocol.Command{Magic: protocol.MAGIC, Version: protocol.VERSION, CommandType: protocol.COMMAND_LOCK}}
		command.RequestId = findingC08Key(fmt.Sprintf("req%08d", i))
		command.LockId = findingC08Key(fmt.Sprintf("lid%08d", i))
		command.LockKey = findingC08Key(fmt.Sprintf("key%08d", i))
		command.ExpriedFlag = protocol.EXPRIED_FLAG_ZEOR_AOF_TIME
		command.Expried = 3600
		if err := sp.ProcessLockCommand(command); err != nil {
			t.Fatalf("lock %d: %v", i, err)
		}
	}
	if int(atomic.LoadInt64(&ok)) != n {
		t.Fatalf("only %d of %d locks succeeded", ok, n)
	}
}

func findingC08Quiesce(slock *SLock) {
	_ = slock.aof.WaitFlushAofChannel()
	time.Sleep(50 * time.Millisecond)
	_ = slock.aof.WaitFlushAofChannel()
	slock.aof.FlushWithLocked()
	for i := 0; i < 5; i++ {
		time.Sleep(20 * time.Millisecond)
		_ = slock.aof.WaitRewriteAofFiles()
	}
}

func findingC08Held(slock *SLock, n int) []int {
	db := slock.GetDB(0)
	var held []int
	if db == nil {
		return held
	}
	for i := 0; i < n; i++ {
		command := &protocol.LockCommand{}
		command.LockKey = findingC08Key(fmt.Sprintf("key%08d", i))
		command.LockId = findingC08Key(fmt.Sprintf("lid%08d", i))
		manager := db.GetLockManager(command)
		if manager == nil {
			continue
		}
		manager.glock.Lock()
		if manager.locked > 0 && manager.GetLockedLock(command) != nil {
			held = append(held, i)
		}
		manager.glock.Unlock()
	}
	return held
}

func findingC08Newest(t *testing.T, dir string) string {
	entries, _ := os.ReadDir(dir)
	var names []string
	for _, e := range entries {
		if strings.HasPrefix(e.Name(), "append.aof.") && !strings.HasSuffix(e.Name(), ".dat") {
			names = append(names, e.Name())
		}
	}
	if len(names) == 0 {
		t.Fatalf("no append file in %s", dir)
	}
	sort.Slice(names, func(i, j int) bool {
		var a, b int
		fmt.Sscanf(names[i], "append.aof.%d", &a)
		fmt.Sscanf(names[j], "append.aof.%d", &b)
		return a < b
	})
	return filepath.Join(dir, names[len(names)-1])
}

// builds a directory whose only append file holds n records, shut down cleanly
func findingC08Build(t *testing.T, n int) string {
	dir := t.TempDir()
	slock, err := findingC08NewSLock(t, dir)
	if err != nil {
		t.Fatalf("first start: %v", err)
	}
	findingC08Lock(t, slock, 0, n)
	findingC08Quiesce(slock)
	slock.Close()
	return dir
}

func TestFindingC08TornTailThenAppend(t *testing.T) {
	n := 6
	dir := findingC08Build(t, n)
	name := findingC08Newest(t, dir)
	st, _ := os.Stat(name)
	if (st.Size()-12)%64 != 0 {
		t.Fatalf("harness: %s has %d bytes", name, st.Size())
	}
	records := int((st.Size() - 12) / 64)
	if err := os.Truncate(name, st.Size()-30); err != nil { // cut inside the last record
		t.Fatal(err)
	}
	slock, err := findingC08NewSLock(t, dir)
	if err != nil {
		t.Fatalf("restart #1 on the torn file failed: %v", err)
	}
	first := findingC08Held(slock, n+1)
	findingC08Lock(t, slock, n, 1) // persisted after the restart
	findingC08Quiesce(slock)
	slock.Close()
	for _, f := range []string{name, findingC08Newest(t, dir)} {
		if st2, err := os.Stat(f); err == nil {
			t.Logf("%s: %d bytes, (size-12) %% 64 = %d", filepath.Base(f), st2.Size(), (st2.Size()-12)%64)
		}
	}
	slock2, err := findingC08NewSLock(t, dir)
	if err != nil {
		t.Fatalf("FINDING REPRODUCED: restart #2 failed: %v (restart #1 recovered %v of %d records and appended one more hold)", err, first, records)
	}
	second := findingC08Held(slock2, n+1)
	slock2.Close()
	want := append(append([]int{}, first...), n)
	if fmt.Sprint(second) != fmt.Sprint(want) {
		t.Fatalf("FINDING REPRODUCED: restart #1 recovered holds %v and then persisted hold %d; restart #2 recovered %v, want %v", first, n, second, want)
	}
}

func TestFindingC08TornHeader(t *testing.T) {
	for _, keep := range []int64{1, 5, 11} {
		dir := findingC08Build(t, 3)
		name := findingC08Newest(t, dir)
		// the crash happened while the next append file was being created
		var idx int
		fmt.Sscanf(filepath.Base(name), "append.aof.%d", &idx)
		next := filepath.Join(dir, fmt.Sprintf("append.aof.%d", idx+1))
		header := []byte{'S', 'L', 'O', 'C', 'K', 'A', 'O', 'F', 1, 0, 0, 0}
		if err := os.WriteFile(next, header[:keep], 0o644); err != nil {
			t.Fatal(err)
		}
		slock, err := findingC08NewSLock(t, dir)
		if err != nil {
			t.Errorf("FINDING REPRODUCED: newest append file cut to %d of its 12 header bytes: restart failed: %v", keep, err)
			continue
		}
		if held := findingC08Held(slock, 3); len(held) != 3 {
			t.Errorf("header cut to %d bytes: recovered %v, want 3 holds", keep, held)
		}
		findingC08Quiesce(slock)
		slock.Close()
	}
}

func TestFindingC08TornRecordAcrossReadBuffer(t *testing.T) {
	n := 70 // record #64 occupies bytes 4044..4107 and straddles the 4096-byte read buffer
	for _, size := range []int64{4097, 4100, 4107} {
		dir := findingC08Build(t, n)
		name := findingC08Newest(t, dir)
		if err := os.Truncate(name, size); err != nil {
			t.Fatal(err)
		}
		slock, err := findingC08NewSLock(t, dir)
		if err != nil {
			t.Errorf("FINDING REPRODUCED: append file cut at byte %d (%d bytes of a record that straddles the read buffer): restart failed: %v", size, size-4096, err)
			continue
		}
		if held := findingC08Held(slock, n); len(held) != 63 {
			t.Errorf("cut at %d: recovered %d holds, want 63", size, len(held))
		}
		findingC08Quiesce(slock)
		slock.Close()
	}
}
