package server

// Reference defect (property C16), found while seeding: fails on the UNMODIFIED code.
// Goes to server/C16_priority_update_dropped_test.go (package server).
//
// History: a hold is taken with TIMEOUT_FLAG_RCOUNT_IS_PRIORITY (rcount = 3 is a
// priority, not a re-entrancy bound) and a 300 s lifetime, then its lifetime is
// extended to 2000 s with LOCK_FLAG_UPDATE_WHEN_LOCKED (no value attached). Both
// records are in the log. Recovering from the append file gives a hold that lives
// ~2000 s. The compaction asks LockDB.HasLock for each record with a LockCommand it
// fills itself (Aof.loadRewriteAofFiles): it copies type, flag, ids, expiry, count
// and rcount but never TimeoutFlag (Aof HandleLoad does translate
// AOF_FLAG_RCOUNT_IS_PRIORITY back). For the update record HasLock ends in
// LockManager.checkLockedCountEqual, which compares the RCOUNT_IS_PRIORITY bit of
// the command (0) with the one of the hold (set): "not equal", the record is
// dropped. Recovering from the compacted files gives the hold its ORIGINAL deadline
// (~300 s): the hold expires 1700 s early after a restart. The same history without
// the priority flag (control key) keeps its deadline.

import (
	"fmt"
	"io"
	"os"
	"path/filepath"
	"sort"
	"strings"
	"testing"
	"time"

	"github.com/jessevdk/go-flags"
	"github.com/snower/slock/protocol"
)

func refC16r2New(t *testing.T, dir string) *SLock {
	cfg := &ServerConfig{}
	parse := flags.NewParser(cfg, flags.Default)
	if _, err := parse.ParseArgs([]string{"--data_dir", dir, "--log_level", "ERROR", "--db_fast_key_count", "65536"}); err != nil {
		t.Fatalf("config: %v", err)
	}
	logger, _ := InitLogger(cfg)
	return NewSLock(cfg, logger)
}

func refC16r2Start(t *testing.T, dir string) *SLock {
	slock := refC16r2New(t, dir)
	if err := slock.initLeader(); err != nil {
		t.Fatalf("initLeader: %v", err)
	}
	_ = slock.aof.WaitRewriteAofFiles()
	return slock
}

func refC16r2Key(s string) [16]byte {
	var k [16]byte
	copy(k[:], s)
	return k
}

func refC16r2Do(t *testing.T, slock *SLock, fill func(c *protocol.LockCommand)) uint8 {
	proto := NewMemWaiterServerProtocol(slock)
	ch := make(chan uint8, 4)
	_ = proto.SetResultCallback(func(_ *MemWaiterServerProtocol, c *protocol.LockCommand, result uint8, lcount uint16, lrcount uint8, data []byte) error {
		ch <- result
		return nil
	})
	c := proto.GetLockCommand()
	c.CommandType = protocol.COMMAND_LOCK
	c.RequestId = protocol.GenRequestId()
	c.Flag, c.DbId = 0, 0
	c.Timeout, c.TimeoutFlag, c.Expried, c.ExpriedFlag, c.Count, c.Rcount = 0, 0, 0, 0, 0, 0
	c.Data = nil
	fill(c)
	if err := proto.ProcessLockCommand(c); err != nil {
		t.Fatalf("process: %v", err)
	}
	select {
	case r := <-ch:
		return r
	case <-time.After(5 * time.Second):
		t.Fatalf("no result")
	}
	return 0xff
}

func refC16r2Lock(t *testing.T, slock *SLock, key string, id byte, count uint16, rcount uint8, data *protocol.LockCommandData) {
	r := refC16r2Do(t, slock, func(c *protocol.LockCommand) {
		c.LockKey = refC16r2Key(key)
		c.LockId = [16]byte{id, 0xc1, 0x6c}
		c.Expried = 600
		c.ExpriedFlag = protocol.EXPRIED_FLAG_ZEOR_AOF_TIME
		c.Count = count
		c.Rcount = rcount
		if data != nil {
			c.Data = data
			c.Flag |= protocol.LOCK_FLAG_CONTAINS_DATA
		}
	})
	if r != protocol.RESULT_SUCCED {
		t.Fatalf("lock %s/%d: result %d", key, id, r)
	}
}

func refC16r2Flush(slock *SLock) {
	time.Sleep(20 * time.Millisecond)
	_ = slock.aof.WaitFlushAofChannel()
	slock.aof.FlushWithLocked()
}

// rotate to a new append file and compact everything before it, as the admin
// command / the size threshold do
func refC16r2Compact(t *testing.T, slock *SLock) {
	refC16r2Flush(slock)
	slock.aof.aofGlock.Lock()
	err := slock.aof.RewriteAofFile(true)
	slock.aof.aofGlock.Unlock()
	if err != nil {
		t.Fatalf("rewrite: %v", err)
	}
	for i := 0; i < 500; i++ {
		time.Sleep(10 * time.Millisecond)
		_ = slock.aof.WaitRewriteAofFiles()
		if _, err := os.Stat(filepath.Join(slock.aof.dataDir, "rewrite.aof")); err == nil {
			if _, err := os.Stat(filepath.Join(slock.aof.dataDir, "rewrite.aof.tmp")); err != nil {
				return
			}
		}
	}
	t.Fatalf("compaction did not finish")
}

func refC16r2CopyDir(t *testing.T, src, dst string) {
	_ = os.MkdirAll(dst, 0755)
	entries, err := os.ReadDir(src)
	if err != nil {
		t.Fatal(err)
	}
	for _, e := range entries {
		in, err := os.Open(filepath.Join(src, e.Name()))
		if err != nil {
			t.Fatal(err)
		}
		out, err := os.Create(filepath.Join(dst, e.Name()))
		if err != nil {
			t.Fatal(err)
		}
		_, _ = io.Copy(out, in)
		_ = in.Close()
		_ = out.Close()
	}
}

func refC16r2Ls(dir string) string {
	entries, _ := os.ReadDir(dir)
	names := make([]string, 0)
	for _, e := range entries {
		info, _ := e.Info()
		names = append(names, fmt.Sprintf("%s(%d)", e.Name(), info.Size()))
	}
	sort.Strings(names)
	return strings.Join(names, " ")
}

// recovered state of the given keys: holders, depths, counts and value (deadlines
// are not part of it: they are at least 9 minutes away in these tests)
func refC16r2Snapshot(slock *SLock, keys []string) string {
	time.Sleep(20 * time.Millisecond)
	_ = slock.aof.WaitFlushAofChannel()
	db := slock.GetDB(0)
	out := make([]string, 0)
	for _, key := range keys {
		c := &protocol.LockCommand{}
		c.LockKey = refC16r2Key(key)
		var lm *LockManager
		if db != nil {
			lm = db.GetLockManager(c)
		}
		if lm == nil {
			out = append(out, key+": not held")
			continue
		}
		lm.glock.LowPriorityLock()
		holds := make([]string, 0)
		add := func(l *Lock) {
			if l == nil || l.locked == 0 {
				return
			}
			alive := "alive"
			if l.expriedTime-db.currentTime < 500 {
				alive = fmt.Sprintf("ttl=%d", l.expriedTime-db.currentTime)
			}
			holds = append(holds, fmt.Sprintf("id=%x depth=%d count=%d rcount=%d %s", l.command.LockId[:3], l.locked, l.command.Count, l.command.Rcount, alive))
		}
		add(lm.currentLock)
		if lm.locks != nil {
			for _, nodes := range lm.locks.IterNodes() {
				for _, l := range nodes {
					add(l)
				}
			}
		}
		sort.Strings(holds)
		data := "nil"
		if lm.currentData != nil {
			data = fmt.Sprintf("%x", lm.currentData.data)
		}
		if lm.locked == 0 {
			out = append(out, key+": not held")
		} else {
			out = append(out, fmt.Sprintf("%s: locked=%d holds=%v value=%s", key, lm.locked, holds, data))
		}
		lm.glock.LowPriorityUnlock()
	}
	return strings.Join(out, "\n")
}

func refC16r2Ttl(slock *SLock, key string) int64 {
	time.Sleep(20 * time.Millisecond)
	_ = slock.aof.WaitFlushAofChannel()
	db := slock.GetDB(0)
	if db == nil {
		return -1
	}
	c := &protocol.LockCommand{}
	c.LockKey = refC16r2Key(key)
	lm := db.GetLockManager(c)
	if lm == nil {
		return -1
	}
	lm.glock.LowPriorityLock()
	defer lm.glock.LowPriorityUnlock()
	if lm.locked == 0 || lm.currentLock == nil {
		return -1
	}
	return lm.currentLock.expriedTime - db.currentTime
}

func TestRefDefectC16PriorityUpdateDropped(t *testing.T) {
	base := t.TempDir()
	live := filepath.Join(base, "live")
	s0 := refC16r2Start(t, live)
	take := func(key string, id byte, flag uint8, timeoutFlag uint16, expried uint16) uint8 {
		return refC16r2Do(t, s0, func(c *protocol.LockCommand) {
			c.LockKey = refC16r2Key(key)
			c.LockId = [16]byte{id, 0xc1, 0x62}
			c.Flag = flag
			c.TimeoutFlag = timeoutFlag
			c.Expried = expried
			c.ExpriedFlag = protocol.EXPRIED_FLAG_ZEOR_AOF_TIME
			c.Rcount = 3
		})
	}
	if r := take("c16r2-priority", 1, 0, protocol.TIMEOUT_FLAG_RCOUNT_IS_PRIORITY, 300); r != protocol.RESULT_SUCCED {
		t.Fatalf("lock: %d", r)
	}
	_ = take("c16r2-priority", 1, protocol.LOCK_FLAG_UPDATE_WHEN_LOCKED, protocol.TIMEOUT_FLAG_RCOUNT_IS_PRIORITY, 2000)
	if r := take("c16r2-control", 2, 0, 0, 300); r != protocol.RESULT_SUCCED {
		t.Fatalf("lock: %d", r)
	}
	_ = take("c16r2-control", 2, protocol.LOCK_FLAG_UPDATE_WHEN_LOCKED, 0, 2000)
	refC16r2Flush(s0)
	if ttl := refC16r2Ttl(s0, "c16r2-priority"); ttl < 1900 {
		t.Fatalf("the update did not extend the live hold: ttl %d", ttl)
	}

	pre := filepath.Join(base, "pre")
	refC16r2CopyDir(t, live, pre)
	refC16r2Compact(t, s0)
	refC16r2Flush(s0)
	post := filepath.Join(base, "post")
	refC16r2CopyDir(t, live, post)
	t.Logf("before: %s", refC16r2Ls(pre))
	t.Logf("after:  %s", refC16r2Ls(post))

	sPre := refC16r2Start(t, pre)
	sPost := refC16r2Start(t, post)
	for _, key := range []string{"c16r2-control", "c16r2-priority"} {
		preTtl, postTtl := refC16r2Ttl(sPre, key), refC16r2Ttl(sPost, key)
		t.Logf("%s: remaining lifetime recovered from the replaced files %d s, from the compacted files %d s", key, preTtl, postTtl)
		if preTtl < 1900 {
			t.Errorf("%s: recovery from the uncompacted files already lost the update (ttl %d)", key, preTtl)
		}
		if postTtl < preTtl-5 || postTtl > preTtl+5 {
			t.Errorf("%s: the compaction changed the recovered deadline: %d s -> %d s", key, preTtl, postTtl)
		}
	}
}
