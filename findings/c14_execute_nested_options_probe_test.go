package protocol

// Reference defect candidate for C14 (place in <repo>/protocol/, run
//   go test -vet=off -count=1 -run TestRefDefectC14ExecuteNestedArgs ./protocol/ ).
// FAILS on the unmodified code.
//
// Input: a text LOCK carrying a nested command:
//   LOCK outerkey LOCK_ID <A> TIMEOUT 5 EXECUTE UNLOCK  UNLOCK innerkey LOCK_ID <B> TIMEOUT 9
// ConvertTextLockAndUnLockCommand converts args[i+2:] recursively into the nested command
// for EXECUTE, but then its own `for i := 2; i < len(args); i += 2` loop simply continues
// over those same arguments. Every option that belongs to the nested command is therefore
// applied to the OUTER command as well: the outer LOCK ends up with the nested command's
// LOCK_ID <B> and TIMEOUT 9 (also EXPRIED / COUNT / RCOUNT / FLAG / SET ... when present),
// i.e. the text command does not have the fields of the binary command it describes
// (outer lock id A, timeout 5, data = EXECUTE{UNLOCK innerkey, lock id B, timeout 9}).

import (
	"bytes"
	"testing"
)

type refDefectC14TextProtocol struct{ parser *TextParser }

func (self *refDefectC14TextProtocol) GetDBId() uint8                   { return 0 }
func (self *refDefectC14TextProtocol) GetLockId() [16]byte              { return [16]byte{} }
func (self *refDefectC14TextProtocol) GetTimeout() uint16               { return 15 }
func (self *refDefectC14TextProtocol) GetLockCommand() *LockCommand     { return &LockCommand{} }
func (self *refDefectC14TextProtocol) FreeLockCommand(*LockCommand) error { return nil }
func (self *refDefectC14TextProtocol) GetParser() *TextParser           { return self.parser }

func TestRefDefectC14ExecuteNestedArgsLeakIntoOuterCommand(t *testing.T) {
	textProtocol := &refDefectC14TextProtocol{NewTextParser(make([]byte, 1024), make([]byte, 1024))}
	converter := NewTextCommandConverter()
	outerId, innerId := "AAAAAAAAAAAAAAAA", "BBBBBBBBBBBBBBBB"
	args := []string{"LOCK", "outerkey", "LOCK_ID", outerId, "TIMEOUT", "5",
		"EXECUTE", "UNLOCK", "UNLOCK", "innerkey", "LOCK_ID", innerId, "TIMEOUT", "9"}
	lockCommand, _, err := converter.ConvertTextLockAndUnLockCommand(textProtocol, args)
	if err != nil {
		t.Fatalf("convert: %v", err)
	}

	if lockCommand.Data == nil || lockCommand.Data.CommandType != LOCK_DATA_COMMAND_TYPE_EXECUTE {
		t.Fatalf("no EXECUTE data: %+v", lockCommand.Data)
	}
	nested := LockCommand{}
	if err = lockCommand.Data.DecodeLockCommand(&nested); err != nil {
		t.Fatalf("nested decode: %v", err)
	}
	if nested.CommandType != COMMAND_UNLOCK || !bytes.Equal(nested.LockId[:], []byte(innerId)) || nested.Timeout != 9 {
		t.Fatalf("nested command wrong: %+v", nested)
	}

	if !bytes.Equal(lockCommand.LockId[:], []byte(outerId)) {
		t.Errorf("outer LOCK has lock id %q, want its own LOCK_ID %q (it took the nested command's LOCK_ID)", lockCommand.LockId[:], outerId)
	}
	if lockCommand.Timeout != 5 {
		t.Errorf("outer LOCK has timeout %d, want its own TIMEOUT 5 (it took the nested command's TIMEOUT)", lockCommand.Timeout)
	}
}
