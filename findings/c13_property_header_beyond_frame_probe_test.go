package server

// REFERENCE DEFECTS for property C13 ("no client byte stream can crash the server").
// Place in server/ (package server). All tests FAIL on the unmodified reference code.
//
// Inputs: structurally valid 64-byte binary LOCK frames (flag 0x20 = contains data)
// followed by a value frame whose inner length fields announce more bytes than
// the frame carries.
//
// 1. Property header longer than the frame. A value frame with data flag 0x10
//    (contains property) and the 2-byte property length set to 0xffff makes
//    LockCommandData.GetValueOffset / LockManagerData.GetValueOffset return
//    65543 although the frame is 12 bytes long (only "frame shorter than 8 bytes"
//    is guarded, the offset is never clamped to len(Data)). Every operation that
//    slices at the value offset then panics in the connection goroutine:
//      - SET of such a frame is stored as it is; a later SHIFT on that key
//        (from any connection)        -> slice bounds out of range [:65543] (lock.go SHIFT)
//      - APPEND of such a frame on a key with a value -> makeslice: len out of range
//        (GetValueSize() is negative)
//      - PIPELINE with such a header  -> slice bounds out of range [65543:12]
//      - PUSH with such a header      -> slice bounds out of range [:65543]
// 2. EXECUTE frame whose embedded LOCK command has the contains-data flag and an
//    embedded value frame of length 1: LockCommandData.DecodeLockCommand only
//    rejects dataLen <= 0, builds a 5-byte buffer and NewLockCommandDataFromOriginBytes
//    reads data[5] -> index out of range [5] with length 5.
//
// Connection goroutines have no recover(), so each of these ends the server process.

import (
	"fmt"
	"io"
	"net"
	"runtime/debug"
	"testing"
	"time"

	"github.com/jessevdk/go-flags"
	"github.com/snower/slock/protocol"
)

type refC13Conn struct {
	client   net.Conn
	panicked chan string
}

func refC13Connect(t *testing.T) *refC13Conn {
	serverConfig := &ServerConfig{}
	parse := flags.NewParser(serverConfig, flags.Default)
	if _, err := parse.ParseArgs([]string{"--log_level=ERROR", "--db_fast_key_count=4096", "--db_concurrent=2"}); err != nil {
		t.Fatalf("config: %v", err)
	}
	logger, _ := InitLogger(serverConfig)
	slock := NewSLock(serverConfig, logger)
	slock.state = STATE_LEADER
	server := NewServer(slock)

	c, s := net.Pipe()
	stream := NewStream(s)
	_ = server.addStream(stream)
	pc := &refC13Conn{c, make(chan string, 1)}
	go func() {
		defer func() {
			if r := recover(); r != nil {
				pc.panicked <- fmt.Sprintf("%v\n%s", r, debug.Stack())
				_ = s.Close()
			}
		}()
		server.handle(stream) // what Server.Serve runs for every accepted connection
	}()
	return pc
}

func refC13LockFrame(flag uint8, key byte, data []byte) []byte {
	cmd := protocol.LockCommand{Command: protocol.Command{Magic: protocol.MAGIC, Version: protocol.VERSION, CommandType: protocol.COMMAND_LOCK, RequestId: protocol.GenRequestId()},
		Flag: flag, DbId: 0, Timeout: 5, Expried: 60}
	cmd.LockKey[15] = key
	cmd.LockId[15] = 1
	buf := make([]byte, 64)
	_ = cmd.Encode(buf)
	return append(buf, data...)
}

func refC13DataFrame(commandType uint8, dataFlag uint8, body []byte) []byte {
	n := len(body) + 2
	return append([]byte{byte(n), byte(n >> 8), byte(n >> 16), byte(n >> 24), commandType, dataFlag}, body...)
}

// refC13Run sends the requests one by one, consuming each reply, and returns the
// panic of the connection goroutine if there was one.
func refC13Run(t *testing.T, requests ...[]byte) string {
	pc := refC13Connect(t)
	defer pc.client.Close()
	for i, request := range requests {
		_ = pc.client.SetWriteDeadline(time.Now().Add(2 * time.Second))
		_, _ = pc.client.Write(request)
		head := make([]byte, 64)
		_ = pc.client.SetReadDeadline(time.Now().Add(2 * time.Second))
		_, err := io.ReadFull(pc.client, head)
		if err == nil && head[20]&protocol.LOCK_FLAG_CONTAINS_DATA != 0 {
			l := make([]byte, 4)
			_, _ = io.ReadFull(pc.client, l)
			_, _ = io.ReadFull(pc.client, make([]byte, int(l[0])|int(l[1])<<8|int(l[2])<<16))
		}
		select {
		case p := <-pc.panicked:
			return fmt.Sprintf("after request %d: %s", i+1, p)
		case <-time.After(150 * time.Millisecond):
		}
	}
	return ""
}

var refC13OversizedPropertyBody = []byte{0xff, 0xff, 1, 2, 3, 4} // property length 0xffff, 4 bytes follow

func TestRefDefectC13PropertyLengthBeyondFrameSetThenShift(t *testing.T) {
	set := refC13DataFrame(protocol.LOCK_DATA_COMMAND_TYPE_SET, protocol.LOCK_DATA_FLAG_CONTAINS_PROPERTY, refC13OversizedPropertyBody)
	shift := refC13DataFrame(protocol.LOCK_DATA_COMMAND_TYPE_SHIFT, protocol.LOCK_DATA_FLAG_VALUE_TYPE_NUMBER, []byte{2, 0, 0, 0})
	if p := refC13Run(t, refC13LockFrame(protocol.LOCK_FLAG_CONTAINS_DATA, 1, set),
		refC13LockFrame(protocol.LOCK_FLAG_CONTAINS_DATA|protocol.LOCK_FLAG_UPDATE_WHEN_LOCKED, 1, shift)); p != "" {
		t.Fatalf("connection goroutine panicked %s", p)
	}
}

func TestRefDefectC13PropertyLengthBeyondFrameAppend(t *testing.T) {
	set := refC13DataFrame(protocol.LOCK_DATA_COMMAND_TYPE_SET, 0, []byte("hello"))
	appendFrame := refC13DataFrame(protocol.LOCK_DATA_COMMAND_TYPE_APPEND, protocol.LOCK_DATA_FLAG_CONTAINS_PROPERTY, refC13OversizedPropertyBody)
	if p := refC13Run(t, refC13LockFrame(protocol.LOCK_FLAG_CONTAINS_DATA, 1, set),
		refC13LockFrame(protocol.LOCK_FLAG_CONTAINS_DATA|protocol.LOCK_FLAG_UPDATE_WHEN_LOCKED, 1, appendFrame)); p != "" {
		t.Fatalf("connection goroutine panicked %s", p)
	}
}

func TestRefDefectC13PropertyLengthBeyondFramePipeline(t *testing.T) {
	pipeline := refC13DataFrame(protocol.LOCK_DATA_COMMAND_TYPE_PIPELINE, protocol.LOCK_DATA_FLAG_CONTAINS_PROPERTY, refC13OversizedPropertyBody)
	if p := refC13Run(t, refC13LockFrame(protocol.LOCK_FLAG_CONTAINS_DATA, 1, pipeline)); p != "" {
		t.Fatalf("connection goroutine panicked %s", p)
	}
}

func TestRefDefectC13PropertyLengthBeyondFramePush(t *testing.T) {
	push := refC13DataFrame(protocol.LOCK_DATA_COMMAND_TYPE_PUSH, protocol.LOCK_DATA_FLAG_CONTAINS_PROPERTY, refC13OversizedPropertyBody)
	if p := refC13Run(t, refC13LockFrame(protocol.LOCK_FLAG_CONTAINS_DATA, 1, push)); p != "" {
		t.Fatalf("connection goroutine panicked %s", p)
	}
}

func TestRefDefectC13ExecuteNestedValueFrameOfLengthOne(t *testing.T) {
	nested := refC13LockFrame(protocol.LOCK_FLAG_CONTAINS_DATA, 2, nil) // embedded LOCK announcing a value frame
	body := append(nested, 1, 0, 0, 0, 0)                               // embedded value frame: length 1, one byte
	execute := refC13DataFrame(protocol.LOCK_DATA_COMMAND_TYPE_EXECUTE, 0, body)
	if p := refC13Run(t, refC13LockFrame(protocol.LOCK_FLAG_CONTAINS_DATA, 1, execute)); p != "" {
		t.Fatalf("connection goroutine panicked %s", p)
	}
}
