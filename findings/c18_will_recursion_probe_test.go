package server

// Reproducer for C18/R6 (copy into server/ of a scratch copy;
// go test -vet=off -run TestFindingC18WillOnInitedConnection ./server/):
// a binary connection that announced a client id (INIT) and registered a will
// is closed. While the wills are drained the protocol is closed && inited and
// SLock.clients[id] still maps to itself, so the reply of the will re-routes to
// itself: ProcessLockResultCommand <-> ProcessLockResultCommandLocked recurse
// without end and the whole process dies with a stack overflow (before the fix).
// The test runs the close in a child process so that the overflow is observable.

import (
	"net"
	"os"
	"os/exec"
	"runtime/debug"
	"testing"
	"time"

	"github.com/jessevdk/go-flags"
	"github.com/snower/slock/protocol"
)

func TestFindingC18WillOnInitedConnection(t *testing.T) {
	if os.Getenv("C18_CHILD") == "1" {
		debug.SetMaxStack(8 << 20)
		serverConfig := &ServerConfig{}
		parse := flags.NewParser(serverConfig, flags.Default)
		_, _ = parse.ParseArgs([]string{})
		logger, _ := InitLogger(serverConfig)
		slock := NewSLock(serverConfig, logger)
		slock.state = STATE_LEADER
		_ = slock.GetOrNewDB(0)
		c1, c2 := net.Pipe()
		go func() {
			buf := make([]byte, 4096)
			for {
				if _, err := c2.Read(buf); err != nil {
					return
				}
			}
		}()
		sp := NewBinaryServerProtocol(slock, NewStream(c1))
		initCommand := protocol.NewInitCommand([16]byte{1, 2, 3})
		_ = sp.ProcessCommad(initCommand)
		will := &protocol.LockCommand{Command: protocol.Command{Magic: protocol.MAGIC, Version: protocol.VERSION, CommandType: protocol.COMMAND_WILL_LOCK}}
		will.RequestId[0], will.LockKey[0], will.LockId[0] = 9, 0x51, 9
		will.Expried = 30
		_ = sp.ProcessCommad(will)
		_ = c2.Close()
		_ = sp.Close()
		time.Sleep(50 * time.Millisecond)
		return
	}
	cmd := exec.Command(os.Args[0], "-test.run", "TestFindingC18WillOnInitedConnection")
	cmd.Env = append(os.Environ(), "C18_CHILD=1")
	out, err := cmd.CombinedOutput()
	if err != nil {
		tail := out
		if len(tail) > 400 {
			tail = tail[:400]
		}
		t.Fatalf("FINDING REPRODUCED: closing an INITed binary connection with a registered will kills the process: %v\n%s", err, tail)
	}
}
