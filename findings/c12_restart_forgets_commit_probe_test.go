package server

// REFERENCE DEFECT candidate for C12 (fails on the UNMODIFIED tree). Goes to package server.
//
// An acceptor answers REPL_COMMIT (commandHandleCommitCommand / DoSelfCommit)
// after changing voter.commitId / proposalHost in memory only; ArbiterStore.Save
// is not called on that path (meta.pb is written by voteSucced on the candidate
// and by the announcement handler). A member that is restarted from its saved
// metadata between its commit answer and the announcement comes back with the
// old commitId (Load seeds proposalId from it) and no outstanding-commit marker,
// so it accepts and commits an overlapping candidate's proposal carrying a number
// it has already committed: two candidacies gather commit majorities.
//
// History (3 members, log positions A=(3,7) C=(3,6) X=(3,5); lost links A->C, C->A):
//   1. A votes (answers A,X) and chooses A; proposal #1 accepted by {A,X}
//   2. C votes (answers C,X) and chooses C               (C's candidacy overlaps A's)
//   3. A commits #1 at {A,X}                              -> WINNER A (leader A)
//   4. X is killed and restarted from its data directory (ArbiterManager.Load:
//      meta.pb still says CommitId 0; append.aof.3 gives position (3,5))
//   5. C proposes #1: accepted by {C,X}; C commits #1 at {C,X} -> WINNER C (leader C)
//
// Expected: X's answer to A's commit is durable, the restarted X refuses C's #1
// (and keeps refusing while the commit is outstanding). Observed: two winners.

import (
	"fmt"
	"net"
	"os"
	"path/filepath"
	"sync"
	"testing"
	"time"

	"github.com/jessevdk/go-flags"
	"github.com/snower/slock/client"
	"github.com/snower/slock/protocol"
)

type refC12bNode struct {
	host  string
	slock *SLock
	mgr   *ArbiterManager
}

type refC12bNet struct {
	glock *sync.Mutex
	lost  map[string]bool
	conns []net.Conn
}

func refC12bNewNode(t *testing.T, host string, hosts []string, aofId [16]byte) *refC12bNode {
	serverConfig := &ServerConfig{}
	parse := flags.NewParser(serverConfig, flags.Default)
	if _, err := parse.ParseArgs([]string{}); err != nil {
		t.Fatalf("config error %v", err)
	}
	serverConfig.LogLevel = "ERROR"
	serverConfig.DataDir = t.TempDir()
	logger, _ := InitLogger(serverConfig)
	slock := NewSLock(serverConfig, logger)
	slock.state = STATE_VOTE
	slock.replicationManager.currentAofId = aofId
	manager := NewArbiterManager(slock, "refC12b")
	slock.arbiterManager = manager
	manager.gid = "refC12b"
	for _, h := range hosts {
		member := NewArbiterMember(manager, h, 1, 0)
		member.role = ARBITER_ROLE_FOLLOWER
		member.status = ARBITER_MEMBER_STATUS_ONLINE
		if h == host {
			member.isSelf = true
			manager.ownMember = member
		}
		manager.members = append(manager.members, member)
	}
	return &refC12bNode{host, slock, manager}
}

func (self *refC12bNode) member(host string) *ArbiterMember {
	for _, member := range self.mgr.members {
		if member.host == host {
			return member
		}
	}
	return nil
}

func (self *refC12bNet) isLost(from string, to string) bool {
	self.glock.Lock()
	defer self.glock.Unlock()
	return self.lost[from+">"+to]
}

func (self *refC12bNet) setLost(from string, to string, lost bool) {
	self.glock.Lock()
	self.lost[from+">"+to] = lost
	self.glock.Unlock()
}

func (self *refC12bNet) link(from *refC12bNode, to *refC12bNode) {
	c1, c2 := net.Pipe()
	self.conns = append(self.conns, c1, c2)

	arbiterClient := NewArbiterClient(from.member(to.host))
	arbiterClient.stream = client.NewStream(c1)
	arbiterClient.protocol = client.NewBinaryClientProtocol(arbiterClient.stream)
	from.member(to.host).client = arbiterClient
	go func() {
		for {
			command, err := arbiterClient.protocol.Read()
			if err != nil {
				arbiterClient.rchannel <- nil
				return
			}
			arbiterClient.rchannel <- command
		}
	}()

	serverProtocol := NewBinaryServerProtocol(to.slock, NewStream(c2))
	fromMember := to.member(from.host)
	fromMember.server = &ArbiterServer{fromMember, serverProtocol.stream, serverProtocol, false, make(chan struct{})}
	go func() {
		for {
			command, err := serverProtocol.Read()
			if err != nil {
				return
			}
			callCommand, ok := command.(*protocol.CallCommand)
			if !ok {
				return
			}
			var result *protocol.CallResultCommand
			if self.isLost(from.host, to.host) {
				// the request never reaches the callee
				result = protocol.NewCallResultCommand(callCommand, 0, "ERR_SEED_LOST", nil)
			} else {
				handler, herr := serverProtocol.FindCallMethod(callCommand.MethodName)
				if herr != nil {
					result = protocol.NewCallResultCommand(callCommand, 0, "ERR_SEED_METHOD", nil)
				} else {
					result, _ = handler(serverProtocol, callCommand)
				}
			}
			if serverProtocol.Write(result) != nil {
				return
			}
		}
	}()
}

func refC12bWriteLogFile(t *testing.T, slock *SLock, filename string, index uint32, offsets []uint32) {
	aofFile := NewAofFile(slock.aof, filename, os.O_WRONLY, int(Config.AofFileBufferSize))
	if err := aofFile.Open(); err != nil {
		t.Fatalf("open %s error %v", filename, err)
	}
	for _, offset := range offsets {
		aofLock := NewAofLock()
		aofLock.CommandType = protocol.COMMAND_LOCK
		aofLock.AofIndex, aofLock.AofOffset, aofLock.CommandTime = index, offset, uint64(1700000000+offset)
		aofLock.LockId = [16]byte{byte(index), byte(offset), 1}
		aofLock.LockKey = [16]byte{byte(index), byte(offset), 2}
		aofLock.ExpriedTime = 3600
		_ = aofLock.Encode()
		if err := aofFile.WriteLock(aofLock); err != nil {
			t.Fatalf("write %s error %v", filename, err)
		}
	}
	_ = aofFile.Flush()
	_ = aofFile.Close()
}

func TestRefDefectC12RestartForgetsCommit(t *testing.T) {
	hostA, hostX, hostC := "127.0.0.1:57401", "127.0.0.1:57402", "127.0.0.1:57403"
	hosts := []string{hostA, hostX, hostC}
	positions := make(map[string][16]byte)
	for host, offset := range map[string]uint32{hostA: 7, hostC: 6, hostX: 5} {
		aofLock := NewAofLock()
		aofLock.AofIndex, aofLock.AofOffset, aofLock.CommandTime = 3, offset, uint64(1700000000+offset)
		positions[host] = aofLock.GetAofId()
	}

	network := &refC12bNet{&sync.Mutex{}, make(map[string]bool), nil}
	nodes := make(map[string]*refC12bNode)
	for _, host := range hosts {
		nodes[host] = refC12bNewNode(t, host, hosts, positions[host])
	}
	// X's data directory: metadata as saved by the last announcement, and its log
	dataDirX := t.TempDir()
	nodes[hostX].mgr.store.filename = filepath.Join(dataDirX, "meta.pb")
	if err := nodes[hostX].mgr.store.Save(nodes[hostX].mgr); err != nil {
		t.Fatalf("save meta error %v", err)
	}
	refC12bWriteLogFile(t, nodes[hostX].slock, filepath.Join(dataDirX, "append.aof.3"), 3, []uint32{1, 2, 3, 4, 5})

	xconns := make([]net.Conn, 0)
	for _, from := range hosts {
		for _, to := range hosts {
			if from != to {
				network.link(nodes[from], nodes[to])
				if from == hostX || to == hostX {
					xconns = append(xconns, network.conns[len(network.conns)-2:]...)
				}
			}
		}
	}
	defer func() {
		for _, conn := range network.conns {
			_ = conn.Close()
		}
	}()
	voterA, voterC := nodes[hostA].mgr.voter, nodes[hostC].mgr.voter
	network.setLost(hostA, hostC, true)
	network.setLost(hostC, hostA, true)

	winners, finished := make([]string, 0), make(chan error, 1)
	go func() {
		if err := voterA.DoVote(); err != nil {
			finished <- fmt.Errorf("A vote: %v", err)
			return
		}
		if err := voterA.DoProposal(); err != nil {
			finished <- fmt.Errorf("A proposal: %v", err)
			return
		}
		if err := voterC.DoVote(); err != nil {
			finished <- fmt.Errorf("C vote: %v", err)
			return
		}
		if err := voterA.DoCommit(); err != nil {
			finished <- fmt.Errorf("A commit: %v", err)
			return
		}
		winners = append(winners, fmt.Sprintf("A(commit %d -> leader %s)", voterA.commitId, voterA.proposalHost))
		committedId, committedHost := nodes[hostX].mgr.voter.commitId, nodes[hostX].mgr.voter.proposalHost

		// X is killed and restarted from its saved metadata
		for _, conn := range xconns {
			_ = conn.Close()
		}
		serverConfig := &ServerConfig{}
		parse := flags.NewParser(serverConfig, flags.Default)
		_, _ = parse.ParseArgs([]string{})
		serverConfig.LogLevel = "ERROR"
		serverConfig.DataDir = dataDirX
		logger, _ := InitLogger(serverConfig)
		slockX := NewSLock(serverConfig, logger)
		slockX.state = STATE_VOTE
		managerX := NewArbiterManager(slockX, "refC12b")
		slockX.arbiterManager = managerX
		if err := managerX.Load(); err != nil {
			finished <- fmt.Errorf("X restart: %v", err)
			return
		}
		if managerX.GetCurrentAofID() != positions[hostX] {
			finished <- fmt.Errorf("X restart: log position %s", FormatAofId(managerX.GetCurrentAofID()))
			return
		}
		for _, member := range managerX.members {
			member.status = ARBITER_MEMBER_STATUS_ONLINE
		}
		restartedX := &refC12bNode{hostX, slockX, managerX}
		for _, host := range []string{hostA, hostC} {
			network.link(nodes[host], restartedX)
			network.link(restartedX, nodes[host])
		}

		if err := voterC.DoProposal(); err == nil {
			if err = voterC.DoCommit(); err == nil {
				winners = append(winners, fmt.Sprintf("C(commit %d -> leader %s)", voterC.commitId, voterC.proposalHost))
			}
		}
		if len(winners) > 1 {
			finished <- fmt.Errorf("two overlapping candidacies gathered commit majorities %v; X had answered A's commit (%d,%s), was restarted from meta.pb (CommitId %d) and then committed (%d,%s)",
				winners, committedId, committedHost, 0, managerX.voter.commitId, managerX.voter.proposalHost)
			return
		}
		finished <- nil
	}()

	select {
	case err := <-finished:
		if err != nil {
			t.Fatalf("%v", err)
		}
	case <-time.After(20 * time.Second):
		t.Fatalf("schedule did not finish")
	}
}
