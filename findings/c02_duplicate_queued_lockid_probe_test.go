package server

import (
	"sync"
	"testing"

	"github.com/snower/slock/protocol"
)

// Reference-code defect candidate for C02 (goes into server/; FAILS on the unmodified worktree).
//
// History on one key used as a 2-slot semaphore (Count=1), all requests Rcount=0:
//   1. A and B acquire the key (2 holders, key full).
//   2. Two lock requests bearing the SAME LockId X are queued (Lock only looks for X among the
//      holders, so the second request is not recognised as a duplicate of the queued one).
//   3. A unlocks -> the first X request is woken and X becomes a holder (depth 1).
//   4. B unlocks -> the second X request is woken as well: wakeUpWaitLock/AddLock never look for an
//      existing hold of that LockId, so X now owns two separate holds although Rcount=0 allows no
//      further successful lock of a LockId that already holds the key.
//   5. X unlocks with Rcount=0 ("removes all depths, the hold ends"): only one of the two holds is
//      released. X still holds the key: a second unlock of X succeeds again instead of UNOWN_ERROR /
//      UNLOCK_ERROR, and between the two unlocks a new request sees one slot still occupied by X.
// With more than ~200 holders the duplicate also corrupts the map-backed holder index
// (scaleQueue.maps has one entry per LockId): releasing one duplicate deletes the entry of the other.

type refC02dupReply struct {
	result  uint8
	lcount  uint16
	lrcount uint8
}

func refC02dupId(prefix byte, n int) [16]byte {
	return [16]byte{prefix, byte(n), byte(n >> 8), 0, 0, 0, 0, 0, 0, 0, 0, 0, 0, 0, 0, prefix}
}

func TestRefDefectC02DuplicateQueuedLockId(t *testing.T) {
	testWithLockDB(t, func(db *LockDB) {
		glock := sync.Mutex{}
		replies := make(map[[16]byte][]refC02dupReply)
		serverProtocol := NewMemWaiterServerProtocol(db.slock)
		defer serverProtocol.Close()
		_ = serverProtocol.SetResultCallback(func(_ *MemWaiterServerProtocol, command *protocol.LockCommand, result uint8, lcount uint16, lrcount uint8, _ []byte) error {
			glock.Lock()
			replies[command.RequestId] = append(replies[command.RequestId], refC02dupReply{result, lcount, lrcount})
			glock.Unlock()
			return nil
		})
		get := func(requestId [16]byte) []refC02dupReply {
			glock.Lock()
			defer glock.Unlock()
			return append([]refC02dupReply{}, replies[requestId]...)
		}

		lockKey := refC02dupId('k', 1)
		requestN := 0
		do := func(commandType uint8, lockId [16]byte, timeout uint16) [16]byte {
			requestN++
			command := &protocol.LockCommand{Command: protocol.Command{Magic: protocol.MAGIC, Version: protocol.VERSION, CommandType: commandType, RequestId: refC02dupId('r', requestN)},
				Flag: 0, DbId: 0, LockId: lockId, LockKey: lockKey, TimeoutFlag: 0, Timeout: timeout, ExpriedFlag: 0, Expried: 120, Count: 1, Rcount: 0}
			if commandType == protocol.COMMAND_LOCK {
				_ = db.Lock(serverProtocol, command, 0)
			} else {
				_ = db.UnLock(serverProtocol, command, 0)
			}
			return command.RequestId
		}
		lockIdA, lockIdB, lockIdX := refC02dupId('a', 1), refC02dupId('b', 1), refC02dupId('x', 1)

		do(protocol.COMMAND_LOCK, lockIdA, 0)
		do(protocol.COMMAND_LOCK, lockIdB, 0)
		rX1 := do(protocol.COMMAND_LOCK, lockIdX, 60)
		rX2 := do(protocol.COMMAND_LOCK, lockIdX, 60)
		if len(get(rX1)) != 0 || len(get(rX2)) != 0 {
			t.Fatalf("X requests should be queued: %v %v", get(rX1), get(rX2))
		}
		do(protocol.COMMAND_UNLOCK, lockIdA, 0)
		do(protocol.COMMAND_UNLOCK, lockIdB, 0)

		succed := 0
		for _, requestId := range [][16]byte{rX1, rX2} {
			for _, reply := range get(requestId) {
				if reply.result == protocol.RESULT_SUCCED {
					succed++
				}
			}
		}
		if succed > 1 {
			t.Errorf("LockId X with Rcount=0 was granted the key %d times (replies %v / %v)", succed, get(rX1), get(rX2))
		}

		rU1 := get(do(protocol.COMMAND_UNLOCK, lockIdX, 0))
		if len(rU1) != 1 || rU1[0].result != protocol.RESULT_SUCCED {
			t.Fatalf("first unlock of X: %v", rU1)
		}
		if rU1[0].lcount != 0 {
			t.Errorf("unlock of X with Rcount=0 must end X's hold, but %d hold(s) remain on the key", rU1[0].lcount)
		}
		rU2 := get(do(protocol.COMMAND_UNLOCK, lockIdX, 0))
		if len(rU2) != 1 || rU2[0].result == protocol.RESULT_SUCCED {
			t.Errorf("second unlock of X succeeded (%v): X still held the key after its Rcount=0 unlock", rU2)
		}
	})
}
