package server

// Reproducer for C13/R4 findings (copy into server/ of a scratch copy;
// go test -vet=off -run TestFindingC13ShortFrame ./server/): value frames
// shorter than their header / property header index out of range and panic in
// the connection goroutine (before the fix commits).

import (
	"net"
	"testing"
	"time"

	"github.com/jessevdk/go-flags"
	"github.com/snower/slock/protocol"
)

func TestFindingC13ShortFrame(t *testing.T) {
	serverConfig := &ServerConfig{}
	parse := flags.NewParser(serverConfig, flags.Default)
	if _, err := parse.ParseArgs([]string{}); err != nil {
		t.Fatal(err)
	}
	logger, _ := InitLogger(serverConfig)
	slock := NewSLock(serverConfig, logger)
	slock.state = STATE_LEADER
	db := slock.GetOrNewDB(0)

	// (1) LOCK frame announcing a value, followed by an empty data frame
	func() {
		c1, c2 := net.Pipe()
		defer c1.Close()
		defer c2.Close()
		go func() {
			_, _ = c2.Write([]byte{0, 0, 0, 0})
			buf := make([]byte, 4096)
			for {
				if _, err := c2.Read(buf); err != nil {
					return
				}
			}
		}()
		defer func() {
			if e := recover(); e != nil {
				t.Errorf("FINDING REPRODUCED: LOCK with an empty data frame crashes: %v", e)
			}
		}()
		sp := NewBinaryServerProtocol(slock, NewStream(c1))
		c := protocol.LockCommand{}
		c.Magic, c.Version, c.CommandType = protocol.MAGIC, protocol.VERSION, protocol.COMMAND_LOCK
		c.RequestId[0], c.LockKey[0], c.LockId[0] = 1, 0x41, 1
		c.Flag = protocol.LOCK_FLAG_CONTAINS_DATA
		c.Expried = 30
		buf := make([]byte, 64)
		_ = c.Encode(buf)
		_ = c1.SetDeadline(time.Now().Add(2 * time.Second))
		_ = sp.ProcessParse(buf)
	}()

	lockWith := func(name string, key byte, frame []byte) {
		defer func() {
			if e := recover(); e != nil {
				t.Errorf("FINDING REPRODUCED: %s crashes: %v", name, e)
			}
		}()
		sp := NewMemWaiterServerProtocol(slock)
		c := &protocol.LockCommand{}
		c.Magic, c.Version, c.CommandType = protocol.MAGIC, protocol.VERSION, protocol.COMMAND_LOCK
		c.RequestId[0], c.LockKey[0], c.LockId[0] = key, key, 1
		c.Flag = protocol.LOCK_FLAG_CONTAINS_DATA
		c.Expried = 30
		c.Data = protocol.NewLockCommandDataFromOriginBytes(frame)
		_ = db.Lock(sp, c, 0)
	}
	// (2) INCR with the property flag set but no property header (6-byte frame)
	lockWith("INCR frame with property flag and no property header", 0x42, []byte{2, 0, 0, 0, protocol.LOCK_DATA_COMMAND_TYPE_INCR, protocol.LOCK_DATA_FLAG_CONTAINS_PROPERTY})
	// (3) PIPELINE whose only sub-frame has a zero-length body
	lockWith("PIPELINE with a header-less sub-frame", 0x43, []byte{6, 0, 0, 0, protocol.LOCK_DATA_COMMAND_TYPE_PIPELINE, 0, 0, 0, 0, 0})
}
