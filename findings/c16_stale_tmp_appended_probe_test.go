package server

// Reference defect (property C16), found while seeding: fails on the UNMODIFIED code.
// Goes to server/C16_stale_tmp_appended_test.go (package server).
//
// History / fault: a re-entrant hold of depth 2 is logged in append.aof.1; the log
// rotates to append.aof.2 and a compaction starts. The process dies right after the
// compaction has completely written rewrite.aof.tmp(.dat) and before it removes the
// first input file. The directory left behind (append.aof.1, append.aof.2,
// rewrite.aof.tmp) recovers fine: depth 2. But nothing ever deletes the stale
// rewrite.aof.tmp (Aof.clearAofFiles is never called) and AofFile.Open opens it
// with O_APPEND and without truncation. The compaction started at that restart
// therefore APPENDS its output to the stale file and renames the result into place:
// rewrite.aof now carries every kept record twice. The following restart replays
// the two LOCK records of the re-entrant hold four times: depth 4 instead of 2
// (any depth below rcount+1 is inflated; the same happens after a compaction that
// aborted on a read error and left its tmp file behind).
//
// The crash image is built from real files: the pre-compaction directory plus the
// rewrite.aof the finished compaction produced, stored under the tmp name - exactly
// the directory content at that crash point.

import (
	"fmt"
	"io"
	"os"
	"path/filepath"
	"sort"
	"strings"
	"testing"
	"time"

	"github.com/jessevdk/go-flags"
	"github.com/snower/slock/protocol"
)

func refC16r1New(t *testing.T, dir string) *SLock {
	cfg := &ServerConfig{}
	parse := flags.NewParser(cfg, flags.Default)
	if _, err := parse.ParseArgs([]string{"--data_dir", dir, "--log_level", "ERROR", "--db_fast_key_count", "65536"}); err != nil {
		t.Fatalf("config: %v", err)
	}
	logger, _ := InitLogger(cfg)
	return NewSLock(cfg, logger)
}

func refC16r1Start(t *testing.T, dir string) *SLock {
	slock := refC16r1New(t, dir)
	if err := slock.initLeader(); err != nil {
		t.Fatalf("initLeader: %v", err)
	}
	_ = slock.aof.WaitRewriteAofFiles()
	return slock
}

func refC16r1Key(s string) [16]byte {
	var k [16]byte
	copy(k[:], s)
	return k
}

func refC16r1Do(t *testing.T, slock *SLock, fill func(c *protocol.LockCommand)) uint8 {
	proto := NewMemWaiterServerProtocol(slock)
	ch := make(chan uint8, 4)
	_ = proto.SetResultCallback(func(_ *MemWaiterServerProtocol, c *protocol.LockCommand, result uint8, lcount uint16, lrcount uint8, data []byte) error {
		ch <- result
		return nil
	})
	c := proto.GetLockCommand()
	c.CommandType = protocol.COMMAND_LOCK
	c.RequestId = protocol.GenRequestId()
	c.Flag, c.DbId = 0, 0
	c.Timeout, c.TimeoutFlag, c.Expried, c.ExpriedFlag, c.Count, c.Rcount = 0, 0, 0, 0, 0, 0
	c.Data = nil
	fill(c)
	if err := proto.ProcessLockCommand(c); err != nil {
		t.Fatalf("process: %v", err)
	}
	select {
	case r := <-ch:
		return r
	case <-time.After(5 * time.Second):
		t.Fatalf("no result")
	}
	return 0xff
}

func refC16r1Lock(t *testing.T, slock *SLock, key string, id byte, count uint16, rcount uint8, data *protocol.LockCommandData) {
	r := refC16r1Do(t, slock, func(c *protocol.LockCommand) {
		c.LockKey = refC16r1Key(key)
		c.LockId = [16]byte{id, 0xc1, 0x6c}
		c.Expried = 600
		c.ExpriedFlag = protocol.EXPRIED_FLAG_ZEOR_AOF_TIME
		c.Count = count
		c.Rcount = rcount
		if data != nil {
			c.Data = data
			c.Flag |= protocol.LOCK_FLAG_CONTAINS_DATA
		}
	})
	if r != protocol.RESULT_SUCCED {
		t.Fatalf("lock %s/%d: result %d", key, id, r)
	}
}

func refC16r1Flush(slock *SLock) {
	time.Sleep(20 * time.Millisecond)
	_ = slock.aof.WaitFlushAofChannel()
	slock.aof.FlushWithLocked()
}

// rotate to a new append file and compact everything before it, as the admin
// command / the size threshold do
func refC16r1Compact(t *testing.T, slock *SLock) {
	refC16r1Flush(slock)
	slock.aof.aofGlock.Lock()
	err := slock.aof.RewriteAofFile(true)
	slock.aof.aofGlock.Unlock()
	if err != nil {
		t.Fatalf("rewrite: %v", err)
	}
	for i := 0; i < 500; i++ {
		time.Sleep(10 * time.Millisecond)
		_ = slock.aof.WaitRewriteAofFiles()
		if _, err := os.Stat(filepath.Join(slock.aof.dataDir, "rewrite.aof")); err == nil {
			if _, err := os.Stat(filepath.Join(slock.aof.dataDir, "rewrite.aof.tmp")); err != nil {
				return
			}
		}
	}
	t.Fatalf("compaction did not finish")
}

func refC16r1CopyDir(t *testing.T, src, dst string) {
	_ = os.MkdirAll(dst, 0755)
	entries, err := os.ReadDir(src)
	if err != nil {
		t.Fatal(err)
	}
	for _, e := range entries {
		in, err := os.Open(filepath.Join(src, e.Name()))
		if err != nil {
			t.Fatal(err)
		}
		out, err := os.Create(filepath.Join(dst, e.Name()))
		if err != nil {
			t.Fatal(err)
		}
		_, _ = io.Copy(out, in)
		_ = in.Close()
		_ = out.Close()
	}
}

func refC16r1Ls(dir string) string {
	entries, _ := os.ReadDir(dir)
	names := make([]string, 0)
	for _, e := range entries {
		info, _ := e.Info()
		names = append(names, fmt.Sprintf("%s(%d)", e.Name(), info.Size()))
	}
	sort.Strings(names)
	return strings.Join(names, " ")
}

// recovered state of the given keys: holders, depths, counts and value (deadlines
// are not part of it: they are at least 9 minutes away in these tests)
func refC16r1Snapshot(slock *SLock, keys []string) string {
	time.Sleep(20 * time.Millisecond)
	_ = slock.aof.WaitFlushAofChannel()
	db := slock.GetDB(0)
	out := make([]string, 0)
	for _, key := range keys {
		c := &protocol.LockCommand{}
		c.LockKey = refC16r1Key(key)
		var lm *LockManager
		if db != nil {
			lm = db.GetLockManager(c)
		}
		if lm == nil {
			out = append(out, key+": not held")
			continue
		}
		lm.glock.LowPriorityLock()
		holds := make([]string, 0)
		add := func(l *Lock) {
			if l == nil || l.locked == 0 {
				return
			}
			alive := "alive"
			if l.expriedTime-db.currentTime < 500 {
				alive = fmt.Sprintf("ttl=%d", l.expriedTime-db.currentTime)
			}
			holds = append(holds, fmt.Sprintf("id=%x depth=%d count=%d rcount=%d %s", l.command.LockId[:3], l.locked, l.command.Count, l.command.Rcount, alive))
		}
		add(lm.currentLock)
		if lm.locks != nil {
			for _, nodes := range lm.locks.IterNodes() {
				for _, l := range nodes {
					add(l)
				}
			}
		}
		sort.Strings(holds)
		data := "nil"
		if lm.currentData != nil {
			data = fmt.Sprintf("%x", lm.currentData.data)
		}
		if lm.locked == 0 {
			out = append(out, key+": not held")
		} else {
			out = append(out, fmt.Sprintf("%s: locked=%d holds=%v value=%s", key, lm.locked, holds, data))
		}
		lm.glock.LowPriorityUnlock()
	}
	return strings.Join(out, "\n")
}

func TestRefDefectC16StaleTmpAppended(t *testing.T) {
	base := t.TempDir()
	live := filepath.Join(base, "live")
	keys := []string{"c16r1-reentrant", "c16r1-plain"}

	s0 := refC16r1Start(t, live)
	refC16r1Lock(t, s0, "c16r1-reentrant", 1, 0, 5, nil)
	refC16r1Lock(t, s0, "c16r1-reentrant", 1, 0, 5, nil)
	refC16r1Lock(t, s0, "c16r1-plain", 2, 0, 0, nil)
	refC16r1Flush(s0)
	want := refC16r1Snapshot(s0, keys)

	// rotate only (what RewriteAofFile does before it starts the compaction goroutine)
	s0.aof.aofGlock.Lock()
	err := s0.aof.RewriteAofFile(false)
	s0.aof.aofGlock.Unlock()
	if err != nil {
		t.Fatalf("rotate: %v", err)
	}
	refC16r1Flush(s0)
	pre := filepath.Join(base, "pre")
	refC16r1CopyDir(t, live, pre)

	// let the compaction run to completion on the live directory to obtain its output
	go s0.aof.rewriteAofFiles()
	for i := 0; i < 300; i++ {
		time.Sleep(10 * time.Millisecond)
		_ = s0.aof.WaitRewriteAofFiles()
		if _, serr := os.Stat(filepath.Join(live, "rewrite.aof")); serr == nil {
			break
		}
	}

	// directory at the crash point "tmp completely written, no input removed yet"
	crash := filepath.Join(base, "crash")
	refC16r1CopyDir(t, pre, crash)
	for _, suffix := range []string{"", ".dat"} {
		content, rerr := os.ReadFile(filepath.Join(live, "rewrite.aof"+suffix))
		if rerr != nil {
			t.Fatalf("compaction output missing: %v", rerr)
		}
		if werr := os.WriteFile(filepath.Join(crash, "rewrite.aof.tmp"+suffix), content, 0644); werr != nil {
			t.Fatal(werr)
		}
	}
	t.Logf("directory at the crash point: %s", refC16r1Ls(crash))

	s1 := refC16r1Start(t, crash)
	if got := refC16r1Snapshot(s1, keys); got != want {
		t.Fatalf("restart 1 (from the crash image)\nwant:\n%s\ngot:\n%s", want, got)
	}
	for i := 0; i < 30; i++ {
		time.Sleep(10 * time.Millisecond)
		_ = s1.aof.WaitRewriteAofFiles()
	}
	refC16r1Flush(s1)
	t.Logf("directory after restart 1 and its start-up compaction: %s", refC16r1Ls(crash))

	gen2 := filepath.Join(base, "gen2")
	refC16r1CopyDir(t, crash, gen2)
	s2 := refC16r1Start(t, gen2)
	if got := refC16r1Snapshot(s2, keys); got != want {
		t.Fatalf("restart 2: the start-up compaction of restart 1 appended to the stale rewrite.aof.tmp\nwant:\n%s\ngot:\n%s", want, got)
	}
}
