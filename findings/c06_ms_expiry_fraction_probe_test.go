package server

// Probe for property C06 (derived from the C05 report) (goes into server/, package server;
// FAILS on the UNMODIFIED code).
//
// Input / history:
//   - key K is held; at ~0.8s into a wall-clock second a second LOCK for K is
//     queued with TIMEOUT_FLAG_MILLISECOND_TIME and Timeout = 3999 (ms).
// What goes wrong:
//   - for millisecond timeouts >= 3000ms the request first waits Timeout%3000 ms
//     in the millisecond wheel (AddMillisecondTimeOut) and checkMillisecondTimeOut
//     then hands it to the second wheel with
//         timeoutTime = startTime + Timeout/1000 + 1        (whole server seconds)
//     where startTime is LockDB.currentTime (wall second, truncated) at enqueue.
//     The "+1" only covers the truncation of startTime; the sub-second remainder
//     of Timeout (999ms here) is dropped. The sweep of second startTime+4 runs at
//     wall time ~startTime+4.0, i.e. only ~3.2s after the request was queued at
//     startTime+0.8, so TIMEOUT is answered ~0.8s EARLIER than the requested
//     3.999s. In general a ms wait T = q*1000+r (q >= 3) is answered after
//     q+1-frac seconds, early by up to r ms whenever frac > 1 - r/1000.
//   - C05 claims "no earlier than T" (wall clock lower bound in the real-time
//     engine); only sub-3s millisecond waits are exempt from the upper bound,
//     none from the lower bound.

import (
	"testing"
	"time"

	"github.com/jessevdk/go-flags"
	"github.com/snower/slock/protocol"
)

func TestProbeC06MillisecondExpiryFractionFiresEarly(t *testing.T) {
	serverConfig := &ServerConfig{}
	parse := flags.NewParser(serverConfig, flags.Default)
	if _, err := parse.ParseArgs([]string{}); err != nil {
		t.Fatalf("config parse fail %v", err)
	}
	serverConfig.DBConcurrent = 1
	logger, _ := InitLogger(serverConfig)
	slock := NewSLock(serverConfig, logger)
	slock.state = STATE_LEADER
	db := NewLockDB(slock, 0)
	defer func() {
		db.status = STATE_CLOSE
	}()

	type reply struct {
		requestId [16]byte
		result    uint8
		at        time.Time
	}
	replies := make(chan reply, 16)
	proto := NewMemWaiterServerProtocol(slock)
	_ = proto.SetResultCallback(func(_ *MemWaiterServerProtocol, command *protocol.LockCommand, result uint8, _ uint16, _ uint8, _ []byte) error {
		replies <- reply{command.RequestId, result, time.Now()}
		return nil
	})

	key := [16]byte{'r', 'd'}
	newLock := func(n byte, timeoutFlag uint16, timeout uint16, expried uint16) *protocol.LockCommand {
		return &protocol.LockCommand{Command: protocol.Command{Magic: protocol.MAGIC, Version: protocol.VERSION, CommandType: protocol.COMMAND_LOCK, RequestId: [16]byte{0xC5, n}},
			DbId: 0, LockId: [16]byte{0x1D, n}, LockKey: key, TimeoutFlag: timeoutFlag, Timeout: timeout, ExpriedFlag: protocol.EXPRIED_FLAG_UNLIMITED_AOF_TIME, Expried: expried}
	}

	time.Sleep(1200 * time.Millisecond)
	wait := 800*time.Millisecond - time.Duration(time.Now().Nanosecond())
	if wait < 0 {
		wait += time.Second
	}
	time.Sleep(wait)

	const expriedMs = 3999
	holder := newLock(1, 0, 0, expriedMs)
	holder.ExpriedFlag |= protocol.EXPRIED_FLAG_MILLISECOND_TIME
	grantedAt := time.Now()
	_ = db.Lock(proto, holder, 0)
	if r := <-replies; r.result != protocol.RESULT_SUCCED {
		t.Fatalf("holder not granted: %v", r)
	}
	select {
	case r := <-replies:
		held := r.at.Sub(grantedAt)
		if r.result != protocol.RESULT_EXPRIED {
			t.Fatalf("unexpected reply %v after %v", r, held)
		}
		if held < expriedMs*time.Millisecond {
			t.Fatalf("hold with expiry %dms was ended after only %v (early by %v)", expriedMs, held, expriedMs*time.Millisecond-held)
		}
	case <-time.After(8 * time.Second):
		t.Fatalf("no EXPRIED within 8s")
	}
}
