package server

// Reproducer for C18/R9 (copy into server/ of a scratch copy;
// go test -vet=off -run TestFindingC18ManyTextWills ./server/): a text
// connection registers six wills ("LOCK key-i EXPRIED 60 WILL 1") and
// disconnects. Close() drains the will queue in the connection's own
// goroutine; each executed will is answered at once and the answer is sent on
// lockWaiter (capacity 4), which nobody reads any more: the fifth answer
// blocks for ever, the sixth will never runs and Close() never returns.

import (
	"fmt"
	"net"
	"testing"
	"time"

	"github.com/jessevdk/go-flags"
	"github.com/snower/slock/protocol"
)

func TestFindingC18ManyTextWills(t *testing.T) {
	serverConfig := &ServerConfig{}
	parse := flags.NewParser(serverConfig, flags.Default)
	if _, err := parse.ParseArgs([]string{}); err != nil {
		t.Fatal(err)
	}
	logger, _ := InitLogger(serverConfig)
	slock := NewSLock(serverConfig, logger)
	slock.state = STATE_LEADER
	db := slock.GetOrNewDB(0)
	db.status = STATE_LEADER
	c1, c2 := net.Pipe()
	go func() {
		buf := make([]byte, 4096)
		for {
			if _, err := c2.Read(buf); err != nil {
				return
			}
		}
	}()
	sp := NewTextServerProtocol(slock, NewStream(c1))
	const wills = 6
	for i := 0; i < wills; i++ {
		key := fmt.Sprintf("will-key-%d", i)
		req := fmt.Sprintf("*6\r\n$4\r\nLOCK\r\n$%d\r\n%s\r\n$7\r\nEXPRIED\r\n$2\r\n60\r\n$4\r\nWILL\r\n$1\r\n1\r\n", len(key), key)
		if err := sp.ProcessParse([]byte(req)); err != nil {
			t.Fatalf("register will %d: %v", i, err)
		}
	}
	held := func(i int) uint32 {
		key := [16]byte{}
		sp.GetCommandConverter().ConvertArgId2LockId(fmt.Sprintf("will-key-%d", i), &key)
		m := db.GetLockManager(&protocol.LockCommand{LockKey: key})
		if m == nil {
			return 0
		}
		return m.locked
	}
	closed := make(chan struct{})
	go func() {
		_ = sp.Close()
		close(closed)
	}()
	returned := true
	select {
	case <-closed:
	case <-time.After(2 * time.Second):
		returned = false
	}
	_ = c2.Close()
	executed := 0
	for i := 0; i < wills; i++ {
		if held(i) == 1 {
			executed++
		}
	}
	if !returned || executed != wills {
		t.Fatalf("FINDING REPRODUCED: %d wills registered over the text protocol; after the disconnect Close() returned=%v and %d of them were executed", wills, returned, executed)
	}
}
