package server

import (
	"fmt"
	"io"
	"os"
	"path/filepath"
	"sort"
	"strings"
	"sync/atomic"
	"testing"
	"time"

	"github.com/jessevdk/go-flags"
	"github.com/snower/slock/protocol"
)

// ---- helpers for the C16d demonstration (all names prefixed seedC16d) ----

func seedC16dNewSLock(t *testing.T, dataDir string) *SLock {
	slock := seedC16dNewSLockNoInit(t, dataDir)
	if err := slock.initLeader(); err != nil {
		t.Fatalf("initLeader: %v", err)
	}
	return slock
}

func seedC16dNewSLockNoInit(t *testing.T, dataDir string) *SLock {
	serverConfig := &ServerConfig{}
	parse := flags.NewParser(serverConfig, flags.Default)
	if _, err := parse.ParseArgs([]string{}); err != nil {
		t.Fatalf("parse config: %v", err)
	}
	serverConfig.DataDir = dataDir
	serverConfig.DBConcurrent = 2
	serverConfig.Log = "-"
	serverConfig.LogLevel = "ERROR"
	logger, _ := InitLogger(serverConfig)
	return NewSLock(serverConfig, logger)
}

func seedC16dKey(name string) [16]byte {
	var k [16]byte
	copy(k[:], name)
	return k
}

func seedC16dKeyName(i int) string {
	return fmt.Sprintf("key%08d", i)
}

// lock n distinct keys (one exclusive hold each, 1h expiry, logged to the AOF at once)
func seedC16dLockMany(t *testing.T, slock *SLock, from int, n int) {
	sp := NewMemWaiterServerProtocol(slock)
	var succed int64
	_ = sp.SetResultCallback(func(_ *MemWaiterServerProtocol, command *protocol.LockCommand, result uint8, _ uint16, _ uint8, _ []byte) error {
		if result == protocol.RESULT_SUCCED {
			atomic.AddInt64(&succed, 1)
		}
		return nil
	})
	for i := from; i < from+n; i++ {
		command := &protocol.LockCommand{Command: protocol.Command{Magic: protocol.MAGIC, Version: protocol.VERSION, CommandType: protocol.COMMAND_LOCK}}
		command.RequestId = seedC16dKey(fmt.Sprintf("req%08d", i))
		command.LockId = seedC16dKey(fmt.Sprintf("lid%08d", i))
		command.LockKey = seedC16dKey(seedC16dKeyName(i))
		command.ExpriedFlag = protocol.EXPRIED_FLAG_ZEOR_AOF_TIME
		command.Expried = 3600
		if err := sp.ProcessLockCommand(command); err != nil {
			t.Fatalf("lock %d: %v", i, err)
		}
	}
	if int(atomic.LoadInt64(&succed)) != n {
		t.Fatalf("only %d of %d locks succeeded", succed, n)
	}
}

func seedC16dFlush(slock *SLock) {
	_ = slock.aof.WaitFlushAofChannel()
	time.Sleep(50 * time.Millisecond)
	_ = slock.aof.WaitFlushAofChannel()
	slock.aof.FlushWithLocked()
}

func seedC16dWaitCompactionIdle(slock *SLock) {
	// a compaction goroutine may have just been spawned; give it time to register, then wait for it
	for i := 0; i < 10; i++ {
		time.Sleep(20 * time.Millisecond)
		_ = slock.aof.WaitRewriteAofFiles()
	}
}

func seedC16dCountHeld(slock *SLock, n int) int {
	db := slock.GetDB(0)
	if db == nil {
		return 0
	}
	held := 0
	for i := 0; i < n; i++ {
		command := &protocol.LockCommand{}
		command.LockKey = seedC16dKey(seedC16dKeyName(i))
		command.LockId = seedC16dKey(fmt.Sprintf("lid%08d", i))
		manager := db.GetLockManager(command)
		if manager == nil {
			continue
		}
		manager.glock.Lock()
		if manager.locked > 0 && manager.currentLock != nil && manager.GetLockedLock(command) != nil {
			held++
		}
		manager.glock.Unlock()
	}
	return held
}

func seedC16dCopyDir(t *testing.T, src string, dst string) {
	if err := os.MkdirAll(dst, 0755); err != nil {
		t.Fatal(err)
	}
	entries, err := os.ReadDir(src)
	if err != nil {
		t.Fatal(err)
	}
	for _, e := range entries {
		if e.IsDir() {
			continue
		}
		in, err := os.Open(filepath.Join(src, e.Name()))
		if err != nil {
			t.Fatal(err)
		}
		out, err := os.Create(filepath.Join(dst, e.Name()))
		if err != nil {
			t.Fatal(err)
		}
		_, _ = io.Copy(out, in)
		_ = in.Close()
		_ = out.Close()
	}
}

func seedC16dListDir(dir string) string {
	entries, _ := os.ReadDir(dir)
	names := make([]string, 0)
	for _, e := range entries {
		info, _ := e.Info()
		names = append(names, fmt.Sprintf("%s(%d)", e.Name(), info.Size()))
	}
	sort.Strings(names)
	return strings.Join(names, " ")
}

// build a data directory as a previous run would leave it: append.aof.1 with n live holds,
// append.aof.2 (the file that was current at shutdown) with m more live holds.
func seedC16dBuildImage(t *testing.T, dir string, n int, m int) {
	slock := seedC16dNewSLock(t, dir)
	seedC16dLockMany(t, slock, 0, n)
	seedC16dFlush(slock)
	slock.aof.aofGlock.Lock()
	err := slock.aof.RewriteAofFile(false) // rotate only, no compaction
	slock.aof.aofGlock.Unlock()
	if err != nil {
		t.Fatalf("rotate: %v", err)
	}
	seedC16dLockMany(t, slock, n, m)
	seedC16dFlush(slock)
	slock.Close()
}

// seedC16dSlowProtocol wraps the protocol object a replay worker (AofChannel) uses to apply
// log records to the lock tables; applying is held up until gate is closed. This models a
// slow replay (busy CPU, large log): start-up as a whole simply takes longer.
type seedC16dSlowProtocol struct {
	ServerProtocol
	gate chan struct{}
}

func (self *seedC16dSlowProtocol) ProcessLockCommand(command *protocol.LockCommand) error {
	<-self.gate
	return self.ServerProtocol.ProcessLockCommand(command)
}

// restart on dir (in place): returns the number of holds the fresh instance recovered,
// after letting the start-up compaction finish and shutting the instance down again.
// If stallReplay > 0 the asynchronous replay of the log records is held up for that long.
func seedC16dRestart(t *testing.T, dir string, total int, stallReplay time.Duration) int {
	slock := seedC16dNewSLockNoInit(t, dir)
	if stallReplay > 0 {
		gate := make(chan struct{})
		db := slock.GetOrNewDB(0)
		for _, aofChannel := range db.aofChannels {
			aofChannel.serverProtocol = &seedC16dSlowProtocol{aofChannel.serverProtocol, gate}
		}
		go func() {
			time.Sleep(stallReplay)
			close(gate)
		}()
	}
	if err := slock.initLeader(); err != nil {
		t.Fatalf("initLeader: %v", err)
	}
	seedC16dFlush(slock)
	held := seedC16dCountHeld(slock, total)
	seedC16dWaitCompactionIdle(slock)
	slock.Close()
	return held
}

func seedC16dCheck(t *testing.T, label string, image string, total int, stallReplay time.Duration) {
	dir := filepath.Join(t.TempDir(), "run")
	seedC16dCopyDir(t, image, dir)
	before := seedC16dListDir(dir)
	first := seedC16dRestart(t, dir, total, stallReplay)
	after := seedC16dListDir(dir)
	second := seedC16dRestart(t, dir, total, 0)
	if first != total {
		t.Fatalf("%s: restart #1 recovered %d holds, want %d (harness problem)", label, first, total)
	}
	if second != first {
		t.Errorf("%s: start-up compaction changed the recoverable state: restart #1 recovered %d holds, restart #2 only %d\n  dir before restart #1: %s\n  dir after  restart #1: %s", label, first, second, before, after)
	}
}

// TestSeedC16dStartupCompactionStalledReplay (deterministic): the compaction that runs at
// start-up must not change what the next restart recovers, also when the asynchronous replay
// of the log into the lock tables is slow.
func TestSeedC16dStartupCompactionStalledReplay(t *testing.T) {
	n, m := 200, 20
	image := filepath.Join(t.TempDir(), "image")
	seedC16dBuildImage(t, image, n, m)
	seedC16dCheck(t, "stalled replay", image, n+m, 400*time.Millisecond)
}

// TestSeedC16dStartupCompactionUnforced (statistical): same check without any interference,
// repeated; always passes on correct code, fails in a fraction of the rounds when start-up
// compaction can overtake the replay.
func TestSeedC16dStartupCompactionUnforced(t *testing.T) {
	n, m := 200, 20
	image := filepath.Join(t.TempDir(), "image")
	seedC16dBuildImage(t, image, n, m)
	for round := 0; round < 12 && !t.Failed(); round++ {
		seedC16dCheck(t, fmt.Sprintf("unforced round %d", round), image, n+m, 0)
	}
}
