#!/bin/sh
# usage: ./check.sh <property> [quick|thorough]
# Rebuilds bin/slockcheck when missing or older than its sources, then analyses
# /repo's current working tree. Exit 0 = holds, 1 = VIOLATION, 2 = undecided.
# thorough additionally runs the property's mutation self-test (scratch copies
# of /repo under $TMPDIR, removed afterwards); a missed mutant turns a pass
# into exit 2, never masks a VIOLATION.
cd "$(dirname "$0")" || exit 2
export GOFLAGS=-mod=mod GOPROXY=off GOSUMDB=off GOTOOLCHAIN=local
unset GOWORK
need=0
[ -x bin/slockcheck ] || need=1
if [ $need -eq 0 ] && [ -n "$(find cmd internal go.mod -newer bin/slockcheck -print -quit 2>/dev/null)" ]; then need=1; fi
if [ $need -eq 1 ]; then
  mkdir -p bin
  go build -o bin/slockcheck.$$ ./cmd/slockcheck && mv bin/slockcheck.$$ bin/slockcheck || { echo "CHECKER-FAILURE build"; exit 2; }
fi
prop="$1"
tier="${2:-${VERIF_TIER:-quick}}"
bin/slockcheck -property "$prop" -tier "$tier" -verif "$(pwd)"
rc=$?
if [ "$tier" = "thorough" ] && [ $rc -ne 1 ]; then
  python3 tools/selftest.py "$prop" --seeded --jobs 6
  st=$?
  if [ $rc -eq 0 ] && [ $st -ne 0 ]; then
    echo "CHECKER-FAILURE property=$prop mutation self-test: a catalogued mutant was not detected"
    rc=2
  fi
fi
exit $rc
