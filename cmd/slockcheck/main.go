// slockcheck decides structural necessary conditions of the slock properties
// by static analysis of /repo's current source (see /verif/DESIGN.md).
package main

import (
	"flag"
	"fmt"
	"os"
	"path/filepath"
	"strconv"
	"strings"

	"slockverif/internal/core"
	"slockverif/internal/rules"
)

func main() {
	prop := flag.String("property", "", "property id (C01..C19)")
	tier := flag.String("tier", "", "quick|thorough (default $VERIF_TIER or quick)")
	repo := flag.String("repo", core.RepoDir(), "repository to analyse")
	verif := flag.String("verif", "", "verification directory (default: directory above the binary)")
	census := flag.Bool("census", false, "debug: print the module's named functions (baseline census)")
	dump := flag.String("dump", "", "debug: print canonical branch conditions of a function")
	flag.Parse()
	if *tier == "" {
		*tier = os.Getenv("VERIF_TIER")
	}
	if *tier != "thorough" {
		*tier = "quick"
	}
	if *verif == "" {
		exe, _ := os.Executable()
		*verif = filepath.Dir(filepath.Dir(exe))
	}
	seed, _ := strconv.ParseInt(os.Getenv("VERIF_SEED"), 10, 64)

	p, err := core.Load(*repo)
	if err != nil {
		fmt.Printf("CHECKER-FAILURE load: %v\n", err)
		os.Exit(2)
	}
	if *census {
		for _, n := range p.FuncCensus() {
			fmt.Println(n)
		}
		return
	}
	if *dump != "" {
		rules.Dump(p, *dump)
		return
	}
	if strings.Contains(*prop, ",") {
		// several properties on one loaded program (used by the seed matrix and
		// the self-test tools; the registered commands run one property each)
		worst := 0
		for _, one := range strings.Split(*prop, ",") {
			run, ok := rules.Registry[one]
			if !ok {
				fmt.Printf("CHECKER-FAILURE unknown property %q\n", one)
				os.Exit(2)
			}
			r := core.NewReport(one, *tier, seed)
			r.Stats["packages"] = len(p.Pkgs)
			r.Stats["module_functions"] = len(p.Funcs())
			func() {
				defer func() {
					if e := recover(); e != nil {
						r.Fail("panic in checker: %v", e)
					}
				}()
				run(p, r)
			}()
			rc := r.Finish(*verif)
			fmt.Printf("RESULT property=%s rc=%d\n", one, rc)
			if rc > worst {
				worst = rc
			}
		}
		os.Exit(worst)
	}
	run, ok := rules.Registry[*prop]
	if !ok {
		fmt.Printf("CHECKER-FAILURE unknown property %q\n", *prop)
		os.Exit(2)
	}
	r := core.NewReport(*prop, *tier, seed)
	r.Stats["packages"] = len(p.Pkgs)
	r.Stats["module_functions"] = len(p.Funcs())
	func() {
		defer func() {
			if e := recover(); e != nil {
				r.Fail("panic in checker: %v", e)
				if os.Getenv("SLOCKCHECK_DEBUG") != "" {
					panic(e)
				}
			}
		}()
		run(p, r)
	}()
	os.Exit(r.Finish(*verif))
}
