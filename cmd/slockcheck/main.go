package main

import (
	"fmt"
	"golang.org/x/tools/go/packages"
	"golang.org/x/tools/go/ssa"
	"golang.org/x/tools/go/ssa/ssautil"
	_ "golang.org/x/tools/go/callgraph/vta"
	_ "golang.org/x/tools/go/callgraph/cha"
	_ "golang.org/x/tools/go/cfg"
)

func main() {
	cfg := &packages.Config{Mode: packages.LoadAllSyntax, Dir: "/repo"}
	pkgs, err := packages.Load(cfg, "./...")
	fmt.Println(len(pkgs), err)
	prog, _ := ssautil.AllPackages(pkgs, ssa.InstantiateGenerics)
	prog.Build()
}
