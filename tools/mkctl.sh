#!/bin/bash
# usage: tools/mkctl.sh <name> <python-edit-script>   builds refactors/<name>/patch.diff from a scratch copy of /repo HEAD edited by the script (cwd = copy root); checks it compiles
set -e
name="$1"; script="$(readlink -f "$2")"
d=$(mktemp -d /tmp/ctl.XXXX); trap 'rm -rf $d' EXIT
git -C /repo archive HEAD | tar -x -C $d
cd $d; git init -q .; git add -A >/dev/null; git commit -qm base >/dev/null
python3 "$script"
GOFLAGS=-mod=mod GOPROXY=off GOSUMDB=off GOTOOLCHAIN=local go build ./...
mkdir -p /verif/refactors/$name
git diff > /verif/refactors/$name/patch.diff
wc -l /verif/refactors/$name/patch.diff
