#!/usr/bin/env python3
"""Regenerates seeded/MATRIX.md from seeded/*/meta.json and embeds the same table in DESIGN.md section 9.9."""
import os, re, subprocess
HERE = os.path.dirname(os.path.dirname(os.path.abspath(__file__)))
table = subprocess.check_output(["python3", os.path.join(HERE, "tools/seedtable.py")]).decode()
open(os.path.join(HERE, "seeded/MATRIX.md"), "w").write(table)
p = os.path.join(HERE, "DESIGN.md")
s = open(p).read()
i = s.index("| seed | property | change (abridged) |")
m = re.search(r"\n\d+ of \d+ seeded changes are reported by at least one registered check\.\n", s[i:])
j = i + m.end()
# an embedded "Retired" list from an earlier run belongs to the table as well
m2 = re.match(r"\nRetired \(kept for reference[^\n]*\n\n(\* [^\n]*\n)+", s[j:])
if m2:
    j += m2.end()
s = s[:i] + table.rstrip("\n") + "\n" + s[j:]
open(p, "w").write(s)
print(table.strip().split("\n")[-1])
