#!/bin/sh
# usage: tools/runmut.sh <patch.diff> <property>...
# Applies a patch to a scratch copy of /repo's HEAD and runs the checks on it.
# Output and evidence go to a scratch verif dir; nothing in /verif/evidence is touched.
set -u
here="$(cd "$(dirname "$0")/.." && pwd)"
patch="$1"; shift
d="$(mktemp -d /tmp/slockmut.XXXXXX)"
trap 'rm -rf "$d"' EXIT
mkdir -p "$d/repo" "$d/verif"
git -C /repo archive HEAD | tar -x -C "$d/repo"
if ! (cd "$d/repo" && patch -s -p1 < "$patch"); then echo "PATCH-FAILED $patch"; exit 3; fi
cp "$here/known_findings.json" "$d/verif/"
rc=0
for prop in "$@"; do
  "$here/bin/slockcheck" -repo "$d/repo" -verif "$d/verif" -property "$prop" | sed "s#$d/repo/##g" | grep -v '^    path' | cut -c1-700
  r=$?
done
