#!/usr/bin/env python3
"""Prints the seeded-change detection matrix (markdown) from seeded/*/meta.json.
usage: seedtable.py > seeded/MATRIX.md"""
import glob, json, os
HERE = os.path.dirname(os.path.dirname(os.path.abspath(__file__)))
rows = []
retired = []
for mp in sorted(glob.glob(os.path.join(HERE, "seeded", "*", "meta.json"))):
    m = json.load(open(mp))
    sid = os.path.basename(os.path.dirname(mp))
    if m.get("retired"):
        retired.append((sid, m["property"], " ".join(m["retired"].split())))
        continue
    summ = " ".join(m.get("summary", "").split())
    if len(summ) > 150:
        summ = summ[:147] + "..."
    det = m.get("detected_by_all") or []
    own = [r for r in det if r.startswith(m["property"] + "/")]
    other = [r for r in det if r not in own]
    rows.append((sid, m["property"], summ, ", ".join(own) or "-", ", ".join(other) or "-", m.get("miss_reason", "") if not det else ""))
print("| seed | property | change (abridged) | reported by own property's rules | also reported by | if missed: why |")
print("|---|---|---|---|---|---|")
for r in rows:
    print("| %s | %s | %s | %s | %s | %s |" % r)
n = len(rows); d = sum(1 for r in rows if r[3] != "-" or r[4] != "-")
print()
print("%d of %d seeded changes are reported by at least one registered check." % (d, n))
if retired:
    print()
    print("Retired (kept for reference, not counted): a repair of snower/slock made the change harmless, so it no longer breaks its property.")
    print()
    for r in retired:
        print("* %s (%s): %s" % r)
