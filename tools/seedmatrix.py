#!/usr/bin/env python3
"""Runs every registered check against every seeded change (scratch copies of
/repo, removed afterwards) and records in seeded/<id>/meta.json which rules
report it. usage: seedmatrix.py [--jobs N] [ids...]"""
import json, os, re, subprocess, sys, tempfile, shutil, glob, concurrent.futures as cf
HERE = os.path.dirname(os.path.dirname(os.path.abspath(__file__)))
ENV = dict(os.environ, GOFLAGS="-mod=mod", GOPROXY="off", GOSUMDB="off", GOTOOLCHAIN="local")
ENV.pop("GOWORK", None)
props = [c["property_id"] for c in json.load(open(os.path.join(HERE, "MANIFEST.json")))["checks"]]

def run(sid):
    d = tempfile.mkdtemp(prefix="slockseed.")
    try:
        os.makedirs(d + "/repo"); os.makedirs(d + "/verif")
        subprocess.run("git -C /repo archive HEAD | tar -x -C %s/repo" % d, shell=True, check=True)
        p = subprocess.run(["git", "apply", os.path.join(HERE, "seeded", sid, "patch.diff")], cwd=d + "/repo", capture_output=True, text=True)
        if p.returncode != 0:
            return sid, None, "patch does not apply: " + p.stderr[-200:]
        shutil.copy(os.path.join(HERE, "known_findings.json"), d + "/verif")
        hits = {}
        # one process, one loaded program, every registered check in turn
        c = subprocess.run([os.environ.get("SLOCKCHECK_BIN", os.path.join(HERE, "bin/slockcheck")), "-repo", d + "/repo", "-verif", d + "/verif", "-property", ",".join(props)], env=ENV, capture_output=True, text=True)
        rcs = dict(re.findall(r"^RESULT property=(C\d+) rc=(\d+)$", c.stdout, re.M))
        if len(rcs) != len(props):
            return sid, None, "checker did not report every property: " + c.stdout[-300:] + c.stderr[-300:]
        for prop in props:
            if rcs[prop] == "1":
                hits[prop] = sorted(set(r for r in re.findall(r"\[(C\d+/R\w+)\]", c.stdout) if r.startswith(prop + "/")))
            elif rcs[prop] == "2":
                hits[prop] = ["undecided"]
        return sid, hits, ""
    finally:
        shutil.rmtree(d, ignore_errors=True)

def main():
    jobs = 6
    args = [a for a in sys.argv[1:] if not a.startswith("--")]
    if "--jobs" in sys.argv:
        jobs = int(sys.argv[sys.argv.index("--jobs") + 1]); args = [a for a in args if a != str(jobs)]
    ids = args or sorted(os.path.basename(os.path.dirname(m)) for m in glob.glob(os.path.join(HERE, "seeded", "*", "meta.json"))
                         if not json.load(open(m)).get("retired"))
    with cf.ThreadPoolExecutor(max_workers=jobs) as ex:
        for sid, hits, err in ex.map(run, ids):
            mp = os.path.join(HERE, "seeded", sid, "meta.json")
            m = json.load(open(mp))
            if hits is None:
                print(sid, "ERROR", err); continue
            rules = sorted(set(r for rs in hits.values() for r in rs if r != "undecided"))
            own = [r for r in rules if r.startswith(m["property"] + "/")]
            m["detected_by"] = (own or rules or [""])[0]
            m["detected_by_all"] = rules
            m["checks_run"] = props
            m["undecided_checks"] = sorted(p for p, rs in hits.items() if rs == ["undecided"])
            json.dump(m, open(mp, "w"), indent=1)
            print("%-5s %-8s %s" % (sid, "DETECTED" if rules else "missed", " ".join(rules)))

if __name__ == "__main__":
    main()
