#!/bin/bash
# usage: tools/tryon.sh <patch> <property>...   apply a patch to a scratch copy of /repo HEAD and run the named checks
p=$(readlink -f "$1"); shift
d=$(mktemp -d /tmp/tryon.XXXX); mkdir $d/repo $d/verif
git -C /repo archive HEAD | tar -x -C $d/repo; cp /verif/known_findings.json $d/verif
(cd $d/repo && git apply "$p") || echo APPLYFAIL
for pr in "$@"; do GOFLAGS=-mod=mod GOPROXY=off GOSUMDB=off /verif/bin/slockcheck -repo $d/repo -verif $d/verif -property $pr | grep -v "^KNOWN" | tail -${TAIL:-4} | cut -c1-${WIDTH:-300}; done
rm -rf $d
