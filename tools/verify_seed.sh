#!/bin/bash
# usage: tools/verify_seed.sh <seedout-dir> <id>   e.g. /tmp/seedout/C01/a C01a
# Confirms a seeded change in a scratch worktree of /repo (HEAD): builds, passes
# the existing suite, its demonstration fails with the patch and passes without.
# Writes <outdir>/<id>.verify.json
set -u
src="$1"; id="$2"; out="${3:-/tmp/seedverify}"
mkdir -p "$out"
export GOFLAGS=-mod=mod GOPROXY=off GOSUMDB=off GOTOOLCHAIN=local; unset GOWORK
wt="$(mktemp -d /tmp/seedwt.XXXXXX)"
rmdir "$wt"
git -C /repo worktree add -q --detach "$wt" HEAD || { echo "worktree failed"; exit 2; }
cleanup() { git -C /repo worktree remove --force "$wt" >/dev/null 2>&1; rm -rf "$wt"; }
trap cleanup EXIT
cd "$wt"
demo_file=$(ls "$src"/*_test.go 2>/dev/null | head -1)
demo_cmd=$(jq -r '.demo_cmd // empty' "$src/meta.json")
pkgdir=server
grep -q "^package protocol" "$demo_file" && pkgdir=protocol
grep -q "^package client" "$demo_file" && pkgdir=client
run=$(grep -o "func Test[A-Za-z0-9_]*" "$demo_file" | head -1 | sed 's/func //')
prefix=$(echo "$run" | sed 's/\(TestSeedC[0-9]*[a-z]\).*/\1/')
cp "$demo_file" "$pkgdir/"
# without patch
go test -vet=off -count=1 -run "$prefix" ./$pkgdir/ > "$out/$id.clean.log" 2>&1; clean_rc=$?
# with patch
applies=true
git apply "$src/patch.diff" 2>"$out/$id.apply.log" || applies=false
build_rc=1; suite_rc=1; demo_rc=0
if $applies; then
  go build ./... > "$out/$id.build.log" 2>&1; build_rc=$?
  mv "$pkgdir/$(basename "$demo_file")" /tmp/$id.demo.keep
  go test -vet=off -count=1 ./protocol/... ./server/... > "$out/$id.suite.log" 2>&1; suite_rc=$?
  mv /tmp/$id.demo.keep "$pkgdir/$(basename "$demo_file")"
  go test -vet=off -count=1 -run "$prefix" ./$pkgdir/ > "$out/$id.patched.log" 2>&1; demo_rc=$?
fi
jq -n --arg id "$id" --argjson applies $applies --argjson clean $clean_rc --argjson build $build_rc --argjson suite $suite_rc --argjson demo $demo_rc --arg test "$prefix" --arg pkg "$pkgdir" \
  '{id:$id, patch_applies:$applies, demo_without_patch_rc:$clean, build_rc:$build, existing_suite_rc:$suite, demo_with_patch_rc:$demo, test:$test, pkg:$pkg, confirmed: ($applies and $clean==0 and $build==0 and $suite==0 and $demo!=0)}' > "$out/$id.verify.json"
cat "$out/$id.verify.json" | jq -c .
