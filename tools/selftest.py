#!/usr/bin/env python3
"""Mutation self-test of slockcheck (DESIGN.md section 5).

Each catalogue entry is a small source edit of /repo (exact text replacement,
so it survives line shifts). For every entry of the requested property the edit
is applied to a scratch copy of /repo's HEAD + working tree, the copy must still
build, and bin/slockcheck must report a VIOLATION mentioning the expected rule.
Entries whose anchor text is no longer present are reported as skipped.

usage: selftest.py <property|all> [--jobs N] [--seeded]
exit 0: every applicable mutant detected; 2: some mutant undetected / broken.
"""
import json, os, subprocess, sys, tempfile, shutil, concurrent.futures as cf, glob

HERE = os.path.dirname(os.path.dirname(os.path.abspath(__file__)))
REPO = os.environ.get("SLOCK_REPO", "/repo")
ENV = dict(os.environ, GOFLAGS="-mod=mod", GOPROXY="off", GOSUMDB="off", GOTOOLCHAIN="local")
ENV.pop("GOWORK", None)


def scratch_copy():
    d = tempfile.mkdtemp(prefix="slockmut.")
    os.makedirs(os.path.join(d, "repo"))
    os.makedirs(os.path.join(d, "verif"))
    # working tree (tracked files, as they are now)
    files = subprocess.check_output(["git", "-C", REPO, "ls-files"], text=True).split("\n")
    for f in files:
        if not f:
            continue
        src = os.path.join(REPO, f)
        if not os.path.isfile(src):
            continue
        dst = os.path.join(d, "repo", f)
        os.makedirs(os.path.dirname(dst), exist_ok=True)
        shutil.copy2(src, dst)
    shutil.copy2(os.path.join(HERE, "known_findings.json"), os.path.join(d, "verif"))
    return d


def run_one(m):
    d = scratch_copy()
    try:
        if "patch" in m:
            p = subprocess.run(["patch", "-s", "-p1", "-i", m["patch"]], cwd=os.path.join(d, "repo"), capture_output=True, text=True)
            if p.returncode != 0:
                return m, "skipped", "patch does not apply"
        else:
            path = os.path.join(d, "repo", m["file"])
            src = open(path).read()
            if src.count(m["old"]) < 1:
                return m, "skipped", "anchor text not found"
            n = m.get("occurrence", 1)
            idx = -1
            for _ in range(n):
                idx = src.find(m["old"], idx + 1)
                if idx < 0:
                    return m, "skipped", "occurrence not found"
            src = src[:idx] + m["new"] + src[idx + len(m["old"]):]
            if "old2" in m:
                if src.count(m["old2"]) < 1:
                    return m, "skipped", "second anchor text not found"
                src = src.replace(m["old2"], m["new2"], 1)
            open(path, "w").write(src)
        b = subprocess.run(["go", "build", "./..."], cwd=os.path.join(d, "repo"), env=ENV, capture_output=True, text=True)
        if b.returncode != 0:
            return m, "broken", "mutant does not compile: " + b.stderr[-300:]
        outs, rcs = [], []
        props = m["property"] if isinstance(m["property"], list) else [m["property"]]
        detected = False
        for prop in props:
            c = subprocess.run([os.environ.get("SLOCKCHECK_BIN", os.path.join(HERE, "bin/slockcheck")), "-repo", os.path.join(d, "repo"), "-verif", os.path.join(d, "verif"), "-property", prop],
                               env=ENV, capture_output=True, text=True)
            out = c.stdout
            outs.append(out)
            rcs.append(c.returncode)
            if c.returncode == 1 and "VIOLATION property=" + prop in out:
                want = m.get("expect_rule")
                lines = [l for l in out.split("\n") if "[" + (want or prop + "/") in l]
                if lines:
                    detected = True
        if m.get("silent"):
            # negative control: a behaviour-preserving edit must not raise an alarm
            if all("VIOLATION property=" not in o for o in outs) and all(rc == 0 for rc in rcs):
                return m, "silent-ok", ""
            bad = [l for o in outs for l in o.split("\n") if "[C" in l or "CHECKER-FAILURE" in l][:2]
            return m, "false-alarm", " | ".join(bad)
        if detected:
            return m, "detected", ""
        tail = "\n".join("\n".join(o.strip().split("\n")[-3:]) for o in outs)
        return m, "missed", tail[-600:]
    finally:
        shutil.rmtree(d, ignore_errors=True)


def main():
    prop = sys.argv[1] if len(sys.argv) > 1 else "all"
    jobs = 6
    if "--jobs" in sys.argv:
        jobs = int(sys.argv[sys.argv.index("--jobs") + 1])
    cat = json.load(open(os.path.join(HERE, "mutants", "catalogue.json")))["mutants"]
    if "--seeded" in sys.argv:
        for meta in sorted(glob.glob(os.path.join(HERE, "seeded", "*", "meta.json"))):
            mj = json.load(open(meta))
            if mj.get("detected_by") and not mj.get("retired"):
                # run the check that owns the reporting rule (a change seeded for one
                # property may be reported by a rule of another)
                cat.append({"id": "seeded/" + os.path.basename(os.path.dirname(meta)), "property": mj["detected_by"].split("/")[0],
                            "expect_rule": mj["detected_by"], "patch": os.path.join(os.path.dirname(meta), "patch.diff")})
    sel = [m for m in cat if prop == "all" or prop == m["property"] or (isinstance(m["property"], list) and prop in m["property"])]
    if not sel:
        print("selftest: no mutants catalogued for", prop)
        return 0
    bad = 0
    with cf.ThreadPoolExecutor(max_workers=jobs) as ex:
        for m, status, info in ex.map(run_one, sel):
            print("selftest %-9s %-28s expect %-8s %s" % (status, m["id"], m.get("expect_rule", ""), info.replace("\n", " | ")[:400]))
            if status in ("missed", "broken", "false-alarm"):
                bad += 1
    print("selftest: %d mutants, %d undetected/broken" % (len(sel), bad))
    return 2 if bad else 0


if __name__ == "__main__":
    sys.exit(main())
