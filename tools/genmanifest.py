#!/usr/bin/env python3
"""Generates /verif/MANIFEST.json from the table below (kept next to the rules)."""
import json, os
HERE = os.path.dirname(os.path.dirname(os.path.abspath(__file__)))

CLAIMED = {
 "C01": dict(
  text="Static analysis of /repo's type-checked SSA: decides structural necessary conditions of the capacity bound on every path and calling context - admission predicate dominance at every grant (AddLock) inside one shard-mutex critical section, the content of the admission predicate's true-paths, mutex-held at all 226 hold-state stores (interprocedural lock-state from goroutine roots), key re-check after taking a manager's mutex. It does not decide the concurrent behaviour of the lock-free key table or PriorityMutex; 'other' is the honest level: a necessary-condition checker, not an exploration or proof of the behaviour.",
  note="Trusted: Go type checker, go/ssa, VTA call graph, the explorer (path classes with fact pruning, phi resolution, callee summaries) and the tabled exemptions in internal/rules/c01.go. One abstract lock per mutex type.",
  technique="path-sensitive SSA dataflow (guard dominance, typestate of the shard mutex, interprocedural lock-state), custom checker",
  ref="DESIGN.md section 4 C01"),
 "C03": dict(
  text="Static analysis: on every path class of LockDB.Lock/UnLock (finishing helpers inlined, phi-resolved flags, correlated conditions) the request is answered exactly once or deferred exactly once; the three asynchronous repliers reply only after a test-and-set of the hold's tombstone inside one shard-mutex section, with the hold's own command/protocol; grants and cancellations tombstone the wait first; the text protocol's late-reply filter and request-id arming; pooled commands are never freed twice / while retained / before use. Necessary conditions only: cross-goroutine races beyond the mutex+tombstone premises and wire delivery are not decided, hence level 'other'.",
  note="Trusted: Go type checker, go/ssa, the explorer's path-class abstraction (facts pruned by liveness, phis of flags/pointers resolved, loops widened), reply = method named ProcessLockResultCommand[Locked].",
  technique="path-sensitive SSA typestate (reply linearity, tombstone test-and-set ordering, ownership of pooled commands), custom checker",
  ref="DESIGN.md section 4 C03"),
 "C04": dict(
  text="Static analysis: every store lowering a key's depth is followed on all paths to the function exit by the wake-up pass for the same manager (7 sites, condition-correlated through register snapshots); the pass re-reads the queue head after every grant and exits only on not-waited / nil head / inadmissible head; GetWaitLock returns Head() and discards only tombstoned or ack-pending entries; no barging past waiters on a held key without priority flag + strict priority test; AddWaitLock switches to the priority ring unless priorities cannot differ. Order inside the containers (C20 territory) and interleavings between an unlock and its pass are not decided, hence 'other'.",
  note="Trusted: Go type checker, go/ssa, the explorer; container methods (Head/Pop/Push/MaxPriority) are assumed to behave as a queue.",
  technique="path-sensitive SSA must-follow / guard-dominance analysis, custom checker",
  ref="DESIGN.md section 4 C04"),
 "C02": dict(
  text="Static analysis over every path class of LockDB.UnLock/Lock/cancelWaitLock/RemoveLock: the released hold is always the one found by LockId (or the oldest one under the unlock-first flag); refusal replies are reached without any engine mutation; depth arithmetic of unlock (one level vs whole depth, removal exactly when depth reaches 0) is classified per path from the branch history; the re-entrant increment carries its six guards; cancel-wait result codes; the holders' LockId index is kept in step on promotion/release. These are necessary conditions; the holder containers' own behaviour is not decided, hence 'other'.",
  note="Trusted: Go type checker, go/ssa, the explorer's path classes and branch history; GetLockedLock's containers are assumed to return a hold with the requested LockId.",
  technique="path-sensitive SSA guard/provenance analysis (value provenance through resolved phis, effect sets on refusal paths), custom checker",
  ref="DESIGN.md section 4 C02"),
 "C15": dict(
  text="Static analysis: on every path that applies a value operation and then answers, the reply's value is a GetLockData() result read before the operation in the same shard-mutex section (14 reply/operation pairs); refusal replies never follow a value operation; the operation switches are exhaustive over LOCK_DATA_COMMAND_TYPE_*; the Redis-style commands are registered in all three registries; published value frames are immutable (121 write sites in the value-operation code never target the manager's current frame). The byte surgery of each operation and the numeric results are not decided, hence 'other'.",
  note="Trusted: Go type checker, go/ssa, the explorer; slice-origin classification is flow-insensitive (may-alias through append, phis and local cells).",
  technique="path-sensitive SSA ordering analysis + slice-origin (may-alias) classification + switch/registry exhaustiveness over the typed syntax tree + def-use check of allocated frame headers, custom checker",
  ref="DESIGN.md section 4 C15"),
 "C17": dict(
  text="Static analysis: per path and per shard-mutex section of the eight engine functions (counter-writing helpers inlined), LockedCount moves iff the key depth moves and in the same direction, WaitCount++ pairs with AddWaitLock and WaitCount-- happens exactly once exactly where a queued request leaves the queue; reply count arguments originate from the manager's / hold's depth fields (42 reply sites); reference counts rise exactly for wheel insertions and ack registrations; every refCount decrement (23 sites) is followed by the zero test guarding FreeLock; RemoveLockManager clears the value and decrements KeyCount once. Magnitudes and drain-to-zero are runtime quantities and are not decided, hence 'other'.",
  note="Trusted: Go type checker, go/ssa, the explorer; tabled exceptions in internal/rules/c17.go (RemoveLock / RemoveLong* hand their zero test to callers; cancelWaitLock's unreachable holder arm).",
  technique="path-sensitive SSA effect pairing (counter/depth co-movement, reference-count balance, must-follow zero test) + value-origin typing of reply arguments, custom checker",
  ref="DESIGN.md section 4 C17"),
 "C10": dict(
  text="Static analysis: every engine mutation in LockDB.Lock/UnLock (72 sites) follows, inside the same shard-mutex section, a role test that found leader or a replay mark; the role field is only written with the shard mutexes held (interprocedural lock-state); follower-side protocols reach the local engine only after testing slock.state == LEADER; AOF/executor pushes are leader-only; a follower ends a replicated hold only after the 300 s leader-wait window; leader and follower text registries agree; the replay mark's provenance from client frames (reported as a known finding). Relaying fidelity and cross-node outcome equality need running nodes and are not decided, hence 'other'.",
  note="Trusted: Go type checker, go/ssa, VTA call graph, the explorer and lock-state engine; axiom: a LockDB has at least one shard (NewLockDB), so 'lock all shards' loops run at least once.",
  technique="path-sensitive SSA guard-dominance with critical-section scoping + interprocedural lock-state + registry comparison, custom checker",
  ref="DESIGN.md section 4 C10"),
 "C11": dict(
  text="Static analysis: DoAckLock(lock,true) is reachable only at the two ack counters on paths that counted down to zero under the ack table's mutex (13 call sites classified); no SUCCED on the ack-pending arms; every mutation of a hold found by LockId or taken as the manager's current hold by the unlock-first arm (46 sites) follows the not-pending test; the failure arm's effect order (undo value, log release, remove, RESULT_ERROR after the mutex, wake) and no stale pending test after RemoveLock; Flush acknowledges only after both writes and fails queued requests on every error return; failure hand-overs present in HandleLock and the ack table; the all/majority formulas. Run-time ordering of flush, acks and replies is not decided, hence 'other'.",
  note="Trusted: Go type checker, go/ssa, the explorer and its branch history.",
  technique="path-sensitive SSA typestate/ordering analysis (count-to-zero guard, effect sequences on failure paths), custom checker",
  ref="DESIGN.md section 4 C11"),
 "C05": dict(
  text="Static analysis: every store to a waiter's deadline has the value-origin now + T*unit + 1 with the unit selected by the matching flag tests on the path and the period widened before scaling (pure integer helpers are seen through); the second-wheel sweeper selects an entry only on timeoutTime <= now and retires the long-wait table only after Len() pops; wheel constants and slot choice keep entries ahead of the sweeper; requests queue only with Timeout > 0. The lower bound 'never early' follows from these for the second/minute wheels; the upper bound T+2 s and liveness of the sweepers are run-time quantities and are not decided, hence 'other'.",
  note="Trusted: Go type checker, go/ssa, the explorer's canonical value-origin expressions; tabled exceptions (keep-alive re-arm, clamp to sweeper position, constructor zero) in internal/rules/c05.go.",
  technique="value-origin (affine formula) analysis on canonical SSA expressions + path-sensitive guard dominance + constant relations, custom checker",
  ref="DESIGN.md section 4 C05/C06"),
 "C06": dict(
  text="Static analysis: every store to a hold's deadline is start + E*unit + 1 (start = current time, or the lock's startTime set from it on the same path) with matching unit flags, or the never-expiring sentinel only under the unlimited flag; never-early guard and complete long-table sweep in the expiry sweeper; wheel constants incl. the 10 s bound on the re-check back-off; doExpried's effect order (tombstone, free capacity, remove under the mutex; EXPRIED notice and wake-up after it); an update that changes the deadline of a long-table hold moves its entry. Upper bounds E+2 s / 10 s depend on sweeper liveness and are not decided, hence 'other'.",
  note="Trusted: as C05; tabled exceptions (not-yet-granted zero, keep-alive and follower re-arm, clamp) in internal/rules/c05.go.",
  technique="value-origin (affine formula) analysis on canonical SSA expressions + path-sensitive ordering/guard analysis + constant relations, custom checker",
  ref="DESIGN.md section 4 C05/C06"),
 "C14": dict(
  text="Static analysis by byte-layout extraction from SSA (constant-bound loops expanded): all 20 Encode/Decode pairs of package protocol are total over the 64 positions and mutually inverse on every field byte (600 field-byte obligations), LockCommand/LockResultCommand match the README offsets (124), the server's hand-inlined lock-frame decoders (every arm) and result encoder agree with the protocol package (188), every result code has a text rendering, and text COUNT/RCOUNT are the wire value +-1. The text parser's independence of chunking, Build/Parse round trips and key normalisation are not decided, hence 'other' (the codec part is exhaustive over positions, not over values - it needs no values because each byte is copied or shifted whole).",
  note="Trusted: Go type checker, go/ssa, the layout extractor (interprets byte stores, shifts with widening check, constant-bound loops, zero fills, string regions; anything else is reported as uninterpreted, never skipped).",
  technique="byte-layout extraction and writer/reader agreement over SSA (sibling-codec cross-check) + parser state-machine dominance and loop-carried-accumulator dataflow, custom checker",
  ref="DESIGN.md section 4 C14"),
 "C13": dict(
  text="Static analysis over a stated domain of crash sites reachable from client bytes: every index / re-slice of a text command's argument list (82 sites in 40+ handlers and converters, caller-guaranteed lengths propagated) is covered by a length test on its path; every result code has a text rendering; the four optional value pointers are dereferenced only after a non-nil test (201 sites, register-precise); value frames read from a connection or cut out of client bytes are length-tested before their 6-byte header and property header are indexed. Nine crash inputs found this way were reproduced and repaired with fix: commits. Sites outside the domain (indices through struct fields, data-dependent offsets, stride arithmetic) are counted, not claimed; overflow, allocation size, channel misuse and deadlock are not decided, hence 'other'.",
  note="Trusted: Go type checker, go/ssa, VTA call graph, the explorer's facts (interval reasoning on len tests); axiom: registry-dispatched handlers receive len(args) >= 1; one tabled nil-invariant (ProcessRecoverLockData).",
  technique="path-sensitive SSA bounds/nil-guard dataflow (minimum-length and non-nil facts, interprocedural argument-list lengths), custom checker",
  ref="DESIGN.md section 4 C13"),
 "C08": dict(
  text="Static analysis of the log reader/writer: no reader returns an error value that the path proves nil after a failure was detected (29 returns classified), ReadLock succeeds only on the full-record equality, the header checks, truncation of a sub-header file before re-heading, the value blob consumed before any skip decision and no callback after a failed value read, records written before values in Flush, and values buffered only together with records. The torn-record acceptance found this way was reproduced and repaired (fix: commit). Behaviour at each byte residue, crashes between the two writes and fsync timing need crash images and are not decided, hence 'other'.",
  note="Trusted: Go type checker, go/ssa, the explorer's facts and branch history; bufio.Reader.Read contract.",
  technique="path-sensitive SSA error-discipline and ordering analysis (nil-proven error returns, must-precede), custom checker",
  ref="DESIGN.md section 4 C08"),
 "C07": dict(
  text="Static analysis: the 64-byte log record's Encode/Decode are inverse on every field byte and agree with UpdateAofId and lockAcked's direct reads (87 obligations by layout extraction); every removal, depth change or update of a hold is logged before the shard mutex is released unless the path tested the hold as not persisted or the command is a replay; the lazy persistence hook's guards and its one-record-per-depth loop; value blobs written right after their announcing record and consumed before any skip; replayed records marked FROM_AOF and never re-logged. Numeric round trip of remaining lifetime, rotation and snapshot equality need a run and are not decided, hence 'other'.",
  note="Trusted: Go type checker, go/ssa, the layout extractor and the explorer.",
  technique="byte-layout writer/reader agreement + path-sensitive SSA must-log-before-release analysis, custom checker",
  ref="DESIGN.md section 4 C07"),
 "C16": dict(
  text="Static analysis of the compaction code: publish-before-retire ordering of the commit step (reported as a known finding: inputs are removed before the rename; reproduced with a crash image) and no file removal elsewhere in a compaction; test-and-set serialisation of compactions under the Aof mutex with the flag cleared on every exit (deferred closure inlined); only files strictly behind the current append index become inputs; the callback drops a record only when its database is gone or HasLock is false and copies value blobs iff announced; commit only after an error-free load with the temporary file flushed and closed. State equality before/after and racing appends need a run and are not decided, hence 'other'.",
  note="Trusted: Go type checker, go/ssa, the explorer (closures inlined); os.Rename atomicity.",
  technique="path-sensitive SSA ordering/typestate analysis of file-system effects (must-precede, test-and-set, drop-only-if guard) + read-set / write-set agreement on the rebuilt command, custom checker",
  ref="DESIGN.md section 4 C16"),
 "C09": dict(
  text="Static analysis of the shipping path: the ring cursor's success returns require sequence continuity (everything else is 'out of buf'); unknown resume positions are answered ERR_NOT_FOUND unless they equal the current position, and the follower then zeroes its position and asks for a full transfer; Aof.PushLock publishes every appended record to the ring on every path with the ring mutex taken before the append mutex is released; the follower hands every record to its three pipelines once each in order and terminates all three on every exit; the full-transfer bound is last offset + 1 and the file transfer stops at the bound. Ring overflow under slow followers, reconnect races and snapshot convergence need running nodes and are not decided, hence 'other'.",
  note="Trusted: Go type checker, go/ssa, the explorer and its branch history.",
  technique="path-sensitive SSA guard/typestate analysis (continuity guards, hand-over-hand lock order, channel fan-out sequence) + flow-graph path enumeration of the sending loop with linear entailment over its size tests, custom checker",
  ref="DESIGN.md section 4 C09"),
 "C12": dict(
  text="Static analysis of the election code, acceptor side: every store to the accepted / committed numbers in the four acceptor handlers is a guarded monotone store under the voter mutex (new > accepted, new > committed, no outstanding commit; commit only for the accepted proposal), every other store site of the two numbers is a listed lifecycle site; the candidate's three rounds succeed only on a majority; a vote reply is selected only after the eligibility filter dominates the assignment; proposals are refused when the member's own log is newer. Interleavings of two candidates, message loss, the uniqueness of the winner and persistence across restarts are not decided (the candidate-side stores and save points are listed, not proven), hence 'other'.",
  note="Trusted: Go type checker, go/ssa (dominator tree), the explorer's branch history; lifecycle table in internal/rules/c12.go.",
  technique="path-sensitive SSA guarded-monotone-store analysis + dominance check of the candidate filter + who-may-store table + who-must-call (save after commit) + file-list order dataflow, custom checker",
  ref="DESIGN.md section 4 C12"),
 "C18": dict(
  text="Static analysis of the disconnect path: Server.handle reaches the protocol's Close on every exit after a successful detection; each of the four Close methods is a test-and-set of closed under the connection mutex that takes the will queue (local copy, field cleared) before releasing it, repoints its proxies inside that section, drains from the head, and from the block that executes a popped will the only way out of the drain is the Pop that finds the queue empty (CFG reachability, helpers included); every will registration (8 sites, binary/text/forwarding) rewrites the command type to LOCK/UNLOCK before the push and calls no engine function; client-table lookups use the connection's own id, the entry is deleted only while it maps to this connection, and a closed connection never re-routes to itself. Two defects found this way were reproduced and repaired (fix: commits). Exactly-once under a close racing the drain, forwarding on a follower whose leader is unreachable and delivery after reconnect need running nodes and are not decided, hence 'other'.",
  note="Trusted: Go type checker, go/ssa, the explorer's branch history.",
  technique="path-sensitive SSA typestate/ordering analysis of Close (test-and-set, ownership transfer under mutex, must-reach) + CFG escape analysis of the drain loop + guard check on client-table updates + who-may-write (closed flag) and ownership (engine-owned command) rules, custom checker",
  ref="DESIGN.md section 4 C18"),
 "C19": dict(
  text="Static analysis of the client library's wire conventions, the structural part the primitives' guarantees rest on: every client.Lock literal built by Lock, RLock, RWLock, Semaphore, MaxConcurrentFlow, PriorityLock and Event (31 literals, helper constructors inlined) carries the count / re-entrancy / flag values of its primitive (value origin against a table taken from the protocol's meaning: exclusive 0/0, RLock 0xff, readers 0xffff, n-1, priority flag, event-mode counts and wait-when-unlocked); constructors and setters store n-1 exactly for n > 0 and keep the all-ones sentinels (path facts); the 20+ Lock methods pass their own id/timeout/expiry/count/rcount in the right argument position and doLock/doUnlock/Send* fill the LOCK/UNLOCK frame from the matching quantity (same-typed swaps compile); facades forward same-named quantities; the request table is registered before the write, cleaned on failing exits and a reply is delivered once to the waiter under its own RequestId; server reply buffer and client request buffer are only touched under the connection mutex. The guarantees themselves under concurrent schedules, pipelining and reconnects need a running server and are not decided, hence 'other'.",
  note="Trusted: Go type checker, go/ssa, the explorer's facts; the convention table in internal/rules/c19.go (derived from the server's admission rule: a key admits Count+1 holders, a hold Rcount+1 re-entries).",
  technique="value-origin analysis of struct literals and call arguments over SSA (convention table, sibling argument-position agreement) + path-sensitive n-1 normalisation facts + ordering/typestate of the request table + lock-held check on scratch buffers, custom checker",
  ref="DESIGN.md section 4 C19"),
 "C20": dict(
  text="Static analysis of six structural necessary conditions of queue refinement, and nothing more: the per-key wait and holder queues append to their inline slice only where the overflow ring / scale queue is absent or tested empty (the slice is served first, so anything else reorders); Pop and PopRight of the three segmented deques clear the slot they vacate (Restructuring re-pushes every non-nil slot); their Push stores at the tail cursor before advancing it and takes a new node when the cursor reaches the node size; element reads in Pop / PopRight / Head / Tail sit behind an emptiness test. The bulk of the property - the (node, index) cursor arithmetic across node boundaries, Len, growth, shrink, Resize / Rellac / Restructuring / Reset, iteration, the priority ring's order - needs an inductive invariant and is NOT decided; a wrong index computation there is not seen. Hence 'other', with a deliberately narrow claim.",
  note="Trusted: Go type checker, go/ssa, the explorer's branch history.",
  technique="path-sensitive SSA guard/ordering analysis of queue entry points (append-site guard, clear-before-return, store-before-advance, read-behind-test), custom checker",
  ref="DESIGN.md sections 4 C20 and 9.8"),
}

# rules added after the first build (independent seeded changes, refactoring experiments); DESIGN.md 9.3
ADDED = {
 "C01": "Also: a fresh manager is published only after ruling out an existing one for the key; a pooled manager's key is zeroed; GetOrNewDB is check-then-act under one mutex. A key's fast slot is cleared only after its manager was tombstoned or put into the slow map.",
 "C02": "Also: RemoveLock keeps the LockId index in step; cancelWaitLock selects only not-yet-answered queue entries. The holder lookup by LockId returns only live matching entries and reports a miss only after examining the inline slice and the overflow index. Every grant that adds a holder consults the holder index for the request's LockId first (known findings: wakeUpWaitLock does not - two queued requests with one LockId become two holds).",
 "C04": "Also: the FIFO-to-priority-ring switch condition and the arrival-order migration; the priority bypass is decided on path facts whether or not a helper holds it. A direct grant of a new holder in Lock is followed by the wake-up pass unless the waited flag was tested false; a queued request that times out or is cancelled is followed by the wake-up pass (defect repaired).",
 "C05": "Also: sweepers re-arm an entry only after testing its tombstone clear. A millisecond period handed to the second wheels is rounded up, not truncated (defect repaired: a 3999 ms wait was answered after 3.2 s). SSA dominance rule: the millisecond sweep's hand-over comparison covers every Timeout >= the wheel modulus taken from the filing function (C05/R9).",
 "C06": "Also: the long-table entry is removed under the deadline read before the update; re-arm only after the tombstone test; recycled long-wait buckets are re-initialised. The millisecond sweep must consult a field an update rewrites before ending a hold (known finding: it does not). A millisecond period handed to the second wheels is rounded up, not truncated (defect repaired). SSA dominance rule: the millisecond expiry sweep's hand-over comparison covers every Expried >= the wheel modulus (C06/R10).",
 "C07": "Also: log-file lists are snapshot-first; UnLock clears the persisted mark only with removal. A pooled Lock object enters or leaves the pool with its persisted mark cleared. A hold's persistence mode is never copied from another hold (known finding: later holders of a shared key inherit the first holder's mode). The expiry written to and read from the log is reduced by the age of the hold for every granularity (millisecond holds: defect repaired).",
 "C08": "Also: values buffered only with records; readers never return io.ReadFull's error unmapped; oversized values written directly only with the record buffer empty. Readers return a constructed error only about a completely read item; the newest append file is cut back to whole records before appending (three reproduced crash-recovery defects were repaired). Something must truncate the value file after a torn value (known finding: nothing does). A Truncate in AofFile.Open is made on files opened with O_APPEND, or a Seek follows. ReadTail reads the last whole record (defect repaired: a follower refused to start on a torn file).",
 "C09": "Also: receive ring >= queue capacity + 2; live append file touched only under the append mutex (a reproduced race was repaired); the ring examines all 16 id bytes. Pop tests continuity for every cursor and a cursor that does not get its position from the ring is positioned at ring.seq-1 before the answer (defect repaired: full transfer from an empty ring that overflows before the first Pop). The sender writes a record directly to the stream only with its batch buffer empty (flow-graph paths of one loop iteration, excluded by linear entailment over their size tests).",
 "C10": "Also: the follower's only local answer needs the concurrent-check flag and Timeout == 0; replayed holds are marked persisted independent of role. Server.handle re-dispatches the request a protocol object had already read when the role changed under it. The wake-up pass must test the role before granting (known finding: it does not).",
 "C11": "Also: a new ack table is recounted after publication; the queued timeout stays armed on the ack-pending wake-up path. ProcessLeaderPushLock tracks or fails a pending ack request on every return. The rollback clears the logged mark of every value object it restores. While the leader's flush and the followers' acknowledgements count down one counter, the required count exceeds the number of followers (known finding: majority mode with two or more followers does not need the leader's own write).",
 "C12": "Also: the outstanding-commit marker is cleared only at a closed list of points. The log-position comparator weighs the id bytes the way the log writes them, file index major (a reproduced ordering defect was repaired). The log-file list LoadMaxAofId scans for a member's restart position is snapshot-first. Every store that raises the committed number from a commit is followed by a save of the member state (known findings: none is - a restarted acceptor forgets the commit it answered).",
 "C13": "Also: parser upper bounds and the reply buffer's headroom by linear entailment; the recycled text reply is fully reassigned; fixed-capacity table indexes. Allocations sized by an integer decoded from the wire are bounded. Table indexes decoded from a client's message are bounded; slices of the stored frame bounded by request-supplied lengths stay within it; value-frame walkers are bounded by the frame (four reproduced crash inputs were repaired). GetValueOffset never points beyond the frame (reproduced crash inputs repaired).",
 "C14": "Also: parser cursors (two reproduced chunking defects repaired), key/id normaliser totality, converters define every wire field of the pooled command; no parser field is assigned from a loop-carried local; an empty list completes at the element-count line (defect repaired); the option loop ends after the rest of the arguments is handed to a nested conversion (defect repaired).",
 "C15": "Also: no aliasing of the stored value into results; the pre-operation value is read before it is cleared. Redis-style result writers say error only where the engine's result says so; a binary request's data frame is a private buffer. On a grant the key's depth is incremented before the value operation runs. No comparison mixes the request-type and value-operation enumerations (known finding: PIPELINE). Every allocated value frame that is handed on as a frame has its own length minus four stored in its first four bytes before the hand-over (29 allocations). The engine reads the stored bytes as an integer only under the NUMBER type mark (known finding: it does not - SET n 10, INCRBY n 1 answers 12338). SSA dominance rule: the stored frame is continued as an array only on the true side of IsArrayValue() (C15/R13).",
 "C16": "Also: replay quiescence is decided on the channels' queue counters (a reproduced start-up compaction race was repaired); nothing retired after publishing may be the published snapshot; log-file lists snapshot-first. HasLock reports a non-LOCK record gone only when no hold with its id exists. A compaction computes its input list once, before the load. The start-up compaction is started only after the replay wait. The temporary snapshot starts empty and the compaction's command carries every field HasLock reads (two defects repaired).",
 "C17": "Also: queue compaction and migration return the reference of every entry they drop. A function that answers a queued request itself tombstones it before scanning the wait queue. CFG reachability rule: a Lock.locked read used as a counter amount is not reachable from a call that may write Lock.locked (C17/R8).",
 "C18": "Also: AddProxy succeeds only after tracking the proxy. The code that registers a will does not return the registered command object to the pool. The will drain dispatches through the closing protocol object and every tracked proxy is repointed before the list is truncated; no reply is sent on the text reply channel once the connection is closed (a reproduced blocked Close was repaired). A lock command handed to the local engine is not freed by the caller; a re-INIT overwrites the client id only after the previous id's table entry is removed. The proxy re-routes through the client table only for an announced client id (defect repaired). A protocol's closed flag is set only by its own Close (known findings: two ADMIN branches mark the nested text protocol closed from outside, its wills never run).",
 "C03": "Also: the text protocol zeroes its request-id filter before handing a reply to the connection. UpdateLockedLock makes the request's command the hold's command on every path. Text handlers take the engine's answer out of the reply channel (a reproduced stale-reply defect of PUSH was repaired). Dominance rule shared with C02/R7: cancelWaitLock selects the waiter it answers only on the not-answered side of that entry's timeouted test (C03/R10).",
 "C20": "Also: slice-and-cursor queues reset the cursor whenever the slice is re-based; the wait queue's overflow field and its mode sentinel change together. The holder queue's IterNodes follows the index convention of IterNodeQueues. Exit-path rule: Pop/PopRight/Head/Tail of the three deques return the empty answer only after both cursor coordinates were compared (C20/R8). SSA store rule: the five restructure passes free a node only at nodeIndex and lower nodeIndex in the same block (C20/R9).",
 "C19": "Also: acquire methods report success only for result 0; the client reader decodes every reply into a fresh object. Lock ids come from protocol.GenLockId only. Server side of Event.Wait: the wake-up pass grants a waiter at depth 0 only after testing its unlock_to_wait flag (defect repaired).",
}

NA = {
}

def main():
    ids = ["C%02d" % i for i in range(1, 21)]
    checks, na = [], []
    for i in ids:
        if i in CLAIMED:
            c = CLAIMED[i]
            checks.append({
                "property_id": i,
                "quick_cmd": "./check.sh %s quick" % i,
                "thorough_cmd": "./check.sh %s thorough" % i,
                "evidence_file": "/verif/evidence/%s.json" % i,
                "replay_cmd_template": "cat {path}",
                "engine": "slockcheck",
                "level_claimed": {"category": "other", "text": (c["text"] + (" " + ADDED[i] if i in ADDED else "")), "design_ref": c["ref"] + " and 9.3"},
                "level_note": c["note"],
                "technique": c["technique"],
            })
        else:
            na.append({"property_id": i, "reason": NA.get(i, "check not built yet (planned, DESIGN.md section 4)")})
    m = {
        "version": 1,
        "setup_cmd": "./setup.sh",
        "hooks": {
            "guard": "verif",
            "enable": "none - static analysis reads /repo's working tree; no instrumentation is compiled in",
            "baseline_off_cmd": "cd /repo && GOFLAGS=-mod=mod GOPROXY=off GOSUMDB=off go test -json -vet=off -count=1 -timeout 25m ./...",
            "source_commits": [],
            "add_only": True,
        },
        "engines": [{"name": "slockcheck", "path": "/verif/cmd/slockcheck", "serves_properties": sorted(CLAIMED),
                     "kind_free_text": "repository-specific static analyser over go/packages + go/ssa + VTA call graph (golang.org/x/tools v0.29.0)"}],
        "checks": checks,
        "notes": "All claimed checks are static analysis at level 'other' (structural necessary conditions); see DESIGN.md. Exit 2 = the checker could not decide (missing anchor, cap, self-test failure) and prints no VIOLATION line.",
        "not_applicable": na,
    }
    json.dump(m, open(os.path.join(HERE, "MANIFEST.json"), "w"), indent=1)
    print("MANIFEST.json: %d checks, %d not_applicable" % (len(checks), len(na)))

if __name__ == "__main__":
    main()
