#!/usr/bin/env python3
"""usage: import_seed.py <seedout-dir> <id>   e.g. /tmp/seedout2/C11/c C11c
Confirms the change with tools/verify_seed.sh (scratch worktree of /repo HEAD)
and, if confirmed, stores it as seeded/<id>/ (patch.diff, demonstration, meta.json)."""
import json, os, subprocess, sys, shutil, glob
HERE = os.path.dirname(os.path.dirname(os.path.abspath(__file__)))
src, sid = sys.argv[1], sys.argv[2]
out = "/tmp/seedverify"
p = subprocess.run([os.path.join(HERE, "tools/verify_seed.sh"), src, sid, out], capture_output=True, text=True)
vf = os.path.join(out, sid + ".verify.json")
if not os.path.exists(vf):
    print(sid, "verify failed to run", p.stdout[-300:], p.stderr[-300:]); sys.exit(2)
v = json.load(open(vf))
print(sid, json.dumps(v))
if not v["confirmed"]:
    sys.exit(1)
dst = os.path.join(HERE, "seeded", sid)
os.makedirs(dst, exist_ok=True)
shutil.copy(os.path.join(src, "patch.diff"), dst)
demo = None
for f in glob.glob(os.path.join(src, "*_test.go")):
    shutil.copy(f, dst); demo = os.path.basename(f)
am = json.load(open(os.path.join(src, "meta.json")))
m = {"id": sid, "property": am.get("property", sid[:3]), "summary": am.get("summary", ""), "needs_to_manifest": am.get("needs_to_manifest", ""),
     "demo_file": demo, "demo_goes_in": v["pkg"] + "/", "demo_cmd": "go test -vet=off -count=1 -run %s ./%s/" % (v["test"], v["pkg"]),
     "confirmed_by_me": {"how": "tools/verify_seed.sh in a scratch git worktree of /repo HEAD (including the fix: commits): demonstration run without the patch, patch applied with git apply, go build ./..., existing suite (go test ./protocol/... ./server/...), demonstration run with the patch; worktree removed afterwards",
                         "patch_applies": v["patch_applies"], "demo_without_patch_rc": v["demo_without_patch_rc"], "build_rc": v["build_rc"], "existing_suite_rc": v["existing_suite_rc"], "demo_with_patch_rc": v["demo_with_patch_rc"], "confirmed": v["confirmed"]},
     "origin": "independent sub-agent given only the property text and a scratch worktree (round %s, after the checks existed)" % os.environ.get("SEED_ROUND", "2"),
     "detected_by": "", "detected_by_all": [], "checks_run": [], "undecided_checks": []}
json.dump(m, open(os.path.join(dst, "meta.json"), "w"), indent=1)
