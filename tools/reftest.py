#!/usr/bin/env python3
"""Runs every registered check against behaviour-preserving patches (scratch copies of /repo, removed afterwards).
A non-zero exit of any check is a false alarm (exit 1) or an over-strict floor/anchor (exit 2).
usage: reftest.py <dir-with-*/patch.diff> [--jobs N]"""
import json, os, re, subprocess, sys, tempfile, shutil, glob, concurrent.futures as cf
HERE = os.path.dirname(os.path.dirname(os.path.abspath(__file__)))
ENV = dict(os.environ, GOFLAGS="-mod=mod", GOPROXY="off", GOSUMDB="off", GOTOOLCHAIN="local"); ENV.pop("GOWORK", None)
props = [c["property_id"] for c in json.load(open(os.path.join(HERE, "MANIFEST.json")))["checks"]]
if os.environ.get("PROPS"):  # e.g. PROPS=C03,C20 after a rule change in those properties only
    props = os.environ["PROPS"].split(",")
def run(patch):
    d = tempfile.mkdtemp(prefix="slockref.")
    try:
        os.makedirs(d + "/repo"); os.makedirs(d + "/verif")
        subprocess.run("git -C /repo archive HEAD | tar -x -C %s/repo" % d, shell=True, check=True)
        p = subprocess.run(["git", "apply", patch], cwd=d + "/repo", capture_output=True, text=True)
        if p.returncode != 0:
            return patch, None, "patch does not apply: " + p.stderr[-200:]
        shutil.copy(os.path.join(HERE, "known_findings.json"), d + "/verif")
        res = {}
        # one process, one loaded program, every registered check in turn
        c = subprocess.run([os.environ.get("SLOCKCHECK_BIN", os.path.join(HERE, "bin/slockcheck")), "-repo", d + "/repo", "-verif", d + "/verif", "-property", ",".join(props)], env=ENV, capture_output=True, text=True)
        rcs = dict(re.findall(r"^RESULT property=(C\d+) rc=(\d+)$", c.stdout, re.M))
        if len(rcs) != len(props):
            return patch, None, "checker did not report every property: " + c.stdout[-300:] + c.stderr[-300:]
        for prop in props:
            if rcs[prop] != "0":
                lines = [l for l in c.stdout.splitlines() if re.search(r"\[%s/R|CHECKER-FAILURE property=%s|panic" % (prop, prop), l)]
                res[prop] = (int(rcs[prop]), lines[:6])
        return patch, res, ""
    finally:
        shutil.rmtree(d, ignore_errors=True)
def main():
    jobs = 4
    args = [a for a in sys.argv[1:] if not a.startswith("--")]
    if "--jobs" in sys.argv:
        jobs = int(sys.argv[sys.argv.index("--jobs") + 1]); args = [a for a in args if a != str(jobs)]
    patches = sorted(glob.glob(os.path.join(args[0], "*", "patch.diff")))
    bad = 0
    with cf.ThreadPoolExecutor(max_workers=jobs) as ex:
        for patch, res, err in ex.map(run, patches):
            if res is None:
                print(patch, "ERROR", err); continue
            if not res:
                print(patch, "silent (all %d checks exit 0)" % len(props))
            for prop, (rc, lines) in sorted(res.items()):
                bad += 1
                print(patch, prop, "exit", rc)
                for l in lines: print("     ", l[:300])
    sys.exit(1 if bad else 0)
main()
