package core

import (
	"sort"
	"strconv"
	"strings"
)

// Lin is a linear form C + sum(coef * term) over canonical leaf expressions.
// It is the value domain of the few rules that have to relate two symbolic
// quantities (cursor vs. buffer length, write index vs. capacity); everything
// else in the framework compares an expression with a constant.
type Lin struct {
	C int64
	T map[string]int64
}

func LinConst(c int64) Lin { return Lin{C: c, T: map[string]int64{}} }

func LinTerm(t string) Lin { return Lin{T: map[string]int64{t: 1}} }

func (a Lin) Add(b Lin) Lin {
	r := Lin{C: a.C + b.C, T: map[string]int64{}}
	for k, v := range a.T {
		r.T[k] += v
	}
	for k, v := range b.T {
		r.T[k] += v
	}
	for k, v := range r.T {
		if v == 0 {
			delete(r.T, k)
		}
	}
	return r
}

func (a Lin) Scale(k int64) Lin {
	r := Lin{C: a.C * k, T: map[string]int64{}}
	for t, v := range a.T {
		if v*k != 0 {
			r.T[t] = v * k
		}
	}
	return r
}

func (a Lin) Sub(b Lin) Lin { return a.Add(b.Scale(-1)) }

// Subst replaces term t by the form v.
func (a Lin) Subst(t string, v Lin) Lin {
	c, ok := a.T[t]
	if !ok {
		return a
	}
	r := Lin{C: a.C, T: map[string]int64{}}
	for k, x := range a.T {
		if k != t {
			r.T[k] = x
		}
	}
	return r.Add(v.Scale(c))
}

func (a Lin) IsConst() bool { return len(a.T) == 0 }

func (a Lin) String() string {
	var ks []string
	for k := range a.T {
		ks = append(ks, k)
	}
	sort.Strings(ks)
	var sb strings.Builder
	sb.WriteString(strconv.FormatInt(a.C, 10))
	for _, k := range ks {
		sb.WriteString(" + ")
		sb.WriteString(strconv.FormatInt(a.T[k], 10))
		sb.WriteString("*")
		sb.WriteString(k)
	}
	return sb.String()
}

// ParseLin parses a canonical expression ("(a + b)", "(a - 1)", "len(x)",
// "int(len(x))", constants) into a linear form; anything it does not
// understand becomes an opaque term. Callers must not mix register snapshots
// (names carrying SnapMark) with current field values.
func ParseLin(s string) Lin {
	s = strings.TrimSpace(s)
	if n, err := strconv.ParseInt(s, 10, 64); err == nil {
		return LinConst(n)
	}
	// value-preserving conversions of non-negative quantities
	for _, conv := range []string{"int(", "int64(", "uint32(", "uint64(", "uint(", "int32("} {
		if strings.HasPrefix(s, conv) && strings.HasSuffix(s, ")") && balanced(s[len(conv):len(s)-1]) {
			return ParseLin(s[len(conv) : len(s)-1])
		}
	}
	if len(s) >= 2 && s[0] == '(' && s[len(s)-1] == ')' && balanced(s[1:len(s)-1]) {
		in := s[1 : len(s)-1]
		depth := 0
		// last top-level " + " / " - " (left associative)
		for i := len(in) - 1; i >= 0; i-- {
			switch in[i] {
			case ')', ']':
				depth++
			case '(', '[':
				depth--
			}
			if depth == 0 && i+3 <= len(in) && i > 0 {
				if in[i:i+3] == " + " {
					return ParseLin(in[:i]).Add(ParseLin(in[i+3:]))
				}
				if in[i:i+3] == " - " {
					return ParseLin(in[:i]).Sub(ParseLin(in[i+3:]))
				}
			}
		}
		// (k * x) / (x * k)
		depth = 0
		for i := 0; i+3 <= len(in); i++ {
			switch in[i] {
			case '(', '[':
				depth++
			case ')', ']':
				depth--
			}
			if depth == 0 && in[i:i+3] == " * " {
				l, r := ParseLin(in[:i]), ParseLin(in[i+3:])
				if l.IsConst() {
					return r.Scale(l.C)
				}
				if r.IsConst() {
					return l.Scale(r.C)
				}
			}
		}
		return LinTerm(s)
	}
	return LinTerm(s)
}

func balanced(s string) bool {
	d := 0
	for _, c := range s {
		switch c {
		case '(', '[':
			d++
		case ')', ']':
			d--
			if d < 0 {
				return false
			}
		}
	}
	return d == 0
}

// AtomLin turns an atom (ops == != < <=) into forms that are >= 0.
func AtomLin(a Atom) []Lin {
	l, r := ParseLin(a.L), ParseLin(a.R)
	switch a.Op {
	case "<":
		return []Lin{r.Sub(l).Add(LinConst(-1))}
	case "<=":
		return []Lin{r.Sub(l)}
	case "==":
		return []Lin{r.Sub(l), l.Sub(r)}
	}
	return nil
}

// LinEntails reports whether target >= 0 follows from facts (each >= 0) by a
// non-negative integer combination of at most three facts (with repetition):
// target - sum(facts) must be a non-negative constant. Sound, deliberately
// incomplete.
func LinEntails(facts []Lin, target Lin) bool {
	ok := func(x Lin) bool { return x.IsConst() && x.C >= 0 }
	if ok(target) {
		return true
	}
	n := len(facts)
	for i := 0; i < n; i++ {
		t1 := target.Sub(facts[i])
		if ok(t1) {
			return true
		}
		for j := i; j < n; j++ {
			t2 := t1.Sub(facts[j])
			if ok(t2) {
				return true
			}
			for k := j; k < n; k++ {
				if ok(t2.Sub(facts[k])) {
					return true
				}
			}
		}
	}
	return false
}

// ParseAtom splits the text of a recorded branch atom ("L op R") at its
// top-level comparison operator.
func ParseAtom(s string) (Atom, bool) {
	depth := 0
	for i := 0; i < len(s); i++ {
		switch s[i] {
		case '(', '[':
			depth++
		case ')', ']':
			depth--
		case ' ':
			if depth != 0 {
				continue
			}
			for _, op := range []string{" == ", " != ", " <= ", " < "} {
				if strings.HasPrefix(s[i:], op) {
					return Atom{L: s[:i], Op: strings.TrimSpace(op), R: s[i+len(op):]}, true
				}
			}
		}
	}
	return Atom{}, false
}
