package core

import (
	"fmt"
	"go/types"
	"os"
	"sort"
	"strings"

	"golang.org/x/tools/go/ssa"
)

var debugExplore = os.Getenv("SLOCKCHECK_TRACE") != ""

// State is the explorer's abstract state at a program point of one path
// class: tracked facts, value bindings (resolved phis, local cells, inlined
// call results), pending defers and the rule's own key/value state.
type State struct {
	Facts  Facts
	Env    map[ssa.Value]Expr
	RS     map[string]string
	Hist   map[string]bool // plain text of rule-tracked atoms decided on this path (history, never invalidated)
	Defers []ssa.CallInstruction
	Trace  []string // diagnostic only (not part of the key): branch decisions
}

func (s *State) clone() *State {
	n := &State{Facts: s.Facts.clone(), Env: make(map[ssa.Value]Expr, len(s.Env)), RS: make(map[string]string, len(s.RS)), Hist: make(map[string]bool, len(s.Hist))}
	for k := range s.Hist {
		n.Hist[k] = true
	}
	for k, v := range s.Env {
		n.Env[k] = v
	}
	for k, v := range s.RS {
		n.RS[k] = v
	}
	n.Defers = append([]ssa.CallInstruction(nil), s.Defers...)
	n.Trace = append([]string(nil), s.Trace...)
	return n
}

func (s *State) key() string {
	var sb strings.Builder
	sb.WriteString(s.Facts.key())
	sb.WriteString("|")
	ek := make([]string, 0, len(s.Env))
	for v, e := range s.Env {
		ek = append(ek, v.Parent().Name()+"."+v.Name()+"="+e.S)
	}
	sort.Strings(ek)
	sb.WriteString(strings.Join(ek, ";"))
	sb.WriteString("|")
	rk := make([]string, 0, len(s.RS))
	for k, v := range s.RS {
		rk = append(rk, k+"="+v)
	}
	sort.Strings(rk)
	sb.WriteString(strings.Join(rk, ";"))
	sb.WriteString("|")
	hk := make([]string, 0, len(s.Hist))
	for k := range s.Hist {
		hk = append(hk, k)
	}
	sort.Strings(hk)
	sb.WriteString(strings.Join(hk, ";"))
	sb.WriteString("|")
	for _, d := range s.Defers {
		sb.WriteString(siteName(d))
		sb.WriteString(",")
	}
	return sb.String()
}

// NewState returns an empty state.
func NewState() *State {
	return &State{Facts: Facts{m: map[string]Atom{}}, Env: map[ssa.Value]Expr{}, RS: map[string]string{}, Hist: map[string]bool{}}
}

// X is the context handed to rule callbacks.
type X struct {
	E        *Explorer
	Fr       *Frame
	St       *State
	Ins      ssa.Instruction
	Deferred bool // Ins is a deferred call being run at function exit
	killed   bool
}

// Canon returns the canonical expression of v on the current path.
func (x *X) Canon(v ssa.Value) Expr { return canon(x.Fr, x.St.Env, v, 0) }

// Kill abandons the current path (the rule declares it irrelevant).
func (x *X) Kill() { x.killed = true }

// Get / Set access the rule state.
func (x *X) Get(k string) string { return x.St.RS[k] }
func (x *X) Set(k, v string) {
	if v == "" {
		delete(x.St.RS, k)
	} else {
		x.St.RS[k] = v
	}
}

// AddFact records a sticky fact established by the rule (e.g. a field just
// assigned a freshly allocated object is non-nil).
func (x *X) AddFact(a Atom) {
	a.Sticky = true
	a.Frame = x.Fr.ID
	x.St.Facts.Add(a)
}

// Passed reports whether a rule-tracked branch with this (plain) atom text was
// taken earlier on the path, regardless of later writes to its operands.
func (x *X) Passed(text string) bool { return x.St.Hist[text] }

// Pos renders the current instruction's position.
func (x *X) Pos() string { return x.E.P.InstrPos(x.Ins) }

// Top reports whether the current frame is the function being analysed.
func (x *X) Top() bool {
	for f := x.Fr; f.Parent != nil; f = f.Parent {
		if !f.Transparent {
			return false
		}
	}
	return true
}

// StaticCallee returns the static callee of the current call instruction.
func StaticCallee(ins ssa.Instruction) *ssa.Function {
	if c, ok := ins.(ssa.CallInstruction); ok {
		return c.Common().StaticCallee()
	}
	return nil
}

// CallName returns the method/function name of a call instruction and, for
// interface invocations, true.
func CallName(ins ssa.Instruction) (string, bool) {
	c, ok := ins.(ssa.CallInstruction)
	if !ok {
		return "", false
	}
	com := c.Common()
	if com.IsInvoke() {
		return com.Method.Name(), true
	}
	if f := com.StaticCallee(); f != nil {
		return f.Name(), false
	}
	if b, ok := com.Value.(*ssa.Builtin); ok {
		return b.Name(), false
	}
	return "", false
}

// CallArgs returns receiver (if any) followed by the arguments.
func CallArgs(ins ssa.Instruction) []ssa.Value {
	c, ok := ins.(ssa.CallInstruction)
	if !ok {
		return nil
	}
	com := c.Common()
	if com.IsInvoke() {
		return append([]ssa.Value{com.Value}, com.Args...)
	}
	return com.Args
}

// Hooks are the rule callbacks; any may be nil.
type Hooks struct {
	// Inline decides whether a statically resolved call is explored inline.
	Inline func(x *X, callee *ssa.Function) bool
	// Instr is called for every non-phi instruction before generic handling
	// (in inlined frames too; use x.Top() to distinguish).
	Instr func(x *X)
	// After is called after the generic handling (fact invalidation) of an
	// instruction of the analysed function; facts added here survive it.
	After func(x *X)
	// Track decides whether a branch atom is recorded as a fact (in addition
	// to the automatic policy: atoms tested more than once in the function).
	Track func(x *X, a Atom) bool
	// Infeasible declares a branch outcome impossible by an axiom of the rule
	// (stated in its evidence), e.g. "a database has at least one shard".
	Infeasible func(a Atom) bool
	// ResolvePhi forces path-sensitive resolution of additional phis.
	ResolvePhi func(phi *ssa.Phi) bool
	// Branch observes a decided branch (after feasibility pruning).
	Branch func(x *X, a Atom)
	// Call lets the rule model a call by a summary: it returns the possible
	// outcomes (rule-state updates and an optional constant result). handled
	// = false falls back to inlining / opaque treatment.
	Call func(x *X, site ssa.CallInstruction) (outs []CallOut, handled bool)
	// InlineReturn observes the return of an inlined callee (x.Fr is the
	// callee frame, rets the canonical results).
	InlineReturn func(x *X, callee *ssa.Function, rets []Expr)
	// Exit is called at every return of the analysed (top) function, after
	// its deferred calls ran.
	Exit func(x *X, rets []Expr)
	// PanicExit is called when a path ends in an explicit panic.
	PanicExit func(x *X)
}

// CallOut is one summarised outcome of a call.
type CallOut struct {
	Set map[string]string // rule-state assignments ("" deletes)
	Ret string            // "" = unknown result, else canonical constant ("true", "false", "nil", ...)
}

// Explorer walks all path classes of a function.
type Explorer struct {
	P        *Prog
	H        Hooks
	MaxDepth int
	MaxSteps int
	// results
	Steps        int
	Paths        int
	Imprecise    string // non-empty when a cap was hit
	AutoTrack    bool
	NoHist       bool // do not record branch history (rules that only need current facts, in loops)
	NoAutoInline bool // do not look through functions unknown to the baseline
	NoForkBool   bool // do not materialise non-constant boolean results of inlined callees
	memo         map[string][]exitRec
	condCount    map[string]map[string]int
	infos        map[string]*fnInfo
}

type exitRec struct {
	st   *State
	rets []Expr
}

// NewExplorer returns an explorer with default bounds.
func NewExplorer(p *Prog, h Hooks) *Explorer {
	return &Explorer{P: p, H: h, MaxDepth: 4, MaxSteps: 3_000_000, AutoTrack: true,
		memo: map[string][]exitRec{}, condCount: map[string]map[string]int{}, infos: map[string]*fnInfo{}}
}

// Run explores fn from an initial state; Exit hooks fire for every exit.
func (e *Explorer) Run(fn *ssa.Function, init *State) {
	if init == nil {
		init = NewState()
	}
	fr := &Frame{Fn: fn}
	exits := e.runFrame(fr, init)
	e.Paths += len(exits)
}

// conds pre-computes, per frame, how often each canonical condition occurs in
// the function, so that repeated tests are tracked automatically.
func (e *Explorer) conds(fr *Frame) map[string]int {
	key := fr.ID + "#" + FuncName(fr.Fn)
	if m, ok := e.condCount[key]; ok {
		return m
	}
	m := map[string]int{}
	for _, b := range fr.Fn.Blocks {
		if len(b.Instrs) == 0 {
			continue
		}
		if iff, ok := b.Instrs[len(b.Instrs)-1].(*ssa.If); ok {
			a := condAtom(fr, nil, iff.Cond)
			m[pairKey(a)]++
			if a2 := condAtom(fr, entryConstEnv(fr.Fn), iff.Cond); pairKey(a2) != pairKey(a) {
				m[pairKey(a2)]++
			}
		}
	}
	e.condCount[key] = m
	return m
}

// entryConstEnv binds every data phi to the constant arriving on a loop-entry
// edge (if any): the value the loop test sees the first time.
var entryEnvs = map[*ssa.Function]map[ssa.Value]Expr{}

func entryConstEnv(fn *ssa.Function) map[ssa.Value]Expr {
	if m, ok := entryEnvs[fn]; ok {
		return m
	}
	m := map[ssa.Value]Expr{}
	for _, b := range fn.Blocks {
		for _, ins := range b.Instrs {
			phi, ok := ins.(*ssa.Phi)
			if !ok {
				break
			}
			for i, ed := range phi.Edges {
				if c, isC := ed.(*ssa.Const); isC && i < len(b.Preds) && !b.Dominates(b.Preds[i]) {
					m[phi] = Expr{S: constString(c)}
					break
				}
			}
		}
	}
	entryEnvs[fn] = m
	return m
}

func pairKey(a Atom) string {
	l, r := snapKey(a.L), snapKey(a.R)
	if a.Op == "<" || a.Op == "<=" {
		if l > r {
			return r + "~" + l
		}
	}
	return l + "~" + r
}

// snapKey reduces an operand naming a register snapshot to the snapshot's
// identity, so that static and path-resolved spellings of its base agree.
func snapKey(s string) string {
	if i := strings.LastIndex(s, SnapMark+"@"); i >= 0 {
		return s[i:]
	}
	return s
}

func (e *Explorer) tracked(x *X, a Atom) (track, sticky bool) {
	if e.H.Track != nil {
		if e.H.Track(x, a) || e.H.Track(x, a.Neg()) {
			return true, true
		}
		// a test of a register copy (n := x.f; if n&4 != 0) names its operand
		// x.f'@id: rules describe atoms by field paths, so ask again without
		// the snapshot identities
		if strings.Contains(a.L, SnapMark) || strings.Contains(a.R, SnapMark) {
			pa := a
			pa.L, pa.R = Plain(a.L), Plain(a.R)
			if e.H.Track(x, pa) || e.H.Track(x, pa.Neg()) {
				return true, true
			}
		}
	}
	if !e.AutoTrack {
		return false, false
	}
	if e.conds(x.Fr)[pairKey(a)] >= 2 {
		return true, false
	}
	return false, false
}

// resolvePhi decides whether a phi is bound to its incoming operand on each
// path (flags, object identities) or kept opaque (numbers, slices, strings:
// loop-carried data whose resolution only multiplies states).
func (e *Explorer) resolvePhi(phi *ssa.Phi) bool {
	if e.H.ResolvePhi != nil && e.H.ResolvePhi(phi) {
		return true
	}
	switch t := phi.Type().Underlying().(type) {
	case *types.Basic:
		return t.Kind() == types.Bool || t.Kind() == types.UntypedBool
	case *types.Pointer, *types.Interface:
		return true
	}
	return false
}

// fnInfo caches per-function reachability and condition sites for pruning.
type fnInfo struct {
	reach    [][]bool            // reach[b][c]: block c reachable from b (incl. b)
	condAt   map[string][]int    // static pairKey -> blocks whose If tests it
	useBlock map[ssa.Value][]int // transitive user blocks of a value
}

func (e *Explorer) info(fr *Frame) *fnInfo {
	key := fr.ID + "#" + FuncName(fr.Fn)
	if fi, ok := e.infos[key]; ok {
		return fi
	}
	fn := fr.Fn
	n := len(fn.Blocks)
	fi := &fnInfo{reach: make([][]bool, n), condAt: map[string][]int{}, useBlock: map[ssa.Value][]int{}}
	for i := range fn.Blocks {
		r := make([]bool, n)
		stack := []*ssa.BasicBlock{fn.Blocks[i]}
		for len(stack) > 0 {
			b := stack[len(stack)-1]
			stack = stack[:len(stack)-1]
			if r[b.Index] {
				continue
			}
			r[b.Index] = true
			stack = append(stack, b.Succs...)
		}
		fi.reach[i] = r
	}
	for _, b := range fn.Blocks {
		if len(b.Instrs) == 0 {
			continue
		}
		if iff, ok := b.Instrs[len(b.Instrs)-1].(*ssa.If); ok {
			a := condAtom(fr, nil, iff.Cond)
			fi.condAt[pairKey(a)] = append(fi.condAt[pairKey(a)], b.Index)
			if a2 := condAtom(fr, entryConstEnv(fr.Fn), iff.Cond); pairKey(a2) != pairKey(a) {
				fi.condAt[pairKey(a2)] = append(fi.condAt[pairKey(a2)], b.Index)
			}
		}
	}
	e.infos[key] = fi
	return fi
}

func (fi *fnInfo) usesOf(v ssa.Value) []int {
	if u, ok := fi.useBlock[v]; ok {
		return u
	}
	seenB := map[int]bool{}
	seenV := map[ssa.Value]bool{}
	var walk func(x ssa.Value)
	walk = func(x ssa.Value) {
		if seenV[x] {
			return
		}
		seenV[x] = true
		refs := x.Referrers()
		if refs == nil {
			return
		}
		for _, ins := range *refs {
			if ins.Block() != nil {
				seenB[ins.Block().Index] = true
			}
			if val, ok := ins.(ssa.Value); ok {
				walk(val)
			}
		}
	}
	walk(v)
	var out []int
	for b := range seenB {
		out = append(out, b)
	}
	fi.useBlock[v] = out
	return out
}

// prune drops facts no later branch can test again and bindings of values
// with no remaining (transitive) uses, so that independent sequential tests
// do not multiply states. Rule-tracked (sticky) facts are kept.
func (e *Explorer) prune(fr *Frame, st *State, b *ssa.BasicBlock) {
	fi := e.info(fr)
	reach := fi.reach[b.Index]
	for k, a := range st.Facts.m {
		if a.Sticky || a.Frame != fr.ID {
			continue
		}
		live := false
		for _, cb := range fi.condAt[pairKey(a)] {
			if reach[cb] {
				live = true
				break
			}
		}
		if !live {
			delete(st.Facts.m, k)
		}
	}
	for v := range st.Env {
		if v.Parent() != fr.Fn {
			continue
		}
		var base ssa.Value = v
		if c, ok := v.(*cellVal); ok {
			base = c.Alloc
		}
		live := false
		for _, ub := range fi.usesOf(base) {
			if reach[ub] {
				live = true
				break
			}
		}
		if !live {
			delete(st.Env, v)
		}
	}
}

type workItem struct {
	b    *ssa.BasicBlock
	pred *ssa.BasicBlock
	st   *State
}

func (e *Explorer) runFrame(fr *Frame, st0 *State) []exitRec {
	if fr.Fn.Blocks == nil {
		return []exitRec{{st: st0}}
	}
	var exits []exitRec
	seen := map[string]bool{}
	work := []workItem{{b: fr.Fn.Blocks[0], st: st0}}
	for len(work) > 0 {
		it := work[len(work)-1]
		work = work[:len(work)-1]
		if e.Imprecise != "" {
			return exits
		}
		st := it.st
		b := it.b
		// phi resolution on the incoming edge
		idx := 0
		if it.pred != nil {
			pi := -1
			for i, p := range b.Preds {
				if p == it.pred {
					pi = i
					break
				}
			}
			var binds []struct {
				phi *ssa.Phi
				e   Expr
			}
			for _, ins := range b.Instrs {
				phi, ok := ins.(*ssa.Phi)
				if !ok {
					break
				}
				idx++
				if pi >= 0 {
					// Evaluate the incoming operand with the phi itself opaque:
					// a self-dependent value (loop induction) is widened to the
					// opaque phi so that loops reach a fixed point.
					old, had := st.Env[phi]
					marker := Expr{S: "phi" + fr.vid(phi)}
					st.Env[phi] = marker
					ev := snapCanon(fr, st.Env, phi.Edges[pi], phi)
					if had {
						st.Env[phi] = old
					} else {
						delete(st.Env, phi)
					}
					if !e.resolvePhi(phi) {
						// data phis stay opaque, except that a constant
						// arriving on a loop-entry (non-back) edge is kept so
						// that zero-trip tests of sibling loops correlate
						if _, isC := phi.Edges[pi].(*ssa.Const); !isC || b.Dominates(it.pred) {
							ev = marker
						}
					}
					if strings.Contains(ev.S, marker.S) || len(ev.S) > 400 ||
						(had && old.S != "" && ev.S != old.S && len(ev.S) > len(old.S) && strings.Contains(ev.S, old.S) && !isConstStr(ev.S)) {
						ev = marker
					}
					binds = append(binds, struct {
						phi *ssa.Phi
						e   Expr
					}{phi, ev})
				}
			}
			for _, bd := range binds { // parallel assignment
				st.Facts.killMention(fr.vid(bd.phi))
				st.Env[bd.phi] = bd.e
			}
		} else {
			for _, ins := range b.Instrs {
				if _, ok := ins.(*ssa.Phi); !ok {
					break
				}
				idx++
			}
		}
		e.prune(fr, st, b)
		k := fmt.Sprintf("%d|%s", b.Index, st.key())
		if seen[k] {
			continue
		}
		seen[k] = true
		if debugExplore && len(seen)%300 == 0 {
			fmt.Fprintf(os.Stderr, "explore %s: seen=%d work=%d block=%d key=%.3000s\n", FuncName(fr.Fn), len(seen), len(work), b.Index, k)
		}

		states := []*State{st}
		for i := idx; i < len(b.Instrs); i++ {
			ins := b.Instrs[i]
			var next []*State
			switch t := ins.(type) {
			case *ssa.If:
				for _, s := range states {
					e.branch(fr, s, t, b, &work)
				}
			case *ssa.Jump:
				for _, s := range states {
					work = append(work, workItem{b: b.Succs[0], pred: b, st: s})
				}
			case *ssa.Return:
				for _, s := range states {
					var rets []Expr
					for _, r := range t.Results {
						rets = append(rets, canon(fr, s.Env, r, 0))
					}
					exits = append(exits, exitRec{st: s, rets: rets})
					if fr.Parent == nil && e.H.Exit != nil {
						x := &X{E: e, Fr: fr, St: s, Ins: t}
						e.H.Exit(x, rets)
					}
				}
			case *ssa.Panic:
				for _, s := range states {
					x := &X{E: e, Fr: fr, St: s, Ins: t}
					if e.H.Instr != nil {
						e.H.Instr(x)
					}
					if e.H.PanicExit != nil {
						e.H.PanicExit(x)
					}
				}
			default:
				for _, s := range states {
					next = append(next, e.step(fr, s, ins)...)
				}
				states = next
				continue
			}
			break
		}
	}
	return exits
}

func (e *Explorer) branch(fr *Frame, s *State, iff *ssa.If, b *ssa.BasicBlock, work *[]workItem) {
	e.Steps++
	x := &X{E: e, Fr: fr, St: s, Ins: iff}
	a := condAtom(fr, s.Env, iff.Cond)
	tFeasible, fFeasible := true, true
	if a.L == "true" && a.R == "true" || (a.Op == "==" && a.L == a.R) {
		fFeasible = false
	} else if a.Op == "==" && isConstStr(a.L) && isConstStr(a.R) && a.L != a.R {
		tFeasible = false
	} else {
		if s.Facts.Contradicts(a) {
			tFeasible = false
		}
		if s.Facts.Contradicts(a.Neg()) {
			fFeasible = false
		}
	}
	if e.H.Infeasible != nil {
		if tFeasible && fFeasible {
			if e.H.Infeasible(a) {
				tFeasible = false
			} else if e.H.Infeasible(a.Neg()) {
				fFeasible = false
			}
		}
	}
	if !tFeasible && !fFeasible {
		// inconsistent facts: keep both rather than drop the path silently
		tFeasible, fFeasible = true, true
	}
	track, sticky := e.tracked(x, a)
	if debugExplore && strings.Contains(a.String(), os.Getenv("SLOCKCHECK_TRACE")) {
		fmt.Fprintf(os.Stderr, "branch %s frame=%q track=%v count=%d tF=%v fF=%v facts=%s\n", a, fr.ID, track, e.conds(fr)[pairKey(a)], tFeasible, fFeasible, s.Facts.key())
		for k, v := range e.conds(fr) {
			if strings.Contains(k, "locked") {
				fmt.Fprintf(os.Stderr, "   cond %q = %d (want %q)\n", k, v, pairKey(a))
			}
		}
	}
	emit := func(succ *ssa.BasicBlock, at Atom, st *State) {
		xx := &X{E: e, Fr: fr, St: st, Ins: iff}
		if track {
			at.Sticky = sticky
			at.Frame = fr.ID
			st.Facts.Add(at)
			if sticky && !e.NoHist {
				st.Hist[Plain(at.String())] = true
			}
		}
		if len(st.Trace) < 400 {
			st.Trace = append(st.Trace, at.String())
		}
		if e.H.Branch != nil {
			e.H.Branch(xx, at)
		}
		if !xx.killed {
			*work = append(*work, workItem{b: succ, pred: b, st: st})
		}
	}
	if tFeasible && fFeasible {
		emit(b.Succs[0], a, s.clone())
		emit(b.Succs[1], a.Neg(), s)
	} else if tFeasible {
		emit(b.Succs[0], a, s)
	} else {
		emit(b.Succs[1], a.Neg(), s)
	}
}

// invalidate applies the memory effects of an instruction to the facts.
func (e *Explorer) invalidate(fr *Frame, s *State, ins ssa.Instruction) {
	switch t := ins.(type) {
	case *ssa.Store:
		if al, ok := t.Addr.(*ssa.Alloc); ok {
			s.Facts.killMention("new" + fr.vid(al))
			nv := canon(fr, s.Env, t.Val, 0)
			old, had := s.Env[cellKey(al)]
			self := "new" + fr.vid(al)
			if len(nv.S) > 300 || strings.Contains(nv.S, self) || (had && len(old.S) > 6 && strings.Contains(nv.S, old.S)) {
				// self-dependent update (x = append(x, ...), x = x + 1): widen
				delete(s.Env, cellKey(al))
				return
			}
			s.Env[cellKey(al)] = nv
			return
		}
		if k, ok := storeTargetKey(t.Addr); ok {
			s.Facts.killField(k)
		}
	case ssa.CallInstruction:
		com := t.Common()
		if _, isB := com.Value.(*ssa.Builtin); isB {
			return
		}
		for _, a := range com.Args {
			if k, ok := storeTargetKey(a); ok {
				s.Facts.killField(k)
			}
		}
		if _, isGo := ins.(*ssa.Go); isGo {
			return
		}
		for _, cal := range e.P.Callees(t) {
			for k := range e.P.MayWrite(cal) {
				s.Facts.killField(k)
			}
		}
	case *ssa.MapUpdate:
		if k, ok := storeTargetKey(t.Map); ok {
			s.Facts.killField(k)
		}
	}
}

// cellKey maps an Alloc to the pseudo-value under which its current content
// is bound in Env. (The Alloc itself canonicalises to its address.)
type cellVal struct{ *ssa.Alloc }

var cellKeys = map[*ssa.Alloc]*cellVal{}

func cellKey(a *ssa.Alloc) ssa.Value {
	c, ok := cellKeys[a]
	if !ok {
		c = &cellVal{a}
		cellKeys[a] = c
	}
	return c
}

func (c *cellVal) Name() string { return "cell:" + c.Alloc.Name() }

func (e *Explorer) step(fr *Frame, s *State, ins ssa.Instruction) []*State {
	e.Steps++
	if e.Steps > e.MaxSteps {
		e.Imprecise = fmt.Sprintf("step cap %d hit in %s", e.MaxSteps, fr.Stack())
		return nil
	}
	x := &X{E: e, Fr: fr, St: s, Ins: ins}
	// loads from local cells resolve to the stored value
	if u, ok := ins.(*ssa.UnOp); ok {
		if al, ok := u.X.(*ssa.Alloc); ok {
			if v, ok := s.Env[cellKey(al)]; ok {
				s.Env[u] = v
			}
		}
		if e.H.Instr != nil {
			e.H.Instr(x)
			if x.killed {
				return nil
			}
		}
		if e.H.After != nil {
			e.H.After(x)
		}
		return []*State{s}
	}
	if v, ok := ins.(ssa.Value); ok {
		if _, isCall := ins.(*ssa.Call); isCall || isOpaque(ins) {
			s.Facts.killMention(fr.vid(v))
			delete(s.Env, v)
		}
	}
	if e.H.Instr != nil {
		e.H.Instr(x)
		if x.killed {
			return nil
		}
	}
	switch t := ins.(type) {
	case *ssa.Defer:
		s.Defers = append(s.Defers, t)
		return []*State{s}
	case *ssa.RunDefers:
		states := []*State{s}
		n := len(s.Defers)
		for i := n - 1; i >= 0; i-- {
			d := s.Defers[i]
			var next []*State
			for _, st := range states {
				st.Defers = st.Defers[:i]
				next = append(next, e.call(fr, st, d, true)...)
			}
			states = next
		}
		return states
	case *ssa.Call:
		return e.call(fr, s, t, false)
	case *ssa.Go:
		e.invalidate(fr, s, ins)
		return []*State{s}
	}
	e.invalidate(fr, s, ins)
	if e.H.After != nil {
		e.H.After(x)
	}
	return []*State{s}
}

func isOpaque(ins ssa.Instruction) bool {
	switch ins.(type) {
	case *ssa.Lookup, *ssa.Next, *ssa.Range, *ssa.Select, *ssa.MakeSlice, *ssa.MakeMap, *ssa.MakeChan, *ssa.Alloc:
		return true
	}
	if u, ok := ins.(*ssa.UnOp); ok && u.Op.String() == "<-" {
		return true
	}
	return false
}

func (e *Explorer) call(fr *Frame, s *State, site ssa.CallInstruction, deferred bool) []*State {
	x := &X{E: e, Fr: fr, St: s, Ins: site, Deferred: deferred}
	if deferred && e.H.Instr != nil {
		e.H.Instr(x)
		if x.killed {
			return nil
		}
	}
	com := site.Common()
	callee := com.StaticCallee()
	var free []Expr
	if callee == nil {
		if mc, ok := com.Value.(*ssa.MakeClosure); ok {
			callee, _ = mc.Fn.(*ssa.Function)
			for _, b := range mc.Bindings {
				free = append(free, canon(fr, s.Env, b, 0))
			}
		}
	}
	if e.H.Call != nil {
		if outs, handled := e.H.Call(x, site); handled {
			e.invalidate(fr, s, site)
			var res []*State
			for i, o := range outs {
				ns := s
				if i < len(outs)-1 {
					ns = s.clone()
				}
				for k, v := range o.Set {
					if v == "" {
						delete(ns.RS, k)
					} else {
						ns.RS[k] = v
					}
				}
				if val, ok := site.(ssa.Value); ok && !deferred && o.Ret != "" {
					ns.Env[val] = Expr{S: o.Ret}
				}
				res = append(res, ns)
			}
			return res
		}
		if x.killed {
			return nil
		}
	}
	// helpers that did not exist when the rules were written are always
	// explored inline, as part of their caller
	auto := callee != nil && callee.Blocks != nil && !e.NoAutoInline && fr.Depth < e.MaxDepth && !inStack(fr, callee) && e.P.IsNewFunc(callee)
	if auto || (callee != nil && callee.Blocks != nil && e.H.Inline != nil && fr.Depth < e.MaxDepth && !inStack(fr, callee) && e.H.Inline(x, callee)) {
		var args []Expr
		for _, a := range com.Args {
			args = append(args, canon(fr, s.Env, a, 0))
		}
		id := fr.ID + "/" + siteName(site)
		nf := &Frame{Fn: callee, ID: id, Args: args, Free: free, Parent: fr, Site: site, Depth: fr.Depth + 1, Transparent: auto}
		// purge stale facts/bindings of an earlier activation of this site
		s.Facts.killMention("@" + id + ":")
		s.Facts.killMention("@" + id + "/")
		for v := range s.Env {
			if v.Parent() == callee {
				delete(s.Env, v)
			}
		}
		mk := id + "#" + FuncName(callee) + "#" + argsKey(args) + "#" + s.key()
		recs, ok := e.memo[mk]
		if !ok {
			recs = e.runFrame(nf, s.clone())
			e.memo[mk] = recs
		}
		var out []*State
		for _, r := range recs {
			ns := r.st.clone()
			ns.Trace = append(ns.Trace, "ret "+callee.Name())
			for v := range ns.Env {
				if v.Parent() == callee {
					delete(ns.Env, v)
				}
			}
			if val, ok := site.(ssa.Value); ok && !deferred && len(r.rets) == 1 && !e.NoForkBool && isBoolValue(val) && r.rets[0].S != "true" && r.rets[0].S != "false" {
				// A boolean result that is not a constant on this callee path
				// ("return a != 1", "return helper(x)"): materialise both
				// outcomes here, with the deciding atom as a fact, so that the
				// caller (and InlineReturn) sees a constant exactly as if the
				// callee had written "if cond { return true }; return false".
				a := boolAtom(r.rets[0])
				tF, fF := !ns.Facts.Contradicts(a), !ns.Facts.Contradicts(a.Neg())
				if !tF && !fF {
					tF, fF = true, true
				}
				for _, tv := range []bool{true, false} {
					if (tv && !tF) || (!tv && !fF) {
						continue
					}
					at, cs := a, "true"
					if !tv {
						at, cs = a.Neg(), "false"
					}
					ns2 := ns.clone()
					cx := &X{E: e, Fr: fr, St: ns2, Ins: site}
					if track, sticky := e.tracked(cx, at); track {
						at.Sticky = sticky
						at.Frame = fr.ID
						ns2.Facts.Add(at)
						if sticky && !e.NoHist {
							ns2.Hist[Plain(at.String())] = true
						}
					}
					if len(ns2.Trace) < 400 {
						ns2.Trace = append(ns2.Trace, at.String())
					}
					if e.H.Branch != nil {
						e.H.Branch(cx, at)
						if cx.killed {
							continue
						}
					}
					ns2.Env[val] = Expr{S: cs}
					if e.H.InlineReturn != nil {
						xx := &X{E: e, Fr: nf, St: ns2, Ins: site}
						e.H.InlineReturn(xx, callee, []Expr{{S: cs}})
						if xx.killed {
							continue
						}
					}
					out = append(out, ns2)
				}
				continue
			}
			if val, ok := site.(ssa.Value); ok && !deferred {
				if len(r.rets) == 1 {
					ns.Env[val] = r.rets[0]
				}
			}
			if e.H.InlineReturn != nil {
				xx := &X{E: e, Fr: nf, St: ns, Ins: site}
				e.H.InlineReturn(xx, callee, r.rets)
				if xx.killed {
					continue
				}
			}
			out = append(out, ns)
		}
		return out
	}
	e.invalidate(fr, s, site)
	return []*State{s}
}

// siteName names a call instruction within its function (Defer and Go are
// not values, so they are named by block and index).
func isBoolValue(v ssa.Value) bool {
	b, ok := v.Type().Underlying().(*types.Basic)
	return ok && b.Kind() == types.Bool
}

func siteName(site ssa.CallInstruction) string {
	if v, ok := site.(ssa.Value); ok {
		return v.Name()
	}
	b := site.Block()
	for i, ins := range b.Instrs {
		if ins == site {
			return fmt.Sprintf("d%d_%d", b.Index, i)
		}
	}
	return "d?"
}

func argsKey(a []Expr) string {
	var p []string
	for _, e := range a {
		p = append(p, e.S)
	}
	return strings.Join(p, ",")
}

func inStack(fr *Frame, fn *ssa.Function) bool {
	for f := fr; f != nil; f = f.Parent {
		if f.Fn == fn {
			return true
		}
	}
	return false
}
