package core

import (
	"fmt"
	"go/constant"
	"go/token"
	"go/types"
	"regexp"
	"sort"
	"strconv"
	"strings"

	"golang.org/x/tools/go/ssa"
)

// Expr is a canonical expression: a printable access-path / arithmetic term
// rooted at parameters, globals, constants and opaque call/alloc sites, plus
// the struct fields whose current contents it depends on (for invalidation).
type Expr struct {
	S    string
	Deps []FieldKey
}

func (e Expr) String() string { return e.S }

// IsConstInt reports whether the expression is an integer literal.
func (e Expr) IsConstInt() (int64, bool) { return parseInt(e.S) }

func parseInt(s string) (int64, bool) {
	if s == "" {
		return 0, false
	}
	c := s[0]
	if !(c == '-' || (c >= '0' && c <= '9')) {
		return 0, false
	}
	v, err := strconv.ParseInt(s, 10, 64)
	if err != nil {
		return 0, false
	}
	return v, true
}

func mergeDeps(a []FieldKey, b ...FieldKey) []FieldKey {
	if len(b) == 0 {
		return a
	}
	m := map[FieldKey]bool{}
	for _, k := range a {
		m[k] = true
	}
	for _, k := range b {
		m[k] = true
	}
	out := make([]FieldKey, 0, len(m))
	for k := range m {
		out = append(out, k)
	}
	sort.Slice(out, func(i, j int) bool {
		if out[i].Type != out[j].Type {
			return out[i].Type < out[j].Type
		}
		return out[i].Field < out[j].Field
	})
	return out
}

// Frame is one activation in the explorer's (inlined) call stack.
type Frame struct {
	Fn     *ssa.Function
	ID     string // "" for the top frame, otherwise the chain of call-site names
	Args   []Expr // canonical actuals, receiver first; nil in the top frame
	Free   []Expr // canonical bindings of free variables (closures)
	Parent *Frame
	Site   ssa.CallInstruction // call site in the parent
	Depth  int
	// Transparent marks the activation of a function that did not exist when
	// the rule tables were confirmed (a helper introduced by a later edit):
	// it is explored inline and its instructions count as instructions of the
	// caller (X.Top() looks through it).
	Transparent bool
}

func (fr *Frame) vid(v ssa.Value) string { return "@" + fr.ID + ":" + v.Name() }

// Stack renders the frame chain for diagnostics.
func (fr *Frame) Stack() string {
	if fr.Parent == nil {
		return FuncName(fr.Fn)
	}
	return fr.Parent.Stack() + " > " + FuncName(fr.Fn)
}

func shortType(t types.Type) string {
	switch u := t.(type) {
	case *types.Basic:
		return u.Name()
	case *types.Named:
		return u.Obj().Name()
	case *types.Pointer:
		return "*" + shortType(u.Elem())
	case *types.Slice:
		return "[]" + shortType(u.Elem())
	case *types.Array:
		return fmt.Sprintf("[%d]%s", u.Len(), shortType(u.Elem()))
	}
	return types.TypeString(t, func(p *types.Package) string { return "" })
}

func constString(c *ssa.Const) string {
	if c.Value == nil {
		return "nil"
	}
	switch c.Value.Kind() {
	case constant.Bool:
		if constant.BoolVal(c.Value) {
			return "true"
		}
		return "false"
	case constant.Int:
		return c.Value.ExactString()
	case constant.String:
		return strconv.Quote(constant.StringVal(c.Value))
	}
	return c.Value.ExactString()
}

// canon computes the canonical expression of v in frame fr under bindings env.
func canon(fr *Frame, env map[ssa.Value]Expr, v ssa.Value, depth int) Expr {
	if v == nil {
		return Expr{S: "<nil>"}
	}
	if depth > 40 {
		return Expr{S: "deep" + fr.vid(v)}
	}
	if b, ok := env[v]; ok {
		return b
	}
	rec := func(x ssa.Value) Expr { return canon(fr, env, x, depth+1) }
	switch x := v.(type) {
	case *ssa.Parameter:
		if fr.Args != nil {
			for i, p := range fr.Fn.Params {
				if p == x && i < len(fr.Args) {
					return fr.Args[i]
				}
			}
		}
		return Expr{S: x.Name()}
	case *ssa.FreeVar:
		if fr.Free != nil {
			for i, p := range fr.Fn.FreeVars {
				if p == x && i < len(fr.Free) {
					return fr.Free[i]
				}
			}
		}
		return Expr{S: "fv:" + x.Name()}
	case *ssa.Const:
		return Expr{S: constString(x)}
	case *ssa.Global:
		return Expr{S: "&" + x.Pkg.Pkg.Name() + "." + x.Name()}
	case *ssa.Function:
		return Expr{S: "func:" + FuncName(x)}
	case *ssa.Builtin:
		return Expr{S: x.Name()}
	case *ssa.FieldAddr:
		b := rec(x.X)
		k := fieldKeyOf(x.X.Type(), x.Field)
		// a base that is itself the address of an embedded struct prints as a path
		return Expr{S: "&" + strings.TrimPrefix(b.S, "&") + "." + k.Field, Deps: mergeDeps(b.Deps, fieldDep(k))}
	case *ssa.Field:
		b := rec(x.X)
		k := fieldKeyOf(x.X.Type(), x.Field)
		return Expr{S: b.S + "." + k.Field, Deps: b.Deps}
	case *ssa.IndexAddr:
		b, i := rec(x.X), rec(x.Index)
		bs := strings.TrimPrefix(b.S, "&") // pointer-to-array bases print like the array
		return Expr{S: "&" + bs + "[" + i.S + "]", Deps: mergeDeps(b.Deps, i.Deps...)}
	case *ssa.Index:
		b, i := rec(x.X), rec(x.Index)
		return Expr{S: b.S + "[" + i.S + "]", Deps: mergeDeps(b.Deps, i.Deps...)}
	case *ssa.Lookup:
		b, i := rec(x.X), rec(x.Index)
		return Expr{S: b.S + "[" + i.S + "]" + fr.vid(v), Deps: mergeDeps(b.Deps, i.Deps...)}
	case *ssa.UnOp:
		a := rec(x.X)
		switch x.Op {
		case token.MUL:
			if strings.HasPrefix(a.S, "&") {
				return Expr{S: a.S[1:], Deps: a.Deps}
			}
			return Expr{S: "*" + a.S, Deps: a.Deps}
		case token.NOT:
			return Expr{S: "!" + a.S, Deps: a.Deps}
		case token.ARROW:
			return Expr{S: "<-" + a.S + fr.vid(v), Deps: a.Deps}
		default:
			return Expr{S: x.Op.String() + a.S, Deps: a.Deps}
		}
	case *ssa.BinOp:
		a, b := rec(x.X), rec(x.Y)
		return Expr{S: "(" + a.S + " " + x.Op.String() + " " + b.S + ")", Deps: mergeDeps(a.Deps, b.Deps...)}
	case *ssa.Convert:
		a := rec(x.X)
		if _, ok := a.IsConstInt(); ok {
			return a
		}
		return Expr{S: shortType(x.Type()) + "(" + a.S + ")", Deps: a.Deps}
	case *ssa.ChangeType:
		return rec(x.X)
	case *ssa.ChangeInterface:
		return rec(x.X)
	case *ssa.MakeInterface:
		return rec(x.X)
	case *ssa.TypeAssert:
		a := rec(x.X)
		return Expr{S: a.S + ".(" + shortType(x.AssertedType) + ")", Deps: a.Deps}
	case *ssa.Extract:
		a := rec(x.Tuple)
		return Expr{S: a.S + "#" + strconv.Itoa(x.Index), Deps: a.Deps}
	case *ssa.Slice:
		a := rec(x.X)
		lo, hi := "", ""
		deps := a.Deps
		if x.Low != nil {
			l := rec(x.Low)
			lo = l.S
			deps = mergeDeps(deps, l.Deps...)
		}
		if x.High != nil {
			h := rec(x.High)
			hi = h.S
			deps = mergeDeps(deps, h.Deps...)
		}
		return Expr{S: strings.TrimPrefix(a.S, "&") + "[" + lo + ":" + hi + "]", Deps: deps}
	case *ssa.Call:
		return callExpr(fr, env, x, depth)
	case *ssa.Phi:
		return Expr{S: "phi" + fr.vid(v)}
	case *ssa.Alloc:
		return Expr{S: "&new" + fr.vid(v)}
	case *ssa.MakeClosure:
		return Expr{S: "closure:" + FuncName(x.Fn.(*ssa.Function)) + fr.vid(v)}
	}
	return Expr{S: "v" + fr.vid(v)}
}

func fieldDep(k FieldKey) FieldKey { return k }

func callExpr(fr *Frame, env map[ssa.Value]Expr, c *ssa.Call, depth int) Expr {
	com := c.Common()
	var name string
	var args []ssa.Value
	if com.IsInvoke() {
		name = com.Method.Name()
		args = append([]ssa.Value{com.Value}, com.Args...)
	} else {
		switch f := com.Value.(type) {
		case *ssa.Function:
			name = f.Name()
		case *ssa.Builtin:
			name = f.Name()
		default:
			name = "dyn"
		}
		args = com.Args
	}
	var parts []string
	var deps []FieldKey
	for _, a := range args {
		e := canon(fr, env, a, depth+1)
		parts = append(parts, e.S)
		deps = mergeDeps(deps, e.Deps...)
	}
	if b, ok := com.Value.(*ssa.Builtin); ok && (b.Name() == "len" || b.Name() == "cap") {
		// pure: identified by its operand, no site id
		return Expr{S: b.Name() + "(" + strings.Join(parts, ",") + ")", Deps: deps}
	}
	return Expr{S: name + "(" + strings.Join(parts, ",") + ")" + fr.vid(c)}
}

// ---------------------------------------------------------------------------
// Atoms and facts

// Atom is a normalised comparison. Op is one of "==", "!=", "<", "<=".
// Boolean values are written `expr == true|false`.
type Atom struct {
	L, Op, R string
	Deps     []FieldKey
	Sticky   bool   // tracked at a rule's request: never pruned
	Frame    string // id of the frame whose branch produced it
}

func (a Atom) String() string { return a.L + " " + a.Op + " " + a.R }

// Valid reports whether the atom is non-empty.
func (a Atom) Valid() bool { return a.Op != "" }

func isConstStr(s string) bool {
	if _, ok := parseInt(s); ok {
		return true
	}
	return s == "nil" || s == "true" || s == "false" || strings.HasPrefix(s, "\"")
}

// MkAtom builds a normalised atom from `l op r` for any Go comparison op.
func MkAtom(l, op, r string, deps []FieldKey) Atom {
	switch op {
	case ">":
		l, r, op = r, l, "<"
	case ">=":
		l, r, op = r, l, "<="
	}
	if op == "==" || op == "!=" {
		// constants to the right, otherwise lexicographic
		if isConstStr(l) && !isConstStr(r) || (!isConstStr(l) && !isConstStr(r) && l > r) {
			l, r = r, l
		}
		if r == "true" || r == "false" {
			if op == "!=" {
				op = "=="
				if r == "true" {
					r = "false"
				} else {
					r = "true"
				}
			}
		}
	}
	return Atom{L: l, Op: op, R: r, Deps: deps}
}

// Neg returns the logical negation of the atom.
func (a Atom) Neg() Atom {
	switch a.Op {
	case "==":
		if a.R == "true" {
			return Atom{L: a.L, Op: "==", R: "false", Deps: a.Deps}
		}
		if a.R == "false" {
			return Atom{L: a.L, Op: "==", R: "true", Deps: a.Deps}
		}
		return Atom{L: a.L, Op: "!=", R: a.R, Deps: a.Deps}
	case "!=":
		return Atom{L: a.L, Op: "==", R: a.R, Deps: a.Deps}
	case "<":
		return Atom{L: a.R, Op: "<=", R: a.L, Deps: a.Deps}
	case "<=":
		return Atom{L: a.R, Op: "<", R: a.L, Deps: a.Deps}
	}
	return a
}

// condAtom derives the atom asserted when cond evaluates to true.
func condAtom(fr *Frame, env map[ssa.Value]Expr, cond ssa.Value) Atom {
	if b, ok := env[cond]; ok {
		return boolAtom(b)
	}
	switch c := cond.(type) {
	case *ssa.BinOp:
		switch c.Op {
		case token.EQL, token.NEQ, token.LSS, token.LEQ, token.GTR, token.GEQ:
			l, r := snapCanon(fr, env, c.X, c), snapCanon(fr, env, c.Y, c)
			return MkAtom(l.S, c.Op.String(), r.S, mergeDeps(l.Deps, r.Deps...))
		}
	case *ssa.UnOp:
		if c.Op == token.NOT {
			return condAtom(fr, env, c.X).Neg()
		}
	}
	return boolAtom(snapCanon(fr, env, cond, nil2user(cond)))
}

// nil2user finds the If instruction using a condition value (for the
// freshness test of a load used directly as a condition).
func nil2user(cond ssa.Value) ssa.Instruction {
	if refs := cond.Referrers(); refs != nil {
		for _, r := range *refs {
			if _, ok := r.(*ssa.If); ok {
				return r
			}
		}
	}
	return nil
}

// SnapMark introduces the identity of a register snapshot in an atom: a value
// loaded earlier and tested later (`n := x.f; ...; if n > 0`) is named
// x.f'@id and never invalidated, so that repeated tests of the same register
// correlate while fresh loads of x.f do not.
const SnapMark = "'"

var reSnap = regexp.MustCompile(`'@[^ .,)\]]*`)

// Plain strips snapshot identities from a canonical string.
func Plain(s string) string {
	if !strings.Contains(s, SnapMark) {
		return s
	}
	return reSnap.ReplaceAllString(s, "")
}

// isSnapshotLoad reports whether the load u, used by instruction user, holds
// a register copy (used more than once, defined in another block, or with a
// store/call between it and its use).
func isSnapshotLoad(u *ssa.UnOp, user ssa.Instruction) bool {
	if u.Op != token.MUL {
		return false
	}
	if _, isAlloc := u.X.(*ssa.Alloc); isAlloc {
		return false
	}
	if refs := u.Referrers(); refs != nil && len(*refs) >= 2 {
		return true
	}
	if user == nil || u.Block() != user.Block() {
		return true
	}
	seen := false
	for _, ins := range u.Block().Instrs {
		if ins == ssa.Instruction(u) {
			seen = true
			continue
		}
		if !seen {
			continue
		}
		if ins == user {
			break
		}
		switch ins.(type) {
		case *ssa.Store, *ssa.Call, *ssa.MapUpdate:
			return true
		}
	}
	return false
}

// snapCanon is canon for operands of a condition: snapshot loads are named by
// their register identity.
func snapCanon(fr *Frame, env map[ssa.Value]Expr, v ssa.Value, user ssa.Instruction) Expr {
	if _, ok := env[v]; ok {
		return canon(fr, env, v, 0)
	}
	switch x := v.(type) {
	case *ssa.UnOp:
		if x.Op == token.MUL && isSnapshotLoad(x, user) {
			e := canon(fr, env, x, 0)
			return Expr{S: e.S + SnapMark + fr.vid(x)}
		}
	case *ssa.Convert:
		a := snapCanon(fr, env, x.X, x)
		if _, ok := a.IsConstInt(); ok {
			return a
		}
		return Expr{S: shortType(x.Type()) + "(" + a.S + ")", Deps: a.Deps}
	case *ssa.ChangeType:
		return snapCanon(fr, env, x.X, x)
	case *ssa.BinOp:
		if _, isC := x.Y.(*ssa.Const); isC {
			a, b := snapCanon(fr, env, x.X, x), canon(fr, env, x.Y, 0)
			return Expr{S: "(" + a.S + " " + x.Op.String() + " " + b.S + ")", Deps: a.Deps}
		}
	}
	return canon(fr, env, v, 0)
}

func boolAtom(e Expr) Atom {
	if strings.HasPrefix(e.S, "!") {
		return boolAtom(Expr{S: e.S[1:], Deps: e.Deps}).Neg()
	}
	// A canonical comparison printed as "(a op b)"
	if a, ok := parseCmp(e); ok {
		return a
	}
	return Atom{L: e.S, Op: "==", R: "true", Deps: e.Deps}
}

// parseCmp recognises "(L op R)" produced by canon for a comparison BinOp.
func parseCmp(e Expr) (Atom, bool) {
	s := e.S
	if len(s) < 2 || s[0] != '(' || s[len(s)-1] != ')' {
		return Atom{}, false
	}
	in := s[1 : len(s)-1]
	depth := 0
	for i := 0; i < len(in); i++ {
		switch in[i] {
		case '(', '[':
			depth++
		case ')', ']':
			depth--
		case ' ':
			if depth != 0 {
				continue
			}
			for _, op := range []string{"==", "!=", "<=", ">=", "<", ">"} {
				if strings.HasPrefix(in[i+1:], op+" ") {
					l, r := in[:i], in[i+1+len(op)+1:]
					return MkAtom(l, op, r, e.Deps), true
				}
			}
		}
	}
	return Atom{}, false
}

// Facts is a set of atoms known to hold on the current path.
type Facts struct {
	m map[string]Atom
}

func (f *Facts) clone() Facts {
	n := Facts{m: make(map[string]Atom, len(f.m))}
	for k, v := range f.m {
		n.m[k] = v
	}
	return n
}

// Add records an atom.
func (f *Facts) Add(a Atom) {
	if f.m == nil {
		f.m = map[string]Atom{}
	}
	f.m[a.String()] = a
}

// All returns the atoms sorted by text.
func (f *Facts) All() []Atom {
	keys := make([]string, 0, len(f.m))
	for k := range f.m {
		keys = append(keys, k)
	}
	sort.Strings(keys)
	out := make([]Atom, 0, len(keys))
	for _, k := range keys {
		out = append(out, f.m[k])
	}
	return out
}

func (f *Facts) key() string {
	keys := make([]string, 0, len(f.m))
	for k := range f.m {
		keys = append(keys, k)
	}
	sort.Strings(keys)
	return strings.Join(keys, ";")
}

// killField drops atoms depending on a written field.
func (f *Facts) killField(k FieldKey) {
	for s, a := range f.m {
		for _, d := range a.Deps {
			if d == k {
				delete(f.m, s)
				break
			}
		}
	}
}

// killMention drops atoms mentioning a substring (value ids of a re-executed
// instruction or of a re-entered frame).
func (f *Facts) killMention(sub string) {
	for s := range f.m {
		if mentions(s, sub) {
			delete(f.m, s)
		}
	}
}

// mentions reports whether s contains sub as a whole id token (t1 must not
// match t16). Substrings ending in ':' or '/' are prefixes by intent.
func mentions(s, sub string) bool {
	if sub == "" {
		return false
	}
	last := sub[len(sub)-1]
	prefix := last == ':' || last == '/'
	for i := 0; ; {
		j := strings.Index(s[i:], sub)
		if j < 0 {
			return false
		}
		end := i + j + len(sub)
		if prefix || end >= len(s) || s[end] < '0' || s[end] > '9' {
			return true
		}
		i = i + j + 1
	}
}

const (
	minI = -1 << 62
	maxI = 1 << 62
)

// rangeOf collects the interval and excluded points the facts impose on e.
func (f *Facts) rangeOf(e string) (lo, hi int64, ne []int64) {
	lo, hi = minI, maxI
	for _, a := range f.m {
		if a.L == e {
			if c, ok := parseInt(a.R); ok {
				switch a.Op {
				case "==":
					if c > lo {
						lo = c
					}
					if c < hi {
						hi = c
					}
				case "!=":
					ne = append(ne, c)
				case "<":
					if c-1 < hi {
						hi = c - 1
					}
				case "<=":
					if c < hi {
						hi = c
					}
				}
			}
		} else if a.R == e {
			if c, ok := parseInt(a.L); ok {
				switch a.Op {
				case "<":
					if c+1 > lo {
						lo = c + 1
					}
				case "<=":
					if c > lo {
						lo = c
					}
				}
			}
		}
	}
	return
}

// LowerBound returns the least value the facts allow for e (constants only;
// != exclusions at the boundary are stepped over). Snapshot marks are ignored.
// UpperBound returns the largest value e can take given the facts (snapshot
// identities ignored), or the maximum int64 when unbounded.
func (f *Facts) UpperBound(e string) int64 {
	hi := int64(maxI)
	var ne []int64
	for _, a := range f.m {
		l, r := Plain(a.L), Plain(a.R)
		if l == e {
			if c, ok := parseInt(r); ok {
				switch a.Op {
				case "==":
					if c < hi {
						hi = c
					}
				case "!=":
					ne = append(ne, c)
				case "<":
					if c-1 < hi {
						hi = c - 1
					}
				case "<=":
					if c < hi {
						hi = c
					}
				}
			}
		}
	}
	for changed := true; changed; {
		changed = false
		for _, n := range ne {
			if n == hi {
				hi--
				changed = true
			}
		}
	}
	return hi
}

func (f *Facts) LowerBound(e string) int64 {
	lo := int64(minI)
	var ne []int64
	for _, a := range f.m {
		l, r := Plain(a.L), Plain(a.R)
		if l == e {
			if c, ok := parseInt(r); ok {
				switch a.Op {
				case "==":
					if c > lo {
						lo = c
					}
				case "!=":
					ne = append(ne, c)
				}
			}
		} else if r == e {
			if c, ok := parseInt(l); ok {
				switch a.Op {
				case "<":
					if c+1 > lo {
						lo = c + 1
					}
				case "<=":
					if c > lo {
						lo = c
					}
				}
			}
		}
	}
	for changed := true; changed; {
		changed = false
		for _, n := range ne {
			if n == lo {
				lo++
				changed = true
			}
		}
	}
	return lo
}

func isUnsignedExpr(e string) bool {
	// conservative: lengths and explicit unsigned conversions only
	return strings.HasPrefix(e, "len(") || strings.HasPrefix(e, "uint")
}

// Contradicts reports whether adding a would make the fact set unsatisfiable
// (sound but incomplete: false means "not known to contradict").
func (f *Facts) Contradicts(a Atom) bool {
	if _, ok := f.m[a.Neg().String()]; ok {
		return true
	}
	// constant folding
	if lc, lok := parseInt(a.L); lok {
		if rc, rok := parseInt(a.R); rok {
			switch a.Op {
			case "==":
				return lc != rc
			case "!=":
				return lc == rc
			case "<":
				return !(lc < rc)
			case "<=":
				return !(lc <= rc)
			}
		}
	}
	if isConstStr(a.L) && isConstStr(a.R) {
		if _, ok := parseInt(a.L); !ok {
			switch a.Op {
			case "==":
				return a.L != a.R
			case "!=":
				return a.L == a.R
			}
		}
	}
	// equality with a different non-numeric constant (nil/true/false)
	if a.Op == "==" && isConstStr(a.R) {
		for _, g := range f.m {
			if g.L == a.L && g.Op == "==" && isConstStr(g.R) && g.R != a.R {
				if _, n1 := parseInt(a.R); !n1 {
					return true
				}
			}
		}
	}
	// interval reasoning against constants
	if c, ok := parseInt(a.R); ok {
		lo, hi, ne := f.rangeOf(a.L)
		switch a.Op {
		case "==":
			if c < lo || c > hi {
				return true
			}
			for _, n := range ne {
				if n == c {
					return true
				}
			}
		case "!=":
			if lo == hi && lo == c {
				return true
			}
		case "<":
			if lo >= c {
				return true
			}
		case "<=":
			if lo > c {
				return true
			}
		}
	}
	if c, ok := parseInt(a.L); ok {
		lo, hi, _ := f.rangeOf(a.R)
		_ = lo
		switch a.Op {
		case "<":
			if hi <= c {
				return true
			}
		case "<=":
			if hi < c {
				return true
			}
		}
	}
	return false
}

// Implies reports whether the facts entail a (sound, incomplete).
func (f *Facts) Implies(a Atom) bool {
	if _, ok := f.m[a.String()]; ok {
		return true
	}
	return f.Contradicts(a.Neg())
}

// HasPlain reports whether an atom with this text is present, ignoring
// snapshot identities.
func (f *Facts) HasPlain(s string) bool {
	if _, ok := f.m[s]; ok {
		return true
	}
	for k := range f.m {
		if Plain(k) == s {
			return true
		}
	}
	return false
}

// HasText reports whether an atom with exactly this text is present.
func (f *Facts) HasText(s string) bool { _, ok := f.m[s]; return ok }

// ParseIntStr parses a canonical integer constant.
func ParseIntStr(s string) (int64, bool) { return parseInt(s) }
