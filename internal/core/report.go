package core

import (
	"encoding/json"
	"fmt"
	"os"
	"path/filepath"
	"regexp"
	"sort"
	"strconv"
	"strings"
	"time"
)

var reKeyIDs = regexp.MustCompile(`'?@[^ .,)\]\[}]*`)

// Verdicts.
const (
	Holds     = "holds"
	Violated  = "violated"
	Undecided = "undecided"
)

// Obligation is one decided instance of a rule.
type Obligation struct {
	Rule    string   `json:"rule"`           // "C01/R1"
	Key     string   `json:"key"`            // rule + construct, line-free
	Pos     string   `json:"pos"`            // file:line, informational
	Verdict string   `json:"verdict"`        // holds | violated | undecided
	Msg     string   `json:"msg,omitempty"`  // what was checked / what failed
	Path    []string `json:"path,omitempty"` // branch decisions leading to a violation
	Known   bool     `json:"known,omitempty"`
}

// Report accumulates the obligations of one property run.
type Report struct {
	Property    string
	Tier        string
	Seed        int64
	Start       time.Time
	Obls        []*Obligation
	byKey       map[string]*Obligation
	Instances   map[string]int // per rule
	Floors      map[string]int
	Stats       map[string]int
	Explanation string
	RuleText    map[string]string
	Assumptions []string
	Notes       []string
	Fatal       []string // machinery failures (exit 2)
}

// NewReport creates an empty report.
func NewReport(prop, tier string, seed int64) *Report {
	return &Report{Property: prop, Tier: tier, Seed: seed, Start: time.Now(),
		byKey: map[string]*Obligation{}, Instances: map[string]int{}, Floors: map[string]int{},
		Stats: map[string]int{}, RuleText: map[string]string{}}
}

// Rule registers a rule's description and its instance floor.
// Rule registers a rule. confirmed is the number of instances confirmed by
// reading when the rule was written; the run fails (exit 2) when fewer than
// half of them (at least one) are found - a rule that matches nothing must not
// pass vacuously, but merging two duplicated sites into a helper, or deleting
// one of several sites, is an ordinary edit and must not trip the floor.
func (r *Report) Rule(id, text string, confirmed int) {
	r.RuleText[id] = text
	floor := confirmed
	if confirmed > 1 {
		floor = (confirmed + 1) / 2
	}
	r.Floors[id] = floor
	if _, ok := r.Instances[id]; !ok {
		r.Instances[id] = 0
	}
}

// Add records a verdict for an obligation. A key seen before keeps the worst
// verdict (violated > undecided > holds): an obligation holds only if it
// holds on every path class that reaches it.
func (r *Report) Add(rule, key, pos, verdict, msg string, path []string) {
	key = reKeyIDs.ReplaceAllString(key, "") // value ids (@frame:tN) are not stable across edits
	full := rule + " " + key
	if o, ok := r.byKey[full]; ok {
		if rank(verdict) > rank(o.Verdict) {
			o.Verdict, o.Msg, o.Path, o.Pos = verdict, msg, path, pos
		}
		return
	}
	o := &Obligation{Rule: rule, Key: full, Pos: pos, Verdict: verdict, Msg: msg, Path: path}
	r.byKey[full] = o
	r.Obls = append(r.Obls, o)
	r.Instances[rule]++
}

func rank(v string) int {
	switch v {
	case Violated:
		return 2
	case Undecided:
		return 1
	}
	return 0
}

// Hold / Violate / Undecide are shorthands.
func (r *Report) Hold(rule, key, pos, msg string) { r.Add(rule, key, pos, Holds, msg, nil) }
func (r *Report) Violate(rule, key, pos, msg string, path []string) {
	r.Add(rule, key, pos, Violated, msg, path)
}
func (r *Report) Undecide(rule, key, pos, msg string) { r.Add(rule, key, pos, Undecided, msg, nil) }

// Fail records a machinery failure (missing anchor, cap hit...).
func (r *Report) Fail(format string, a ...any) {
	r.Fatal = append(r.Fatal, fmt.Sprintf(format, a...))
}

// KnownFinding is one entry of /verif/known_findings.json.
type KnownFinding struct {
	Property   string `json:"property"`
	Rule       string `json:"rule"`
	Key        string `json:"key"`
	WhatFails  string `json:"what_fails"`
	Reproducer string `json:"reproducer"`
	Status     string `json:"status"` // known | fixed
	Commit     string `json:"commit,omitempty"`
}

// LoadKnown reads the committed known-findings file.
func LoadKnown(path string) ([]KnownFinding, error) {
	b, err := os.ReadFile(path)
	if err != nil {
		if os.IsNotExist(err) {
			return nil, nil
		}
		return nil, err
	}
	var out struct {
		Findings []KnownFinding `json:"findings"`
	}
	if err := json.Unmarshal(b, &out); err != nil {
		return nil, err
	}
	return out.Findings, nil
}

func posLess(a, b string) bool {
	af, al := splitPos(a)
	bf, bl := splitPos(b)
	if af != bf {
		return af < bf
	}
	return al < bl
}

func splitPos(p string) (string, int) {
	i := strings.LastIndex(p, ":")
	if i < 0 {
		return p, 0
	}
	n, _ := strconv.Atoi(p[i+1:])
	return p[:i], n
}

// Finish prints diagnostics, writes evidence and the violations file, and
// returns the process exit code (0 ok, 1 violation, 2 machinery failure).
func (r *Report) Finish(verifDir string) int {
	known, err := LoadKnown(filepath.Join(verifDir, "known_findings.json"))
	if err != nil {
		r.Fail("known_findings.json unreadable: %v", err)
	}
	knownKey := map[string]KnownFinding{}
	for _, k := range known {
		if k.Property == r.Property && k.Status == "known" {
			knownKey[k.Key] = k
		}
	}
	// instance floors
	for rule, floor := range r.Floors {
		if r.Instances[rule] < floor {
			r.Fail("rule %s matched %d instances, below its floor %d (rule would pass vacuously)", rule, r.Instances[rule], floor)
		}
	}
	sort.SliceStable(r.Obls, func(i, j int) bool {
		if r.Obls[i].Pos != r.Obls[j].Pos {
			return posLess(r.Obls[i].Pos, r.Obls[j].Pos)
		}
		return r.Obls[i].Key < r.Obls[j].Key
	})
	var viol, knownHit, undec []*Obligation
	for _, o := range r.Obls {
		switch o.Verdict {
		case Violated:
			if _, ok := knownKey[o.Key]; ok {
				o.Known = true
				knownHit = append(knownHit, o)
			} else {
				viol = append(viol, o)
			}
		case Undecided:
			undec = append(undec, o)
		}
	}
	for _, o := range knownHit {
		fmt.Printf("KNOWN-FINDING: property=%s %s [%s] %s\n", r.Property, knownKey[o.Key].WhatFails, o.Pos, o.Key)
	}
	outDir := filepath.Join(verifDir, "out")
	_ = os.MkdirAll(outDir, 0o755)
	replay := filepath.Join(outDir, r.Property+".violations.json")
	_ = os.Remove(replay)
	{
		// full obligation listing (diagnostic; evidence keeps a sample)
		var sb strings.Builder
		for _, o := range r.Obls {
			fmt.Fprintf(&sb, "%s\t%s\t%s\t%s\n", o.Verdict, o.Key, o.Pos, o.Msg)
		}
		_ = os.WriteFile(filepath.Join(outDir, r.Property+".obligations.tsv"), []byte(sb.String()), 0o644)
	}
	for _, o := range viol {
		fmt.Printf("%s: [%s] %s: %s\n", o.Pos, o.Rule, o.Key, o.Msg)
		if len(o.Path) > 0 {
			p := o.Path
			if len(p) > 40 {
				p = p[len(p)-40:]
			}
			fmt.Printf("    path: %s\n", strings.Join(p, " ; "))
		}
	}
	for _, o := range undec {
		fmt.Printf("UNDECIDED %s: [%s] %s: %s\n", o.Pos, o.Rule, o.Key, o.Msg)
	}
	for _, f := range r.Fatal {
		fmt.Printf("CHECKER-FAILURE property=%s %s\n", r.Property, f)
	}
	if len(viol) > 0 {
		b, _ := json.MarshalIndent(map[string]any{"property": r.Property, "violations": viol}, "", " ")
		_ = os.WriteFile(replay, b, 0o644)
	}
	r.writeEvidence(verifDir, len(viol), knownHit)
	// summary
	rules := make([]string, 0, len(r.Instances))
	for k := range r.Instances {
		rules = append(rules, k)
	}
	sort.Strings(rules)
	var parts []string
	for _, k := range rules {
		parts = append(parts, fmt.Sprintf("%s=%d", k, r.Instances[k]))
	}
	fmt.Printf("%s tier=%s obligations=%d violated=%d known=%d undecided=%d instances{%s} wall=%.1fs\n",
		r.Property, r.Tier, len(r.Obls), len(viol), len(knownHit), len(undec), strings.Join(parts, " "), time.Since(r.Start).Seconds())
	if len(viol) > 0 {
		fmt.Printf("VIOLATION property=%s replay=%s\n", r.Property, replay)
		return 1
	}
	if len(r.Fatal) > 0 || len(undec) > 0 {
		return 2
	}
	return 0
}

func (r *Report) writeEvidence(verifDir string, nviol int, knownHit []*Obligation) {
	distinct := map[string]bool{}
	held := 0
	for _, o := range r.Obls {
		distinct[o.Key] = true
		if o.Verdict == Holds {
			held++
		}
	}
	// samples: a spread of obligations, violated/known first
	var samples []any
	add := func(o *Obligation) {
		m := map[string]any{"rule": o.Rule, "key": o.Key, "pos": o.Pos, "verdict": o.Verdict, "msg": o.Msg}
		if o.Known {
			m["known_finding"] = true
		}
		if len(o.Path) > 0 {
			p := o.Path
			if len(p) > 12 {
				p = p[len(p)-12:]
			}
			m["path_tail"] = p
		}
		samples = append(samples, m)
	}
	perRule := map[string]int{}
	for _, o := range r.Obls {
		if o.Verdict != Holds && len(samples) < 40 {
			add(o)
		}
	}
	for _, o := range r.Obls {
		if o.Verdict == Holds && perRule[o.Rule] < 3 && len(samples) < 60 {
			perRule[o.Rule]++
			add(o)
		}
	}
	var kf []string
	for _, o := range knownHit {
		kf = append(kf, o.Key)
	}
	ruleList := make([]string, 0, len(r.RuleText))
	for k, v := range r.RuleText {
		ruleList = append(ruleList, k+": "+v)
	}
	sort.Strings(ruleList)
	cov := map[string]any{
		"explanation":         r.Explanation,
		"evaluations":         len(r.Obls),
		"distinct_nontrivial": len(distinct),
		"rule":                "obligations are enumerated from the resolved program (type-checked packages, SSA, call graph): one per rule instance = rule id + construct (function, call site/store site ordinal, field, codec position); distinct = distinct rule+construct keys; every obligation is non-trivial in that its site was found in /repo's current source and its path set was non-empty. Rules: " + strings.Join(ruleList, " | "),
		"samples":             samples,
		"obligations":         len(r.Obls),
		"discharged":          held,
		"instances_per_rule":  r.Instances,
		"instance_floors":     r.Floors,
		"known_findings":      kf,
		"stats":               r.Stats,
		"checker_cmd":         "bin/slockcheck -property " + r.Property + " -tier " + r.Tier,
		"exhaustive":          false,
	}
	if len(r.Notes) > 0 {
		cov["notes"] = r.Notes
	}
	if len(r.Fatal) > 0 {
		cov["checker_failures"] = r.Fatal
	}
	if len(samples) == 0 {
		cov["samples"] = []any{"no obligations enumerated"}
	}
	ev := map[string]any{
		"property_id": r.Property,
		"tier":        r.Tier,
		"seed":        r.Seed,
		"level":       "other",
		"coverage":    cov,
		"assumptions": r.Assumptions,
		"wall_s":      time.Since(r.Start).Seconds(),
		"violations":  nviol,
	}
	if r.Assumptions == nil {
		ev["assumptions"] = []string{}
	}
	dir := filepath.Join(verifDir, "evidence")
	_ = os.MkdirAll(dir, 0o755)
	b, _ := json.MarshalIndent(ev, "", " ")
	_ = os.WriteFile(filepath.Join(dir, r.Property+".json"), append(b, '\n'), 0o644)
}
