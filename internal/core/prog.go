// Package core holds the shared engines of slockcheck: program loading (E1),
// canonical expressions, the path explorer (E2/E3/E7) and reporting.
package core

import (
	_ "embed"
	"fmt"
	"go/ast"
	"go/token"
	"go/types"
	"os"
	"sort"
	"strings"

	"golang.org/x/tools/go/callgraph"
	"golang.org/x/tools/go/callgraph/cha"
	"golang.org/x/tools/go/callgraph/vta"
	"golang.org/x/tools/go/packages"
	"golang.org/x/tools/go/ssa"
	"golang.org/x/tools/go/ssa/ssautil"
)

// ModulePath is the import-path prefix of the code under analysis.
const ModulePath = "github.com/snower/slock"

// Prog is the loaded, type-checked and SSA-built program.
type Prog struct {
	Dir   string
	Pkgs  []*packages.Package
	Fset  *token.FileSet
	SSA   *ssa.Program
	byRel map[string]*packages.Package // "server" -> pkg
	funcs map[string]*ssa.Function     // "server.(*LockDB).Lock" -> fn
	cg    *callgraph.Graph
	mayW  map[*ssa.Function]map[FieldKey]bool
}

// RepoDir returns the directory of the repository under analysis.
func RepoDir() string {
	if d := os.Getenv("SLOCK_REPO"); d != "" {
		return d
	}
	return "/repo"
}

// Load type-checks dir with the build's own flags and builds SSA for it and
// all its dependencies. Any type error, or zero packages, is a hard failure.
func Load(dir string) (*Prog, error) {
	cfg := &packages.Config{
		Mode: packages.LoadAllSyntax,
		Dir:  dir,
		Env:  append(os.Environ(), "GOFLAGS=-mod=mod", "GOPROXY=off", "GOSUMDB=off", "GOWORK=off"),
	}
	pkgs, err := packages.Load(cfg, "./...")
	if err != nil {
		return nil, err
	}
	if len(pkgs) == 0 {
		return nil, fmt.Errorf("no packages loaded from %s", dir)
	}
	var errs []string
	packages.Visit(pkgs, nil, func(p *packages.Package) {
		for _, e := range p.Errors {
			errs = append(errs, e.Error())
		}
	})
	if len(errs) > 0 {
		return nil, fmt.Errorf("type-check errors: %s", strings.Join(errs, "; "))
	}
	prog, _ := ssautil.AllPackages(pkgs, ssa.InstantiateGenerics)
	prog.Build()
	p := &Prog{Dir: dir, Pkgs: pkgs, Fset: prog.Fset, SSA: prog,
		byRel: map[string]*packages.Package{}, funcs: map[string]*ssa.Function{}}
	for _, pk := range pkgs {
		rel := strings.TrimPrefix(strings.TrimPrefix(pk.PkgPath, ModulePath), "/")
		if rel == "" {
			rel = "main"
		}
		p.byRel[rel] = pk
	}
	for fn := range ssautil.AllFunctions(prog) {
		if fn.Pkg == nil || !strings.HasPrefix(fn.Pkg.Pkg.Path(), ModulePath) {
			continue
		}
		p.funcs[FuncName(fn)] = fn
	}
	return p, nil
}

// Pkg returns the package by its path relative to the module ("server").
func (p *Prog) Pkg(rel string) *packages.Package { return p.byRel[rel] }

// InModule reports whether fn is defined in the analysed module.
func InModule(fn *ssa.Function) bool {
	return fn != nil && fn.Pkg != nil && strings.HasPrefix(fn.Pkg.Pkg.Path(), ModulePath)
}

// FuncName renders a stable short name: server.(*LockDB).Lock, server.NewLock,
// server.(*LockDB).Lock$1 for closures.
func FuncName(fn *ssa.Function) string {
	if fn == nil {
		return "<nil>"
	}
	rel := ""
	if fn.Pkg != nil {
		rel = strings.TrimPrefix(strings.TrimPrefix(fn.Pkg.Pkg.Path(), ModulePath), "/")
		if rel == "" {
			rel = "main"
		}
	}
	if fn.Parent() != nil {
		return FuncName(fn.Parent()) + "$" + strings.TrimPrefix(fn.Name(), fn.Parent().Name()+"$")
	}
	if recv := fn.Signature.Recv(); recv != nil {
		t := recv.Type()
		ptr := ""
		if pt, ok := t.(*types.Pointer); ok {
			t = pt.Elem()
			ptr = "*"
		}
		name := t.String()
		if nt, ok := t.(*types.Named); ok {
			name = nt.Obj().Name()
		}
		return fmt.Sprintf("%s.(%s%s).%s", rel, ptr, name, fn.Name())
	}
	return rel + "." + fn.Name()
}

// Func looks a function up by FuncName; nil when absent.
func (p *Prog) Func(name string) *ssa.Function { return p.funcs[name] }

// Funcs returns all module functions sorted by name.
func (p *Prog) Funcs() []*ssa.Function {
	names := make([]string, 0, len(p.funcs))
	for n := range p.funcs {
		names = append(names, n)
	}
	sort.Strings(names)
	out := make([]*ssa.Function, 0, len(names))
	for _, n := range names {
		out = append(out, p.funcs[n])
	}
	return out
}

// FuncsIn returns module functions of one package (relative path), sorted.
func (p *Prog) FuncsIn(rel string) []*ssa.Function {
	var out []*ssa.Function
	for _, fn := range p.Funcs() {
		if strings.HasPrefix(FuncName(fn), rel+".") {
			out = append(out, fn)
		}
	}
	return out
}

// Pos renders a position relative to the repository root.
func (p *Prog) Pos(pos token.Pos) string {
	if !pos.IsValid() {
		return "-"
	}
	ps := p.Fset.Position(pos)
	f := strings.TrimPrefix(ps.Filename, p.Dir+"/")
	return fmt.Sprintf("%s:%d", f, ps.Line)
}

// InstrPos returns the best position for an instruction (falls back to the
// enclosing function's position for synthetic instructions).
func (p *Prog) InstrPos(ins ssa.Instruction) string {
	if ins == nil {
		return "-"
	}
	if pos := ins.Pos(); pos.IsValid() {
		return p.Pos(pos)
	}
	if st, ok := ins.(*ssa.Store); ok {
		if pos := st.Addr.Pos(); pos.IsValid() {
			return p.Pos(pos)
		}
	}
	// Search operands for a position.
	var ops []*ssa.Value
	for _, op := range ins.Operands(ops) {
		if *op != nil && (*op).Pos().IsValid() {
			return p.Pos((*op).Pos())
		}
	}
	if ins.Parent() != nil {
		return p.Pos(ins.Parent().Pos())
	}
	return "-"
}

// CallGraph builds (once) the VTA call graph seeded with CHA.
func (p *Prog) CallGraph() *callgraph.Graph {
	if p.cg == nil {
		p.cg = vta.CallGraph(ssautil.AllFunctions(p.SSA), cha.CallGraph(p.SSA))
	}
	return p.cg
}

// Callees resolves the possible callees of a call instruction: the static
// callee, or the VTA callee set for dynamic calls (module functions only).
func (p *Prog) Callees(site ssa.CallInstruction) []*ssa.Function {
	if c := site.Common().StaticCallee(); c != nil {
		return []*ssa.Function{c}
	}
	cg := p.CallGraph()
	node := cg.Nodes[site.Parent()]
	if node == nil {
		return nil
	}
	seen := map[*ssa.Function]bool{}
	var out []*ssa.Function
	for _, e := range node.Out {
		if e.Site == site && e.Callee != nil && e.Callee.Func != nil && !seen[e.Callee.Func] {
			seen[e.Callee.Func] = true
			out = append(out, e.Callee.Func)
		}
	}
	sort.Slice(out, func(i, j int) bool { return FuncName(out[i]) < FuncName(out[j]) })
	return out
}

// Callers returns the call sites (in module functions) that may call fn.
func (p *Prog) Callers(fn *ssa.Function) []ssa.CallInstruction {
	node := p.CallGraph().Nodes[fn]
	if node == nil {
		return nil
	}
	var out []ssa.CallInstruction
	for _, e := range node.In {
		if e.Site != nil && InModule(e.Caller.Func) {
			out = append(out, e.Site)
		}
	}
	return out
}

// FieldKey identifies a struct field by its declaring named type and name.
type FieldKey struct{ Type, Field string }

func (k FieldKey) String() string { return k.Type + "." + k.Field }

// fieldKeyOf returns the key for field index i of the struct pointed to /
// held by t.
func fieldKeyOf(t types.Type, i int) FieldKey {
	if pt, ok := t.Underlying().(*types.Pointer); ok {
		t = pt.Elem()
	}
	name := TypeKey(t)
	st, ok := t.Underlying().(*types.Struct)
	if !ok || i >= st.NumFields() {
		return FieldKey{name, fmt.Sprintf("#%d", i)}
	}
	return FieldKey{name, st.Field(i).Name()}
}

// TypeKey names a (struct) type as "pkg.Name" for named types.
func TypeKey(t types.Type) string {
	if pt, ok := t.Underlying().(*types.Pointer); ok {
		t = pt.Elem()
	}
	if nt, ok := t.(*types.Named); ok {
		if nt.Obj().Pkg() != nil {
			return nt.Obj().Pkg().Name() + "." + nt.Obj().Name()
		}
		return nt.Obj().Name()
	}
	return t.String()
}

// FieldKeyOf is the exported form of fieldKeyOf.
func FieldKeyOf(t types.Type, i int) FieldKey { return fieldKeyOf(t, i) }

// StoreTargetKey is the exported form of storeTargetKey.
func StoreTargetKey(addr ssa.Value) (FieldKey, bool) { return storeTargetKey(addr) }

// addrFieldKeys lists the field keys an address expression passes through,
// outermost last (x.a.b -> [T.a, U.b]); ok=false if the address is not a field
// path (e.g. a local alloc or a slice element of unknown origin).
func addrFieldKeys(v ssa.Value) []FieldKey {
	var out []FieldKey
	for depth := 0; depth < 32; depth++ {
		switch a := v.(type) {
		case *ssa.FieldAddr:
			out = append(out, fieldKeyOf(a.X.Type(), a.Field))
			v = a.X
		case *ssa.IndexAddr:
			v = a.X
		case *ssa.UnOp:
			if a.Op == token.MUL {
				v = a.X
				continue
			}
			return out
		case *ssa.ChangeType:
			v = a.X
		case *ssa.Convert:
			v = a.X
		case *ssa.Slice:
			v = a.X
		default:
			return out
		}
	}
	return out
}

// storeTargetKey is the field directly written by a store to addr, if any.
func storeTargetKey(addr ssa.Value) (FieldKey, bool) {
	for depth := 0; depth < 8; depth++ {
		switch a := addr.(type) {
		case *ssa.FieldAddr:
			return fieldKeyOf(a.X.Type(), a.Field), true
		case *ssa.IndexAddr:
			addr = a.X
			// element of an array/slice held in a field: x.f[i] = v
			if u, ok := addr.(*ssa.UnOp); ok && u.Op == token.MUL {
				addr = u.X
			}
		default:
			return FieldKey{}, false
		}
	}
	return FieldKey{}, false
}

// MayWrite returns the set of module struct fields fn may store to, directly
// or through any callee (VTA call graph, transitive).
func (p *Prog) MayWrite(fn *ssa.Function) map[FieldKey]bool {
	if p.mayW == nil {
		p.computeMayWrite()
	}
	return p.mayW[fn]
}

func (p *Prog) computeMayWrite() {
	cg := p.CallGraph()
	direct := map[*ssa.Function]map[FieldKey]bool{}
	for fn := range cg.Nodes {
		if fn == nil || !InModule(fn) {
			continue
		}
		set := map[FieldKey]bool{}
		for _, b := range fn.Blocks {
			for _, ins := range b.Instrs {
				switch x := ins.(type) {
				case *ssa.Store:
					if k, ok := storeTargetKey(x.Addr); ok {
						set[k] = true
					}
				case ssa.CallInstruction:
					// Address of a field handed to a callee (atomic ops, helpers).
					for _, a := range x.Common().Args {
						if k, ok := storeTargetKey(a); ok {
							if _, isPtr := a.Type().Underlying().(*types.Pointer); isPtr {
								set[k] = true
							}
						}
					}
				}
			}
		}
		direct[fn] = set
	}
	// Transitive closure by iteration to a fixed point.
	p.mayW = map[*ssa.Function]map[FieldKey]bool{}
	for fn, s := range direct {
		c := map[FieldKey]bool{}
		for k := range s {
			c[k] = true
		}
		p.mayW[fn] = c
	}
	for changed := true; changed; {
		changed = false
		for fn := range direct {
			node := cg.Nodes[fn]
			mine := p.mayW[fn]
			for _, e := range node.Out {
				cal := e.Callee.Func
				if cal == nil || cal == fn {
					continue
				}
				if _, isGo := e.Site.(*ssa.Go); isGo {
					continue // effects of a started goroutine are not effects of the call
				}
				for k := range p.mayW[cal] {
					if !mine[k] {
						mine[k] = true
						changed = true
					}
				}
			}
		}
	}
}

// SyntaxFunc finds the *ast.FuncDecl of an SSA function.
func (p *Prog) SyntaxFunc(fn *ssa.Function) *ast.FuncDecl {
	if fn == nil {
		return nil
	}
	if fd, ok := fn.Syntax().(*ast.FuncDecl); ok {
		return fd
	}
	return nil
}

//go:embed baseline_funcs.txt
var baselineFuncs string

var baselineSet map[string]bool

// IsNewFunc reports whether fn is a module function that is not in the
// baseline census (internal/core/baseline_funcs.txt: every function of
// snower/slock that existed when the rule tables were confirmed by reading).
// The rules know nothing about such a function - typically a helper split out
// of a function they analyse - so the explorer looks through it instead of
// treating it as an opaque call. Closures are judged by their enclosing
// function (their own names are positional).
func (p *Prog) IsNewFunc(fn *ssa.Function) bool {
	if fn == nil || !InModule(fn) || fn.Synthetic != "" {
		return false
	}
	if baselineSet == nil {
		baselineSet = map[string]bool{}
		for _, l := range strings.Split(baselineFuncs, "\n") {
			if l = strings.TrimSpace(l); l != "" && !strings.HasPrefix(l, "#") {
				baselineSet[l] = true
			}
		}
	}
	for fn.Parent() != nil {
		fn = fn.Parent()
	}
	return !baselineSet[FuncName(fn)]
}

// FuncCensus lists the module's named functions (for regenerating the baseline).
func (p *Prog) FuncCensus() []string {
	var out []string
	for _, fn := range p.Funcs() {
		if fn.Parent() == nil && fn.Synthetic == "" && InModule(fn) {
			out = append(out, FuncName(fn))
		}
	}
	sort.Strings(out)
	return out
}
