package rules

import (
	"fmt"
	"go/token"
	"sort"
	"strconv"
	"strings"

	"golang.org/x/tools/go/ssa"

	"slockverif/internal/core"
)

func init() { Registry["C07"] = checkC07 }

func checkC07(p *core.Prog, r *core.Report) {
	r.Explanation = "Decides structural necessary conditions of restart recovery: (R1) the 64-byte log record: AofLock.Encode and Decode are inverse on every field byte, UpdateAofId rewrites exactly the id positions Encode uses, and Aof.lockAcked's direct reads (DbId, LockKey) hit the positions of that layout; (R2) every change of a persisted hold is logged: on every path of Lock/UnLock/doTimeOut/doExpried/DoAckLock/cancelWaitLock that removes a hold, changes its depth or updates its terms, the path tested the hold as not persisted, or pushes the matching log record before the shard mutex is released; (R3) the lazy persistence hook (AddExpried / AddMillisecondExpried) pushes only when the hold is not yet persisted and persistable, and AddExpried pushes one LOCK record per depth level (replay rebuilds depth from the number of records); (R4) the value blob of a record is written right after its record iff the record announces it (Aof.PushLock) and read before any skip (LoadAofFile); (R5) replayed records are marked FROM_AOF before they reach the engine, and the push functions return before logging a replayed command (no re-logging); (R6) the three places that interpret a record's remaining lifetime dispatch on the same unit flags. (R6) every list of log files built from FindAofFiles (start-up load, compaction, transfer) puts the snapshot before the append files - the list is the replay order. (R7) UnLock clears a hold's persisted mark only on paths that remove the hold (a partial release keeps it). (R8) a Lock object enters the pool (or leaves it) with its persisted mark cleared. (R9) a hold's persistence mode (Lock.aofTime) is assigned from constants, its own request or the database default, never copied from another hold (one known finding: later holders of a shared key inherit the first holder's mode). (R10) the expiry written to and read from the log is reduced by the age of the hold for every granularity (the period is returned unchanged only for never-expiring holds, a zero period or a clock that went backwards; a real defect - millisecond holds - was repaired). NOT decided: the rest of the numeric round-trip of remaining lifetime, rotation across files, equality of the recovered snapshot."
	r.Assumptions = []string{"Go type checker and go/ssa are correct for /repo", "the layout extractor interprets all byte stores of the record codec (uninterpreted statements are reported)"}
	c07R1(p, r)
	c07R2(p, r)
	c07R3(p, r)
	c07R4(p, r)
	loadAlignRule(p, r, "C07/R4b")
	c07R5(p, r)
	logFileOrderRule(p, r, "C07/R6")
	c07R7(p, r)
	c07R8(p, r)
	c07R9(p, r)
	c07R10(p, r)
}

func fieldLoadPred(fn *ssa.Function, typ, field string) func(ssa.Value) bool {
	return func(v ssa.Value) bool {
		u, ok := v.(*ssa.UnOp)
		if !ok || u.Op != token.MUL {
			return false
		}
		fa, ok := u.X.(*ssa.FieldAddr)
		if !ok {
			return false
		}
		k := core.FieldKeyOf(fa.X.Type(), fa.Field)
		return k.Type == typ && k.Field == field
	}
}

func c07R1(p *core.Prog, r *core.Report) {
	const rule = "C07/R1"
	r.Rule(rule, "AofLock.Encode/Decode inverse per field byte; UpdateAofId and lockAcked agree with that layout", 70)
	enc := mustFunc(p, r, "server.(*AofLock).Encode")
	dec := mustFunc(p, r, "server.(*AofLock).Decode")
	upd := mustFunc(p, r, "server.(*AofLock).UpdateAofId")
	if enc == nil || dec == nil || upd == nil {
		return
	}
	isBuf := fieldLoadPred(enc, "server.AofLock", "buf")
	le := ExtractLayout(p, enc, isBuf, paramPred(enc, 0))
	ld := ExtractLayout(p, dec, isBuf, paramPred(dec, 0))
	lu := ExtractLayout(p, upd, isBuf, paramPred(upd, 0))
	for _, is := range append(append(le.Issues, ld.Issues...), lu.Issues...) {
		r.Undecide(rule, "AofLock codec: "+is, strings.SplitN(is, ": ", 2)[0], is)
	}
	keys := make([]string, 0, len(ld.Dec))
	for k := range ld.Dec {
		keys = append(keys, k)
	}
	sort.Strings(keys)
	for _, k := range keys {
		pos := ld.Dec[k]
		key := "server.AofLock: " + k
		if le.Enc[pos] == k {
			r.Hold(rule, key, ld.Pos["dec"+k], fmt.Sprintf("position %d", pos))
		} else {
			r.Violate(rule, key, ld.Pos["dec"+k], fmt.Sprintf("Decode reads %s from position %d but Encode writes %s there: the record is misread after a restart", k, pos, le.Enc[pos]), nil)
		}
	}
	for pos := 2; pos < 64; pos++ {
		e := le.Enc[pos]
		key := fmt.Sprintf("server.AofLock: position %d", pos)
		if e == "" {
			r.Violate(rule, key, p.Pos(enc.Pos()), "Encode leaves the position unwritten (stale bytes of the reused record buffer are logged)", nil)
			continue
		}
		if _, ok := ld.Dec[e]; !ok && !strings.HasPrefix(e, "const:") {
			r.Violate(rule, key, p.Pos(enc.Pos()), "Encode writes "+e+" which Decode never reads", nil)
		}
	}
	// UpdateAofId must write the same positions with the same byte roles
	for pos, got := range lu.Enc {
		key := fmt.Sprintf("server.(*AofLock).UpdateAofId: position %d", pos)
		if roleOf(got) == roleOf(le.Enc[pos]) {
			r.Hold(rule, key, lu.Pos[fmt.Sprint("enc", pos)], got)
		} else {
			r.Violate(rule, key, lu.Pos[fmt.Sprint("enc", pos)], fmt.Sprintf("UpdateAofId writes %s at position %d where Encode writes %s", got, pos, le.Enc[pos]), nil)
		}
	}
	if len(lu.Enc) != 8 {
		r.Violate(rule, "server.(*AofLock).UpdateAofId: id positions", p.Pos(upd.Pos()), fmt.Sprintf("UpdateAofId rewrites %d positions, want the 8 id bytes", len(lu.Enc)), nil)
	}
	// lockAcked reads DbId and LockKey straight from the encoded record
	if la := mustFunc(p, r, "server.(*Aof).lockAcked"); la != nil {
		bufP := la.Params[1]
		want := map[int]string{20: "DbId#0"}
		for i := 0; i < 16; i++ {
			want[37+i] = fmt.Sprintf("LockKey#%d", i)
		}
		seen := map[int]bool{}
		for _, b := range la.Blocks {
			for _, ins := range b.Instrs {
				var base, idx ssa.Value
				switch t := ins.(type) {
				case *ssa.IndexAddr:
					base, idx = t.X, t.Index
				case *ssa.Index:
					base, idx = t.X, t.Index
				default:
					continue
				}
				if base != ssa.Value(bufP) {
					continue
				}
				n, ok := evalInt(idx, nil)
				if !ok {
					continue
				}
				seen[n] = true
			}
		}
		for pos := range seen {
			key := fmt.Sprintf("server.(*Aof).lockAcked: reads position %d", pos)
			if w, ok := want[pos]; ok && le.Enc[pos] == w {
				r.Hold(rule, key, p.Pos(la.Pos()), w)
			} else {
				r.Violate(rule, key, p.Pos(la.Pos()), fmt.Sprintf("lockAcked reads position %d, which Encode fills with %s (expected the DbId / LockKey positions)", pos, le.Enc[pos]), nil)
			}
		}
	}
}

func c07R2(p *core.Prog, r *core.Report) {
	const rule = "C07/R2"
	r.Rule(rule, "every removal / depth change / update of a hold is logged before the mutex is released unless the hold is not persisted (or the command is a replay)", 12)
	for _, name := range []string{"server.(*LockDB).Lock", "server.(*LockDB).UnLock", "server.(*LockDB).doTimeOut", "server.(*LockDB).doExpried", "server.(*LockDB).DoAckLock", "server.(*LockDB).cancelWaitLock"} {
		fn := mustFunc(p, r, name)
		if fn == nil {
			continue
		}
		init := core.NewState()
		if strings.HasSuffix(name, "cancelWaitLock") {
			init.RS["L:shard"] = "1"
		}
		ex := core.NewExplorer(p, core.Hooks{
			Track: func(x *core.X, a core.Atom) bool {
				return strings.HasSuffix(core.Plain(a.L), ".isAof") || strings.Contains(a.L, ".Flag & 4)")
			},
			Instr: func(x *core.X) {
				if !x.Top() {
					return
				}
				if cl, acq, ok := trackLocks(x); ok && cl == "shard" {
					if !acq {
						// section ends: every changed hold must have been logged or proven unpersisted
						for k, v := range x.St.RS {
							if !strings.HasPrefix(k, "chg:") || v == "" {
								continue
							}
							hold := k[4:]
							site := v
							logged := x.Get("log:"+hold) == "1"
							notPersisted := x.Passed(hold+".isAof == false") && !x.Passed(hold+".isAof == true")
							replay := false
							for h := range x.St.Hist {
								if strings.Contains(h, ".Flag & 4) != 0") {
									replay = true // a replayed record is already in the log
								}
							}
							if logged || notPersisted || replay {
								r.Hold(rule, site, x.Pos(), map[bool]string{true: "logged before release", false: "hold not persisted / replay"}[logged])
							} else {
								r.Violate(rule, site, x.Pos(), "state of hold "+stable(hold)+" changed but no log record is pushed before the mutex is released and the hold was not tested as unpersisted: a restart would resurrect / mis-count it", x.St.Trace)
							}
							x.Set(k, "")
						}
						for k := range x.St.RS {
							if strings.HasPrefix(k, "log:") {
								x.Set(k, "")
							}
						}
					}
					return
				}
				callee := core.StaticCallee(x.Ins)
				switch {
				case isMethod(callee, "LockManager", "RemoveLock"):
					h := core.Plain(argCanon(x, x.Ins, 1))
					if x.Get("chg:"+h) == "" {
						x.Set("chg:"+h, siteKey(p, x.Ins))
					}
				case isMethod(callee, "LockManager", "UpdateLockedLock"):
					h := core.Plain(argCanon(x, x.Ins, 1))
					if x.Get("chg:"+h) == "" {
						x.Set("chg:"+h, siteKey(p, x.Ins))
					}
				case isMethod(callee, "LockManager", "PushLockAof"):
					x.Set("log:"+core.Plain(argCanon(x, x.Ins, 1)), "1")
				case isMethod(callee, "LockManager", "PushUnLockAof"):
					x.Set("log:"+core.Plain(argCanon(x, x.Ins, 2)), "1")
				}
				if st, ok := x.Ins.(*ssa.Store); ok {
					if k, ok := storeKey(st.Addr); ok && k == fk("server.Lock", "locked") {
						if b, ok := st.Val.(*ssa.BinOp); ok && (b.Op == token.ADD || b.Op == token.SUB) {
							a := strings.TrimPrefix(x.Canon(st.Addr).S, "&")
							h := core.Plain(strings.TrimSuffix(a, ".locked"))
							if x.Get("chg:"+h) == "" {
								x.Set("chg:"+h, siteKey(p, x.Ins))
							}
						}
					}
				}
			},
		})
		ex.Run(fn, init)
		if ex.Imprecise != "" {
			r.Fail("C07/R2 %s: %s", name, ex.Imprecise)
		}
	}
}

func c07R3(p *core.Prog, r *core.Report) {
	const rule = "C07/R3"
	r.Rule(rule, "lazy persistence pushes only for not-yet-persisted, persistable holds; AddExpried pushes once per depth level", 2)
	for _, name := range []string{"server.(*LockDB).AddExpried", "server.(*LockDB).AddMillisecondExpried"} {
		fn := mustFunc(p, r, name)
		if fn == nil {
			continue
		}
		lk := fn.Params[1].Name()
		ex := core.NewExplorer(p, core.Hooks{
			Track: func(x *core.X, a core.Atom) bool {
				s := core.Plain(a.String())
				return strings.Contains(s, lk+".isAof") || strings.Contains(s, lk+".aofTime") || strings.Contains(s, lk+".locked")
			},
			Instr: func(x *core.X) {
				if !x.Top() || !calleeIs(x.Ins, "LockManager", "PushLockAof") {
					return
				}
				key := siteKey(p, x.Ins)
				var miss []string
				if !x.Passed(lk + ".isAof == false") {
					miss = append(miss, "hold not yet persisted (isAof == false)")
				}
				persistable := x.Passed(lk+".aofTime != 255") || x.Passed(lk+".aofTime == 0")
				if !persistable {
					miss = append(miss, "hold persistable (aofTime != 0xff)")
				}
				if strings.HasSuffix(name, ").AddExpried") {
					perDepth := false
					for h := range x.St.Hist {
						if strings.HasSuffix(h, " < "+lk+".locked") && blockInLoop(x.Ins.Block()) {
							perDepth = true
						}
					}
					if !perDepth {
						miss = append(miss, "one record per depth level (loop bounded by the hold's depth)")
					}
				}
				if len(miss) > 0 {
					r.Violate(rule, key, x.Pos(), "persistence push without: "+strings.Join(miss, "; "), x.St.Trace)
				} else {
					r.Hold(rule, key, x.Pos(), "guards present")
				}
			},
		})
		ex.Run(fn, nil)
	}
}

func c07R4(p *core.Prog, r *core.Report) {
	const rule = "C07/R4"
	r.Rule(rule, "a record's value blob is written right after the record iff the record announces it, inside the append mutex", 1)
	fn := mustFunc(p, r, "server.(*Aof).PushLock")
	if fn == nil {
		return
	}
	ex := core.NewExplorer(p, core.Hooks{
		Track: func(x *core.X, a core.Atom) bool {
			return strings.Contains(a.L, "AofFlag & ") || strings.HasPrefix(a.L, "WriteLock(")
		},
		Instr: func(x *core.X) {
			if !x.Top() {
				return
			}
			trackLocks(x)
			if calleeIs(x.Ins, "AofFile", "WriteLock") {
				x.Set("rec", "1")
				if !held(x, "aofGlock") {
					r.Violate(rule, siteKey(p, x.Ins), x.Pos(), "record appended outside the append mutex", x.St.Trace)
				}
			}
			if calleeIs(x.Ins, "AofFile", "WriteLockData") {
				key := siteKey(p, x.Ins)
				announced := false
				for h := range x.St.Hist {
					if strings.Contains(h, "AofFlag & ") && strings.HasSuffix(h, " != 0") {
						announced = true
					}
				}
				if x.Get("rec") == "1" && announced && held(x, "aofGlock") {
					r.Hold(rule, key, x.Pos(), "value follows its record under the append mutex")
				} else {
					r.Violate(rule, key, x.Pos(), "value blob written without its announcing record / flag / mutex", x.St.Trace)
				}
				x.Set("val", "1")
			}
		},
		Exit: func(x *core.X, rets []core.Expr) {
			announced, okWrite := false, false
			for h := range x.St.Hist {
				if strings.Contains(h, "AofFlag & ") && strings.HasSuffix(h, " != 0") {
					announced = true
				}
				if strings.HasPrefix(h, "WriteLock(") && strings.HasSuffix(h, " == nil") {
					okWrite = true
				}
			}
			if x.Get("rec") == "1" && okWrite && announced && x.Get("val") != "1" {
				r.Violate(rule, "server.(*Aof).PushLock: record announcing a value", x.Pos(), "record with the contains-data flag written without its value blob", x.St.Trace)
			}
		},
	})
	ex.Run(fn, nil)
}

func c07R5(p *core.Prog, r *core.Report) {
	const rule = "C07/R5"
	r.Rule(rule, "replayed records carry FROM_AOF into the engine; PushLockAof/PushUnLockAof return before logging a replayed command", 4)
	fromAof := fmt.Sprint(mustConst(p, r, "protocol", "LOCK_FLAG_FROM_AOF"))
	for _, name := range []string{"server.(*AofChannel).HandleLoad", "server.(*AofChannel).HandleReplay"} {
		fn := mustFunc(p, r, name)
		if fn == nil {
			continue
		}
		ex := core.NewExplorer(p, core.Hooks{
			Instr: func(x *core.X) {
				if !x.Top() {
					return
				}
				if st, ok := x.Ins.(*ssa.Store); ok {
					if k, ok := storeKey(st.Addr); ok && k == fk("protocol.LockCommand", "Flag") {
						v := core.Plain(x.Canon(st.Val).S)
						if strings.Contains(v, " | "+fromAof+")") || x.Get("marked") == "1" && strings.Contains(v, " | ") {
							x.Set("marked", "1")
						} else {
							x.Set("marked", "")
						}
					}
				}
				if n, _ := core.CallName(x.Ins); n == "ProcessLockCommand" {
					key := siteKey(p, x.Ins)
					if x.Get("marked") == "1" {
						r.Hold(rule, key, x.Pos(), "FROM_AOF set on the replayed command")
					} else {
						r.Violate(rule, key, x.Pos(), "a record from the log reaches the engine without the FROM_AOF mark: it would be refused on a follower and re-logged on a leader", x.St.Trace)
					}
				}
			},
		})
		ex.Run(fn, nil)
	}
	for _, sp := range []struct{ fn, flagOf string }{{"server.(*LockManager).PushLockAof", "lock.command"}, {"server.(*LockManager).PushUnLockAof", "unLockCommand"}} {
		fn := mustFunc(p, r, sp.fn)
		if fn == nil {
			continue
		}
		ex := core.NewExplorer(p, core.Hooks{
			Track: func(x *core.X, a core.Atom) bool {
				return strings.Contains(a.L, ".Flag & "+fromAof+")") || a.L == sp.flagOf && a.R == "nil"
			},
			Instr: func(x *core.X) {
				c := core.StaticCallee(x.Ins)
				if c == nil || !strings.HasSuffix(core.FuncName(c), "AofChannel).Push") || !x.Top() {
					return
				}
				key := siteKey(p, x.Ins)
				ok := false
				for h := range x.St.Hist {
					if strings.Contains(h, ".Flag & "+fromAof+") == 0") {
						ok = true
					}
				}
				// PushUnLockAof with a nil unlock command (expiry/timeout) cannot be a replay
				if !ok && x.Passed(sp.flagOf+" == nil") {
					ok = true
				}
				if ok {
					r.Hold(rule, key, x.Pos(), "replayed commands are not logged again")
				} else {
					r.Violate(rule, key, x.Pos(), "log push reachable for a replayed (FROM_AOF) command: replay would append the record again", x.St.Trace)
				}
			},
		})
		ex.Run(fn, nil)
	}
}

// blockInLoop reports whether a basic block lies on a cycle of its function's CFG.
func blockInLoop(b *ssa.BasicBlock) bool {
	seen := map[*ssa.BasicBlock]bool{}
	stack := append([]*ssa.BasicBlock(nil), b.Succs...)
	for len(stack) > 0 {
		c := stack[len(stack)-1]
		stack = stack[:len(stack)-1]
		if c == b {
			return true
		}
		if seen[c] {
			continue
		}
		seen[c] = true
		stack = append(stack, c.Succs...)
	}
	return false
}

// c07R7: Lock.isAof says "a LOCK record of this hold is in the log". It gates
// both directions of persistence: a release is logged only for holds with the
// mark (R2), and the lazy persistence hook writes LOCK records for holds
// without it (R3). A hold that stays alive after a partial (one re-entrancy
// level) release has to keep the mark: clearing it makes the final release go
// unlogged (the hold is resurrected by a restart) or makes the hook log the
// hold again (restored one level too deep). So in UnLock the mark is cleared
// only on paths that also remove the hold.
func c07R7(p *core.Prog, r *core.Report) {
	const rule = "C07/R7"
	r.Rule(rule, "UnLock clears a hold's persisted mark (isAof) only on paths that remove the hold; a partial release keeps it", 2)
	fn := mustFunc(p, r, "server.(*LockDB).UnLock")
	push := mustFunc(p, r, "server.(*LockManager).PushUnLockAof")
	if fn == nil || push == nil {
		return
	}
	n := 0
	ex := core.NewExplorer(p, core.Hooks{
		Inline: func(x *core.X, c *ssa.Function) bool { return c == push },
		Instr: func(x *core.X) {
			if cl, acq, ok := trackLocks(x); ok {
				if cl == "shard" && !acq && x.Top() {
					if h := x.Get("cleared"); h != "" {
						n++
						key := "server.(*LockDB).UnLock: persisted mark cleared"
						if x.Get("removed") == h {
							r.Hold(rule, key, x.Get("clearedpos"), "the hold is removed on this path")
						} else {
							r.Violate(rule, key, x.Get("clearedpos"), "the persisted mark of hold "+stable(h)+" is cleared although the hold stays alive on this path (partial release): its final release is then not logged, or the persistence hook logs the hold again - a restart restores a released hold or one level too many", x.St.Trace)
						}
						x.Set("cleared", "")
					}
					x.Set("removed", "")
				}
				return
			}
			if st, ok := x.Ins.(*ssa.Store); ok {
				if k, ok := storeKey(st.Addr); ok && k == fk("server.Lock", "isAof") && x.Canon(st.Val).S == "false" {
					h := core.Plain(strings.TrimSuffix(strings.TrimPrefix(x.Canon(st.Addr).S, "&"), ".isAof"))
					x.Set("cleared", h)
					x.Set("clearedpos", x.Pos())
				}
				return
			}
			if x.Top() && calleeIs(x.Ins, "LockManager", "RemoveLock") {
				x.Set("removed", core.Plain(argCanon(x, x.Ins, 1)))
			}
		},
	})
	ex.Run(fn, nil)
	if ex.Imprecise != "" {
		r.Fail("C07/R7: %s", ex.Imprecise)
	}
	if n == 0 {
		r.Fail("C07/R7: no path of UnLock clears the persisted mark")
	}
}

// c07R8: the persisted mark of a hold (Lock.isAof) gates the lazy persistence
// hook: a hold that carries it is never written. Lock objects are pooled; one
// that enters the pool with the mark set is handed to a later, unrelated hold,
// which is then never persisted (start-up replay frees replayed holds without
// passing through the unlock path that clears the mark).
func c07R8(p *core.Prog, r *core.Report) {
	const rule = "C07/R8"
	r.Rule(rule, "a recycled Lock object starts without the persisted mark: every path that puts a Lock into the pool cleared isAof first, or the pool's reuse path clears it", 1)
	mark := fk("server.Lock", "isAof")
	storesFalse := func(x *core.X) (string, bool) {
		st, ok := x.Ins.(*ssa.Store)
		if !ok {
			return "", false
		}
		fa, ok := st.Addr.(*ssa.FieldAddr)
		if !ok || core.FieldKeyOf(fa.X.Type(), fa.Field) != mark {
			return "", false
		}
		if x.Canon(st.Val).S != "false" {
			return "", false
		}
		return core.Plain(x.Canon(fa.X).S), true
	}
	// put side
	puts, badPut, badPos := 0, []string{}, ""
	var badPath []string
	for _, fn := range p.FuncsIn("server") {
		if fn.Blocks == nil || p.IsNewFunc(fn) {
			continue
		}
		has := false
		for _, b := range fn.Blocks {
			for _, ins := range b.Instrs {
				if calleeIs(ins, "LockQueue", "Push") {
					if args := core.CallArgs(ins); len(args) > 0 {
						if u, ok := args[0].(*ssa.UnOp); ok {
							if fa, ok := u.X.(*ssa.FieldAddr); ok && core.FieldKeyOf(fa.X.Type(), fa.Field).Field == "freeLocks" {
								has = true
							}
						}
					}
				}
			}
		}
		if !has {
			continue
		}
		name := core.FuncName(fn)
		ex := core.NewExplorer(p, core.Hooks{
			Instr: func(x *core.X) {
				if base, ok := storesFalse(x); ok {
					x.Set("clr:"+base, "1")
					return
				}
				if !calleeIs(x.Ins, "LockQueue", "Push") || !strings.HasSuffix(core.Plain(argCanon(x, x.Ins, 0)), ".freeLocks") {
					return
				}
				puts++
				obj := core.Plain(argCanon(x, x.Ins, 1))
				if x.Get("clr:"+obj) != "1" {
					badPut = append(badPut, name)
					if badPos == "" {
						badPos, badPath = x.Pos(), x.St.Trace
					}
				}
			},
		})
		ex.NoHist = true
		ex.Run(fn, nil)
		if ex.Imprecise != "" {
			r.Fail("C07/R8 %s: %s", name, ex.Imprecise)
		}
	}
	// get side
	getClears := false
	if get := p.Func("server.(*LockManager).GetOrNewLock"); get != nil {
		reuse, cleared := 0, 0
		ex := core.NewExplorer(p, core.Hooks{
			Instr: func(x *core.X) {
				if base, ok := storesFalse(x); ok {
					x.Set("clr:"+base, "1")
				}
			},
			Exit: func(x *core.X, rets []core.Expr) {
				if len(rets) != 1 || !strings.Contains(rets[0].S, "PopRight(") {
					return
				}
				reuse++
				if x.Get("clr:"+core.Plain(rets[0].S)) == "1" {
					cleared++
				}
			},
		})
		ex.NoHist = true
		ex.Run(get, nil)
		getClears = reuse > 0 && reuse == cleared
	}
	if puts == 0 {
		r.Fail("C07/R8: no function puts a Lock into the free pool")
		return
	}
	key := "Lock pool: recycled object starts without the persisted mark"
	switch {
	case len(badPut) == 0:
		r.Hold(rule, key, "-", fmt.Sprintf("cleared before each of %d put paths", puts))
	case getClears:
		r.Hold(rule, key, "-", "cleared on the reuse path of GetOrNewLock")
	default:
		r.Violate(rule, key, badPos, "a Lock goes into the free pool without isAof cleared (in "+strings.Join(badPut, ", ")+") and the reuse path does not clear it either: a replayed hold freed during start-up leaves the mark set, the next hold that recycles the object is taken for already persisted and is never written to the log", badPath)
	}
}

// c07R9: "every hold taken with the persist-immediately flag counts as
// persisted; holds taken with the never-persist flag are not restored" is per
// hold, so the persistence mode of a hold (Lock.aofTime: 0 = at once, 0xff =
// never, n = after n seconds) has to come from that hold's own request (or the
// database default), never from another hold.
func c07R9(p *core.Prog, r *core.Report) {
	const rule = "C07/R9"
	r.Rule(rule, "a hold's persistence mode (Lock.aofTime) is assigned from constants, its own request or the database default - never copied from another hold's mode", 5)
	isLoadOf := fieldLoadPred(nil, "server.Lock", "aofTime")
	var derives func(v ssa.Value, depth int) bool
	derives = func(v ssa.Value, depth int) bool {
		if depth > 6 {
			return false
		}
		if isLoadOf(v) {
			return true
		}
		switch x := v.(type) {
		case *ssa.Convert:
			return derives(x.X, depth+1)
		case *ssa.BinOp:
			return derives(x.X, depth+1) || derives(x.Y, depth+1)
		case *ssa.Phi:
			for _, e := range x.Edges {
				if derives(e, depth+1) {
					return true
				}
			}
		}
		return false
	}
	n := 0
	for _, f := range p.FuncsIn("server") {
		if f.Blocks == nil {
			continue
		}
		ord := 0
		for _, b := range f.Blocks {
			for _, ins := range b.Instrs {
				st, ok := ins.(*ssa.Store)
				if !ok {
					continue
				}
				fa, ok := st.Addr.(*ssa.FieldAddr)
				if !ok {
					continue
				}
				if k := core.FieldKeyOf(fa.X.Type(), fa.Field); k.Type != "server.Lock" || k.Field != "aofTime" {
					continue
				}
				ord++
				n++
				key := fmt.Sprintf("%s: store server.Lock.aofTime#%d", core.FuncName(f), ord)
				if derives(st.Val, 0) {
					key = fmt.Sprintf("%s: mode copied from %s", core.FuncName(f), c07Desc(st.Val, 0))
					r.Violate(rule, key, p.InstrPos(ins), "the hold's persistence mode is copied from another hold (the key's current holder): on a shared key a later holder taken with the persist-immediately flag is never logged, one taken with the never-persist flag is logged and restored", nil)
				} else {
					r.Hold(rule, key, p.InstrPos(ins), "mode from constants / own request / database default")
				}
			}
		}
	}
	if n == 0 {
		r.Fail("C07/R9: no store to Lock.aofTime found")
	}
}

// c07Desc names a loaded field path (self.currentLock.aofTime) for obligation keys.
func c07Desc(v ssa.Value, depth int) string {
	if depth > 8 {
		return "?"
	}
	switch x := v.(type) {
	case *ssa.UnOp:
		return c07Desc(x.X, depth+1)
	case *ssa.Convert:
		return c07Desc(x.X, depth+1)
	case *ssa.FieldAddr:
		k := core.FieldKeyOf(x.X.Type(), x.Field)
		return c07Desc(x.X, depth+1) + "." + k.Field
	case *ssa.Parameter:
		return x.Name()
	case *ssa.BinOp:
		return c07Desc(x.X, depth+1) + x.Op.String() + c07Desc(x.Y, depth+1)
	}
	return "?"
}

// c07R10: "the outage never renews a hold": the log stores what is left of a
// hold's period when the record is written (GetAofLockExpriedTime) and the
// loader hands the engine what is left when the record is read
// (GetLockCommandExpriedTime); the engine then counts that amount from the
// restart. A path of either function that returns the period unchanged adds
// the age of the hold to its life - allowed only for never-expiring holds, a
// zero period, or a clock that went backwards.
func c07R10(p *core.Prog, r *core.Report) {
	const rule = "C07/R10"
	r.Rule(rule, "the expiry written to / read from the log is reduced by the age of the hold for every granularity: the period is returned unchanged only for never-expiring holds, a zero period or a clock that went backwards", 8)
	unlimited := strconv.FormatInt(mustConst(p, r, "protocol", "EXPRIED_FLAG_UNLIMITED_EXPRIED_TIME"), 10)
	for _, spec := range []struct{ fn, raw string }{
		{"server.(*Aof).GetLockCommandExpriedTime", "aofLock.ExpriedTime"},
		{"server.(*Aof).GetAofLockExpriedTime", "lockCommand.Expried"},
	} {
		fn := mustFunc(p, r, spec.fn)
		if fn == nil {
			continue
		}
		n := 0
		ex := core.NewExplorer(p, core.Hooks{
			Track: func(x *core.X, a core.Atom) bool { return true },
			Exit: func(x *core.X, rets []core.Expr) {
				if len(rets) == 0 {
					return
				}
				n++
				var flags []string
				allowed := ""
				for h := range x.St.Hist {
					h = core.Plain(h)
					if strings.Contains(h, "ExpriedFlag & ") {
						flags = append(flags, h)
						if strings.Contains(h, "ExpriedFlag & "+unlimited+") != 0") {
							allowed = "never-expiring hold"
						}
					}
					if strings.HasSuffix(h, " < 0") && strings.Contains(h, "currentTime") {
						allowed = "clock went backwards"
					}
					if h == spec.raw+" <= 0" || h == "lock.expriedTime <= 0" {
						allowed = "zero period / no deadline"
					}
					if strings.Contains(h, spec.raw) && strings.Contains(h, "expriedTime") && allowed == "" {
						allowed = "the smaller of the period and what is left of it (" + h + ")"
					}
				}
				sort.Strings(flags)
				key := fmt.Sprintf("%s: result on the path [%s]", spec.fn, strings.Join(flags, ", "))
				ret := core.Plain(rets[0].S)
				switch {
				case ret != spec.raw && ret != "0" && strings.HasSuffix(spec.fn, "GetAofLockExpriedTime") && !(strings.Contains(ret, "expriedTime") && strings.Contains(ret, "CommandTime")):
					// write side: what is left is the deadline minus the record's own time stamp
					// (CommandTime), the origin the loader measures the elapsed time from
					r.Violate(rule, key+" (origin)", x.Pos(), "the remaining period written to the record ("+ret+") is not the hold's deadline minus the record's CommandTime: the loader measures the elapsed time from CommandTime, so a record pushed some time after the hold started restores the hold with that delay added to its life", x.St.Trace)
				case ret != spec.raw:
					r.Hold(rule, key, x.Pos(), "computed from the deadline / the elapsed time: "+ret)
				case allowed != "":
					r.Hold(rule, key, x.Pos(), "period unchanged: "+allowed)
				default:
					r.Violate(rule, key, x.Pos(), "the period is returned unchanged ("+spec.raw+") for a hold that expires: the age of the hold is not subtracted, so a restart gives the hold its whole period again (a 60 s millisecond hold stopped after 5 s comes back with 60 s)", x.St.Trace)
				}
			},
		})
		ex.Run(fn, nil)
		if ex.Imprecise != "" {
			r.Fail("C07/R10 %s: %s", spec.fn, ex.Imprecise)
		}
		if n == 0 {
			r.Fail("C07/R10: %s has no return", spec.fn)
		}
	}
}
