package rules

import (
	"fmt"
	"go/token"
	"go/types"
	"sort"
	"strconv"
	"strings"

	"golang.org/x/tools/go/ssa"

	"slockverif/internal/core"
)

func init() { Registry["C11"] = checkC11 }

func checkC11(p *core.Prog, r *core.Report) {
	r.Explanation = "Decides structural necessary conditions of ack-required locks: (R1) DoAckLock(lock, true) is called only from the two ack counters, each call on a path that saw a positive result, a still-pending hold, the decrement of its ack count and the count reaching zero, all tested under the ack table's mutex; any other call passes constant false; (R2) on the ack-pending arms of Lock / wakeUpWaitLock (require-ack flag, not yet persisted, persistable) the request is never answered SUCCED; (R3) every mutation of a hold found by LockId in Lock/UnLock follows the test ackCount == 0xff (not pending); (R4) DoAckLock's failure arm undoes the value (when the request carried one), logs the release of a persisted hold, removes the hold, answers RESULT_ERROR after the mutex and wakes waiters, in that order; in every function, the pending test (ackCount) of a hold is never evaluated after RemoveLock reset it; (R5) every failure source reaches the failure arm: AofFile.Flush acknowledges success only after both the record and the value write and negatively on every error return; AofChannel.HandleLock, the ack table's push/unlock/demotion/flush paths call DoAckLock(false); (R6) UpdateDBAckCount computes len(followers)+1 (all) or (len+1)/2+1 (majority). (R7) every publication of a new ack table is followed, before the manager mutex is released, by the recount that gives it the real acknowledgement requirement. (R8) on the ack-pending path of wakeUpWaitLock the queued request's timeout stays armed (it is the only bound on the wait for acknowledgements). (R9) ProcessLeaderPushLock tracks or fails a pending ack request on every return; (R10) the rollback (ProcessRecoverLockData) clears the logged mark of every existing value object it puts back as the current value, so the compensating UNLOCK record carries it. (R11) a recycled ack entry has its handshake flags cleared. (R12) while the leader's flush and the followers' acknowledgements count down one counter, the required count of every non-arbiter ack mode exceeds the number of followers (it does not in majority mode with two or more followers: known finding). NOT decided: run-time ordering between flush, follower acks and reply; lost-ack behaviour."
	r.Assumptions = []string{"Go type checker and go/ssa are correct for /repo", "the ack table mutex (ackGlocks) serialises the two counters (checked for ackCount stores in C01-R3)"}
	c11R1(p, r)
	c11R2(p, r)
	c11R3(p, r)
	c11R4(p, r)
	c11R5(p, r)
	c11R6(p, r)
	c11R7(p, r)
	c11R8(p, r)
	c11R9(p, r)
	c11R10(p, r)
	c11R11(p, r)
	c11R12(p, r)
}

func c11R1(p *core.Prog, r *core.Report) {
	const rule = "C11/R1"
	r.Rule(rule, "DoAckLock(lock, true) only at ack count zero: result==0, ackCount != 0xff, ackCount--, !(ackCount > 0), tested under ackGlocks", 10)
	doAck := mustFunc(p, r, "server.(*LockDB).DoAckLock")
	if doAck == nil {
		return
	}
	byFn := map[*ssa.Function]bool{}
	for _, s := range p.Callers(doAck) {
		byFn[s.Parent()] = true
	}
	var fns []*ssa.Function
	for f := range byFn {
		fns = append(fns, f)
	}
	sort.Slice(fns, func(i, j int) bool { return core.FuncName(fns[i]) < core.FuncName(fns[j]) })
	for _, fn := range fns {
		ex := core.NewExplorer(p, core.Hooks{
			Track: func(x *core.X, a core.Atom) bool {
				s := core.Plain(a.String())
				return strings.Contains(s, ".ackCount") || strings.Contains(s, ".Result")
			},
			Instr: func(x *core.X) {
				if !x.Top() {
					return
				}
				if cl, acq, ok := trackLocks(x); ok && cl == "ackGlocks" {
					if !acq {
						x.Set("sect", "closed")
					} else {
						x.Set("sect", "open")
						x.Set("dec", "")
						x.Set("zero", "")
						x.Set("okres", "")
						x.Set("pend", "")
					}
					return
				}
				if st, ok := x.Ins.(*ssa.Store); ok {
					if k, ok := storeKey(st.Addr); ok && k == ackCountKey && signOf(st) == "-" && held(x, "ackGlocks") {
						x.Set("dec", strings.TrimSuffix(strings.TrimPrefix(x.Canon(st.Addr).S, "&"), ".ackCount"))
					}
					return
				}
				if core.StaticCallee(x.Ins) != doAck {
					return
				}
				key := siteKey(p, x.Ins)
				args := core.CallArgs(x.Ins)
				c, isConst := args[2].(*ssa.Const)
				if !isConst {
					r.Violate(rule, key, x.Pos(), "DoAckLock called with a non-constant outcome "+x.Canon(args[2]).S, x.St.Trace)
					return
				}
				if c.Value.String() != "true" {
					r.Hold(rule, key, x.Pos(), "failure outcome")
					return
				}
				lk := core.Plain(argCanon(x, x.Ins, 1))
				var miss []string
				if x.Get("dec") == "" || core.Plain(x.Get("dec")) != lk {
					miss = append(miss, "ackCount-- of this hold under ackGlocks")
				}
				if x.Get("zero") != lk {
					miss = append(miss, "count reached zero (!(ackCount > 0)) after the decrement")
				}
				if x.Get("okres") != "1" {
					miss = append(miss, "positive acknowledgement (Result == 0)")
				}
				if x.Get("pend") != lk {
					miss = append(miss, "hold still pending (ackCount != 0xff)")
				}
				if len(miss) > 0 {
					r.Violate(rule, key, x.Pos(), "success reported without: "+strings.Join(miss, "; "), x.St.Trace)
				} else {
					r.Hold(rule, key, x.Pos(), "all required acknowledgements counted")
				}
			},
			Branch: func(x *core.X, a core.Atom) {
				if !held(x, "ackGlocks") {
					return
				}
				l, rr := core.Plain(a.L), core.Plain(a.R)
				switch {
				case strings.HasSuffix(l, ".Result") && a.Op == "==" && rr == "0":
					x.Set("okres", "1")
				case strings.HasSuffix(l, ".ackCount") && a.Op == "!=" && rr == "255":
					x.Set("pend", strings.TrimSuffix(l, ".ackCount"))
				case strings.HasSuffix(l, ".ackCount") && a.Op == "<=" && rr == "0" && x.Get("dec") != "":
					x.Set("zero", strings.TrimSuffix(l, ".ackCount"))
				case strings.HasSuffix(l, ".ackCount") && a.Op == "==" && rr == "0" && x.Get("dec") != "":
					x.Set("zero", strings.TrimSuffix(l, ".ackCount"))
				}
			},
		})
		ex.Run(fn, nil)
		if ex.Imprecise != "" {
			r.Fail("C11/R1 %s: %s", core.FuncName(fn), ex.Imprecise)
		}
	}
}

func c11R2(p *core.Prog, r *core.Report) {
	const rule = "C11/R2"
	r.Rule(rule, "no SUCCED reply on the ack-pending arms of Lock / wakeUpWaitLock", 2)
	for _, name := range []string{"server.(*LockDB).Lock", "server.(*LockDB).wakeUpWaitLock"} {
		fn := mustFunc(p, r, name)
		if fn == nil {
			continue
		}
		found := 0
		ex := core.NewExplorer(p, core.Hooks{
			Track: func(x *core.X, a core.Atom) bool {
				s := core.Plain(a.String())
				return strings.Contains(s, "TimeoutFlag & 4096)") || strings.Contains(s, ".Flag & 4)") || strings.HasSuffix(s, ".isAof == false") || strings.HasSuffix(s, ".isAof == true") || strings.Contains(s, ".aofTime")
			},
			Instr: func(x *core.X) {
				if !x.Top() {
					return
				}
				if calleeIs(x.Ins, "LockManager", "AddLock") {
					x.Set("granted", core.Plain(argCanon(x, x.Ins, 1)))
					return
				}
				_, res, _, ok := replyCall(x, x.Ins)
				if !ok || res != "0" || x.Get("granted") == "" {
					return
				}
				lk := x.Get("granted")
				ackArm, replay := false, false
				for h := range x.St.Hist {
					if strings.Contains(h, "TimeoutFlag & 4096) != 0") {
						ackArm = true
					}
					if strings.Contains(h, ".Flag & 4) != 0") {
						replay = true // replayed records are not acknowledged again
					}
				}
				ackArm = ackArm && !replay
				if ackArm && x.Passed(lk+".isAof == false") && x.Passed(lk+".aofTime != 255") {
					r.Violate(rule, siteKey(p, x.Ins), x.Pos(), "SUCCED is sent for an ack-required lock before its record is written and acknowledged", x.St.Trace)
				}
			},
			Exit: func(x *core.X, rets []core.Expr) {
				lk := x.Get("granted")
				if lk == "" {
					return
				}
				for h := range x.St.Hist {
					if strings.Contains(h, ".Flag & 4) != 0") {
						return
					}
				}
				for h := range x.St.Hist {
					if strings.Contains(h, "TimeoutFlag & 4096) != 0") && x.Passed(lk+".isAof == false") && x.Passed(lk+".aofTime != 255") {
						found++
						r.Hold(rule, name+": ack-pending arm", x.Pos(), "returns without SUCCED")
						return
					}
				}
			},
		})
		ex.Run(fn, nil)
		if found == 0 {
			r.Fail("C11/R2: no ack-pending arm recognised in %s (anchor shape changed)", name)
		}
		if ex.Imprecise != "" {
			r.Fail("C11/R2 %s: %s", name, ex.Imprecise)
		}
	}
}

func c11R3(p *core.Prog, r *core.Report) {
	const rule = "C11/R3"
	r.Rule(rule, "every mutation of a hold found by GetLockedLock in Lock/UnLock - or taken as the oldest holder by UnLock's unlock-first arm - follows the test ackCount == 0xff", 20)
	for _, name := range []string{"server.(*LockDB).Lock", "server.(*LockDB).UnLock"} {
		fn := mustFunc(p, r, name)
		if fn == nil {
			continue
		}
		ex := core.NewExplorer(p, core.Hooks{
			Track: func(x *core.X, a core.Atom) bool { return strings.Contains(core.Plain(a.L), ".ackCount") },
			Instr: func(x *core.X) {
				if !x.Top() {
					return
				}
				target := ""
				what := ""
				switch t := x.Ins.(type) {
				case *ssa.Store:
					if k, ok := storeKey(t.Addr); ok && k.Type == "server.Lock" {
						a := strings.TrimPrefix(x.Canon(t.Addr).S, "&")
						if i := strings.LastIndex(a, "."); i > 0 {
							target, what = core.Plain(a[:i]), "store "+k.String()
						}
					}
				case ssa.CallInstruction:
					if n, ok := isMutatorCall(x.Ins); ok {
						for i, a := range core.CallArgs(x.Ins) {
							if i == 0 {
								continue
							}
							c := core.Plain(x.Canon(a).S)
							if isPureCall(c, "GetLockedLock") || (fn.Name() == "UnLock" && strings.HasSuffix(c, ".currentLock")) {
								target, what = c, "call "+n
							}
						}
					}
				}
				// the hold the request names, or (UnLock's unlock-first arm) the key's oldest holder
				if !isPureCall(target, "GetLockedLock") && !(fn.Name() == "UnLock" && strings.HasSuffix(target, ".currentLock")) {
					return
				}
				key := siteKey(p, x.Ins)
				if x.Passed(target + ".ackCount == 255") {
					r.Hold(rule, key, x.Pos(), what+" of a hold that is not ack-pending")
				} else {
					r.Violate(rule, key, x.Pos(), what+" of "+target+" without the ack-pending test (ackCount == 0xff): a hold waiting for acknowledgement would be changed", x.St.Trace)
				}
			},
		})
		ex.Run(fn, nil)
		if ex.Imprecise != "" {
			r.Fail("C11/R3 %s: %s", name, ex.Imprecise)
		}
	}
}

func c11R4(p *core.Prog, r *core.Report) {
	const rule = "C11/R4"
	r.Rule(rule, "DoAckLock failure arm: undo value (if any) -> log release (if persisted) -> RemoveLock -> unlock -> RESULT_ERROR -> wake; ackCount is never tested after RemoveLock on a path", 3)
	fn := mustFunc(p, r, "server.(*LockDB).DoAckLock")
	resErr := fmt.Sprint(mustConst(p, r, "protocol", "RESULT_ERROR"))
	if fn != nil {
		lk, succ := fn.Params[1].Name(), fn.Params[2].Name()
		ex := core.NewExplorer(p, core.Hooks{
			Track: func(x *core.X, a core.Atom) bool {
				s := core.Plain(a.String())
				return strings.Contains(s, succ) || strings.Contains(s, ".Flag & 32)") || strings.Contains(s, ".isAof")
			},
			Instr: func(x *core.X) {
				if !x.Top() {
					return
				}
				trackLocks(x)
				callee := core.StaticCallee(x.Ins)
				seq := x.Get("seq")
				switch {
				case isMethod(callee, "LockManager", "ProcessRecoverLockData"):
					x.Set("seq", seq+"U")
				case isMethod(callee, "LockManager", "PushUnLockAof"):
					x.Set("seq", seq+"L")
				case isMethod(callee, "LockManager", "RemoveLock"):
					x.Set("seq", seq+"R")
				case isMethod(callee, "LockDB", "wakeUpWaitLocks"):
					x.Set("seq", seq+"W")
				}
				if _, res, _, ok := replyCall(x, x.Ins); ok && res == resErr {
					if held(x, "shard") {
						x.Set("seq", seq+"e")
					} else {
						x.Set("seq", seq+"E")
					}
				}
			},
			Exit: func(x *core.X, rets []core.Expr) {
				seq := x.Get("seq")
				if !strings.Contains(seq, "E") && !strings.Contains(seq, "e") {
					return
				}
				// the undo / log steps may be skipped only on a path that tested
				// "no value carried" / "not persisted"
				hasData := true
				persisted := true
				for h := range x.St.Hist {
					if strings.Contains(h, ".Flag & 32) == 0") {
						hasData = false
					}
					if h == lk+".isAof == false" {
						persisted = false
					}
				}
				want := ""
				if hasData {
					want += "U"
				}
				if persisted {
					want += "L"
				}
				want += "REW"
				key := fmt.Sprintf("server.(*LockDB).DoAckLock: failure arm{data=%v persisted=%v}", hasData, persisted)
				if seq == want {
					r.Hold(rule, key, x.Pos(), "sequence "+seq)
				} else {
					r.Violate(rule, key, x.Pos(), "failure arm performs "+seq+", want "+want+" (U=undo value, L=log release, R=remove hold, E=RESULT_ERROR after the mutex, W=wake waiters)", x.St.Trace)
				}
			},
		})
		ex.Run(fn, nil)
	}
	// stale pending test: X.ackCount evaluated after RemoveLock(X)
	for _, name := range []string{"server.(*LockDB).doTimeOut", "server.(*LockDB).doExpried", "server.(*LockDB).DoAckLock", "server.(*LockDB).UnLock", "server.(*LockDB).cancelWaitLock"} {
		f := mustFunc(p, r, name)
		if f == nil {
			continue
		}
		n := 0
		ex := core.NewExplorer(p, core.Hooks{
			Instr: func(x *core.X) {
				if x.Top() && calleeIs(x.Ins, "LockManager", "RemoveLock") {
					x.Set("rm:"+core.Plain(argCanon(x, x.Ins, 1)), "1")
				}
			},
			Branch: func(x *core.X, a core.Atom) {
				l := core.Plain(a.L)
				if !strings.HasSuffix(l, ".ackCount") || !x.Top() {
					return
				}
				n++
				key := siteKey(p, x.Ins)
				if x.Get("rm:"+strings.TrimSuffix(l, ".ackCount")) == "1" && !strings.Contains(a.L, core.SnapMark) {
					r.Violate(rule, key, x.Pos(), "ack-pending test "+core.Plain(a.String())+" evaluated after RemoveLock reset ackCount: the pending arm (value undo) can never be taken", x.St.Trace)
				} else {
					r.Hold(rule, key, x.Pos(), "pending test reads the live count")
				}
			},
		})
		ex.Run(f, nil)
	}
}

func c11R5(p *core.Prog, r *core.Report) {
	const rule = "C11/R5"
	r.Rule(rule, "failure sources reach the failure arm: Flush acks success only after both writes and nacks on every error return; HandleLock / ack-table paths call DoAckLock(false)", 8)
	// AofFile.Flush
	if fn := mustFunc(p, r, "server.(*AofFile).Flush"); fn != nil {
		ex := core.NewExplorer(p, core.Hooks{
			// helpers of the same type are explored inline (a refactor may move the
			// ack loop or a write into a method of AofFile)
			Inline: func(x *core.X, c *ssa.Function) bool { return core.InModule(c) && recvName(c) == "AofFile" },
			Track:  func(x *core.X, a core.Atom) bool { return strings.Contains(core.Plain(a.String()), ".ackIndex") },
			Instr: func(x *core.X) {
				name, _ := core.CallName(x.Ins)
				switch name {
				case "Write":
					recv := core.Plain(argCanon(x, x.Ins, 0))
					if x.Get("acked") == "1" {
						r.Violate(rule, siteKey(p, x.Ins), x.Pos(), "write to "+recv+" after requests were already acknowledged as written (an ack lock would be reported persisted although this write can still fail)", x.St.Trace)
					}
					if strings.HasSuffix(recv, ".dataFile") {
						x.Set("dw", "1")
					}
				case "lockAcked":
					av := argCanon(x, x.Ins, 2)
					if v, ok := map[string]int64{"true": 1, "false": 0}[av]; ok {
						if v == 1 {
							x.Set("acked", "1")
							r.Hold(rule, siteKey(p, x.Ins), x.Pos(), "positive ack")
						} else {
							x.Set("nacked", "1")
						}
					}
				}
			},
			Exit: func(x *core.X, rets []core.Expr) {
				if len(rets) != 1 || rets[0].S == "nil" {
					return
				}
				nackLoop := x.Get("nacked") == "1"
				for h := range x.St.Hist {
					if strings.Contains(h, ".ackIndex") {
						nackLoop = true
					}
				}
				key := "server.(*AofFile).Flush: error return after " + map[bool]string{true: "value write", false: "record write"}[x.Get("dw") == "1"]
				if nackLoop {
					r.Hold(rule, key, x.Pos(), "pending ack requests are failed before the error is returned")
				} else {
					r.Violate(rule, key, x.Pos(), "error returned without failing the queued ack requests (their clients would wait until timeout)", x.St.Trace)
				}
			},
		})
		ex.Run(fn, nil)
	}
	// functions that must hand failures to DoAckLock(false)
	doAck := p.Func("server.(*LockDB).DoAckLock")
	for _, spec := range []struct {
		fn  string
		min int
	}{
		{"server.(*AofChannel).HandleLock", 1},
		{"server.(*ReplicationAckDB).ProcessLeaderPushLock", 1},
		{"server.(*ReplicationAckDB).ProcessLeaderPushUnLock", 1},
		{"server.(*ReplicationAckDB).ProcessLeaderAcked", 1},
		{"server.(*ReplicationAckDB).ProcessLeaderAofed", 1},
		{"server.(*ReplicationAckDB).SwitchToFollower", 1},
		{"server.(*ReplicationAckDB).FlushDB", 1},
	} {
		fn := mustFunc(p, r, spec.fn)
		if fn == nil {
			continue
		}
		// a hand-over is a DoAckLock(.., false) call, here or in a helper that did not
		// exist when the sites were confirmed (looked through)
		var nacks func(f *ssa.Function, depth int) int
		nacks = func(f *ssa.Function, depth int) int {
			n := 0
			for _, b := range f.Blocks {
				for _, ins := range b.Instrs {
					c := core.StaticCallee(ins)
					if c == nil {
						continue
					}
					if c == doAck {
						if v, ok := constArg(ins, 2); ok && v == 0 {
							n++
						}
					} else if depth < 3 && p.IsNewFunc(c) && nacks(c, depth+1) > 0 {
						n++
					}
				}
			}
			return n
		}
		n := nacks(fn, 0)
		key := spec.fn + ": DoAckLock(false) sites"
		if n >= spec.min {
			r.Hold(rule, key, p.Pos(fn.Pos()), fmt.Sprintf("%d failure hand-overs", n))
		} else {
			r.Violate(rule, key, p.Pos(fn.Pos()), fmt.Sprintf("%d DoAckLock(false) call(s), want at least %d: a failure source no longer fails its pending ack locks", n, spec.min), nil)
		}
	}
	// HandleLock: error paths of an ack lock end in DoAckLock(false)
	if fn := p.Func("server.(*AofChannel).HandleLock"); fn != nil {
		ex := core.NewExplorer(p, core.Hooks{
			Track: func(x *core.X, a core.Atom) bool {
				s := core.Plain(a.String())
				return strings.Contains(s, "AofFlag & 4096)") || strings.Contains(s, ".CommandType") || strings.HasSuffix(s, ".lock != nil") || strings.HasSuffix(s, ".lock == nil") || strings.HasSuffix(s, " != nil") && (strings.HasPrefix(s, "Encode(") || strings.HasPrefix(s, "PushLock("))
			},
			Instr: func(x *core.X) {
				if x.Top() && core.StaticCallee(x.Ins) == doAck {
					x.Set("failed", "1")
				}
			},
			Exit: func(x *core.X, rets []core.Expr) {
				errPath, ackLock := false, 0
				for h := range x.St.Hist {
					if (strings.HasPrefix(h, "Encode(") || strings.HasPrefix(h, "PushLock(")) && strings.HasSuffix(h, " != nil") {
						errPath = true
					}
					if strings.Contains(h, "AofFlag & 4096) != 0") || strings.HasSuffix(h, ".CommandType == 1") || strings.HasSuffix(h, ".lock != nil") {
						ackLock++
					}
				}
				if !errPath || ackLock < 3 {
					return
				}
				key := "server.(*AofChannel).HandleLock: error path of an ack lock"
				if x.Get("failed") == "1" {
					r.Hold(rule, key, x.Pos(), "")
				} else {
					r.Violate(rule, key, x.Pos(), "log write of an ack lock failed but the lock is not failed (DoAckLock(false) missing on this path)", x.St.Trace)
				}
			},
		})
		ex.Run(fn, nil)
	}
}

func c11R6(p *core.Prog, r *core.Report) {
	const rule = "C11/R6"
	r.Rule(rule, "UpdateDBAckCount: all = len(serverChannels)+1, majority = (len(serverChannels)+1)/2+1 or the arbiter majority", 3)
	fn := mustFunc(p, r, "server.(*ReplicationManager).UpdateDBAckCount")
	if fn == nil {
		return
	}
	self := fn.Params[0].Name()
	all := "(len(" + self + ".serverChannels) + 1)"
	maj := "(((len(" + self + ".serverChannels) + 1) / 2) + 1)"
	ex := core.NewExplorer(p, core.Hooks{
		ResolvePhi: func(phi *ssa.Phi) bool {
			b, ok := phi.Type().Underlying().(*types.Basic)
			return ok && b.Info()&types.IsInteger != 0
		},
		Track: func(x *core.X, a core.Atom) bool {
			return strings.Contains(a.L, "AofAckMode") || strings.Contains(a.L, "arbiterManager")
		},
		Instr: func(x *core.X) {
			st, ok := x.Ins.(*ssa.Store)
			if !ok {
				return
			}
			k, ok := storeKey(st.Addr)
			if !ok || k != fk("server.ReplicationAckDB", "ackCount") {
				return
			}
			v := core.Plain(x.Canon(st.Val).S)
			v = strings.TrimSuffix(strings.TrimPrefix(v, "uint8("), ")")
			mode := ""
			for h := range x.St.Hist {
				if strings.Contains(h, "AofAckMode") {
					mode += h + ";"
				}
			}
			arb := !x.Passed(self + ".slock.arbiterManager == nil")
			key := fmt.Sprintf("server.(*ReplicationManager).UpdateDBAckCount: store{arbiter=%v %s}", arb, mode)
			okv := false
			switch {
			case arb && strings.Contains(mode, "AofAckMode == 2"):
				okv = v == all
			case arb:
				okv = strings.HasPrefix(v, "GetMajorityMemberCount(")
			case strings.Contains(mode, "AofAckMode == 1"):
				okv = v == maj
			default:
				okv = v == all
			}
			if okv {
				r.Hold(rule, key, x.Pos(), "ackCount = "+v)
			} else {
				r.Violate(rule, key, x.Pos(), "required acknowledgements computed as "+v, x.St.Trace)
			}
		},
	})
	ex.Run(fn, nil)
}

// c11R7: a database's ack table is created lazily with a placeholder
// requirement of 1; the real requirement (all followers + 1, or the majority)
// is written by UpdateDBAckCount, which visits the tables already stored in
// ackDbs. So every path that publishes a new table must recount *after* the
// store, before the manager's mutex is released - otherwise the first ack locks
// of that database are reported acknowledged after a single event (the leader's
// own flush).
func c11R7(p *core.Prog, r *core.Report) {
	const rule = "C11/R7"
	r.Rule(rule, "every publication of a new ack table in ReplicationManager.ackDbs is followed, before the manager mutex is released, by UpdateDBAckCount", 1)
	upd := mustFunc(p, r, "server.(*ReplicationManager).UpdateDBAckCount")
	if upd == nil {
		return
	}
	for _, fn := range p.FuncsIn("server") {
		if fn.Blocks == nil {
			continue
		}
		has := false
		for _, b := range fn.Blocks {
			for _, ins := range b.Instrs {
				if st, ok := ins.(*ssa.Store); ok {
					if ia, ok := st.Addr.(*ssa.IndexAddr); ok && isAckDbs(ia.X) {
						if c, isConst := st.Val.(*ssa.Const); !isConst || c.Value != nil {
							has = true
						}
					}
				}
			}
		}
		if !has {
			continue
		}
		name := core.FuncName(fn)
		pend := func(x *core.X, why string) {
			if k := x.Get("pub"); k != "" {
				r.Violate(rule, k, x.Get("pubpos"), "a new ack table is published but "+why+" without UpdateDBAckCount after the store: the table keeps the placeholder requirement of 1 acknowledgement", x.St.Trace)
				x.Set("pub", "")
			}
		}
		ex := core.NewExplorer(p, core.Hooks{
			Instr: func(x *core.X) {
				if !x.Top() {
					return
				}
				if cl, acq, ok := trackLocks(x); ok {
					if cl == "glock" && !acq {
						pend(x, "the manager mutex is released")
					}
					return
				}
				if st, ok := x.Ins.(*ssa.Store); ok {
					if ia, ok := st.Addr.(*ssa.IndexAddr); ok && isAckDbs(ia.X) && x.Canon(st.Val).S != "nil" {
						x.Set("pub", name+": publish ack table")
						x.Set("pubpos", x.Pos())
					}
				}
				if core.StaticCallee(x.Ins) == upd {
					if k := x.Get("pub"); k != "" {
						r.Hold(rule, k, x.Get("pubpos"), "recount after publication")
						x.Set("pub", "")
					}
				}
			},
			Exit: func(x *core.X, rets []core.Expr) { pend(x, "the function returns") },
		})
		ex.Run(fn, nil)
		if ex.Imprecise != "" {
			r.Fail("C11/R7 %s: %s", name, ex.Imprecise)
		}
	}
}

// isAckDbs: v is the (loaded) slice ReplicationManager.ackDbs.
func isAckDbs(v ssa.Value) bool {
	u, ok := v.(*ssa.UnOp)
	if !ok {
		return false
	}
	fa, ok := u.X.(*ssa.FieldAddr)
	if !ok {
		return false
	}
	k := core.FieldKeyOf(fa.X.Type(), fa.Field)
	return k.Type == "server.ReplicationManager" && k.Field == "ackDbs"
}

// c11R8: a require-ack lock that is granted from the wait queue stays
// ack-pending until the followers answer. Unlike the fresh-grant path of Lock,
// which arms a timeout of its own, the only bound on that wait is the timeout
// armed when the request was queued. So on the ack-pending path of
// wakeUpWaitLock the wait timeout must stay armed: no tombstone
// (timeouted = true) and no RemoveLongTimeOut - otherwise a lost
// acknowledgement leaves the hold pending for ever (no error, no release,
// waiters never served).
func c11R8(p *core.Prog, r *core.Report) {
	const rule = "C11/R8"
	r.Rule(rule, "wakeUpWaitLock keeps the queued request's timeout armed on the ack-pending path (no tombstone, no RemoveLongTimeOut)", 1)
	fn := mustFunc(p, r, "server.(*LockDB).wakeUpWaitLock")
	if fn == nil {
		return
	}
	wl := fn.Params[2].Name()
	n := 0
	ex := core.NewExplorer(p, core.Hooks{
		Track: func(x *core.X, a core.Atom) bool {
			s := core.Plain(a.String())
			return strings.Contains(s, "TimeoutFlag & 4096)") || strings.Contains(s, ".Flag & 4)") || strings.HasSuffix(s, ".isAof == false") || strings.HasSuffix(s, ".isAof == true") || strings.Contains(s, ".aofTime")
		},
		Instr: func(x *core.X) {
			if !x.Top() {
				return
			}
			if st, ok := x.Ins.(*ssa.Store); ok {
				if k, ok := storeKey(st.Addr); ok && k == fk("server.Lock", "timeouted") && x.Canon(st.Val).S == "true" && strings.HasPrefix(core.Plain(x.Canon(st.Addr).S), "&"+wl+".") {
					x.Set("disarmed", x.Pos())
				}
			}
			if calleeIs(x.Ins, "LockDB", "RemoveLongTimeOut") && core.Plain(argCanon(x, x.Ins, 1)) == wl {
				x.Set("disarmed", x.Pos())
			}
		},
		Exit: func(x *core.X, rets []core.Expr) {
			ack := x.Passed("("+wl+".command.TimeoutFlag & 4096) != 0") && x.Passed(wl+".isAof == false") && x.Passed(wl+".aofTime != 255") && x.Passed("("+wl+".command.Flag & 4) == 0")
			if !ack {
				return
			}
			n++
			key := "server.(*LockDB).wakeUpWaitLock: ack-pending grant"
			if d := x.Get("disarmed"); d != "" {
				r.Violate(rule, key, d, "the queued request's timeout is cancelled although the lock only becomes ack-pending: nothing bounds the wait for the followers' acknowledgement any more - a lost ack leaves the hold pending for ever", x.St.Trace)
			} else {
				r.Hold(rule, key, x.Pos(), "timeout stays armed while the ack is pending")
			}
		},
	})
	ex.Run(fn, nil)
	if ex.Imprecise != "" {
		r.Fail("C11/R8: %s", ex.Imprecise)
	}
	if n == 0 {
		r.Fail("C11/R8: the ack-pending path of wakeUpWaitLock was not found")
	}
}

// c11R9: a pending ack request handed to the ack table is either tracked or
// failed on every path; a silent return leaves the client waiting for an
// acknowledgement nobody counts.
func c11R9(p *core.Prog, r *core.Report) {
	const rule = "C11/R9"
	r.Rule(rule, "ReplicationAckDB.ProcessLeaderPushLock: every return with a pending ack request either registered it in the ack table or handed it to DoAckLock(false)", 2)
	fn := mustFunc(p, r, "server.(*ReplicationAckDB).ProcessLeaderPushLock")
	doAck := p.Func("server.(*LockDB).DoAckLock")
	if fn == nil || doAck == nil {
		return
	}
	ex := core.NewExplorer(p, core.Hooks{
		Track: func(x *core.X, a core.Atom) bool {
			s := core.Plain(a.String())
			return strings.HasSuffix(s, ".lock == nil") || strings.HasSuffix(s, ".lock != nil")
		},
		Instr: func(x *core.X) {
			if c := core.StaticCallee(x.Ins); c == doAck {
				if v, ok := constArg(x.Ins, 2); ok && v == 0 {
					x.Set("failed", "1")
				}
			}
			if mu, ok := x.Ins.(*ssa.MapUpdate); ok {
				if strings.Contains(core.Plain(x.Canon(mu.Map).S), ".aofLocks") {
					x.Set("tracked", "1")
				}
			}
		},
		Exit: func(x *core.X, rets []core.Expr) {
			for h := range x.St.Hist {
				if strings.HasSuffix(h, ".lock == nil") {
					return // nothing pending
				}
			}
			what := "tracked"
			switch {
			case x.Get("tracked") == "1":
			case x.Get("failed") == "1":
				what = "failed"
			default:
				r.Violate(rule, "server.(*ReplicationAckDB).ProcessLeaderPushLock: return without tracking or failing", x.Pos(), "a pending ack request is dropped: it is neither registered in the ack table nor handed to DoAckLock(false), so its client waits for an acknowledgement nobody counts", x.St.Trace)
				return
			}
			r.Hold(rule, "server.(*ReplicationAckDB).ProcessLeaderPushLock: return "+what, x.Pos(), "request "+what)
		},
	})
	ex.Run(fn, nil)
	if ex.Imprecise != "" {
		r.Fail("C11/R9: %s", ex.Imprecise)
	}
}

// c11R10: the rollback of a failed ack request restores the value the key had
// before (ProcessRecoverLockData) in the leader's memory; the log and the
// followers learn of it only through the compensating UNLOCK record, which
// carries the current value only while that value is marked "not yet logged"
// (LockManagerData.isAof == false, see AofLockData). So every path that puts a
// previously logged value object back as the current value must clear the
// mark; otherwise the log and every follower keep the value of the request
// that was refused.
func c11R10(p *core.Prog, r *core.Report) {
	const rule = "C11/R10"
	r.Rule(rule, "ProcessRecoverLockData: whenever an existing value object is put back as the key's current value, its logged mark (isAof) is cleared on that path (fresh objects are built unmarked)", 3)
	fn := mustFunc(p, r, "server.(*LockManager).ProcessRecoverLockData")
	if fn == nil {
		return
	}
	self := fn.Params[0].Name()
	cur := fk("server.LockManager", "currentData")
	mark := fk("server.LockManagerData", "isAof")
	n := 0
	reported := map[string]bool{}
	ex := core.NewExplorer(p, core.Hooks{
		Instr: func(x *core.X) {
			st, ok := x.Ins.(*ssa.Store)
			if !ok {
				return
			}
			k, ok := storeKey(st.Addr)
			if !ok {
				return
			}
			switch k {
			case cur:
				fa, ok := st.Addr.(*ssa.FieldAddr)
				if !ok || core.Plain(x.Canon(fa.X).S) != self {
					return
				}
				v := core.Plain(x.Canon(st.Val).S)
				fresh := false
				if c, ok := st.Val.(*ssa.Call); ok {
					if callee := c.Common().StaticCallee(); callee != nil && strings.HasPrefix(callee.Name(), "NewLockManagerData") {
						if args := c.Common().Args; len(args) > 0 {
							if k, ok := args[len(args)-1].(*ssa.Const); ok && k.Value != nil && x.Canon(k).S == "false" {
								fresh = true
							}
						}
					}
				}
				if v == "nil" || fresh {
					x.Set("restored", "")
				} else {
					x.Set("restored", siteKey(p, x.Ins)+"\x00"+x.Pos())
				}
			case mark:
				fa, ok := st.Addr.(*ssa.FieldAddr)
				if !ok {
					return
				}
				if core.Plain(x.Canon(fa.X).S) == self+".currentData" && x.Canon(st.Val).S == "false" {
					if rs := x.Get("restored"); rs != "" {
						key := strings.SplitN(rs, "\x00", 2)[0]
						if !reported[key] {
							reported[key] = true
							n++
							r.Hold(rule, key, strings.SplitN(rs, "\x00", 2)[1], "restored value marked not-yet-logged")
						}
					}
					x.Set("restored", "")
				}
			}
		},
		Exit: func(x *core.X, rets []core.Expr) {
			if rs := x.Get("restored"); rs != "" {
				parts := strings.SplitN(rs, "\x00", 2)
				n++
				r.Violate(rule, parts[0], parts[1], "the rollback puts a previously logged value object back as the key's current value and returns with its logged mark still set: the compensating UNLOCK record carries no value, so the leader's log and every follower keep the value written by the request that was refused", x.St.Trace)
			}
		},
	})
	ex.NoHist = true
	ex.Run(fn, nil)
	if ex.Imprecise != "" {
		r.Fail("C11/R10: %s", ex.Imprecise)
	}
	if n == 0 {
		r.Fail("C11/R10: ProcessRecoverLockData restores no existing value object")
	}
}

// c11R11: the follower keeps one ReplicationAckLock per pending ack record and
// recycles them. Its two flags record which half of the handshake has happened
// (applied / written to the follower's own log); the acknowledgement goes to
// the leader when both are set. A recycled record that still carries a flag
// from its previous use acknowledges the next record after only one half.
func c11R11(p *core.Prog, r *core.Report) {
	const rule = "C11/R11"
	r.Rule(rule, "a recycled ReplicationAckLock has every handshake flag (bool field set true somewhere in the module) cleared before it is handed out, or when it is put into the pool", 1)
	get := mustFunc(p, r, "server.(*ReplicationAckDB).getAckLock")
	if get == nil {
		return
	}
	flags := map[string]bool{}
	for _, fn := range p.FuncsIn("server") {
		for _, b := range fn.Blocks {
			for _, ins := range b.Instrs {
				st, ok := ins.(*ssa.Store)
				if !ok {
					continue
				}
				fa, ok := st.Addr.(*ssa.FieldAddr)
				if !ok {
					continue
				}
				k := core.FieldKeyOf(fa.X.Type(), fa.Field)
				if k.Type != "server.ReplicationAckLock" {
					continue
				}
				if c, ok := st.Val.(*ssa.Const); ok && c.Value != nil && c.Value.String() == "true" {
					flags[k.Field] = true
				}
			}
		}
	}
	if len(flags) == 0 {
		r.Fail("C11/R11: no handshake flag of ReplicationAckLock is ever set")
		return
	}
	clearedIn := func(fn *ssa.Function) (int, map[string][]string) {
		n := 0
		missing := map[string][]string{}
		ex := core.NewExplorer(p, core.Hooks{
			Instr: func(x *core.X) {
				st, ok := x.Ins.(*ssa.Store)
				if !ok {
					return
				}
				fa, ok := st.Addr.(*ssa.FieldAddr)
				if !ok {
					return
				}
				k := core.FieldKeyOf(fa.X.Type(), fa.Field)
				if k.Type == "server.ReplicationAckLock" && x.Canon(st.Val).S == "false" {
					x.Set("clr:"+k.Field, "1")
				}
			},
			Exit: func(x *core.X, rets []core.Expr) {
				if len(rets) == 1 && (rets[0].S == "nil" || strings.HasPrefix(rets[0].S, "NewReplicationAckLock(")) {
					return
				}
				n++
				for f := range flags {
					if x.Get("clr:"+f) != "1" {
						missing[f] = x.St.Trace
					}
				}
			},
		})
		ex.NoHist = true
		ex.Run(fn, nil)
		return n, missing
	}
	n, missing := clearedIn(get)
	if n == 0 {
		r.Fail("C11/R11: getAckLock has no reuse path")
		return
	}
	key := "server.(*ReplicationAckDB).getAckLock: recycled record starts with its handshake flags clear"
	if len(missing) > 0 {
		// cleared when it is put into the pool instead?
		if free := p.Func("server.(*ReplicationAckDB).freeAckLock"); free != nil {
			if fnN, fmiss := clearedIn(free); fnN > 0 && len(fmiss) == 0 {
				missing = nil
			}
		}
	}
	if len(missing) == 0 {
		r.Hold(rule, key, p.Pos(get.Pos()), "all handshake flags cleared on reuse")
		return
	}
	var fs []string
	var tr []string
	for f, t := range missing {
		fs = append(fs, f)
		tr = t
	}
	sort.Strings(fs)
	r.Violate(rule, key, p.Pos(get.Pos()), "a recycled ack record is handed out with "+strings.Join(fs, ", ")+" still set from its previous use: the follower acknowledges the next ack-required record to the leader after only one half of the handshake (e.g. applied but not yet in the follower's own log), so the leader counts an acknowledgement for a record a follower crash would lose", tr)
}

// c11R12: "SUCCED only after its record has been written to the leader's own
// log AND acknowledged by the configured number of followers". The leader's
// flush (ProcessLeaderAofed) and every follower acknowledgement
// (ProcessLeaderAcked) count down the same per-request counter, so the
// leader's own write is necessary exactly when the required count exceeds the
// number of followers: with a required count <= n, n follower
// acknowledgements reach zero before the leader has flushed.
func c11R12(p *core.Prog, r *core.Report) {
	const rule = "C11/R12"
	r.Rule(rule, "while the leader's flush and the followers' acknowledgements count down one counter, the required count of every (non-arbiter) ack mode exceeds the number of followers for 1..8 followers", 2)
	fn := mustFunc(p, r, "server.(*ReplicationManager).UpdateDBAckCount")
	acked := mustFunc(p, r, "server.(*ReplicationAckDB).ProcessLeaderAcked")
	aofed := mustFunc(p, r, "server.(*ReplicationAckDB).ProcessLeaderAofed")
	if fn == nil || acked == nil || aofed == nil {
		return
	}
	// one shared counter?
	decrements := func(f *ssa.Function) bool {
		for _, b := range f.Blocks {
			for _, ins := range b.Instrs {
				st, ok := ins.(*ssa.Store)
				if !ok {
					continue
				}
				if k, ok := storeKey(st.Addr); !ok || k != fk("server.Lock", "ackCount") {
					continue
				}
				if bo, ok := st.Val.(*ssa.BinOp); ok && bo.Op == token.SUB {
					return true
				}
			}
		}
		return false
	}
	shared := decrements(acked) && decrements(aofed)
	self := fn.Params[0].Name()
	nExpr := "len(" + self + ".serverChannels)"
	ex := core.NewExplorer(p, core.Hooks{
		ResolvePhi: func(phi *ssa.Phi) bool {
			b, ok := phi.Type().Underlying().(*types.Basic)
			return ok && b.Info()&types.IsInteger != 0
		},
		Track: func(x *core.X, a core.Atom) bool {
			return strings.Contains(a.L, "AofAckMode") || strings.Contains(a.L, "arbiterManager")
		},
		Instr: func(x *core.X) {
			st, ok := x.Ins.(*ssa.Store)
			if !ok {
				return
			}
			k, ok := storeKey(st.Addr)
			if !ok || k != fk("server.ReplicationAckDB", "ackCount") {
				return
			}
			if !x.Passed(self + ".slock.arbiterManager == nil") {
				return // arbiter deployments count voters, not followers
			}
			v := core.Plain(x.Canon(st.Val).S)
			v = strings.TrimSuffix(strings.TrimPrefix(v, "uint8("), ")")
			mode := "all"
			for h := range x.St.Hist {
				if strings.Contains(h, "AofAckMode == 1") {
					mode = "majority"
				}
			}
			key := "server.(*ReplicationManager).UpdateDBAckCount: " + mode + " mode needs the leader's own write"
			if !shared {
				r.Hold(rule, key, x.Pos(), "the leader's flush and the followers' acknowledgements are not counted by one counter")
				return
			}
			bad := -1
			for n := 1; n <= 8; n++ {
				val, ok := evalIntExpr(strings.ReplaceAll(v, nExpr, strconv.Itoa(n)))
				if !ok {
					r.Violate(rule, key, x.Pos(), "required count "+v+" is not an integer expression of the number of followers", x.St.Trace)
					return
				}
				if val <= int64(n) && bad < 0 {
					bad = n
				}
			}
			if bad >= 0 {
				r.Violate(rule, key, x.Pos(), fmt.Sprintf("required count %s is not larger than the number of followers for n = %d: the followers' acknowledgements alone bring the shared counter to zero and the requester gets SUCCED while the record is still in the leader's write buffer (a leader crash loses a lock it reported as written to its own log)", v, bad), x.St.Trace)
			} else {
				r.Hold(rule, key, x.Pos(), "required count "+v+" > n for n = 1..8")
			}
		},
	})
	ex.Run(fn, nil)
}

// evalIntExpr evaluates a canonical integer expression of constants with
// + - * / and parentheses.
func evalIntExpr(s string) (int64, bool) {
	pos := 0
	skip := func() {
		for pos < len(s) && s[pos] == ' ' {
			pos++
		}
	}
	var expr func() (int64, bool)
	atom := func() (int64, bool) {
		skip()
		if pos < len(s) && s[pos] == '(' {
			pos++
			v, ok := expr()
			skip()
			if !ok || pos >= len(s) || s[pos] != ')' {
				return 0, false
			}
			pos++
			return v, true
		}
		st := pos
		for pos < len(s) && s[pos] >= '0' && s[pos] <= '9' {
			pos++
		}
		if st == pos {
			return 0, false
		}
		v, err := strconv.ParseInt(s[st:pos], 10, 64)
		return v, err == nil
	}
	expr = func() (int64, bool) {
		v, ok := atom()
		if !ok {
			return 0, false
		}
		for {
			skip()
			if pos >= len(s) || strings.IndexByte("+-*/", s[pos]) < 0 {
				return v, true
			}
			op := s[pos]
			pos++
			w, ok := atom()
			if !ok {
				return 0, false
			}
			switch op {
			case '+':
				v += w
			case '-':
				v -= w
			case '*':
				v *= w
			case '/':
				if w == 0 {
					return 0, false
				}
				v /= w
			}
		}
	}
	v, ok := expr()
	skip()
	return v, ok && pos == len(s)
}
