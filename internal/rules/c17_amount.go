package rules

import (
	"fmt"
	"go/token"

	"golang.org/x/tools/go/ssa"

	"slockverif/internal/core"
)

// c17R8: the counters move by the hold's depth as it was when the hold was
// released. RemoveLock / FreeLock (and anything else that may write
// Lock.locked) reset the depth, so a read of Lock.locked that serves as the
// amount of a LockedCount / UnLockCount / key-depth adjustment must not be
// reachable from a call that may write Lock.locked on the same hold's type
// inside the function: such a read sees the reset value (0) and the counter
// drifts by the hold's depth. Structural: the amount operand, Converts
// stripped, is a constant, or a value whose defining load of Lock.locked is
// not CFG-reachable from any call whose callee may write Lock.locked.
func c17R8(p *core.Prog, r *core.Report) {
	const rule = "C17/R8"
	r.Rule(rule, "a read of Lock.locked used as the amount of a LockedCount / UnLockCount / key-depth adjustment is not reachable from a call that may write Lock.locked (the amount is the depth captured before the hold is removed)", 8)
	lockLocked := fk("server.Lock", "locked")
	targets := map[core.FieldKey]string{
		stLocked: "LockedCount", lmLocked: "key depth", fk("protocol.LockDBState", "UnLockCount"): "UnLockCount",
	}
	for _, name := range c17Engine {
		fn := p.Func(name)
		if fn == nil {
			continue
		}
		// calls that may write Lock.locked
		type site struct {
			b   *ssa.BasicBlock
			idx int
			nm  string
		}
		var writers []site
		for _, b := range fn.Blocks {
			for i, ins := range b.Instrs {
				if c, ok := ins.(ssa.CallInstruction); ok {
					if cal := c.Common().StaticCallee(); cal != nil && core.InModule(cal) && p.MayWrite(cal)[lockLocked] {
						writers = append(writers, site{b, i, cal.Name()})
					}
				}
			}
		}
		reach := func(from, to *ssa.BasicBlock) bool { // strictly via at least one edge
			seen := map[*ssa.BasicBlock]bool{}
			st := append([]*ssa.BasicBlock{}, from.Succs...)
			for len(st) > 0 {
				b := st[len(st)-1]
				st = st[:len(st)-1]
				if seen[b] {
					continue
				}
				seen[b] = true
				if b == to {
					return true
				}
				st = append(st, b.Succs...)
			}
			return false
		}
		count := map[string]int{}
		for _, b := range fn.Blocks {
			for _, ins := range b.Instrs {
				st, ok := ins.(*ssa.Store)
				if !ok {
					continue
				}
				k, ok := storeKey(st.Addr)
				if !ok {
					continue
				}
				what, ok := targets[k]
				if !ok {
					continue
				}
				bo, ok := st.Val.(*ssa.BinOp)
				if !ok || (bo.Op != token.SUB && bo.Op != token.ADD) {
					continue
				}
				amt := bo.Y
				for {
					if cv, ok := amt.(*ssa.Convert); ok {
						amt = cv.X
						continue
					}
					break
				}
				ld, ok := amt.(*ssa.UnOp)
				if !ok || ld.Op != token.MUL {
					continue // constant or computed amount: not this rule's subject
				}
				if lk, ok := storeKey(ld.X); !ok || lk != lockLocked {
					continue
				}
				count[what]++
				key := fmt.Sprintf("%s: %s amount#%d", name, what, count[what])
				bad := ""
				for _, w := range writers {
					if w.b == ld.Block() {
						// same block: writer before the load
						li := -1
						for i, in := range w.b.Instrs {
							if in == ssa.Instruction(ld) {
								li = i
							}
						}
						if w.idx < li {
							bad = w.nm
						}
					} else if reach(w.b, ld.Block()) {
						bad = w.nm
					}
					if bad != "" {
						break
					}
				}
				if bad == "" {
					r.Hold(rule, key, p.InstrPos(st), "depth read before any call that may reset it")
				} else {
					r.Violate(rule, key, p.InstrPos(st), "the amount is a read of Lock.locked that a call of "+bad+" (may write Lock.locked) can precede: the hold's depth has been reset by then, the counter moves by 0 instead of the released depth", nil)
				}
			}
		}
	}
}
