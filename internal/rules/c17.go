package rules

import (
	"fmt"
	"go/token"
	"go/types"
	"sort"
	"strings"

	"golang.org/x/tools/go/ssa"

	"slockverif/internal/core"
)

func init() { Registry["C17"] = checkC17 }

var (
	stLocked = fk("protocol.LockDBState", "LockedCount")
	stWait   = fk("protocol.LockDBState", "WaitCount")
	lkRef    = fk("server.Lock", "refCount")
)

func checkC17(p *core.Prog, r *core.Report) {
	r.Explanation = "Decides structural necessary conditions of exact counts and reclamation: (R1) in every engine function, on every path and inside each shard-mutex section, LockedCount moves iff the key's depth moves and in the same direction; WaitCount++ pairs with AddWaitLock; WaitCount-- happens at most once per path and exactly on the paths where a queued request leaves the queue (grant in wakeUpWaitLock, waiter arm of doTimeOut / cancelWaitLock), helpers inlined; (R2) at every reply the LCount argument is uint16(<*LockManager>.locked) or constant 0 and LRCount is <*Lock>.locked or 0; (R3) in the request-path functions the reference count of a lock is raised exactly for its wheel insertions and ack registrations (no missing and no surplus reference); (R4) every Lock.refCount decrement is followed on its path by the zero test that guards FreeLock (tabled exceptions: RemoveLock, RemoveLongTimeOut, RemoveLongExpried, whose callers test); (R5) RemoveLockManager clears the value and resets the queues before the manager is recycled and decrements KeyCount once. (R6) the compaction loops of the per-key holder and wait queues return the queue's reference for every entry they drop. (R7) a function that answers a queued request itself (timeout, cancel) sets its tombstone before it scans the wait queue with GetWaitLock (the scan is what unlinks answered entries and decides `waited`). (R8) a read of Lock.locked that serves as the amount of a LockedCount / UnLockCount / key-depth adjustment is not reachable from a call that may write Lock.locked (the counters move by the depth captured before the hold is removed). NOT decided: numeric exactness of the magnitudes, drain to zero, unreachability of freed objects."
	r.Assumptions = []string{"Go type checker, go/ssa and VTA call graph are correct for /repo", "counters are only compared by direction and pairing, not magnitude"}
	c17R1(p, r)
	c17R2(p, r)
	c17R3(p, r)
	c17R4(p, r)
	c17R5(p, r)
	c17R6(p, r)
	c17R7(p, r)
	c17R8(p, r)
}

var c17Engine = []string{
	"server.(*LockDB).Lock", "server.(*LockDB).UnLock", "server.(*LockDB).doTimeOut", "server.(*LockDB).doExpried",
	"server.(*LockDB).DoAckLock", "server.(*LockDB).wakeUpWaitLock", "server.(*LockDB).cancelWaitLock",
	"server.(*LockDB).addUnlockLockCommandToWaitLock",
}

func signOf(st *ssa.Store) string {
	if b, ok := st.Val.(*ssa.BinOp); ok {
		switch b.Op {
		case token.ADD:
			return "+"
		case token.SUB:
			return "-"
		}
	}
	return "="
}

func c17R1(p *core.Prog, r *core.Report) {
	const rule = "C17/R1"
	r.Rule(rule, "per path and critical section: sign(Δ LockedCount) == sign(Δ key depth); WaitCount++ iff AddWaitLock; at most one WaitCount-- and exactly when a queued request leaves the queue", 16)
	engine := map[*ssa.Function]bool{}
	for _, n := range c17Engine {
		if f := mustFunc(p, r, n); f != nil {
			engine[f] = true
		}
	}
	for _, n := range []string{"server.(*LockDB).wakeUpWaitLocks", "server.(*LockDB).PushExecutorLockCommand"} {
		if f := p.Func(n); f != nil {
			engine[f] = true
		}
	}
	for _, name := range c17Engine {
		fn := p.Func(name)
		if fn == nil {
			continue
		}
		type cls struct {
			pos, bad string
			path     []string
		}
		classes := map[string]*cls{}
		record := func(x *core.X, key, bad string) {
			c := classes[key]
			if c == nil {
				c = &cls{pos: x.Pos()}
				classes[key] = c
			}
			if bad != "" && c.bad == "" {
				c.bad, c.path = bad, x.St.Trace
			}
		}
		endSection := func(x *core.X, where string) {
			d, c := x.Get("d"), x.Get("c")
			if d == "" && c == "" {
				return
			}
			key := fmt.Sprintf("%s: section{depth%s LockedCount%s}", name, d, c)
			bad := ""
			ds, cs := uniqSigns(d), uniqSigns(c)
			if ds != cs {
				bad = "key depth moved '" + d + "' but LockedCount moved '" + c + "' in one critical section (" + where + ")"
			}
			if name == "server.(*LockDB).cancelWaitLock" && d == "-" && c == "" {
				bad = "" // tabled: unreachable ack-pending-holder arm (UnLock answers LOCK_ACK_WAITING first), DESIGN.md C17-R1
			}
			record(x, key, bad)
			x.Set("d", "")
			x.Set("c", "")
		}
		init := core.NewState()
		switch name {
		case "server.(*LockDB).wakeUpWaitLock", "server.(*LockDB).cancelWaitLock", "server.(*LockDB).addUnlockLockCommandToWaitLock":
			init.RS["L:shard"] = "1"
		}
		ex := core.NewExplorer(p, core.Hooks{
			Inline: func(x *core.X, callee *ssa.Function) bool {
				if engine[callee] || !core.InModule(callee) {
					return false
				}
				w := p.MayWrite(callee)
				return w[stLocked] || w[stWait] || w[lmLocked]
			},
			Track: func(x *core.X, a core.Atom) bool {
				s := core.Plain(a.String())
				return strings.HasSuffix(s, ".locked <= 0") || strings.HasPrefix(s, "0 < ") && strings.HasSuffix(s, ".locked")
			},
			Instr: func(x *core.X) {
				if cl, acq, ok := trackLocks(x); ok && cl == "shard" {
					if !acq {
						endSection(x, "at mutex release")
					}
					return
				}
				switch t := x.Ins.(type) {
				case *ssa.Store:
					k, ok := storeKey(t.Addr)
					if !ok {
						return
					}
					switch k {
					case lmLocked:
						x.Set("d", x.Get("d")+signOf(t))
					case stLocked:
						x.Set("c", x.Get("c")+signOf(t))
					case stWait:
						x.Set("w", x.Get("w")+signOf(t))
					case fk("server.Lock", "timeouted"):
						if x.Canon(t.Val).S == "true" {
							x.Set("tomb", "1")
						}
					}
				case ssa.CallInstruction:
					if calleeIs(x.Ins, "LockManager", "AddWaitLock") {
						x.Set("aw", x.Get("aw")+"+")
					}
				}
			},
			Exit: func(x *core.X, rets []core.Expr) {
				endSection(x, "at function exit")
				w, aw := x.Get("w"), x.Get("aw")
				inc, dec := strings.Count(w, "+"), strings.Count(w, "-")
				waiterLeft := false
				switch name {
				case "server.(*LockDB).wakeUpWaitLock":
					waiterLeft = true
				case "server.(*LockDB).doTimeOut", "server.(*LockDB).cancelWaitLock":
					if x.Get("tomb") == "1" {
						for h := range x.St.Hist {
							if strings.HasSuffix(h, ".locked <= 0") {
								waiterLeft = true
							}
						}
					}
				}
				key := fmt.Sprintf("%s: path{AddWaitLock=%d WaitCount++=%d WaitCount--=%d waiter-left=%v}", name, len(aw), inc, dec, waiterLeft)
				bad := ""
				switch {
				case inc != len(aw):
					bad = fmt.Sprintf("%d AddWaitLock but %d WaitCount++ on one path", len(aw), inc)
				case dec > 1:
					bad = "WaitCount decremented more than once on one path"
				case waiterLeft && dec != 1:
					bad = "a queued request leaves the wait queue without WaitCount--"
				case !waiterLeft && dec != 0:
					bad = "WaitCount-- on a path where no queued request leaves the queue"
				}
				record(x, key, bad)
			},
		})
		ex.Run(fn, init)
		r.Stats["R1_steps"] += ex.Steps
		if ex.Imprecise != "" {
			r.Fail("C17/R1 %s: %s", name, ex.Imprecise)
		}
		keys := make([]string, 0, len(classes))
		for k := range classes {
			keys = append(keys, k)
		}
		sort.Strings(keys)
		for _, k := range keys {
			if classes[k].bad != "" {
				r.Violate(rule, k, classes[k].pos, classes[k].bad, classes[k].path)
			} else {
				r.Hold(rule, k, classes[k].pos, "")
			}
		}
	}
}

func uniqSigns(s string) string {
	out := ""
	if strings.Contains(s, "+") {
		out += "+"
	}
	if strings.Contains(s, "-") {
		out += "-"
	}
	return out
}

// baseTypeOfLockedLoad returns the struct type name whose `.locked` field a
// value loads (through conversions), or "".
func baseTypeOfLockedLoad(v ssa.Value) (string, bool) {
	for i := 0; i < 4; i++ {
		switch x := v.(type) {
		case *ssa.Convert:
			v = x.X
		case *ssa.ChangeType:
			v = x.X
		case *ssa.Phi:
			// all edges must agree
			ty := ""
			for _, e := range x.Edges {
				t, ok := baseTypeOfLockedLoad(e)
				if !ok {
					return "", false
				}
				if ty != "" && t != ty && t != "const0" && ty != "const0" {
					return "", false
				}
				if t != "const0" || ty == "" {
					ty = t
				}
			}
			return ty, true
		case *ssa.Const:
			if x.Value != nil && x.Value.ExactString() == "0" {
				return "const0", true
			}
			return "", false
		case *ssa.UnOp:
			if x.Op != token.MUL {
				return "", false
			}
			fa, ok := x.X.(*ssa.FieldAddr)
			if !ok {
				return "", false
			}
			k := core.FieldKeyOf(fa.X.Type(), fa.Field)
			if k.Field != "locked" {
				return "", false
			}
			return k.Type, true
		default:
			return "", false
		}
	}
	return "", false
}

func c17R2(p *core.Prog, r *core.Report) {
	const rule = "C17/R2"
	r.Rule(rule, "at every reply in the engine LCount is uint16(LockManager.locked) or 0 and LRCount is Lock.locked or 0", 40)
	for _, fn := range p.FuncsIn("server") {
		if fn.Blocks == nil || !strings.HasPrefix(core.FuncName(fn), "server.(*LockDB).") {
			continue
		}
		for _, b := range fn.Blocks {
			for _, ins := range b.Instrs {
				name, _ := core.CallName(ins)
				if name != "ProcessLockResultCommand" && name != "ProcessLockResultCommandLocked" {
					continue
				}
				args := core.CallArgs(ins)
				if len(args) < 6 {
					continue
				}
				key := siteKey(p, ins)
				lt, lok := baseTypeOfLockedLoad(args[3])
				rt, rok := baseTypeOfLockedLoad(args[4])
				switch {
				case !lok || (lt != "server.LockManager" && lt != "const0"):
					r.Violate(rule, key, p.InstrPos(ins), "LCount argument is not the key's depth (uint16 of LockManager.locked) or 0: origin "+lt, nil)
				case !rok || (rt != "server.Lock" && rt != "const0"):
					r.Violate(rule, key, p.InstrPos(ins), "LRCount argument is not the hold's depth (Lock.locked) or 0: origin "+rt, nil)
				default:
					r.Hold(rule, key, p.InstrPos(ins), "LCount<-"+lt+" LRCount<-"+rt)
				}
			}
		}
	}
}

func isWheelAdd(callee *ssa.Function) bool {
	if callee == nil || !isMethod(callee, "LockDB", callee.Name()) {
		return false
	}
	switch callee.Name() {
	case "AddTimeOut", "AddMillisecondTimeOut", "AddExpried", "AddMillisecondExpried":
		return true
	}
	return false
}

func c17R3(p *core.Prog, r *core.Report) {
	const rule = "C17/R3"
	r.Rule(rule, "request-path functions raise a lock's refCount by exactly its wheel insertions plus ack registrations in each critical section (no missing, no surplus reference)", 6)
	for _, name := range []string{"server.(*LockDB).Lock", "server.(*LockDB).wakeUpWaitLock", "server.(*LockDB).addUnlockLockCommandToWaitLock"} {
		fn := mustFunc(p, r, name)
		if fn == nil {
			continue
		}
		type cls struct {
			pos, bad string
			path     []string
		}
		classes := map[string]*cls{}
		end := func(x *core.X) {
			locks := map[string]bool{}
			for k := range x.St.RS {
				for _, pre := range []string{"inc:", "add:", "push:"} {
					if strings.HasPrefix(k, pre) {
						locks[k[len(pre):]] = true
					}
				}
			}
			for lk := range locks {
				inc, add, push := len(x.Get("inc:"+lk)), len(x.Get("add:"+lk)), len(x.Get("push:"+lk))
				key := fmt.Sprintf("%s: section{lock=%s refCount+=%d wheel-inserts=%d aof-pushes=%d}", name, lk, inc, add, push)
				bad := ""
				if inc < add {
					bad = fmt.Sprintf("%d wheel insertion(s) but refCount raised by %d: the lock can be freed while still queued in a wheel", add, inc)
				} else if inc > add+push {
					bad = fmt.Sprintf("refCount raised by %d with only %d insertion(s)/%d ack registration(s): the lock (and its key) is never reclaimed", inc, add, push)
				}
				c := classes[key]
				if c == nil {
					c = &cls{pos: x.Pos()}
					classes[key] = c
				}
				if bad != "" && c.bad == "" {
					c.bad, c.path = bad, x.St.Trace
				}
				x.Set("inc:"+lk, "")
				x.Set("add:"+lk, "")
				x.Set("push:"+lk, "")
			}
		}
		init := core.NewState()
		if name != "server.(*LockDB).Lock" {
			init.RS["L:shard"] = "1"
		}
		ex := core.NewExplorer(p, core.Hooks{
			Instr: func(x *core.X) {
				if !x.Top() {
					return
				}
				if cl, acq, ok := trackLocks(x); ok && cl == "shard" {
					if !acq {
						end(x)
					}
					return
				}
				switch t := x.Ins.(type) {
				case *ssa.Store:
					if k, ok := storeKey(t.Addr); ok && k == lkRef {
						if b, ok := t.Val.(*ssa.BinOp); ok && b.Op == token.ADD {
							a := strings.TrimPrefix(x.Canon(t.Addr).S, "&")
							lk := core.Plain(strings.TrimSuffix(a, ".refCount"))
							n := 1
							if c, ok := b.Y.(*ssa.Const); ok {
								ce := core.Expr{S: c.Value.ExactString()}
								if v, ok := ce.IsConstInt(); ok {
									n = int(v)
								}
							}
							x.Set("inc:"+lk, x.Get("inc:"+lk)+strings.Repeat("i", n))
						}
					}
				case ssa.CallInstruction:
					callee := core.StaticCallee(x.Ins)
					if isWheelAdd(callee) {
						lk := core.Plain(argCanon(x, x.Ins, 1))
						x.Set("add:"+lk, x.Get("add:"+lk)+"a")
					}
					if isMethod(callee, "LockManager", "PushLockAof") {
						lk := core.Plain(argCanon(x, x.Ins, 1))
						x.Set("push:"+lk, x.Get("push:"+lk)+"p")
					}
				}
			},
			Exit: func(x *core.X, rets []core.Expr) { end(x) },
		})
		ex.Run(fn, init)
		if ex.Imprecise != "" {
			r.Fail("C17/R3 %s: %s", name, ex.Imprecise)
		}
		keys := make([]string, 0, len(classes))
		for k := range classes {
			keys = append(keys, k)
		}
		sort.Strings(keys)
		for _, k := range keys {
			if classes[k].bad != "" {
				r.Violate(rule, k, classes[k].pos, classes[k].bad, classes[k].path)
			} else {
				r.Hold(rule, k, classes[k].pos, "")
			}
		}
	}
}

// c17R4Exempt: decrements whose zero test is the caller's duty (confirmed by
// reading; each caller either re-inserts the lock or performs the test).
var c17R4Exempt = map[string]string{
	"server.(*LockManager).RemoveLock":   "holder-list reference; the sweeper/unlock path that ends the hold tests refCount after its own decrement",
	"server.(*LockDB).RemoveLongTimeOut": "long-table reference handed back; the caller re-inserts the lock or ends in a zero test",
	"server.(*LockDB).RemoveLongExpried": "long-table reference handed back; the caller re-inserts the lock or ends in a zero test",
}

func c17R4(p *core.Prog, r *core.Report) {
	const rule = "C17/R4"
	r.Rule(rule, "every Lock.refCount decrement is followed on its path, before the critical section ends, by the refCount==0 test that guards FreeLock", 15)
	var fns []*ssa.Function
	for _, f := range p.FuncsIn("server") {
		has := false
		for _, b := range f.Blocks {
			for _, ins := range b.Instrs {
				if st, ok := ins.(*ssa.Store); ok {
					if k, ok := storeKey(st.Addr); ok && k == lkRef && signOf(st) == "-" {
						has = true
					}
				}
			}
		}
		if has {
			fns = append(fns, f)
		}
	}
	for _, fn := range fns {
		fname := core.FuncName(fn)
		sites := map[string]*struct {
			pos, bad string
			path     []string
		}{}
		flush := func(x *core.X, why string) {
			for k, v := range x.St.RS {
				if strings.HasPrefix(k, "pend:") && v != "" {
					s := sites[v]
					if s != nil && s.bad == "" {
						s.bad = "refCount of " + k[5:] + " decremented but " + why + " without testing it for zero: a lock whose last reference this was is never returned to the pool (and its key never reclaimed)"
						s.path = x.St.Trace
					}
					x.Set(k, "")
				}
			}
		}
		ex := core.NewExplorer(p, core.Hooks{
			Instr: func(x *core.X) {
				if !x.Top() {
					return
				}
				if cl, acq, ok := mutexOp(x, x.Ins); ok && cl == "shard" && !acq {
					flush(x, "the critical section ends")
					return
				}
				if st, ok := x.Ins.(*ssa.Store); ok {
					if k, ok := storeKey(st.Addr); ok && k == lkRef && signOf(st) == "-" {
						a := strings.TrimPrefix(x.Canon(st.Addr).S, "&")
						lk := core.Plain(strings.TrimSuffix(a, ".refCount"))
						key := siteKey(p, x.Ins)
						if sites[key] == nil {
							sites[key] = &struct {
								pos, bad string
								path     []string
							}{pos: x.Pos()}
						}
						x.Set("pend:"+lk, key)
					}
				}
			},
			Branch: func(x *core.X, a core.Atom) {
				l := core.Plain(a.L)
				if strings.HasSuffix(l, ".refCount") && a.R == "0" && (a.Op == "==" || a.Op == "!=") {
					x.Set("pend:"+strings.TrimSuffix(l, ".refCount"), "")
				}
			},
			Exit: func(x *core.X, rets []core.Expr) { flush(x, "the function returns") },
		})
		ex.Run(fn, nil)
		if ex.Imprecise != "" {
			r.Fail("C17/R4 %s: %s", fname, ex.Imprecise)
		}
		keys := make([]string, 0, len(sites))
		for k := range sites {
			keys = append(keys, k)
		}
		sort.Strings(keys)
		for _, k := range keys {
			s := sites[k]
			if reason, ok := c17R4Exempt[fname]; ok {
				r.Hold(rule, k, s.pos, "exempt: "+reason)
			} else if s.bad != "" {
				r.Violate(rule, k, s.pos, s.bad, s.path)
			} else {
				r.Hold(rule, k, s.pos, "zero test follows")
			}
		}
	}
}

func c17R5(p *core.Prog, r *core.Report) {
	const rule = "C17/R5"
	r.Rule(rule, "RemoveLockManager: every path that recycles the manager (freeLockManagers store) clears currentData and decrements KeyCount exactly once", 1)
	fn := mustFunc(p, r, "server.(*LockDB).RemoveLockManager")
	if fn == nil {
		return
	}
	keyCount := fk("protocol.LockDBState", "KeyCount")
	ex := core.NewExplorer(p, core.Hooks{
		Instr: func(x *core.X) {
			if !x.Top() {
				return
			}
			switch t := x.Ins.(type) {
			case *ssa.Store:
				k, ok := storeKey(t.Addr)
				if !ok {
					return
				}
				switch {
				case k == fk("server.LockManager", "currentData") && x.Canon(t.Val).S == "nil":
					x.Set("cleared", "1")
				case k == keyCount:
					x.Set("kc", x.Get("kc")+signOf(t))
				case k == fk("server.LockDB", "freeLockManagers"):
					x.Set("recycled", "1")
				}
			case ssa.CallInstruction:
				// atomic KeyCount update
				for _, a := range t.Common().Args {
					if k, ok := storeKey(a); ok && k == keyCount {
						if c := t.Common().StaticCallee(); c != nil && c.Pkg != nil && c.Pkg.Pkg.Path() == "sync/atomic" {
							x.Set("kc", x.Get("kc")+"-")
						}
					}
				}
			}
		},
		Exit: func(x *core.X, rets []core.Expr) {
			if x.Get("recycled") != "1" {
				return
			}
			key := fmt.Sprintf("server.(*LockDB).RemoveLockManager: recycle{value-cleared=%s KeyCount%s}", x.Get("cleared"), x.Get("kc"))
			switch {
			case x.Get("cleared") != "1":
				r.Violate(rule, key, x.Pos(), "manager recycled with its value frame still attached (a reused key would inherit the old value)", x.St.Trace)
			case x.Get("kc") != "-":
				r.Violate(rule, key, x.Pos(), "manager recycled with KeyCount moved '"+x.Get("kc")+"' (want exactly one decrement)", x.St.Trace)
			default:
				r.Hold(rule, key, x.Pos(), "")
			}
		},
	})
	ex.Run(fn, nil)
}

var _ = types.Typ

// c17R6: the per-key holder and wait queues own one reference on every entry.
// Their Push compacts the fast slice when it is full: live entries are moved
// down, finished ones (released holds / answered waiters) are dropped. Every
// dropped entry must give its reference back (refCount-- followed by R4's zero
// test), otherwise the lock object - and with it the key's manager - is never
// reclaimed. Per iteration of the compaction loop: a non-nil element is either
// kept (stored back into the slice, or counted by the keep index) or its
// refCount is decremented.
func c17R6(p *core.Prog, r *core.Report) {
	const rule = "C17/R6"
	r.Rule(rule, "queue compaction: every non-nil entry visited is either kept in the slice or has its refCount decremented (dropped entries return the queue's reference)", 2)
	for _, name := range []string{"server.(*LockManagerWaitQueue).Push", "server.(*LockManagerLockQueue).Push", "server.(*LockManagerWaitQueue).RePushPriorityRingQueue"} {
		fn := mustFunc(p, r, name)
		if fn == nil {
			continue
		}
		recv := recvName(fn)
		visited := 0
		check := func(x *core.X, where string) {
			e := x.Get("elem")
			if e == "" {
				return
			}
			x.Set("elem", "")
			visited++
			key := name + ": compaction entry"
			switch {
			case x.Get("nn") == "0":
				r.Hold(rule, key, x.Get("epos"), "empty slot")
			case x.Get("kept") == "1" || x.Get("dec") == "1":
				r.Hold(rule, key, x.Get("epos"), "kept or reference returned")
			default:
				r.Violate(rule, key, x.Get("epos"), "an entry is dropped from the queue ("+where+") without decrementing its refCount: the lock object keeps the queue's reference for ever, is never returned to the pool and its key is never reclaimed", x.St.Trace)
			}
		}
		ex := core.NewExplorer(p, core.Hooks{
			Inline: func(x *core.X, c *ssa.Function) bool {
				return core.InModule(c) && recvName(c) == recv && c.Name() != "Push"
			},
			Track: func(x *core.X, a core.Atom) bool {
				e := x.Get("elem")
				return e != "" && (core.Plain(a.L) == core.Plain(e) && a.R == "nil")
			},
			Branch: func(x *core.X, a core.Atom) {
				e := x.Get("elem")
				if e != "" && core.Plain(a.L) == core.Plain(e) && a.R == "nil" {
					if a.Op == "!=" {
						x.Set("nn", "1")
					} else {
						x.Set("nn", "0")
					}
				}
			},
			Instr: func(x *core.X) {
				switch t := x.Ins.(type) {
				case *ssa.UnOp:
					ia, ok := t.X.(*ssa.IndexAddr)
					if !ok || !blockInLoop(t.Block()) {
						return
					}
					if !strings.HasSuffix(core.Plain(x.Canon(ia.X).S), ".fastQueue") {
						return
					}
					check(x, "next iteration")
					x.Set("elem", x.Canon(t).S)
					x.Set("epos", x.Pos())
					x.Set("idx", ia.Index.Name())
					x.Set("kept", "")
					x.Set("dec", "")
					x.Set("nn", "")
				case *ssa.Store:
					e := x.Get("elem")
					if e == "" {
						return
					}
					if ia, ok := t.Addr.(*ssa.IndexAddr); ok && strings.HasSuffix(core.Plain(x.Canon(ia.X).S), ".fastQueue") {
						if core.Plain(x.Canon(t.Val).S) == core.Plain(e) {
							x.Set("kept", "1")
						}
						return
					}
					if k, ok := storeKey(t.Addr); ok && k == lkRef && signOf(t) == "-" {
						base := core.Plain(strings.TrimSuffix(strings.TrimPrefix(x.Canon(t.Addr).S, "&"), ".refCount"))
						if base == core.Plain(e) {
							x.Set("dec", "1")
						}
					}
				case ssa.CallInstruction:
					// handed to another queue (migration): kept
					if e := x.Get("elem"); e != "" {
						if c := core.StaticCallee(x.Ins); c != nil && c.Name() == "Push" && len(core.CallArgs(x.Ins)) >= 2 && core.Plain(argCanon(x, x.Ins, 1)) == core.Plain(e) {
							x.Set("kept", "1")
						}
					}
				case *ssa.BinOp:
					// keep index advanced: an integer phi other than the scan index is incremented
					if x.Get("elem") == "" || t.Op.String() != "+" {
						return
					}
					if c, ok := t.Y.(*ssa.Const); ok && c.Value != nil && c.Value.ExactString() == "1" {
						if ph, ok := t.X.(*ssa.Phi); ok && ph.Name() != x.Get("idx") && x.Fr.Fn == t.Parent() {
							x.Set("kept", "1")
						}
					}
				}
			},
			Exit: func(x *core.X, rets []core.Expr) { check(x, "loop exit") },
		})
		ex.NoHist = true
		ex.Run(fn, nil)
		if ex.Imprecise != "" {
			r.Fail("C17/R6 %s: %s", name, ex.Imprecise)
		}
		if visited == 0 {
			r.Violate(rule, name+": compaction entry", p.Pos(fn.Pos()), "no compaction loop over the fast slice found", nil)
		}
	}
}

// c17R7: GetWaitLock is the only place that unlinks answered requests from a
// key's wait queue (it drops the entries whose tombstone is set while looking
// for the first live waiter) and its result decides lockManager.waited. A
// function that answers a queued request itself (timeout, cancel) must set
// that request's tombstone before it asks GetWaitLock, otherwise the request
// it is answering is reported as the live head: it stays linked, keeps its
// reference, and the key's manager is never reclaimed.
func c17R7(p *core.Prog, r *core.Report) {
	const rule = "C17/R7"
	r.Rule(rule, "a function that tombstones a queued request it answers itself (timeouted = true on a Lock not obtained from GetWaitLock) does so before it calls GetWaitLock on that path", 2)
	tomb := fk("server.Lock", "timeouted")
	n := 0
	for _, fn := range p.FuncsIn("server") {
		if fn.Blocks == nil || p.IsNewFunc(fn) {
			continue
		}
		calls, stores := false, false
		for _, b := range fn.Blocks {
			for _, ins := range b.Instrs {
				if calleeIs(ins, "LockManager", "GetWaitLock") {
					calls = true
				}
				if st, ok := ins.(*ssa.Store); ok {
					if k, ok := storeKey(st.Addr); ok && k == tomb {
						stores = true
					}
				}
			}
		}
		if !calls || !stores {
			continue
		}
		name := core.FuncName(fn)
		bad := false
		seen := false
		ex := core.NewExplorer(p, core.Hooks{
			Instr: func(x *core.X) {
				if calleeIs(x.Ins, "LockManager", "GetWaitLock") {
					x.Set("scanned", "1")
					return
				}
				st, ok := x.Ins.(*ssa.Store)
				if !ok {
					return
				}
				k, ok := storeKey(st.Addr)
				if !ok || k != tomb || x.Canon(st.Val).S != "true" {
					return
				}
				fa, ok := st.Addr.(*ssa.FieldAddr)
				if !ok {
					return
				}
				target := core.Plain(x.Canon(fa.X).S)
				if strings.Contains(target, "GetWaitLock(") {
					return // the live head the scan returned (a grant), not a request answered here
				}
				seen = true
				if x.Get("scanned") == "1" && !bad {
					bad = true
					r.Violate(rule, name+": tombstone before the waiter scan", x.Pos(), "the wait queue was scanned (GetWaitLock) before "+target+".timeouted was set: the scan takes the request being answered for a live waiter, does not unlink it and reports the queue non-empty - the answered request stays linked with its reference and the key's manager is never reclaimed (KeyCount never returns to 0)", x.St.Trace)
				}
			},
		})
		ex.NoHist = true
		ex.Run(fn, nil)
		if ex.Imprecise != "" {
			r.Fail("C17/R7 %s: %s", name, ex.Imprecise)
		}
		if seen {
			n++
			if !bad {
				r.Hold(rule, name+": tombstone before the waiter scan", p.Pos(fn.Pos()), "tombstone set before GetWaitLock on every path")
			}
		}
	}
	if n == 0 {
		r.Fail("C17/R7: no function tombstones a request and scans the wait queue")
	}
}
