package rules

import (
	"fmt"
	"go/token"
	"go/types"
	"sort"
	"strings"

	"golang.org/x/tools/go/ssa"

	"slockverif/internal/core"
)

func init() { Registry["C03"] = checkC03 }

// replyCall recognises a terminal-reply call: any method named
// ProcessLockResultCommand / ProcessLockResultCommandLocked (interface
// invocation or static). Returns the canonical request and result arguments.
func replyCall(x *core.X, ins ssa.Instruction) (req, result string, lockedVariant, ok bool) {
	name, _ := core.CallName(ins)
	if name != "ProcessLockResultCommand" && name != "ProcessLockResultCommandLocked" {
		return "", "", false, false
	}
	args := core.CallArgs(ins)
	if len(args) < 6 {
		return "", "", false, false
	}
	return x.Canon(args[1]).S, x.Canon(args[2]).S, name == "ProcessLockResultCommandLocked", true
}

func freeCall(x *core.X, ins ssa.Instruction) (cmd string, ok bool) {
	name, _ := core.CallName(ins)
	if name != "FreeLockCommand" && name != "FreeLockCommandLocked" {
		return "", false
	}
	args := core.CallArgs(ins)
	if len(args) < 2 {
		return "", false
	}
	return x.Canon(args[1]).S, true
}

func checkC03(p *core.Prog, r *core.Report) {
	r.Explanation = "Decides structural necessary conditions of exactly-one-reply: (R1) on every path of LockDB.Lock/UnLock (with the helpers that finish a request inlined) the request is answered exactly once, or not at all with exactly one recorded deferral (queued as waiter, ack pending, retry recursion, hand-over); (R2) the asynchronous repliers doTimeOut/doExpried/DoAckLock reply only after a test-and-set of the hold's tombstone inside one shard-mutex section, at most once per path, with the hold's own command and protocol loaded under the mutex; (R3) wakeUpWaitLock/cancelWaitLock tombstone the wait before releasing the mutex and replying; (R4) the text protocol delivers a reply only when its RequestId equals the connection's current lockRequestId; (R5) no pooled command is freed twice or freed while a live hold retains it, on any path; (R6) the text protocol zeroes that request-id filter before it hands a reply to its connection, on every path (a later notice for the same request cannot become a second answer); (R7) UpdateLockedLock makes the request's command the hold's command on every path, which is the summary R5 uses for that call; (R8) every text handler that hands a request to the engine takes the engine's answer out of the reply channel before it returns; (R10) cancelWaitLock selects the waiter it is going to answer only on the not-answered side of a test of that entry's timeouted flag (an entry answered TIMEOUT stays parked behind a live head; selecting it answers it twice). NOT decided: races between goroutines beyond the mutex/tombstone premises, delivery order on the wire, routing through ProxyServerProtocol (C18)."
	r.Assumptions = []string{
		"Go type checker, go/ssa and VTA call graph are correct for /repo",
		"a reply is a call of a method named ProcessLockResultCommand[Locked]",
		"the shard mutex gives mutual exclusion (C01-R3 checks that tombstone writes happen under it)",
	}
	c03R1(p, r)
	c03R2(p, r)
	c03R3(p, r)
	c03R4(p, r)
	c03R5(p, r)
	c03R6(p, r)
	c03R7(p, r)
	c03R8(p, r)
	c03R9(p, r)
	// R10: cancelWaitLock tombstones and answers (UNLOCK_ERROR) the entry it
	// selected; an entry whose timeouted flag is already set was answered
	// before (TIMEOUT by the sweeper, or an earlier cancel) and stays parked in
	// the queue behind a live head, so selecting it is a second terminal reply.
	cancelSelectsLive(p, r, "C03/R10")
}

// finishing helpers: they answer or hand over the request they are given.
var c03Inline = []string{
	"server.(*LockDB).cancelWaitLock", "server.(*LockDB).unlockTreeLock",
	"server.(*LockDB).addUnlockLockCommandToWaitLock", "server.(*LockDB).doLock",
	"server.(*LockDB).doCheckLockWaitPriority", "server.(*LockDB).checkLessLockVersion",
}

// ---------------------------------------------------------------------------
// R1 reply linearity for the request-owning entry points

func c03R1(p *core.Prog, r *core.Report) {
	const rule = "C03/R1"
	r.Rule(rule, "every path of LockDB.Lock / LockDB.UnLock answers its request exactly once, or zero times with exactly one deferral (AddWaitLock+timeout, ack-pending push, DoAckLock(false), retry recursion)", 12)
	for _, name := range []string{"server.(*LockDB).Lock", "server.(*LockDB).UnLock"} {
		fn := mustFunc(p, r, name)
		if fn == nil {
			continue
		}
		req := fn.Params[2].Name() // command
		type cls struct {
			n    int
			pos  string
			path []string
			bad  string
		}
		classes := map[string]*cls{}
		inl := inlineSet(p, c03Inline...)
		ex := core.NewExplorer(p, core.Hooks{
			Inline: inl,
			Track: func(x *core.X, a core.Atom) bool {
				return strings.HasPrefix(a.L, "PushLockAof(") && a.R == "nil"
			},
			Instr: func(x *core.X) {
				if rq, res, _, ok := replyCall(x, x.Ins); ok {
					if rq == req {
						n := x.Get("rep")
						x.Set("rep", n+"R"+res)
						x.Set("last", siteKey(p, x.Ins))
					}
					return
				}
				c, ok := x.Ins.(ssa.CallInstruction)
				if !ok {
					return
				}
				callee := c.Common().StaticCallee()
				switch {
				case isMethod(callee, "LockManager", "AddWaitLock"):
					// waiter deferral if the queued lock carries this request
					lk := argCanon(x, x.Ins, 1)
					if n, a, ok := splitCall(lk); ok && n == "GetOrNewLock" && len(a) == 3 && a[2] == req {
						x.Set("def", x.Get("def")+"W")
					}
				case isMethod(callee, "LockDB", "DoAckLock"):
					x.Set("def", x.Get("def")+"A")
				case callee == fn:
					if argCanon(x, x.Ins, 2) == req {
						x.Set("def", x.Get("def")+"T") // retry recursion
					}
				}
			},
			Branch: func(x *core.X, a core.Atom) {
				// ack-pending: the push was accepted; the reply comes from DoAckLock
				if strings.HasPrefix(a.L, "PushLockAof(") && a.Op == "==" && a.R == "nil" {
					if x.Get("ackseen") != a.L {
						x.Set("ackseen", a.L)
						x.Set("def", x.Get("def")+"P")
					}
				}
			},
			Exit: func(x *core.X, rets []core.Expr) {
				rep, def := x.Get("rep"), x.Get("def")
				nrep := strings.Count(rep, "R")
				key := fmt.Sprintf("%s: exit{replies=%s deferrals=%s}", name, rep, def)
				c := classes[key]
				if c == nil {
					c = &cls{pos: x.Pos()}
					classes[key] = c
				}
				c.n++
				switch {
				case nrep == 1 && def == "":
				case nrep == 0 && len(def) == 1:
				case nrep == 1 && def == "P":
					// update path: push accepted for an already-acknowledged hold but the
					// request is still answered here only when err != nil; P then is not set
					c.bad = "request answered and also left ack-pending"
				case nrep == 0 && def == "":
					c.bad = "path returns without answering the request and without a deferral (lost reply)"
				case nrep > 1:
					c.bad = "request answered more than once"
				default:
					c.bad = "request answered and deferred on the same path"
				}
				if c.bad != "" && c.path == nil {
					c.path = x.St.Trace
				}
			},
		})
		ex.Run(fn, nil)
		r.Stats["R1_steps"] += ex.Steps
		r.Stats["R1_paths"] += ex.Paths
		if ex.Imprecise != "" {
			r.Fail("C03/R1 %s: %s", name, ex.Imprecise)
		}
		keys := make([]string, 0, len(classes))
		for k := range classes {
			keys = append(keys, k)
		}
		sort.Strings(keys)
		for _, k := range keys {
			c := classes[k]
			if c.bad != "" {
				r.Violate(rule, k, c.pos, c.bad, c.path)
			} else {
				r.Hold(rule, k, c.pos, fmt.Sprintf("%d path classes", c.n))
			}
		}
	}
}

// ---------------------------------------------------------------------------
// R2 asynchronous repliers: tombstone test-and-set under the mutex

type asyncSpec struct {
	fn        string
	tomb      core.FieldKey
	testTrue  string // atom text suffix that means "not yet finished"
	lockParam int
}

func c03R2(p *core.Prog, r *core.Report) {
	const rule = "C03/R2"
	r.Rule(rule, "doTimeOut / doExpried / DoAckLock reply only after testing the hold's tombstone (timeouted / expried / ackCount) on the not-yet side and setting it, inside one shard-mutex section; at most one reply per path; the reply carries lock.command and goes to lock.protocol, both loaded under the mutex", 4)
	specs := []asyncSpec{
		{"server.(*LockDB).doTimeOut", fk("server.Lock", "timeouted"), ".timeouted == false", 1},
		{"server.(*LockDB).doExpried", fk("server.Lock", "expried"), ".expried == false", 1},
		{"server.(*LockDB).DoAckLock", fk("server.Lock", "ackCount"), ".ackCount != 255", 1},
	}
	removeLock := p.Func("server.(*LockManager).RemoveLock")
	for _, sp := range specs {
		fn := mustFunc(p, r, sp.fn)
		if fn == nil {
			continue
		}
		lk := fn.Params[sp.lockParam].Name()
		ex := core.NewExplorer(p, core.Hooks{
			Track: func(x *core.X, a core.Atom) bool {
				return strings.HasPrefix(a.L, lk+".") || strings.HasPrefix(a.R, lk+".")
			},
			Instr: func(x *core.X) {
				if cl, acq, ok := trackLocks(x); ok && cl == "shard" {
					if !acq {
						// leaving the section: remember whether the tombstone was set in it
						if x.Get("set") == "1" && x.Get("tested") == "1" {
							x.Set("armed", "1")
						}
						x.Set("tested", "")
						x.Set("set", "")
						x.Set("cmdloaded", "")
					} else {
						x.Set("armed", "")
					}
					return
				}
				switch t := x.Ins.(type) {
				case *ssa.Store:
					if k, ok := storeKey(t.Addr); ok && k == sp.tomb && held(x, "shard") {
						x.Set("set", "1")
					}
				case *ssa.UnOp:
					// load of lock.command / lock.protocol under the mutex
					c := x.Canon(t).S
					if held(x, "shard") && (c == lk+".command" || c == lk+".protocol") {
						x.Set("ld:"+c, "1")
					}
				case ssa.CallInstruction:
					if core.StaticCallee(x.Ins) == removeLock && removeLock != nil && held(x, "shard") && sp.tomb.Field == "ackCount" {
						// RemoveLock stores ackCount = 0xff on every path (checked in R2b)
						if argCanon(x, x.Ins, 1) == lk {
							x.Set("set", "1")
						}
					}
					rq, res, _, ok := replyCall(x, x.Ins)
					if !ok {
						return
					}
					key := siteKey(p, x.Ins)
					n := x.Get("nrep")
					x.Set("nrep", n+"R")
					recv := argCanon(x, x.Ins, 0)
					switch {
					case held(x, "shard"):
						r.Violate(rule, key, x.Pos(), "reply sent while the shard mutex is held", x.St.Trace)
					case x.Get("armed") != "1":
						r.Violate(rule, key, x.Pos(), "reply (result "+res+") not preceded by test-and-set of "+sp.tomb.String()+" in one shard-mutex section", x.St.Trace)
					case rq != lk+".command" || x.Get("ld:"+lk+".command") != "1":
						r.Violate(rule, key, x.Pos(), "reply request "+rq+" is not the hold's own command loaded under the mutex", x.St.Trace)
					case recv != lk+".protocol" || x.Get("ld:"+lk+".protocol") != "1":
						r.Violate(rule, key, x.Pos(), "reply receiver "+recv+" is not the hold's own protocol loaded under the mutex", x.St.Trace)
					case len(n) >= 1:
						r.Violate(rule, key, x.Pos(), "second reply on one path", x.St.Trace)
					default:
						r.Hold(rule, key, x.Pos(), "tombstone tested and set under the mutex before the reply")
					}
				}
			},
			Branch: func(x *core.X, a core.Atom) {
				if held(x, "shard") && strings.HasSuffix(a.String(), sp.testTrue) && strings.HasPrefix(a.L, lk+".") {
					x.Set("tested", "1")
				}
			},
		})
		ex.Run(fn, nil)
		r.Stats["R2_steps"] += ex.Steps
		if ex.Imprecise != "" {
			r.Fail("C03/R2 %s: %s", sp.fn, ex.Imprecise)
		}
	}
	// R2b: RemoveLock must-store of the ack tombstone (used above as a summary)
	if removeLock != nil && len(removeLock.Params) >= 2 {
		lk := removeLock.Params[1].Name()
		ex := core.NewExplorer(p, core.Hooks{
			Instr: func(x *core.X) {
				if st, ok := x.Ins.(*ssa.Store); ok && x.Top() {
					if k, ok := storeKey(st.Addr); ok && k == fk("server.Lock", "ackCount") {
						if x.Canon(st.Addr).S == "&"+lk+".ackCount" && x.Canon(st.Val).S == "255" {
							x.Set("s", "1")
						}
					}
				}
			},
			Exit: func(x *core.X, rets []core.Expr) {
				key := "server.(*LockManager).RemoveLock: must-store ackCount=0xff"
				if x.Get("s") == "1" {
					r.Hold(rule, key, x.Pos(), "stored on this path")
				} else {
					r.Violate(rule, key, x.Pos(), "RemoveLock returns without resetting ackCount to 0xff (DoAckLock relies on it as its tombstone)", x.St.Trace)
				}
			},
		})
		ex.Run(removeLock, nil)
	}
}

// ---------------------------------------------------------------------------
// R3 grant / cancel tombstones the wait before the reply

func c03R3(p *core.Prog, r *core.Report) {
	const rule = "C03/R3"
	r.Rule(rule, "wakeUpWaitLock (non-ack arm) and cancelWaitLock store timeouted=true on the waiter under the shard mutex before releasing it and replying", 3)
	type spec struct {
		fn      string
		entered bool // function is entered with the mutex held
	}
	for _, sp := range []spec{{"server.(*LockDB).wakeUpWaitLock", true}, {"server.(*LockDB).cancelWaitLock", true}} {
		fn := mustFunc(p, r, sp.fn)
		if fn == nil {
			continue
		}
		init := core.NewState()
		init.RS["L:shard"] = "1"
		ex := core.NewExplorer(p, core.Hooks{
			Instr: func(x *core.X) {
				if cl, acq, ok := trackLocks(x); ok && cl == "shard" {
					if !acq {
						x.Set("tombAtRelease", x.Get("tomb"))
					}
					return
				}
				switch t := x.Ins.(type) {
				case *ssa.Store:
					if k, ok := storeKey(t.Addr); ok && k == fk("server.Lock", "timeouted") && held(x, "shard") && x.Canon(t.Val).S == "true" {
						x.Set("tomb", strings.TrimSuffix(strings.TrimPrefix(x.Canon(t.Addr).S, "&"), ".timeouted"))
					}
				case ssa.CallInstruction:
					rq, res, _, ok := replyCall(x, x.Ins)
					if !ok {
						return
					}
					// only replies addressed to the waiter's command
					w := x.Get("tombAtRelease")
					isWaiterReply := strings.HasSuffix(rq, ".command") || strings.Contains(rq, "waitLock") || strings.Contains(rq, "phi@")
					if sp.fn == "server.(*LockDB).cancelWaitLock" && rq == fn.Params[2].Name() {
						isWaiterReply = false // reply to the canceller itself
					}
					if !isWaiterReply {
						return
					}
					key := siteKey(p, x.Ins)
					if w == "" {
						r.Violate(rule, key, x.Pos(), "reply (result "+res+") to a queued request without timeouted=true stored under the mutex first", x.St.Trace)
					} else if rq != w+".command" {
						r.Violate(rule, key, x.Pos(), "reply addressed to "+rq+" but the tombstoned waiter is "+w, x.St.Trace)
					} else {
						r.Hold(rule, key, x.Pos(), "waiter tombstoned before release")
					}
				}
			},
		})
		ex.Run(fn, init)
		if ex.Imprecise != "" {
			r.Fail("C03/R3 %s: %s", sp.fn, ex.Imprecise)
		}
	}
}

// ---------------------------------------------------------------------------
// R4 text protocol: late-reply filter and request-id arming

func c03R4(p *core.Prog, r *core.Report) {
	const rule = "C03/R4"
	r.Rule(rule, "TextServerProtocol delivers an asynchronous reply only on `command.RequestId == self.lockRequestId` under its mutex, and every text handler stores lockRequestId from the request before handing it to the engine", 4)
	fn := mustFunc(p, r, "server.(*TextServerProtocol).ProcessLockResultCommandLocked")
	if fn != nil {
		self, cmd := fn.Params[0].Name(), fn.Params[1].Name()
		n := 0
		ex := core.NewExplorer(p, core.Hooks{
			Track: func(x *core.X, a core.Atom) bool { return strings.Contains(a.String(), "lockRequestId") },
			Instr: func(x *core.X) {
				trackLocks(x)
				if _, _, _, ok := replyCall(x, x.Ins); ok {
					n++
					key := siteKey(p, x.Ins)
					guarded := false
					for _, a := range x.St.Facts.All() {
						if a.Op == "==" && ((strings.HasPrefix(a.L, cmd+".") && strings.HasSuffix(a.L, ".RequestId") && a.R == self+".lockRequestId") ||
							(strings.HasPrefix(a.R, cmd+".") && strings.HasSuffix(a.R, ".RequestId") && a.L == self+".lockRequestId")) {
							guarded = true
						}
					}
					if !guarded {
						r.Violate(rule, key, x.Pos(), "delivery not guarded by "+cmd+".RequestId == "+self+".lockRequestId", x.St.Trace)
					} else if !held(x, "glock") {
						r.Violate(rule, key, x.Pos(), "delivery outside the protocol mutex", x.St.Trace)
					} else {
						r.Hold(rule, key, x.Pos(), "guarded by the request-id comparison under the mutex")
					}
				}
			},
		})
		ex.Run(fn, nil)
		if n == 0 {
			r.Fail("C03/R4: no delivery call found in TextServerProtocol.ProcessLockResultCommandLocked")
		}
	}
	// arming: every engine call from a TextServerProtocol method
	ridKey := fk("server.TextServerProtocol", "lockRequestId")
	for _, f := range p.FuncsIn("server") {
		if f.Signature.Recv() == nil || !strings.HasPrefix(core.FuncName(f), "server.(*TextServerProtocol).") || f.Blocks == nil {
			continue
		}
		hasEngine, waits := false, false
		for _, b := range f.Blocks {
			for _, ins := range b.Instrs {
				if calleeIs(ins, "LockDB", "Lock") || calleeIs(ins, "LockDB", "UnLock") {
					hasEngine = true
				}
				if u, ok := ins.(*ssa.UnOp); ok && u.Op == token.ARROW {
					waits = true
				}
			}
		}
		if !hasEngine || !waits {
			continue // fire-and-forget entry points (PUSH, binary pass-through) do not wait for a reply
		}
		self := f.Params[0].Name()
		ex := core.NewExplorer(p, core.Hooks{
			Instr: func(x *core.X) {
				switch t := x.Ins.(type) {
				case *ssa.Store:
					if k, ok := storeKey(t.Addr); ok && k == ridKey {
						if x.Canon(t.Addr).S == "&"+self+".lockRequestId" {
							x.Set("rid", x.Canon(t.Val).S)
						} else {
							x.Set("rid", "") // element-wise clearing
						}
					}
				case ssa.CallInstruction:
					if !(calleeIs(x.Ins, "LockDB", "Lock") || calleeIs(x.Ins, "LockDB", "UnLock")) {
						return
					}
					if argCanon(x, x.Ins, 1) != self {
						return // request forwarded on behalf of another protocol
					}
					key := siteKey(p, x.Ins)
					cmdArg := argCanon(x, x.Ins, 2)
					want := cmdArg + ".RequestId"
					if rid := x.Get("rid"); rid != want && rid != cmdArg+".Command.RequestId" {
						r.Violate(rule, key, x.Pos(), "engine called without lockRequestId armed from this request (armed: "+x.Get("rid")+", want "+want+")", x.St.Trace)
					} else {
						r.Hold(rule, key, x.Pos(), "lockRequestId armed from the request before the engine call")
					}
				}
			},
		})
		ex.Run(f, nil)
		if ex.Imprecise != "" {
			r.Fail("C03/R4 %s: %s", core.FuncName(f), ex.Imprecise)
		}
	}
}

// ---------------------------------------------------------------------------
// R5 command ownership: no double free, no free while retained, no use after free

func c03R5(p *core.Prog, r *core.Report) {
	const rule = "C03/R5"
	r.Rule(rule, "on every path a pooled LockCommand is freed at most once, is not freed while a live hold/waiter retains it as its command, and is not used for a reply after its free", 25)
	cmdKey := fk("server.Lock", "command")
	tmoKey := fk("server.Lock", "timeouted")
	tops := []string{"server.(*LockDB).Lock", "server.(*LockDB).UnLock", "server.(*LockDB).doTimeOut", "server.(*LockDB).doExpried",
		"server.(*LockDB).DoAckLock", "server.(*LockDB).wakeUpWaitLock", "server.(*LockDB).cancelWaitLock"}
	inl := inlineSet(p, c03Inline...)
	for _, name := range tops {
		fn := mustFunc(p, r, name)
		if fn == nil {
			continue
		}
		ex := core.NewExplorer(p, core.Hooks{
			Inline: inl,
			Instr: func(x *core.X) {
				switch t := x.Ins.(type) {
				case *ssa.UnOp:
					// a load of X.command is named by X and X's update generation
					if fa, ok := t.X.(*ssa.FieldAddr); ok && core.FieldKeyOf(fa.X.Type(), fa.Field) == cmdKey {
						base := x.Canon(fa.X).S
						x.St.Env[t] = core.Expr{S: "cmdOf(" + base + ")#" + x.Get("gen:"+base)}
					}
				case *ssa.Store:
					if k, ok := storeKey(t.Addr); ok && k == tmoKey && x.Canon(t.Val).S == "true" {
						base := strings.TrimSuffix(strings.TrimPrefix(x.Canon(t.Addr).S, "&"), ".timeouted")
						x.Set("live:"+base, "dead")
					}
				case ssa.CallInstruction:
					callee := core.StaticCallee(x.Ins)
					switch {
					case isMethod(callee, "LockManager", "UpdateLockedLock"):
						base := argCanon(x, x.Ins, 1)
						x.Set("gen:"+base, x.Get("gen:"+base)+"u")
						x.Set("cur:"+base, argCanon(x, x.Ins, 2))
					case isMethod(callee, "LockManager", "AddLock"), isMethod(callee, "LockManager", "AddWaitLock"):
						x.Set("live:"+argCanon(x, x.Ins, 1), "live")
					case isMethod(callee, "LockManager", "RemoveLock"), isMethod(callee, "LockManager", "FreeLock"):
						x.Set("live:"+argCanon(x, x.Ins, 1), "dead")
					}
					if rq, _, _, ok := replyCall(x, x.Ins); ok {
						if x.Get("freed:"+rq) != "" {
							r.Violate(rule, siteKey(p, x.Ins), x.Pos(), "reply uses command "+rq+" after it was returned to the pool", x.St.Trace)
						}
						return
					}
					cmd, ok := freeCall(x, x.Ins)
					if !ok {
						return
					}
					key := siteKey(p, x.Ins)
					if x.Get("freed:"+cmd) != "" {
						r.Violate(rule, key, x.Pos(), "command "+cmd+" freed twice on one path", x.St.Trace)
						return
					}
					x.Set("freed:"+cmd, "1")
					// retained by a live hold/waiter?
					bad := ""
					if strings.HasPrefix(cmd, "cmdOf(") {
						j := strings.LastIndex(cmd, ")#")
						base, gen := cmd[len("cmdOf("):j], cmd[j+2:]
						if gen == x.Get("gen:"+base) && x.Get("live:"+base) != "dead" {
							bad = "it is still the command of " + base + ", which is not ended on this path"
						}
					}
					for k, v := range x.St.RS {
						if strings.HasPrefix(k, "cur:") && v == cmd && x.Get("live:"+k[4:]) != "dead" {
							bad = "UpdateLockedLock made it the command of the live hold " + k[4:]
						}
						if strings.HasPrefix(k, "live:") && v == "live" {
							if n, a, ok := splitCall(k[5:]); ok && n == "GetOrNewLock" && len(a) == 3 && a[2] == cmd && x.Get("cur:"+k[5:]) == "" {
								bad = "it is the command of the queued/held lock " + k[5:]
							}
						}
					}
					if bad != "" {
						r.Violate(rule, key, x.Pos(), "command "+cmd+" freed while retained: "+bad, x.St.Trace)
					} else {
						r.Hold(rule, key, x.Pos(), "freed once, not retained")
					}
				}
			},
		})
		ex.Run(fn, nil)
		r.Stats["R5_steps"] += ex.Steps
		if ex.Imprecise != "" {
			r.Fail("C03/R5 %s: %s", name, ex.Imprecise)
		}
	}
}

// ---------------------------------------------------------------------------
// R6 text protocol: the late-reply filter is disarmed before a reply is handed
// to the connection. The filter (lockRequestId) is what lets an asynchronous
// notice through; left armed after the answer was delivered, a later notice
// for the same request (expiry of the hold) passes it and is queued as a
// second frame, which the client reads as the answer to its next command.
func c03R6(p *core.Prog, r *core.Report) {
	const rule = "C03/R6"
	r.Rule(rule, "TextServerProtocol hands a reply to its connection (send on lockWaiter) only after zeroing the request-id filter lockRequestId on the same path", 2)
	filter := fk("server.TextServerProtocol", "lockRequestId")
	n := 0
	for _, fn := range p.FuncsIn("server") {
		if fn.Blocks == nil || p.IsNewFunc(fn) || recvName(fn) != "TextServerProtocol" {
			continue
		}
		sends := false
		for _, b := range fn.Blocks {
			for _, ins := range b.Instrs {
				if s, ok := ins.(*ssa.Send); ok {
					if u, ok := s.Chan.(*ssa.UnOp); ok {
						if fa, ok := u.X.(*ssa.FieldAddr); ok && core.FieldKeyOf(fa.X.Type(), fa.Field).Field == "lockWaiter" {
							sends = true
						}
					}
				}
			}
		}
		if !sends {
			continue
		}
		name := core.FuncName(fn)
		ex := core.NewExplorer(p, core.Hooks{
			Instr: func(x *core.X) {
				if st, ok := x.Ins.(*ssa.Store); ok {
					// whole-array store or one element
					if fa, ok := st.Addr.(*ssa.FieldAddr); ok && core.FieldKeyOf(fa.X.Type(), fa.Field) == filter {
						base := core.Plain(x.Canon(fa.X).S)
						if strings.HasPrefix(x.Canon(st.Val).S, "[16]byte{}") || isZeroValue(st.Val) {
							x.Set("z:"+base, "65535")
						} else {
							x.Set("z:"+base, "")
						}
						return
					}
					if ia, ok := st.Addr.(*ssa.IndexAddr); ok {
						if fa, ok := ia.X.(*ssa.FieldAddr); ok && core.FieldKeyOf(fa.X.Type(), fa.Field) == filter {
							base := core.Plain(x.Canon(fa.X).S)
							ic, okI := ia.Index.(*ssa.Const)
							vc, okV := st.Val.(*ssa.Const)
							mask := 0
							fmt.Sscanf(x.Get("z:"+base), "%d", &mask)
							if okI && okV && vc.Int64() == 0 {
								mask |= 1 << uint(ic.Int64())
							} else if okI {
								mask &^= 1 << uint(ic.Int64())
							} else {
								mask = 0
							}
							x.Set("z:"+base, fmt.Sprint(mask))
						}
					}
					return
				}
				s, ok := x.Ins.(*ssa.Send)
				if !ok {
					return
				}
				ch := core.Plain(x.Canon(s.Chan).S)
				if !strings.HasSuffix(ch, ".lockWaiter") {
					return
				}
				n++
				base := strings.TrimSuffix(ch, ".lockWaiter")
				key := siteKey(p, x.Ins)
				if x.Get("z:"+base) == "65535" {
					r.Hold(rule, key, x.Pos(), "filter zeroed before the hand-over")
				} else {
					r.Violate(rule, key, x.Pos(), "a reply is handed to the connection with the request-id filter still armed: a later asynchronous notice for the same request (expiry of the hold it was granted) passes the filter and is delivered as a second answer, shifting every later reply on the connection", x.St.Trace)
				}
			},
		})
		ex.NoHist = true
		ex.Run(fn, nil)
		if ex.Imprecise != "" {
			r.Fail("C03/R6 %s: %s", name, ex.Imprecise)
		}
	}
	if n == 0 {
		r.Fail("C03/R6: no hand-over (send on lockWaiter) found in TextServerProtocol")
	}
}

func isZeroValue(v ssa.Value) bool {
	c, ok := v.(*ssa.Const)
	return ok && c.Value == nil
}

// ---------------------------------------------------------------------------
// R7: R5 models LockManager.UpdateLockedLock as "the request's command becomes
// the hold's command" - that is what its callers rely on when they return the
// hold's previous command to the connection's pool afterwards. The summary has
// to be true on every path of the function, otherwise the hold keeps pointing
// at a pooled command that the next request on the connection overwrites
// (its later notice goes out under a foreign request id, a foreign LockId can
// release it).
func c03R7(p *core.Prog, r *core.Report) {
	const rule = "C03/R7"
	r.Rule(rule, "LockManager.UpdateLockedLock stores the new command into the hold's command field on every path (the summary C03/R5 uses for this call)", 1)
	fn := mustFunc(p, r, "server.(*LockManager).UpdateLockedLock")
	if fn == nil || len(fn.Params) < 3 {
		return
	}
	lock, cmd := fn.Params[1].Name(), fn.Params[2].Name()
	cmdKey := fk("server.Lock", "command")
	n := 0
	ex := core.NewExplorer(p, core.Hooks{
		Instr: func(x *core.X) {
			if st, ok := x.Ins.(*ssa.Store); ok {
				if k, ok := storeKey(st.Addr); ok && k == cmdKey {
					if fa, ok := st.Addr.(*ssa.FieldAddr); ok && core.Plain(x.Canon(fa.X).S) == lock {
						if core.Plain(x.Canon(st.Val).S) == cmd {
							x.Set("swapped", "1")
						} else {
							x.Set("swapped", "")
						}
					}
				}
			}
		},
		Exit: func(x *core.X, rets []core.Expr) {
			n++
			key := "server.(*LockManager).UpdateLockedLock: hold adopts the new command"
			if x.Get("swapped") == "1" {
				r.Hold(rule, key, x.Pos(), "lock.command = command on this path")
			} else {
				r.Violate(rule, key, x.Pos(), "UpdateLockedLock returns on a path that leaves the hold's command field on the previous command: its callers free that command afterwards, so the live hold references a pooled object the next request on the connection overwrites", x.St.Trace)
			}
		},
	})
	ex.NoHist = true
	ex.Run(fn, nil)
	if ex.Imprecise != "" {
		r.Fail("C03/R7: %s", ex.Imprecise)
	}
	if n == 0 {
		r.Fail("C03/R7: UpdateLockedLock has no return")
	}
}

// ---------------------------------------------------------------------------
// R8 text protocol: the engine answers a request handed to it by a text
// connection through the connection's reply channel (lockWaiter). A handler
// that hands a request to the engine and returns without taking the answer
// out of the channel leaves it there: the next command on the connection is
// answered with it, and every later reply is shifted by one.
func c03R8(p *core.Prog, r *core.Report) {
	const rule = "C03/R8"
	r.Rule(rule, "every TextServerProtocol method that hands a request to the engine (LockDB.Lock / UnLock with itself as the protocol) takes the engine's answer from lockWaiter before it returns, on every path where the engine accepted the request", 4)
	n := 0
	for _, fn := range p.FuncsIn("server") {
		if fn.Blocks == nil || p.IsNewFunc(fn) || recvName(fn) != "TextServerProtocol" || len(fn.Params) == 0 {
			continue
		}
		// the will drain and the generic dispatcher are not request handlers of the connection's reader
		if fn.Name() == "Close" || fn.Name() == "ProcessLockCommand" || fn.Name() == "ProcessCommad" {
			continue
		}
		engine := false
		for _, b := range fn.Blocks {
			for _, ins := range b.Instrs {
				if calleeIs(ins, "LockDB", "Lock") || calleeIs(ins, "LockDB", "UnLock") {
					if args := core.CallArgs(ins); len(args) > 1 {
						if mi, ok := args[1].(*ssa.MakeInterface); ok && mi.X == ssa.Value(fn.Params[0]) {
							engine = true
						}
					}
				}
			}
		}
		if !engine {
			continue
		}
		name := core.FuncName(fn)
		bad := false
		ex := core.NewExplorer(p, core.Hooks{
			Track: func(x *core.X, a core.Atom) bool {
				s := core.Plain(a.String())
				return strings.HasPrefix(s, "Lock(") || strings.HasPrefix(s, "UnLock(")
			},
			Instr: func(x *core.X) {
				if !x.Top() {
					return
				}
				if calleeIs(x.Ins, "LockDB", "Lock") || calleeIs(x.Ins, "LockDB", "UnLock") {
					x.Set("handed", core.Plain(x.Canon(x.Ins.(ssa.Value)).S))
					x.Set("taken", "")
					return
				}
				switch t := x.Ins.(type) {
				case *ssa.UnOp:
					if t.Op == token.ARROW && strings.HasSuffix(core.Plain(x.Canon(t.X).S), ".lockWaiter") {
						x.Set("taken", "1")
					}
				case *ssa.Select:
					for _, st := range t.States {
						if st.Dir == types.RecvOnly && strings.HasSuffix(core.Plain(x.Canon(st.Chan).S), ".lockWaiter") {
							x.Set("taken", "1")
						}
					}
				}
			},
			Exit: func(x *core.X, rets []core.Expr) {
				h := x.Get("handed")
				if h == "" || x.Get("taken") == "1" || bad {
					return
				}
				// the engine refused the request outright (error result): no answer is in flight
				for a := range x.St.Hist {
					if strings.HasPrefix(core.Plain(a), h+" != nil") {
						return
					}
				}
				bad = true
				r.Violate(rule, name+": engine's answer taken from lockWaiter", x.Pos(), "the handler hands a request to the engine and returns without receiving the engine's answer from lockWaiter: the answer stays in the channel, the next LOCK / UNLOCK / key command on the connection is answered with it and every later reply on the connection is shifted by one", x.St.Trace)
			},
		})
		ex.Run(fn, nil)
		if ex.Imprecise != "" {
			r.Fail("C03/R8 %s: %s", name, ex.Imprecise)
			continue
		}
		n++
		if !bad {
			r.Hold(rule, name+": engine's answer taken from lockWaiter", p.Pos(fn.Pos()), "received on every accepting path")
		}
	}
	if n == 0 {
		r.Fail("C03/R8: no text handler hands a request to the engine")
	}
}

// ---------------------------------------------------------------------------
// R9: when a re-lock or an update makes a new request the hold's command
// (UpdateLockedLock), the hold's later notices (EXPRIED, TIMEOUT) carry that
// request's id - so they must also go to that request's connection: the hold's
// protocol has to be switched on the same path.
func c03R9(p *core.Prog, r *core.Report) {
	const rule = "C03/R9"
	r.Rule(rule, "LockDB.Lock: every path that makes the request the hold's command (UpdateLockedLock) also makes the request's connection the hold's protocol", 2)
	fn := mustFunc(p, r, "server.(*LockDB).Lock")
	if fn == nil {
		return
	}
	protoKey := fk("server.Lock", "protocol")
	sites := map[string]string{} // site key -> position
	bad := map[string][]string{}
	ex := core.NewExplorer(p, core.Hooks{
		Instr: func(x *core.X) {
			if !x.Top() {
				return
			}
			if calleeIs(x.Ins, "LockManager", "UpdateLockedLock") {
				hold := core.Plain(argCanon(x, x.Ins, 1))
				x.Set("upd:"+hold, siteKey(p, x.Ins)+"\x00"+x.Pos())
				return
			}
			if st, ok := x.Ins.(*ssa.Store); ok {
				if k, ok := storeKey(st.Addr); ok && k == protoKey {
					if fa, ok := st.Addr.(*ssa.FieldAddr); ok && strings.HasPrefix(core.Plain(x.Canon(st.Val).S), "GetProxy(") {
						hold := core.Plain(x.Canon(fa.X).S)
						if v := x.Get("upd:" + hold); v != "" {
							parts := strings.SplitN(v, "\x00", 2)
							sites[parts[0]] = parts[1]
							x.Set("upd:"+hold, "")
						}
					}
				}
			}
		},
		Exit: func(x *core.X, rets []core.Expr) {
			for k, v := range x.St.RS {
				if strings.HasPrefix(k, "upd:") && v != "" {
					parts := strings.SplitN(v, "\x00", 2)
					sites[parts[0]] = parts[1]
					if bad[parts[0]] == nil {
						bad[parts[0]] = x.St.Trace
					}
				}
			}
		},
	})
	ex.NoHist = true
	ex.Run(fn, nil)
	if ex.Imprecise != "" {
		r.Fail("C03/R9: %s", ex.Imprecise)
	}
	if len(sites) == 0 {
		r.Fail("C03/R9: no UpdateLockedLock call found in LockDB.Lock")
	}
	var keys []string
	for k := range sites {
		keys = append(keys, k)
	}
	sort.Strings(keys)
	for _, k := range keys {
		if tr, isBad := bad[k]; isBad {
			r.Violate(rule, k, sites[k], "the request becomes the hold's command on a path that leaves the hold's protocol on the previous connection: the hold's later EXPRIED / TIMEOUT notice carries this request's id but is delivered to the connection that sent the earlier request - a reply for a request that connection never made, and none for this one", tr)
		} else {
			r.Hold(rule, k, sites[k], "protocol switched with the command")
		}
	}
}
