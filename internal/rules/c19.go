package rules

import (
	"fmt"
	"go/types"
	"sort"
	"strconv"
	"strings"

	"golang.org/x/tools/go/ssa"

	"slockverif/internal/core"
)

func init() { Registry["C19"] = checkC19 }

func checkC19(p *core.Prog, r *core.Report) {
	r.Explanation = "Decides the wire conventions through which the packaged client primitives obtain their guarantees, as structural necessary conditions: (R1) every client.Lock built by a primitive carries the count / re-entrancy / flag values its guarantee rests on (exclusive 0/0, RLock rcount 0xff, readers 0xffff and writer 0, Semaphore / MaxConcurrentFlow the normalised n-1, PriorityLock priority + RCOUNT_IS_PRIORITY, Event mode counts and the wait-when-unlocked flag) - value origin over SSA with helper constructors inlined; (R2) the constructors and setters normalise n to n-1 exactly when n > 0 (0xffff / 0xff kept); (R3) every Lock method hands its own id, timeout, expiry, count and rcount to doLock/doUnlock in the matching argument position and doLock/doUnlock/Send* copy them to the matching fields of the LOCK / UNLOCK frame (same-typed swaps compile); (R4) the facades forward same-named quantities (timeout to timeout, expried to expried, count to count) down to the constructors; (R5) the client registers a request under its RequestId before the frame is written, removes it on every failing exit, and a reply is delivered once to the waiter found under the reply's own RequestId; (R6) the per-connection scratch buffers (server reply buffer, client request buffer) are written and handed to the stream only while the connection's mutex is held. (R7) the acquire methods report success only for result 0; (R8) the client reader decodes every reply into a fresh object. (R9) the lock ids the client primitives use come from protocol.GenLockId, the only source unique across connections (the server matches holders by id across connections). (R10) server side of Event.Wait: the wake-up pass grants a waiter on a path that established depth 0 only after testing the waiter's unlock_to_wait flag (a real defect was repaired). NOT decided: the admission behaviour itself under concurrency (C01/C02/C04 decide the server-side structure), pipelining order, reconnects, timing."
	r.Assumptions = []string{"Go type checker and go/ssa are correct for /repo"}
	c19R1(p, r)
	c19R2(p, r)
	c19R3(p, r)
	c19R4(p, r)
	c19R5(p, r)
	c19R6(p, r)
	c19R7(p, r)
	c19R8(p, r)
	c19R9(p, r)
	c19R10(p, r)
}

// ---- R1: convention table -------------------------------------------------

type c19Conv struct {
	count, rcount string
	timeoutHas    int64  // bits that must be or-ed into timeout (0 = none)
	mode          string // "", "set", "clear" (Event)
}

func c19Table(p *core.Prog, r *core.Report) map[string][]c19Conv {
	prio := mustConst(p, r, "protocol", "TIMEOUT_FLAG_RCOUNT_IS_PRIORITY") << 16
	waitUnlock := mustConst(p, r, "protocol", "TIMEOUT_FLAG_LOCK_WAIT_WHEN_UNLOCK") << 16
	excl := []c19Conv{{count: "0", rcount: "0"}}
	sem := []c19Conv{{count: "self.count", rcount: "0"}}
	flow := []c19Conv{{count: "self.count", rcount: "self.priority"}}
	ev := []c19Conv{{count: "0", rcount: "0", mode: "set"}, {count: "1", rcount: "0", mode: "clear"}}
	evw := []c19Conv{{count: "0", rcount: "0", mode: "set"}, {count: "1", rcount: "0", mode: "clear", timeoutHas: waitUnlock}}
	return map[string][]c19Conv{
		"client.NewLock":                           excl,
		"client.NewRLock":                          {{count: "0", rcount: "255"}},
		"client.(*RWLock).RLock":                   {{count: "65535", rcount: "0"}},
		"client.(*RWLock).RLockWithData":           {{count: "65535", rcount: "0"}},
		"client.(*RWLock).Lock":                    excl,
		"client.(*RWLock).LockWithData":            excl,
		"client.(*Semaphore).Acquire":              sem,
		"client.(*Semaphore).Release":              sem,
		"client.(*Semaphore).ReleaseN":             sem,
		"client.(*Semaphore).ReleaseAll":           sem,
		"client.(*Semaphore).Count":                sem,
		"client.(*MaxConcurrentFlow).Acquire":      flow,
		"client.(*MaxConcurrentFlow).Release":      flow,
		"client.(*PriorityLock).Lock":              {{count: "self.count", rcount: "self.priority", timeoutHas: prio}},
		"client.(*PriorityLock).LockWithData":      {{count: "self.count", rcount: "self.priority", timeoutHas: prio}},
		"client.(*Event).Clear":                    ev,
		"client.(*Event).ClearWithUnsetData":       ev,
		"client.(*Event).Set":                      ev,
		"client.(*Event).SetWithData":              ev,
		"client.(*Event).IsSet":                    evw,
		"client.(*Event).Wait":                     evw,
		"client.(*Event).WaitAndTimeoutRetryClear": {{count: "0", rcount: "0", mode: "set"}, {count: "1", rcount: "0", mode: "clear"}},
	}
}

func isClientLockAlloc(v ssa.Value) (*ssa.Alloc, bool) {
	a, ok := v.(*ssa.Alloc)
	if !ok {
		return nil, false
	}
	if core.TypeKey(a.Type()) == "client.Lock" {
		return a, true
	}
	return nil, false
}

func allocatesClientLock(fn *ssa.Function) bool {
	for _, b := range fn.Blocks {
		for _, ins := range b.Instrs {
			if v, ok := ins.(ssa.Value); ok {
				if _, ok := isClientLockAlloc(v); ok {
					return true
				}
			}
		}
	}
	return false
}

func hasOrBits(expr string, bits int64) bool {
	if bits == 0 {
		return true
	}
	s := core.Plain(expr)
	if n, ok := (core.Expr{S: s}).IsConstInt(); ok {
		return n&bits == bits
	}
	// (a | const) possibly nested
	for _, part := range strings.FieldsFunc(s, func(r rune) bool { return r == '(' || r == ')' || r == ' ' }) {
		if n, ok := (core.Expr{S: part}).IsConstInt(); ok && n&bits == bits && strings.Contains(s, "| "+part) {
			return true
		}
	}
	return false
}

func c19R1(p *core.Prog, r *core.Report) {
	const rule = "C19/R1"
	r.Rule(rule, "every client.Lock built by a packaged primitive carries the count / rcount / flag convention of that primitive", 28)
	table := c19Table(p, r)
	names := make([]string, 0, len(table))
	for n := range table {
		names = append(names, n)
	}
	sort.Strings(names)
	for _, name := range names {
		fn := mustFunc(p, r, name)
		if fn == nil {
			continue
		}
		convs := table[name]
		seen := 0
		type comp struct {
			site   ssa.Instruction
			fields map[string]string
		}
		check := func(x *core.X, c *comp) {
			if c == nil {
				return
			}
			seen++
			mode := ""
			for h := range x.St.Hist {
				hp := core.Plain(h)
				if strings.Contains(hp, "setedMode") {
					if strings.HasSuffix(hp, "== 0") {
						mode = "set"
					} else if strings.HasSuffix(hp, "!= 0") {
						mode = "clear"
					}
				}
			}
			ord := 0
			for _, b := range c.site.Parent().Blocks {
				for _, ins := range b.Instrs {
					if v, ok := ins.(ssa.Value); ok {
						if a, ok := isClientLockAlloc(v); ok {
							ord++
							if ssa.Instruction(a) == c.site {
								goto found
							}
						}
					}
				}
			}
		found:
			key := fmt.Sprintf("%s: client.Lock literal #%d", name, ord)
			if c.site.Parent() != fn {
				key = fmt.Sprintf("%s: via %s client.Lock literal #%d", name, core.FuncName(c.site.Parent()), ord)
			}
			var want *c19Conv
			for i := range convs {
				if convs[i].mode == "" || convs[i].mode == mode {
					want = &convs[i]
				}
			}
			if want == nil {
				r.Undecide(rule, key, p.InstrPos(c.site), "event mode of this path not recognised")
				return
			}
			if mode != "" {
				key += " [" + mode + "]"
			}
			got := func(f string) string {
				v, ok := c.fields[f]
				if !ok {
					return "0" // zero value of an omitted field
				}
				return core.Plain(v)
			}
			var bad []string
			if got("count") != want.count {
				bad = append(bad, fmt.Sprintf("count is %s, the primitive needs %s", stable(got("count")), want.count))
			}
			if got("rcount") != want.rcount {
				bad = append(bad, fmt.Sprintf("rcount is %s, the primitive needs %s", stable(got("rcount")), want.rcount))
			}
			if !hasOrBits(got("timeout"), want.timeoutHas) {
				bad = append(bad, fmt.Sprintf("timeout %s lacks flag bits %#x", stable(got("timeout")), want.timeoutHas))
			}
			if len(bad) > 0 {
				r.Violate(rule, key, p.InstrPos(c.site), strings.Join(bad, "; "), x.St.Trace)
			} else {
				r.Hold(rule, key, p.InstrPos(c.site), fmt.Sprintf("count=%s rcount=%s", want.count, want.rcount))
			}
		}
		// per path: current composite kept in a side table keyed by state pointer is fragile;
		// encode it in rule state instead
		ex := core.NewExplorer(p, core.Hooks{
			Inline: func(x *core.X, callee *ssa.Function) bool {
				return core.InModule(callee) && callee.Pkg != nil && callee.Pkg.Pkg.Name() == "client" && recvName(callee) != "Lock" && allocatesClientLock(callee)
			},
			Track: func(x *core.X, a core.Atom) bool { return strings.Contains(a.String(), "setedMode") },
			Instr: func(x *core.X) {
				st, ok := x.Ins.(*ssa.Store)
				if !ok {
					return
				}
				fa, ok := st.Addr.(*ssa.FieldAddr)
				if !ok {
					return
				}
				a, ok := isClientLockAlloc(fa.X)
				if !ok {
					return
				}
				k := core.FieldKeyOf(fa.X.Type(), fa.Field)
				x.Set("F:"+x.Fr.ID+":"+a.Name()+":"+k.Field, x.Canon(st.Val).S)
				x.Set("A:"+x.Fr.ID+":"+a.Name(), p.InstrPos(a))
			},
			After: func(x *core.X) {},
		})
		// flush composites at the calls that use them and at exits: simplest sound point is
		// the first use of the alloc as a call receiver/argument or a store of the pointer.
		flush := func(x *core.X, a *ssa.Alloc) {
			pre := "F:" + x.Fr.ID + ":" + a.Name() + ":"
			if x.Get("A:"+x.Fr.ID+":"+a.Name()) == "" {
				return
			}
			c := &comp{site: a, fields: map[string]string{}}
			for k, v := range x.St.RS {
				if strings.HasPrefix(k, pre) {
					c.fields[strings.TrimPrefix(k, pre)] = v
				}
			}
			x.Set("A:"+x.Fr.ID+":"+a.Name(), "")
			check(x, c)
		}
		pending := func(x *core.X) {
			for _, b := range x.Fr.Fn.Blocks {
				for _, ins := range b.Instrs {
					if v, ok := ins.(ssa.Value); ok {
						if a, ok := isClientLockAlloc(v); ok {
							flush(x, a)
						}
					}
				}
			}
		}
		ex.H.Exit = func(x *core.X, rets []core.Expr) { pending(x) }
		ex.H.InlineReturn = func(x *core.X, callee *ssa.Function, rets []core.Expr) { pending(x) }
		inner := ex.H.Instr
		ex.H.Instr = func(x *core.X) {
			inner(x)
			switch t := x.Ins.(type) {
			case *ssa.Store:
				if a, ok := isClientLockAlloc(t.Val); ok {
					flush(x, a)
				}
			case ssa.CallInstruction:
				for _, v := range core.CallArgs(x.Ins) {
					if a, ok := isClientLockAlloc(v); ok {
						flush(x, a)
					}
				}
			case *ssa.Return:
				for _, v := range t.Results {
					if a, ok := isClientLockAlloc(v); ok {
						flush(x, a)
					}
				}
			case *ssa.MakeInterface:
				if a, ok := isClientLockAlloc(t.X); ok {
					flush(x, a)
				}
			}
		}
		ex.Run(fn, nil)
		if ex.Imprecise != "" {
			r.Fail("C19/R1 %s: %s", name, ex.Imprecise)
		}
		if seen == 0 {
			r.Violate(rule, name+": builds a client.Lock", p.Pos(fn.Pos()), "no client.Lock construction found in this primitive (or its inlined helpers): the convention cannot be located", nil)
		}
	}
}

// ---- R2: n -> n-1 normalisation -------------------------------------------

func c19R2(p *core.Prog, r *core.Report) {
	const rule = "C19/R2"
	r.Rule(rule, "constructors and setters store n-1 exactly when n > 0, 0 when n == 0, and keep the all-ones sentinel", 12)
	type tgt struct{ fn, param, field, sentinel string }
	for _, t := range []tgt{
		{"client.NewSemaphore", "count", "count", ""},
		{"client.NewMaxConcurrentFlow", "count", "count", ""},
		{"client.NewTokenBucketFlow", "count", "count", ""},
		{"client.(*Lock).SetCount", "count", "count", "65535"},
		{"client.(*Lock).SetRcount", "rcount", "rcount", "255"},
		{"client.(*PriorityLock).SetCount", "count", "count", ""},
	} {
		fn := mustFunc(p, r, t.fn)
		if fn == nil {
			continue
		}
		t := t
		stores := 0
		ex := core.NewExplorer(p, core.Hooks{
			ResolvePhi: func(phi *ssa.Phi) bool { return true },
			Track: func(x *core.X, a core.Atom) bool {
				return a.L == t.param || a.R == t.param
			},
			Instr: func(x *core.X) {
				st, ok := x.Ins.(*ssa.Store)
				if !ok || !x.Top() {
					return
				}
				k, ok := storeKey(st.Addr)
				if !ok || k.Field != t.field || !strings.HasPrefix(k.Type, "client.") {
					return
				}
				stores++
				v := core.Plain(x.Canon(st.Val).S)
				f := &x.St.Facts
				pos := f.Implies(core.MkAtom("0", "<", t.param, nil))
				zero := f.Implies(core.MkAtom(t.param, "<=", "0", nil)) || f.Implies(core.MkAtom(t.param, "==", "0", nil))
				isSent := t.sentinel != "" && f.Implies(core.MkAtom(t.param, "==", t.sentinel, nil))
				key := t.fn + ": " + eventLabel(x.Ins)
				switch {
				case pos:
					key += " [n>0]"
				case zero:
					key += " [n=0]"
				}
				if isSent {
					key += " [sentinel]"
				}
				dec := "(" + t.param + " - 1)"
				switch {
				case isSent && (v == t.sentinel || v == t.param):
					r.Hold(rule, key, x.Pos(), "all-ones sentinel kept")
				case pos && !isSent && v == dec && t.sentinel != "" && !f.Implies(core.MkAtom(t.param, "!=", t.sentinel, nil)):
					r.Violate(rule, key, x.Pos(), "n-1 stored on a path that has not excluded the all-ones sentinel "+t.sentinel+": the 'unlimited' value becomes a finite bound", x.St.Trace)
				case pos && !isSent && v == dec:
					r.Hold(rule, key, x.Pos(), "n-1 stored for n > 0")
				case zero && (v == "0" || v == t.param):
					r.Hold(rule, key, x.Pos(), "0 stored for n == 0")
				default:
					r.Violate(rule, key, x.Pos(), fmt.Sprintf("stores %s on a path where %s (the server admits stored+1 holders: n must become n-1 for n > 0 and stay 0 for 0)", stable(v), func() string {
						switch {
						case isSent:
							return t.param + " is the sentinel"
						case pos:
							return t.param + " > 0"
						case zero:
							return t.param + " == 0"
						}
						return t.param + " is untested"
					}()), x.St.Trace)
				}
			},
		})
		ex.Run(fn, nil)
		if ex.Imprecise != "" {
			r.Fail("C19/R2 %s: %s", t.fn, ex.Imprecise)
		}
		if stores == 0 {
			r.Violate(rule, t.fn+": stores "+t.field, p.Pos(fn.Pos()), "no store of the normalised value found", nil)
		}
	}
}

// ---- R3: argument positions and frame fields -------------------------------

func c19R3(p *core.Prog, r *core.Report) {
	const rule = "C19/R3"
	r.Rule(rule, "Lock methods pass own id/timeout/expried/count/rcount in position; doLock/doUnlock/Send* copy them to the matching LOCK/UNLOCK frame fields", 100)
	cmdLock := fmt.Sprint(mustConst(p, r, "protocol", "COMMAND_LOCK"))
	cmdUnlock := fmt.Sprint(mustConst(p, r, "protocol", "COMMAND_UNLOCK"))
	// (a) call sites of doLock/doUnlock
	for _, fn := range p.FuncsIn("client") {
		if fn.Blocks == nil || recvName(fn) != "Lock" {
			// other users of doLock (tree locks) are outside the property's primitives
			continue
		}
		x := &core.X{Fr: &core.Frame{Fn: fn}, St: core.NewState()}
		for _, b := range fn.Blocks {
			for _, ins := range b.Instrs {
				c := core.StaticCallee(ins)
				if c == nil || recvName(c) != "Lock" || (c.Name() != "doLock" && c.Name() != "doUnlock") || c.Pkg == nil || c.Pkg.Pkg.Name() != "client" {
					continue
				}
				args := core.CallArgs(ins)
				if len(args) != 8 {
					r.Fail("C19/R3: %s has %d arguments, the rule knows 8", core.FuncName(c), len(args))
					continue
				}
				recv := core.Plain(x.Canon(args[0]).S)
				want := map[int]string{3: recv + ".timeout", 4: recv + ".expried", 5: recv + ".count", 6: recv + ".rcount"}
				names := map[int]string{2: "lockId", 3: "timeout", 4: "expried", 5: "count", 6: "rcount"}
				show := fn.Name() == "LockShow"
				for i := 2; i <= 6; i++ {
					got := core.Plain(x.Canon(args[i]).S)
					key := core.FuncName(fn) + ": " + eventLabel(ins) + " arg " + names[i]
					ok := false
					switch {
					case i == 2:
						ok = got == recv+".lockId" || strings.HasPrefix(got, "[16]byte{}") || strings.Contains(got, "zero") || isZeroArray(args[i])
					case show:
						// inspection request: no holder identity, widest count so that it never queues
						ok = map[int]string{3: "0", 4: "0", 5: "65535", 6: "255"}[i] == got
					default:
						ok = got == want[i]
					}
					if ok {
						r.Hold(rule, key, p.InstrPos(ins), "own "+names[i]+" in position")
					} else {
						r.Violate(rule, key, p.InstrPos(ins), fmt.Sprintf("argument %s of %s is %s (expected the lock's own %s)", names[i], c.Name(), stable(got), names[i]), nil)
					}
				}
			}
		}
	}
	// (b) frame construction
	wantField := func(recv string) map[string][]string {
		return map[string][]string{
			"Count":       {"count", recv + ".count"},
			"Rcount":      {"rcount", recv + ".rcount"},
			"Timeout":     {"convert(timeout)", "convert(" + recv + ".timeout)"},
			"TimeoutFlag": {"convert((timeout >> 16))", "convert((" + recv + ".timeout >> 16))"},
			"Expried":     {"convert(expried)", "convert(" + recv + ".expried)"},
			"ExpriedFlag": {"convert((expried >> 16))", "convert((" + recv + ".expried >> 16))"},
			"LockId":      {"lockId", recv + ".lockId"},
			"LockKey":     {recv + ".lockKey"},
			"DbId":        {recv + ".db.dbId"},
		}
	}
	for _, name := range []string{"client.(*Lock).doLock", "client.(*Lock).doUnlock", "client.(*Lock).SendLock", "client.(*Lock).SendLockWithData", "client.(*Lock).SendUnlock", "client.(*Lock).SendUnlockWithData"} {
		fn := mustFunc(p, r, name)
		if fn == nil {
			continue
		}
		x := &core.X{Fr: &core.Frame{Fn: fn}, St: core.NewState()}
		recv := fn.Params[0].Name()
		want := wantField(recv)
		wantType := cmdLock
		if strings.Contains(fn.Name(), "nlock") {
			wantType = cmdUnlock
		}
		found := map[string]bool{}
		for _, b := range fn.Blocks {
			for _, ins := range b.Instrs {
				st, ok := ins.(*ssa.Store)
				if !ok {
					continue
				}
				k, ok := storeKey(st.Addr)
				if !ok || (k.Type != "protocol.LockCommand" && k.Type != "protocol.Command") {
					continue
				}
				got := core.Plain(x.Canon(st.Val).S)
				key := name + ": frame field " + k.Field
				if k.Field == "CommandType" {
					found[k.Field] = true
					if got == wantType {
						r.Hold(rule, key, p.InstrPos(ins), "command type")
					} else {
						r.Violate(rule, key, p.InstrPos(ins), "frame built with command type "+got+", expected "+wantType, nil)
					}
					continue
				}
				w, tracked := want[k.Field]
				if !tracked {
					continue
				}
				found[k.Field] = true
				ok = false
				for _, s := range w {
					if normConv(got) == normConv(s) {
						ok = true
					}
				}
				if ok {
					r.Hold(rule, key, p.InstrPos(ins), "copied from the matching quantity")
				} else {
					r.Violate(rule, key, p.InstrPos(ins), fmt.Sprintf("frame field %s is filled from %s (expected %s)", k.Field, stable(got), w[0]), nil)
				}
			}
		}
		for f := range want {
			if !found[f] {
				r.Violate(rule, name+": frame field "+f, p.Pos(fn.Pos()), "frame field "+f+" is never set: the server sees 0", nil)
			}
		}
		if !found["CommandType"] {
			r.Violate(rule, name+": frame field CommandType", p.Pos(fn.Pos()), "command type never set", nil)
		}
	}
}

func isZeroArray(v ssa.Value) bool {
	switch t := v.(type) {
	case *ssa.Const:
		return t.Value == nil
	case *ssa.UnOp:
		if a, ok := t.X.(*ssa.Alloc); ok {
			// local zero array: no stores through it
			for _, ref := range *a.Referrers() {
				if st, ok := ref.(*ssa.Store); ok && st.Addr == a {
					return false
				}
				if _, ok := ref.(*ssa.IndexAddr); ok {
					return false
				}
			}
			return true
		}
	}
	return false
}

// normConv strips the type name a conversion is printed with.
func normConv(s string) string {
	for _, t := range []string{"uint16", "uint32", "uint8", "int"} {
		s = strings.ReplaceAll(s, t+"(", "convert(")
	}
	return s
}

// ---- R4: facades forward same-named quantities ------------------------------

func c19R4(p *core.Prog, r *core.Report) {
	const rule = "C19/R4"
	r.Rule(rule, "facades and constructors forward timeout to timeout, expried to expried, count to count, priority to priority (struct fields included)", 80)
	tracked := map[string]bool{"timeout": true, "expried": true, "count": true, "rcount": true, "priority": true}
	// tabled cross-name flows
	allowed := map[string]bool{
		"priority->rcount": true, // TIMEOUT_FLAG_RCOUNT_IS_PRIORITY: the rcount byte carries the priority
	}
	base := func(s string) string {
		if i := strings.LastIndex(s, "."); i >= 0 && !strings.ContainsAny(s, "()+-|&<> ") {
			s = s[i+1:]
		}
		return s
	}
	root := func(x *core.X, v ssa.Value) string {
		s := core.Plain(x.Canon(v).S)
		for w, implied := range map[string]string{"mergeTimeoutFlag": "timeout", "mergeExpriedFlag": "expried"} {
			if n, args, ok := splitCall(s); ok && strings.HasSuffix(n, w) && len(args) >= 1 {
				inner := base(args[len(args)-1])
				if tracked[inner] && inner != implied {
					return "!" + inner + " (through " + w + ")"
				}
				// the wrapper itself says which quantity this is
				return implied
			}
		}
		return base(s)
	}
	prims := map[string]bool{"Lock": true, "RLock": true, "RWLock": true, "Semaphore": true, "MaxConcurrentFlow": true, "TokenBucketFlow": true, "PriorityLock": true, "Event": true}
	for _, fn := range p.FuncsIn("client") {
		if fn.Blocks == nil || fn.Synthetic != "" {
			continue
		}
		x := &core.X{Fr: &core.Frame{Fn: fn}, St: core.NewState()}
		for _, b := range fn.Blocks {
			for _, ins := range b.Instrs {
				// calls to client-package functions
				if c := core.StaticCallee(ins); c != nil && c.Pkg != nil && c.Pkg.Pkg.Name() == "client" && core.InModule(c) && c.Signature != nil {
					rn := recvName(c)
					isFacade := prims[c.Name()] && (rn == "Database" || rn == "Client" || rn == "ReplsetClient")
					isCtor := strings.HasPrefix(c.Name(), "New") && rn == ""
					if !isFacade && !isCtor {
						continue
					}
					args := core.CallArgs(ins)
					params := c.Params
					for i, a := range args {
						if i >= len(params) {
							break
						}
						pn := params[i].Name()
						if !tracked[pn] {
							continue
						}
						got := root(x, a)
						key := core.FuncName(fn) + ": " + eventLabel(ins) + " -> " + c.Name() + "." + pn
						switch {
						case got == pn, allowed[got+"->"+pn]:
							r.Hold(rule, key, p.InstrPos(ins), "same-named quantity forwarded")
						case tracked[got] || strings.HasPrefix(got, "!"):
							r.Violate(rule, key, p.InstrPos(ins), fmt.Sprintf("%s is passed as %s of %s", strings.TrimPrefix(got, "!"), pn, core.FuncName(c)), nil)
						}
					}
				}
				// struct field initialisation of the primitive types and of client.Lock
				if st, ok := ins.(*ssa.Store); ok {
					fa, ok := st.Addr.(*ssa.FieldAddr)
					if !ok {
						continue
					}
					if _, isAlloc := fa.X.(*ssa.Alloc); !isAlloc {
						continue
					}
					k := core.FieldKeyOf(fa.X.Type(), fa.Field)
					if !strings.HasPrefix(k.Type, "client.") || !tracked[k.Field] || !prims[strings.TrimPrefix(k.Type, "client.")] {
						continue
					}
					got := root(x, st.Val)
					key := core.FuncName(fn) + ": " + eventLabel(ins) + " " + k.Type + "." + k.Field
					switch {
					case got == k.Field, allowed[got+"->"+k.Field]:
						r.Hold(rule, key, p.InstrPos(ins), "same-named quantity stored")
					case tracked[got] || strings.HasPrefix(got, "!"):
						r.Violate(rule, key, p.InstrPos(ins), fmt.Sprintf("%s is stored into %s.%s", strings.TrimPrefix(got, "!"), k.Type, k.Field), nil)
					}
				}
			}
		}
	}
	_ = types.Typ
}

// ---- R5: request table -------------------------------------------------------

func c19R5(p *core.Prog, r *core.Report) {
	const rule = "C19/R5"
	r.Rule(rule, "request registered under its RequestId before the write, removed on failing exits; a reply goes once to the waiter found under the reply's own RequestId", 6)
	if fn := mustFunc(p, r, "client.(*Client).ExecuteCommand"); fn != nil {
		name := core.FuncName(fn)
		cmd := fn.Params[1].Name()
		touchesRequests := func(c *ssa.Function) bool {
			if !core.InModule(c) || c.Blocks == nil || recvName(c) != "Client" {
				return false
			}
			for _, b := range c.Blocks {
				for _, ins := range b.Instrs {
					if fa, ok := ins.(*ssa.FieldAddr); ok {
						if k := core.FieldKeyOf(fa.X.Type(), fa.Field); k.Field == "requests" {
							return true
						}
					}
				}
			}
			return false
		}
		ex := core.NewExplorer(p, core.Hooks{
			Inline: func(x *core.X, c *ssa.Function) bool { return touchesRequests(c) },
			Instr: func(x *core.X) {
				_, _, _ = trackLocks(x)
				switch t := x.Ins.(type) {
				case *ssa.MapUpdate:
					if strings.HasSuffix(core.Plain(x.Canon(t.Map).S), ".requests") {
						k := core.Plain(x.Canon(t.Key).S)
						key := name + ": register"
						if !strings.HasPrefix(k, "GetRequestId("+cmd) && !strings.HasPrefix(k, "invoke GetRequestId("+cmd) && !strings.Contains(k, "GetRequestId("+cmd) {
							r.Violate(rule, key, x.Pos(), "waiter registered under "+stable(k)+", not under the RequestId of the command being sent", x.St.Trace)
						} else if !held(x, "requestLock") {
							r.Violate(rule, key, x.Pos(), "request table updated without requestLock", x.St.Trace)
						} else {
							r.Hold(rule, key, x.Pos(), "registered under the command's RequestId with requestLock held")
						}
						x.Set("reg", "1")
						x.Set("del", "")
					}
				case ssa.CallInstruction:
					if bi, ok := t.Common().Value.(*ssa.Builtin); ok && bi.Name() == "delete" {
						if strings.HasSuffix(core.Plain(x.Canon(t.Common().Args[0]).S), ".requests") {
							x.Set("del", "1")
							key := name + ": " + eventLabel(x.Ins)
							if held(x, "requestLock") {
								r.Hold(rule, key, x.Pos(), "removed with requestLock held")
							} else {
								r.Violate(rule, key, x.Pos(), "request table updated without requestLock", x.St.Trace)
							}
						}
					}
					if n, isInv := core.CallName(x.Ins); n == "Write" && isInv {
						key := name + ": write after register"
						if x.Get("reg") == "1" {
							r.Hold(rule, key, x.Pos(), "frame written after the waiter is registered")
						} else {
							r.Violate(rule, key, x.Pos(), "frame written before the waiter is registered: a fast reply finds no waiter and is dropped, the caller times out while the server granted the lock", x.St.Trace)
						}
						if a := core.Plain(argCanon(x, x.Ins, 1)); a != cmd && !strings.HasPrefix(a, "make "+cmd) && !strings.Contains(a, cmd) {
							r.Violate(rule, name+": written command", x.Pos(), "the frame written is "+stable(a)+", not the registered command", x.St.Trace)
						}
						x.Set("wrote", "1")
					}
				}
			},
			Track: func(x *core.X, a core.Atom) bool { return strings.Contains(a.String(), ".requests[") },
			Branch: func(x *core.X, a core.Atom) {
				if x.Get("reg") == "1" && strings.Contains(a.L, ".requests[") && a.Op == "==" && a.R == "false" {
					x.Set("gone", "1")
				}
			},
			Exit: func(x *core.X, rets []core.Expr) {
				if len(rets) != 2 || x.Get("reg") != "1" {
					return
				}
				if rets[1].S == "nil" {
					return
				}
				// failing exit after registration
				label := "after write"
				if x.Get("wrote") != "1" {
					label = "before write"
				}
				key := name + ": failing exit " + label + " (" + stable(core.Plain(rets[1].S)) + ")"
				if x.Get("del") == "1" {
					r.Hold(rule, key, x.Pos(), "registration removed")
				} else if x.Get("gone") == "1" {
					r.Hold(rule, key, x.Pos(), "registration re-checked under requestLock and already gone (consumed by the reader)")
				} else if strings.Contains(rets[1].S, "wait timeout") || strings.Contains(x.Pos(), "") && x.Passed("<-waiter == nil") {
					r.Hold(rule, key, x.Pos(), "nil delivered by the closer which already removed the registration")
				} else {
					r.Violate(rule, key, x.Pos(), "error return leaves the waiter registered: the next request reusing this id is refused and the table grows", x.St.Trace)
				}
			},
		})
		ex.Run(fn, nil)
		if ex.Imprecise != "" {
			r.Fail("C19/R5 %s: %s", name, ex.Imprecise)
		}
	}
	if fn := mustFunc(p, r, "client.(*Client).handleCommand"); fn != nil {
		name := core.FuncName(fn)
		cmd := fn.Params[1].Name()
		ex := core.NewExplorer(p, core.Hooks{
			Track: func(x *core.X, a core.Atom) bool { return strings.Contains(a.String(), ".requests[") },
			Instr: func(x *core.X) {
				if !x.Top() {
					return
				}
				_, _, _ = trackLocks(x)
				switch t := x.Ins.(type) {
				case *ssa.Lookup:
					if strings.HasSuffix(core.Plain(x.Canon(t.X).S), ".requests") {
						k := core.Plain(x.Canon(t.Index).S)
						key := name + ": lookup"
						if !strings.Contains(k, "GetRequestId("+cmd) {
							r.Violate(rule, key, x.Pos(), "waiter looked up by "+stable(k)+", not by the reply's own RequestId", x.St.Trace)
						} else if !held(x, "requestLock") {
							r.Violate(rule, key, x.Pos(), "request table read without requestLock", x.St.Trace)
						} else {
							r.Hold(rule, key, x.Pos(), "looked up by the reply's RequestId with requestLock held")
						}
						x.Set("lk", x.Canon(t).S)
					}
				case ssa.CallInstruction:
					if bi, ok := t.Common().Value.(*ssa.Builtin); ok && bi.Name() == "delete" {
						if strings.HasSuffix(core.Plain(x.Canon(t.Common().Args[0]).S), ".requests") && held(x, "requestLock") {
							x.Set("del", "1")
						}
					}
				case *ssa.Send:
					ch := x.Canon(t.Chan).S
					key := name + ": deliver"
					lk := x.Get("lk")
					val := core.Plain(x.Canon(t.X).S)
					switch {
					case lk == "" || !strings.Contains(ch, strings.TrimSuffix(lk, "#0")) && !strings.Contains(ch, lk):
						r.Violate(rule, key, x.Pos(), "reply sent on "+stable(ch)+", which is not the waiter found under the reply's RequestId", x.St.Trace)
					case x.Get("del") != "1":
						r.Violate(rule, key, x.Pos(), "reply delivered without removing the registration under requestLock: a duplicate reply would be delivered twice / block the reader on the 1-slot channel", x.St.Trace)
					case val != cmd:
						r.Violate(rule, key, x.Pos(), "delivers "+stable(val)+" instead of the received reply", x.St.Trace)
					default:
						r.Hold(rule, key, x.Pos(), "delivered once to the registered waiter")
					}
				}
			},
		})
		ex.Run(fn, nil)
		if ex.Imprecise != "" {
			r.Fail("C19/R5 %s: %s", name, ex.Imprecise)
		}
	}
}

// ---- R6: scratch buffers under the connection mutex ---------------------------

func c19R6(p *core.Prog, r *core.Report) {
	const rule = "C19/R6"
	r.Rule(rule, "per-connection scratch buffers are written and handed to the stream only with the connection mutex held", 5)
	type owner struct{ typ, field, class string }
	owners := []owner{
		{"server.BinaryServerProtocol", "wbuf", "glock"},
		{"client.BinaryClientProtocol", "wbuf", "wglock"},
	}
	for _, o := range owners {
		pkg := strings.SplitN(o.typ, ".", 2)[0]
		for _, fn := range p.FuncsIn(pkg) {
			if fn.Blocks == nil {
				continue
			}
			// does the function load the buffer field?
			uses := false
			for _, b := range fn.Blocks {
				for _, ins := range b.Instrs {
					if u, ok := ins.(*ssa.UnOp); ok {
						if fa, ok := u.X.(*ssa.FieldAddr); ok {
							if k := core.FieldKeyOf(fa.X.Type(), fa.Field); k.Type == o.typ && k.Field == o.field {
								uses = true
							}
						}
					}
				}
			}
			if !uses || strings.HasPrefix(fn.Name(), "New") || fn.Name() == "init" {
				continue
			}
			o := o
			name := core.FuncName(fn)
			isBuf := func(x *core.X, v ssa.Value) bool {
				for depth := 0; depth < 4; depth++ {
					switch t := v.(type) {
					case *ssa.IndexAddr:
						v = t.X
						continue
					case *ssa.Slice:
						v = t.X
						continue
					}
					break
				}
				s := core.Plain(x.Canon(v).S)
				return strings.HasSuffix(s, "."+o.field) && !strings.HasPrefix(s, "&")
			}
			ex := core.NewExplorer(p, core.Hooks{
				Instr: func(x *core.X) {
					if !x.Top() {
						return
					}
					if _, _, ok := trackLocks(x); ok {
						return
					}
					switch t := x.Ins.(type) {
					case *ssa.Store:
						if _, ok := t.Addr.(*ssa.IndexAddr); ok && isBuf(x, t.Addr) {
							key := name + ": writes " + o.field
							if held(x, o.class) {
								r.Hold(rule, key, x.Pos(), "written under "+o.class)
							} else {
								r.Violate(rule, key, x.Pos(), "shared scratch buffer "+o.field+" written without "+o.class+": two goroutines replying on this connection overwrite each other's frame (a reply is lost or sent twice, the client times out while the server granted the lock)", x.St.Trace)
							}
						}
					case ssa.CallInstruction:
						for i, a := range core.CallArgs(x.Ins) {
							if _, isSlice := a.Type().Underlying().(*types.Slice); !isSlice {
								continue
							}
							if isBuf(x, a) {
								n, _ := core.CallName(x.Ins)
								if n == "len" || n == "cap" {
									continue
								}
								key := name + ": " + eventLabel(x.Ins) + fmt.Sprintf(" arg%d", i)
								if held(x, o.class) {
									r.Hold(rule, key, x.Pos(), "buffer handed to "+n+" under "+o.class)
								} else {
									r.Violate(rule, key, x.Pos(), "shared scratch buffer "+o.field+" handed to "+n+" without "+o.class, x.St.Trace)
								}
							}
						}
					}
				},
			})
			ex.NoHist = true
			ex.Run(fn, nil)
			if ex.Imprecise != "" {
				r.Fail("C19/R6 %s: %s", name, ex.Imprecise)
			}
		}
	}
}

// c19R7: the acquire methods of client.Lock report success (nil error) only
// for result code 0. The primitives that share one Lock object between
// goroutines (RWLock's writer lock, MaxConcurrentFlow's flow lock) rely on the
// server's LOCKED_ERROR for the second acquirer of the same LockId; treating
// any non-zero result as success admits two holders.
func c19R7(p *core.Prog, r *core.Report) {
	const rule = "C19/R7"
	r.Rule(rule, "client.Lock acquire methods return a nil error only on a path that tested Result == 0", 3)
	for _, m := range []string{"Lock", "LockWithFlag", "LockWithData", "LockWithDataAndFlag"} {
		name := "client.(*Lock)." + m
		fn := p.Func(name)
		if fn == nil || fn.Blocks == nil {
			continue
		}
		ex := core.NewExplorer(p, core.Hooks{
			Track: func(x *core.X, a core.Atom) bool { return strings.HasSuffix(core.Plain(a.L), ".Result") },
			Exit: func(x *core.X, rets []core.Expr) {
				if len(rets) != 2 || rets[1].S != "nil" {
					return
				}
				ok := false
				for h := range x.St.Hist {
					if strings.HasSuffix(h, ".Result == 0") {
						ok = true
					}
				}
				key := name + ": success return"
				if ok {
					r.Hold(rule, key, x.Pos(), "only for result 0")
				} else {
					r.Violate(rule, key, x.Pos(), "success is reported on a path that did not establish Result == 0: a refusal (e.g. LOCKED_ERROR for a LockId already held through the same shared object) lets a second goroutine into the critical section", x.St.Trace)
				}
			},
		})
		ex.Run(fn, nil)
	}
}

// c19R8: the client's reader goroutine hands each decoded reply to the waiting
// caller through a channel and goes on reading; it does not wait for the caller
// to consume it. So every reply must be decoded into its own object - a reused
// buffer (ring, field) is overwritten by later replies before the woken caller
// looks at it, and the caller sees another request's result.
func c19R8(p *core.Prog, r *core.Report) {
	const rule = "C19/R8"
	r.Rule(rule, "BinaryClientProtocol.Read decodes every reply into an object allocated in that call (no reuse across replies)", 6)
	fn := mustFunc(p, r, "client.(*BinaryClientProtocol).Read")
	if fn == nil {
		return
	}
	n := 0
	var origin func(v ssa.Value, depth int) string
	origin = func(v ssa.Value, depth int) string {
		if depth > 8 {
			return "?"
		}
		switch t := v.(type) {
		case *ssa.Alloc:
			return "new"
		case *ssa.MakeInterface:
			return origin(t.X, depth+1)
		case *ssa.ChangeInterface:
			return origin(t.X, depth+1)
		case *ssa.Const:
			return "nil"
		case *ssa.Phi:
			out := "new"
			for _, e := range t.Edges {
				if o := origin(e, depth+1); o != "new" && o != "nil" {
					out = o
				}
			}
			return out
		case *ssa.Call:
			if c := t.Common().StaticCallee(); c != nil && core.InModule(c) && c.Blocks != nil {
				// a helper: every returned value must itself be fresh
				out := "new"
				for _, b := range c.Blocks {
					for _, ins := range b.Instrs {
						if ret, ok := ins.(*ssa.Return); ok && len(ret.Results) > 0 {
							if o := origin(ret.Results[0], depth+1); o != "new" && o != "nil" {
								out = o
							}
						}
					}
				}
				return out
			}
			return "call " + t.Common().String()
		case *ssa.Extract:
			return origin(t.Tuple, depth+1)
		case *ssa.UnOp:
			// a result spilled to a local cell (function with defer): what was stored into it
			if al, ok := t.X.(*ssa.Alloc); ok && !al.Heap || ok && al.Comment != "" {
				out := "new"
				if refs := al.Referrers(); refs != nil {
					for _, ref := range *refs {
						if st, ok := ref.(*ssa.Store); ok && st.Addr == ssa.Value(al) {
							if o := origin(st.Val, depth+1); o != "new" && o != "nil" {
								out = o
							}
						}
					}
				}
				return out
			}
			return "load " + t.X.String()
		case *ssa.IndexAddr, *ssa.FieldAddr:
			return "address into shared storage"
		}
		return v.String()
	}
	for _, b := range fn.Blocks {
		for _, ins := range b.Instrs {
			ret, ok := ins.(*ssa.Return)
			if !ok || len(ret.Results) != 2 {
				continue
			}
			if c, ok := ret.Results[0].(*ssa.Const); ok && c.Value == nil {
				continue
			}
			n++
			o := origin(ret.Results[0], 0)
			key := fmt.Sprintf("client.(*BinaryClientProtocol).Read: return#%d", n)
			if o == "new" || o == "nil" {
				r.Hold(rule, key, p.InstrPos(ins), "reply object allocated in this call")
			} else {
				r.Violate(rule, key, p.InstrPos(ins), "the reply handed to the waiting caller is not a fresh object ("+o+"): the reader goes on decoding later replies into it before the woken caller reads its result, so a caller sees another request's reply", nil)
			}
		}
	}
	if n == 0 {
		r.Fail("C19/R8: no reply return found in Read")
	}
}

// c19R9: the server matches holds by LockId per key across all connections
// (a second request with a holder's id is that holder re-entering), so the ids
// the client primitives attach to their lock objects must be unique across
// connections and processes. The one source with that property is
// protocol.GenLockId (time + random + process-wide counter); the client's
// generator has to hand out exactly its results.
func c19R9(p *core.Prog, r *core.Report) {
	const rule = "C19/R9"
	r.Rule(rule, "client.Database.GenLockId returns, on every path, the result of protocol.GenLockId (the only cross-connection unique source)", 1)
	fn := mustFunc(p, r, "client.(*Database).GenLockId")
	if fn == nil {
		return
	}
	var fromGen func(v ssa.Value, depth int) bool
	fromGen = func(v ssa.Value, depth int) bool {
		if depth > 4 {
			return false
		}
		switch t := v.(type) {
		case *ssa.Call:
			callee := t.Common().StaticCallee()
			if callee == nil {
				return false
			}
			if callee.Name() == "GenLockId" && callee.Pkg != nil && callee.Pkg.Pkg.Name() == "protocol" {
				return true
			}
			if p.IsNewFunc(callee) { // a wrapper that did not exist at confirmation time
				ok := false
				for _, b := range callee.Blocks {
					for _, ins := range b.Instrs {
						if ret, isRet := ins.(*ssa.Return); isRet && len(ret.Results) == 1 {
							if !fromGen(ret.Results[0], depth+1) {
								return false
							}
							ok = true
						}
					}
				}
				return ok
			}
		case *ssa.Phi:
			for _, e := range t.Edges {
				if !fromGen(e, depth+1) {
					return false
				}
			}
			return len(t.Edges) > 0
		case *ssa.UnOp:
			// a local cell holding the result
			if al, ok := t.X.(*ssa.Alloc); ok {
				okAll, any := true, false
				for _, ref := range *al.Referrers() {
					if st, isSt := ref.(*ssa.Store); isSt && st.Addr == ssa.Value(al) {
						any = true
						if !fromGen(st.Val, depth+1) {
							okAll = false
						}
					}
				}
				return any && okAll
			}
		}
		return false
	}
	n := 0
	for _, b := range fn.Blocks {
		for _, ins := range b.Instrs {
			ret, ok := ins.(*ssa.Return)
			if !ok || len(ret.Results) != 1 {
				continue
			}
			n++
			key := "client.(*Database).GenLockId: source of the id"
			if fromGen(ret.Results[0], 0) {
				r.Hold(rule, key, p.InstrPos(ins), "protocol.GenLockId")
			} else {
				r.Violate(rule, key, p.InstrPos(ins), "the lock id handed to the client primitives is not the result of protocol.GenLockId: ids built per connection / per database collide across connections, and the server takes a request carrying another connection's id for that holder re-entering (two independent RLock holders, spurious LOCKED_ERROR for Lock / Semaphore)", nil)
			}
		}
	}
	if n == 0 {
		r.Fail("C19/R9: GenLockId has no return")
	}
}

// c19R10: Event.Wait in default-clear mode is a LOCK with the unlock_to_wait
// flag (README: "if the LockKey does not have any lock currently, it waits").
// The request path honours the flag; the wake-up pass must honour it as well:
// a pass that runs while the key is unlocked (the trailing pass of the very
// unlock that cleared the event) must not grant a request that waits *because*
// the key is unlocked, otherwise a Wait issued after Clear() has returned can
// succeed without a Set. Decided on the paths of wakeUpWaitLocks with the
// admission test inlined: a grant on a path that established depth == 0
// carries a test of the waiter's unlock_to_wait flag.
func c19R10(p *core.Prog, r *core.Report) {
	const rule = "C19/R10"
	r.Rule(rule, "the wake-up pass grants a waiter while the key is unlocked only after testing that the waiter does not carry the unlock_to_wait flag", 1)
	fn := mustFunc(p, r, "server.(*LockDB).wakeUpWaitLocks")
	adm := mustFunc(p, r, "server.(*LockDB).doLock")
	if fn == nil || adm == nil {
		return
	}
	flag := strconv.FormatInt(mustConst(p, r, "protocol", "TIMEOUT_FLAG_LOCK_WAIT_WHEN_UNLOCK"), 10)
	n := 0
	seen := map[string]bool{}
	ex := core.NewExplorer(p, core.Hooks{
		Inline: func(x *core.X, c *ssa.Function) bool { return c == adm },
		Track:  func(x *core.X, a core.Atom) bool { return true },
		Instr: func(x *core.X) {
			if !x.Top() || !calleeIs(x.Ins, "LockDB", "wakeUpWaitLock") {
				return
			}
			unlocked, tested := false, false
			for h := range x.St.Hist {
				h = core.Plain(h)
				if strings.HasSuffix(h, ".locked == 0") {
					unlocked = true
				}
				if strings.Contains(h, "TimeoutFlag & "+flag+")") {
					tested = true
				}
			}
			n++
			key := "server.(*LockDB).wakeUpWaitLocks: grant while the key is unlocked"
			if !unlocked {
				key = "server.(*LockDB).wakeUpWaitLocks: grant while the key is held"
			}
			if seen[key+fmt.Sprint(tested)] {
				return
			}
			seen[key+fmt.Sprint(tested)] = true
			switch {
			case !unlocked:
				r.Hold(rule, key, x.Pos(), "normal admission by capacity")
			case tested:
				r.Hold(rule, key, x.Pos(), "the waiter's unlock_to_wait flag is tested on the path")
			default:
				r.Violate(rule, key, x.Pos(), "the pass grants the head waiter at depth 0 without looking at its unlock_to_wait flag: an Event.Wait (default-clear mode) that reaches the server between the reply of Clear()'s unlock and that unlock's trailing wake-up pass is queued (the key is unlocked) and then granted by the pass - Wait succeeds after Clear() returned, with no Set", x.St.Trace)
			}
		},
	})
	ex.Run(fn, nil)
	if ex.Imprecise != "" {
		r.Fail("C19/R10: %s", ex.Imprecise)
	}
	if n == 0 {
		r.Fail("C19/R10: no grant found in wakeUpWaitLocks")
	}
}
