package rules

import (
	"fmt"
	"go/ast"
	"go/constant"
	"go/token"
	"go/types"
	"sort"
	"strconv"
	"strings"

	"golang.org/x/tools/go/packages"
	"golang.org/x/tools/go/ssa"

	"slockverif/internal/core"
)

func init() { Registry["C15"] = checkC15 }

func checkC15(p *core.Prog, r *core.Report) {
	r.Explanation = "Decides structural necessary conditions of the atomic-register behaviour: (R1) on every path of Lock/UnLock/wakeUpWaitLock that applies a value operation (ProcessLockData) and then answers, the reply's value argument is a GetLockData() result obtained before the operation, inside the same shard-mutex section; (R2) refusal replies are reached without ProcessLockData/ProcessRecoverLockData on the path; (R3) the operation switches of ProcessLockData and ProcessRecoverLockData have a case for every LOCK_DATA_COMMAND_TYPE_* constant; (R4) the Redis-style command names are registered identically in the leader and follower text protocols and in the converter; (R5) published value frames are immutable: no element store, copy destination or append base in the value-operation code derives from the manager's current frame (replies, undo records and the log still reference it). (R6) the pre-operation value kept for a pending request (LockData.recoverData) is read before the call that clears it, never after. (R7) the Redis-style result writers answer with an error line only on a path where the engine's result code was tested non-zero (an applied operation is never reported as refused). (R8) the data frame a binary request carries is a private buffer: Stream.ReadBytesFrame returns only freshly made slices and the decoder adopts only those (the value operations keep the frame as the stored value). (R9) on a grant that adds a holder the key's depth is incremented before the request's value operation runs (the operation reads the depth for first/last-holder-only operations). (R10) no comparison mixes the request-type enumeration with the value-operation enumeration (one does: known finding, PIPELINE). (R11) every value frame the value-operation code or a codec allocates and hands on as a frame has its own length minus four stored in its first four bytes before the hand-over. (R12) the engine reads the stored bytes as a little-endian integer only under the frame's NUMBER type mark (it does not: known finding - text SET n 10, INCRBY n 1 answers 12338). (R13) PUSH continues the stored frame as an array (keeps its flag byte and adds the ARRAY mark) only on the true side of an IsArrayValue() test. NOT decided: the rest of the byte surgery of each operation, numeric overflow, the Redis-style answers."
	r.Assumptions = []string{"Go type checker and go/ssa are correct for /repo", "GetLockData returns the current frame without copying (so R5 matters)"}
	c15R1(p, r)
	c15R2(p, r)
	c15R3(p, r)
	c15R4(p, r)
	c15R5(p, r)
	c15R6(p, r)
	c15R7(p, r)
	c15R8(p, r)
	c15R9(p, r)
	c15R10(p, r)
	c15R11(p, r)
	c15R12(p, r)
	c15R13(p, r)
}

func c15R1(p *core.Prog, r *core.Report) {
	const rule = "C15/R1"
	r.Rule(rule, "a reply that follows a value operation on its path carries a GetLockData() result read before the operation in the same critical section", 7)
	for _, name := range []string{"server.(*LockDB).Lock", "server.(*LockDB).UnLock", "server.(*LockDB).wakeUpWaitLock"} {
		fn := mustFunc(p, r, name)
		if fn == nil {
			continue
		}
		init := core.NewState()
		if strings.HasSuffix(name, "wakeUpWaitLock") {
			init.RS["L:shard"] = "1"
		}
		ex := core.NewExplorer(p, core.Hooks{
			Instr: func(x *core.X) {
				if cl, acq, ok := trackLocks(x); ok && cl == "shard" {
					if acq {
						// a new section: earlier reads are stale
						for k := range x.St.RS {
							if strings.HasPrefix(k, "gld:") {
								x.Set(k, "")
							}
						}
						x.Set("op", "")
					}
					return
				}
				if !x.Top() {
					return
				}
				c, ok := x.Ins.(*ssa.Call)
				if !ok {
					return
				}
				callee := c.Common().StaticCallee()
				switch {
				case isMethod(callee, "LockManager", "GetLockData"):
					if held(x, "shard") && x.Get("op") == "" {
						x.Set("gld:"+x.Canon(c).S, "pre")
					} else {
						x.Set("gld:"+x.Canon(c).S, "post")
					}
				case isMethod(callee, "LockManager", "ProcessLockData"):
					x.Set("op", siteKey(p, x.Ins))
				}
				_, res, _, isReply := replyCall(x, x.Ins)
				if !isReply || x.Get("op") == "" {
					return
				}
				if res != "0" && res != "5" { // SUCCED / LOCKED_ERROR(update performed)
					return
				}
				data := argCanon(x, x.Ins, 5)
				key := siteKey(p, x.Ins) + " after " + x.Get("op")
				switch x.Get("gld:" + data) {
				case "pre":
					r.Hold(rule, key, x.Pos(), "value read before the operation under the mutex")
				case "post":
					r.Violate(rule, key, x.Pos(), "reply carries "+data+", read after the value operation (or outside its critical section): the client sees the value after its own operation", x.St.Trace)
				default:
					r.Violate(rule, key, x.Pos(), "reply value "+data+" is not a GetLockData() result of this critical section", x.St.Trace)
				}
			},
		})
		ex.Run(fn, init)
		if ex.Imprecise != "" {
			r.Fail("C15/R1 %s: %s", name, ex.Imprecise)
		}
	}
}

func c15R2(p *core.Prog, r *core.Report) {
	const rule = "C15/R2"
	r.Rule(rule, "refusal replies of Lock/UnLock are reached without a value operation on the path", 10)
	refusal := map[string]string{}
	for _, n := range []string{"RESULT_UNLOCK_ERROR", "RESULT_UNOWN_ERROR", "RESULT_LOCK_ACK_WAITING", "RESULT_STATE_ERROR", "RESULT_UNKNOWN_DB", "RESULT_TIMEOUT", "RESULT_LOCKED_ERROR"} {
		refusal[fmt.Sprint(mustConst(p, r, "protocol", n))] = n
	}
	for _, name := range []string{"server.(*LockDB).Lock", "server.(*LockDB).UnLock"} {
		fn := mustFunc(p, r, name)
		if fn == nil {
			continue
		}
		cmd := fn.Params[2].Name()
		ex := core.NewExplorer(p, core.Hooks{
			Inline: inlineSet(p, "server.(*LockDB).cancelWaitLock"),
			Track:  func(x *core.X, a core.Atom) bool { return strings.Contains(a.L, cmd+".Flag & 2)") },
			Instr: func(x *core.X) {
				callee := core.StaticCallee(x.Ins)
				if callee != nil && (callee.Name() == "ProcessLockData" || callee.Name() == "ProcessRecoverLockData") && core.InModule(callee) {
					if x.Get("op") == "" {
						x.Set("op", callee.Name()+" at "+x.Pos())
					}
					return
				}
				rq, res, _, ok := replyCall(x, x.Ins)
				if !ok || rq != cmd {
					return
				}
				rn, isRef := refusal[res]
				if !isRef {
					return
				}
				if rn == "RESULT_LOCKED_ERROR" && !x.Passed("("+cmd+".Flag & 2) == 0") && x.Top() {
					return
				}
				key := siteKey(p, x.Ins)
				if op := x.Get("op"); op != "" {
					r.Violate(rule, key, x.Pos(), rn+" refusal after a value operation on the same path ("+op+")", x.St.Trace)
				} else {
					r.Hold(rule, key, x.Pos(), rn+" leaves the value untouched")
				}
			},
		})
		ex.Run(fn, nil)
		if ex.Imprecise != "" {
			r.Fail("C15/R2 %s: %s", name, ex.Imprecise)
		}
	}
}

// constGroup returns name->value of the package constants with a prefix.
func constGroup(p *core.Prog, rel, prefix string) map[string]int64 {
	out := map[string]int64{}
	pk := p.Pkg(rel)
	if pk == nil {
		return out
	}
	sc := pk.Types.Scope()
	for _, n := range sc.Names() {
		if !strings.HasPrefix(n, prefix) {
			continue
		}
		if c, ok := sc.Lookup(n).(*types.Const); ok {
			e := core.Expr{S: c.Val().ExactString()}
			if v, ok := e.IsConstInt(); ok {
				out[n] = v
			}
		}
	}
	return out
}

// switchCases collects, for every switch statement in fn whose tag mentions
// tagField, the set of integer case values.
func switchCases(p *core.Prog, pkgRel string, fd *ast.FuncDecl, tagField string) [][]int64 {
	pk := p.Pkg(pkgRel)
	var out [][]int64
	ast.Inspect(fd, func(n ast.Node) bool {
		sw, ok := n.(*ast.SwitchStmt)
		if !ok || sw.Tag == nil {
			return true
		}
		if !strings.Contains(types.ExprString(sw.Tag), tagField) {
			return true
		}
		var vals []int64
		for _, cc := range sw.Body.List {
			for _, e := range cc.(*ast.CaseClause).List {
				if tv, ok := pk.TypesInfo.Types[e]; ok && tv.Value != nil {
					ex := core.Expr{S: tv.Value.ExactString()}
					if v, ok := ex.IsConstInt(); ok {
						vals = append(vals, v)
					}
				}
			}
		}
		out = append(out, vals)
		return true
	})
	return out
}

func c15R3(p *core.Prog, r *core.Report) {
	const rule = "C15/R3"
	r.Rule(rule, "the value-operation switches have a case for every LOCK_DATA_COMMAND_TYPE_* constant", 2)
	ops := constGroup(p, "protocol", "LOCK_DATA_COMMAND_TYPE_")
	if len(ops) < 5 {
		r.Fail("C15/R3: only %d LOCK_DATA_COMMAND_TYPE_* constants found", len(ops))
		return
	}
	for _, spec := range []struct{ fn, tag string }{
		{"server.(*LockManager).ProcessLockData", "CommandType"},
		{"server.(*LockManager).ProcessRecoverLockData", "commandType"},
	} {
		fn := mustFunc(p, r, spec.fn)
		if fn == nil {
			continue
		}
		fd := p.SyntaxFunc(fn)
		sws := switchCases(p, "server", fd, spec.tag)
		// the operation switch is the one with the most cases
		var best []int64
		for _, s := range sws {
			if len(s) > len(best) {
				best = s
			}
		}
		have := map[int64]bool{}
		for _, v := range best {
			have[v] = true
		}
		names := make([]string, 0, len(ops))
		for n := range ops {
			names = append(names, n)
		}
		sort.Strings(names)
		for _, n := range names {
			key := spec.fn + ": case " + n
			if have[ops[n]] {
				r.Hold(rule, key, p.Pos(fd.Pos()), "")
			} else {
				r.Violate(rule, key, p.Pos(fd.Pos()), "operation "+n+" has no case in the switch: the operation would be silently ignored", nil)
			}
		}
	}
}

// registryKeys collects the string keys assigned into a map inside fn
// (m["NAME"] = handler), the way the text command registries are built.
func registryKeys(p *core.Prog, fn *ssa.Function) map[string]bool {
	out := map[string]bool{}
	if fn == nil {
		return out
	}
	for _, b := range fn.Blocks {
		for _, ins := range b.Instrs {
			if mu, ok := ins.(*ssa.MapUpdate); ok {
				if c, ok := mu.Key.(*ssa.Const); ok && c.Value != nil && c.Value.Kind().String() == "String" {
					out[strings.Trim(c.Value.ExactString(), "\"")] = true
				}
			}
		}
	}
	return out
}

func c15R4(p *core.Prog, r *core.Report) {
	const rule = "C15/R4"
	r.Rule(rule, "every Redis-style value command is registered in the leader text protocol, the follower (transparency) text protocol and the converter", 10)
	lead := registryKeys(p, mustFunc(p, r, "server.(*TextServerProtocol).FindHandler"))
	foll := registryKeys(p, mustFunc(p, r, "server.(*TransparencyTextServerProtocol).FindHandler"))
	conv := registryKeys(p, mustFunc(p, r, "protocol.(*TextCommandConverter).FindHandler"))
	names := []string{"SET", "GET", "DEL", "SETNX", "GETSET", "INCR", "DECR", "INCRBY", "DECRBY", "APPEND", "EXISTS", "STRLEN", "EXPIRE", "PERSIST"}
	for _, n := range names {
		key := "registries: " + n
		var miss []string
		if !lead[n] {
			miss = append(miss, "TextServerProtocol.FindHandler")
		}
		if !foll[n] {
			miss = append(miss, "TransparencyTextServerProtocol.FindHandler")
		}
		if !conv[n] {
			miss = append(miss, "TextCommandConverter.FindHandler")
		}
		if len(miss) > 0 {
			r.Violate(rule, key, "-", "command "+n+" not registered in "+strings.Join(miss, ", "), nil)
		} else {
			r.Hold(rule, key, "-", "")
		}
	}
}

// sliceOrigins classifies where a slice value may come from.
func sliceOrigins(v ssa.Value, seen map[ssa.Value]bool, out map[string]bool) {
	if v == nil || seen[v] {
		return
	}
	seen[v] = true
	switch x := v.(type) {
	case *ssa.MakeSlice:
		out["fresh"] = true
	case *ssa.Slice:
		sliceOrigins(x.X, seen, out)
	case *ssa.Phi:
		for _, e := range x.Edges {
			sliceOrigins(e, seen, out)
		}
	case *ssa.Convert:
		sliceOrigins(x.X, seen, out)
	case *ssa.ChangeType:
		sliceOrigins(x.X, seen, out)
	case *ssa.Const:
		out["nil"] = true
	case *ssa.Alloc:
		out["fresh"] = true // composite literal backing array
	case *ssa.UnOp:
		if x.Op != token.MUL {
			out["unknown"] = true
			return
		}
		switch a := x.X.(type) {
		case *ssa.FieldAddr:
			k := core.FieldKeyOf(a.X.Type(), a.Field)
			switch {
			case k.Type == "server.LockManagerData" && k.Field == "data":
				out["current"] = true
			case k.Type == "server.LockData":
				out["undo-record"] = true
			case k.Type == "protocol.LockCommandData" && k.Field == "Data":
				out["request"] = true
			default:
				out["field "+k.String()] = true
			}
		case *ssa.Alloc:
			// local cell: follow its stores
			if refs := a.Referrers(); refs != nil {
				for _, ins := range *refs {
					if st, ok := ins.(*ssa.Store); ok && st.Addr == ssa.Value(a) {
						sliceOrigins(st.Val, seen, out)
					}
				}
			}
		default:
			out["unknown"] = true
		}
	case *ssa.Call:
		com := x.Common()
		if b, ok := com.Value.(*ssa.Builtin); ok && b.Name() == "append" {
			sliceOrigins(com.Args[0], seen, out) // may alias its first operand
			return
		}
		if c := com.StaticCallee(); c != nil {
			switch {
			case isMethod(c, "LockManagerData", "GetData"), isMethod(c, "LockManager", "GetLockData"):
				out["current"] = true
			case c.Name() == "GetBytesValue" || c.Name() == "GetStringValue":
				out["request"] = true
			default:
				out["call "+c.Name()] = true
			}
			return
		}
		out["unknown"] = true
	case *ssa.Parameter:
		out["param "+x.Name()] = true
	case *ssa.Extract:
		if c, ok := x.Tuple.(*ssa.Call); ok {
			if callee := c.Common().StaticCallee(); callee != nil {
				out["call "+callee.Name()] = true
				return
			}
		}
		out["unknown"] = true
	default:
		out["unknown"] = true
	}
}

func c15R5(p *core.Prog, r *core.Report) {
	const rule = "C15/R5"
	r.Rule(rule, "no element store, copy destination or append base in the value-operation code derives from the manager's current value frame", 20)
	roots := []string{"server.(*LockManager).ProcessLockData", "server.(*LockManager).ProcessRecoverLockData", "server.(*LockManager).ProcessAckLockData", "server.(*LockManager).ProcessExecuteLockCommand"}
	// functions reachable by static calls inside package server
	seenFn := map[*ssa.Function]bool{}
	var work []*ssa.Function
	for _, n := range roots {
		if f := mustFunc(p, r, n); f != nil {
			work = append(work, f)
		}
	}
	for len(work) > 0 {
		f := work[len(work)-1]
		work = work[:len(work)-1]
		if seenFn[f] || f.Blocks == nil {
			continue
		}
		seenFn[f] = true
		for _, b := range f.Blocks {
			for _, ins := range b.Instrs {
				if c := core.StaticCallee(ins); c != nil && core.InModule(c) && strings.HasPrefix(core.FuncName(c), "server.") {
					if _, isLM := map[string]bool{"LockManager": true, "LockManagerData": true, "LockData": true, "Lock": true}[recvName(c)]; isLM {
						work = append(work, c)
					}
				}
			}
		}
	}
	fns := make([]*ssa.Function, 0, len(seenFn))
	for f := range seenFn {
		fns = append(fns, f)
	}
	sort.Slice(fns, func(i, j int) bool { return core.FuncName(fns[i]) < core.FuncName(fns[j]) })
	check := func(ins ssa.Instruction, dst ssa.Value, what string) {
		o := map[string]bool{}
		sliceOrigins(dst, map[ssa.Value]bool{}, o)
		var os []string
		for k := range o {
			os = append(os, k)
		}
		sort.Strings(os)
		key := siteKey(p, ins)
		if o["current"] {
			r.Violate(rule, key, p.InstrPos(ins), what+" may write into the manager's current value frame (origins: "+strings.Join(os, ", ")+"); earlier replies, undo records and the log still reference that frame", nil)
		} else {
			r.Hold(rule, key, p.InstrPos(ins), what+" into "+strings.Join(os, ", "))
		}
	}
	for _, f := range fns {
		for _, b := range f.Blocks {
			for _, ins := range b.Instrs {
				switch t := ins.(type) {
				case *ssa.Store:
					if ia, ok := t.Addr.(*ssa.IndexAddr); ok {
						if _, isSlice := ia.X.Type().Underlying().(*types.Slice); isSlice {
							check(ins, ia.X, "element store")
						}
					}
				case *ssa.Call:
					if bi, ok := t.Common().Value.(*ssa.Builtin); ok {
						switch bi.Name() {
						case "copy":
							check(ins, t.Common().Args[0], "copy")
						case "append":
							if _, isSlice := t.Common().Args[0].Type().Underlying().(*types.Slice); isSlice {
								if et, ok := t.Common().Args[0].Type().Underlying().(*types.Slice).Elem().Underlying().(*types.Basic); ok && et.Kind() == types.Uint8 {
									check(ins, t.Common().Args[0], "append")
								}
							}
						}
					}
				}
			}
		}
	}
	r.Stats["R5_functions"] = len(fns)
}

func recvName(fn *ssa.Function) string {
	if fn.Signature.Recv() == nil {
		return ""
	}
	t := fn.Signature.Recv().Type()
	if pt, ok := t.(*types.Pointer); ok {
		t = pt.Elem()
	}
	if nt, ok := t.(*types.Named); ok {
		return nt.Obj().Name()
	}
	return ""
}

// c15R6: a request that changed a key's value keeps, in its LockData, the
// value from before the operation (recoverData) - it is what an acknowledged
// require-ack lock reports as "value before the operation" and what a failed
// one restores. The finishing calls (ProcessAckClear and friends) drop it. So
// on every path, a read of recoverData after a call that clears it yields nil:
// the reply / the restore silently loses the previous value.
func c15R6(p *core.Prog, r *core.Report) {
	const rule = "C15/R6"
	r.Rule(rule, "the pre-operation value kept for a pending request (LockData.recoverData) is read before the call that clears it, never after", 1)
	rk := fk("server.LockData", "recoverData")
	// callees that store nil into recoverData
	clears := map[*ssa.Function]bool{}
	for _, fn := range p.FuncsIn("server") {
		for _, b := range fn.Blocks {
			for _, ins := range b.Instrs {
				if st, ok := ins.(*ssa.Store); ok {
					if k, ok := storeKey(st.Addr); ok && k == rk {
						if c, ok := st.Val.(*ssa.Const); ok && c.Value == nil {
							clears[fn] = true
						}
					}
				}
			}
		}
	}
	n := 0
	isNilStore := func(ins ssa.Instruction) (ssa.Value, bool) {
		if st, ok := ins.(*ssa.Store); ok {
			if fa, ok := st.Addr.(*ssa.FieldAddr); ok && core.FieldKeyOf(fa.X.Type(), fa.Field) == rk {
				if c, ok := st.Val.(*ssa.Const); ok && c.Value == nil {
					return fa.X, true
				}
			}
		}
		return nil, false
	}
	for _, fn := range p.FuncsIn("server") {
		if fn.Blocks == nil {
			continue
		}
		callsClear, reads := false, false
		for _, b := range fn.Blocks {
			for _, ins := range b.Instrs {
				if c := core.StaticCallee(ins); c != nil && clears[c] {
					callsClear = true
				}
				if _, ok := isNilStore(ins); ok {
					callsClear = true
				}
				if u, ok := ins.(*ssa.UnOp); ok {
					if fa, ok := u.X.(*ssa.FieldAddr); ok && core.FieldKeyOf(fa.X.Type(), fa.Field) == rk {
						reads = true
					}
				}
			}
		}
		if !callsClear || !reads {
			continue
		}
		n++
		name := core.FuncName(fn)
		bad := false
		ex := core.NewExplorer(p, core.Hooks{
			Instr: func(x *core.X) {
				if !x.Top() {
					return
				}
				if c := core.StaticCallee(x.Ins); c != nil && clears[c] {
					x.Set("cleared", core.Plain(argCanon(x, x.Ins, 0)))
					return
				}
				if base, ok := isNilStore(x.Ins); ok {
					x.Set("cleared", core.Plain(x.Canon(base).S))
					return
				}
				if u, ok := x.Ins.(*ssa.UnOp); ok {
					if fa, ok := u.X.(*ssa.FieldAddr); ok && core.FieldKeyOf(fa.X.Type(), fa.Field) == rk {
						base := core.Plain(x.Canon(fa.X).S)
						if c := x.Get("cleared"); c != "" && c == base {
							bad = true
							r.Violate(rule, name+": read of recoverData", x.Pos(), "the value from before the operation is read after the call that clears it (always nil here): an acknowledged request's reply loses the previous value / a rollback restores nothing", x.St.Trace)
						}
					}
				}
			},
		})
		ex.NoHist = true
		ex.Run(fn, nil)
		if ex.Imprecise != "" {
			r.Fail("C15/R6 %s: %s", name, ex.Imprecise)
		}
		if !bad {
			r.Hold(rule, name+": read of recoverData", p.Pos(fn.Pos()), "read before the clearing call on every path")
		}
	}
	if n == 0 {
		r.Fail("C15/R6: no function both reads recoverData and clears it (directly or through its clearing function)")
	}
}

// leadingText returns the constant text a reply value starts with, when the
// value is built the way the converters build replies: []byte(s), a string
// constant, fmt.Sprintf(const, ...), const + x.
func leadingText(v ssa.Value, depth int) (string, bool) {
	if depth > 8 {
		return "", false
	}
	switch t := v.(type) {
	case *ssa.Const:
		if t.Value != nil && t.Value.Kind() == constant.String {
			return constant.StringVal(t.Value), true
		}
	case *ssa.Convert:
		return leadingText(t.X, depth+1)
	case *ssa.ChangeType:
		return leadingText(t.X, depth+1)
	case *ssa.BinOp:
		if t.Op == token.ADD {
			return leadingText(t.X, depth+1)
		}
	case *ssa.Call:
		if c := t.Common().StaticCallee(); c != nil && c.Pkg != nil && c.Pkg.Pkg.Path() == "fmt" && c.Name() == "Sprintf" && len(t.Common().Args) > 0 {
			return leadingText(t.Common().Args[0], depth+1)
		}
	}
	return "", false
}

// c15R7: the functions that turn the engine's result into a Redis-style
// answer say "error" only where the engine's result says so.
func c15R7(p *core.Prog, r *core.Report) {
	const rule = "C15/R7"
	r.Rule(rule, "a Redis-style result writer answers with an error line (\"-...\") only on a path where the engine's result code was tested non-zero", 6)
	n := 0
	for _, fn := range p.FuncsIn("protocol") {
		if fn.Blocks == nil {
			continue
		}
		ps := fn.Params
		if fn.Signature.Recv() != nil {
			if len(ps) == 0 {
				continue
			}
			ps = ps[1:]
		}
		if len(ps) != 3 || !strings.HasSuffix(ps[2].Type().String(), "protocol.LockResultCommand") || !strings.HasSuffix(ps[1].Type().String(), "protocol.ISteam") {
			continue
		}
		res := ps[2].Name()
		name := core.FuncName(fn)
		ex := core.NewExplorer(p, core.Hooks{
			Track: func(x *core.X, a core.Atom) bool {
				return strings.Contains(core.Plain(a.String()), res+".Result")
			},
			Instr: func(x *core.X) {
				c, ok := x.Ins.(ssa.CallInstruction)
				if !ok || !c.Common().IsInvoke() || c.Common().Method.Name() != "WriteBytes" || len(c.Common().Args) != 1 {
					return
				}
				text, ok := leadingText(c.Common().Args[0], 0)
				if !ok || !strings.HasPrefix(text, "-") {
					return
				}
				n++
				key := name + ": error line " + strconv.Quote(text)
				refused := false
				for h := range x.St.Hist {
					if strings.HasPrefix(h, res+".") && strings.HasSuffix(h, ".Result != 0") {
						refused = true
					}
				}
				if refused {
					r.Hold(rule, key, x.Pos(), "error line behind "+res+".Result != 0")
				} else {
					r.Violate(rule, key, x.Pos(), "an error line "+strconv.Quote(text)+" is written on a path where the engine's result code is zero (the operation was applied): the client is told its request was refused although the value changed", x.St.Trace)
				}
			},
		})
		ex.Run(fn, nil)
		if ex.Imprecise != "" {
			r.Fail("C15/R7 %s: %s", name, ex.Imprecise)
		}
	}
	if n == 0 {
		r.Fail("C15/R7: no error line found in any result writer")
	}
}

// c15R8: the value operations adopt the request's data frame as the key's
// stored value (SET, first APPEND, INCR, PUSH keep the slice). The frame must
// therefore be a private buffer: the connection's reader hands out a freshly
// made slice, never a window into its reusable read buffer (the next request
// on the connection would overwrite the stored value).
func c15R8(p *core.Prog, r *core.Report) {
	const rule = "C15/R8"
	r.Rule(rule, "Stream.ReadBytesFrame returns only freshly made slices (or nil), and the request decoder adopts only such a frame as the command's value", 2)
	// origins of a slice, looking through helpers that did not exist when the rule was confirmed
	var origins func(v ssa.Value, depth int) map[string]bool
	origins = func(v ssa.Value, depth int) map[string]bool {
		out := map[string]bool{}
		sliceOrigins(v, map[ssa.Value]bool{}, out)
		if depth > 2 {
			return out
		}
		for o := range out {
			if !strings.HasPrefix(o, "call ") {
				continue
			}
			var helpers []*ssa.Function
			all := true
			for _, f := range p.Funcs() {
				if f.Name() == o[5:] && core.InModule(f) {
					helpers = append(helpers, f)
					if !p.IsNewFunc(f) {
						all = false
					}
				}
			}
			if len(helpers) == 0 || !all {
				continue
			}
			delete(out, o)
			for _, h := range helpers {
				for _, b := range h.Blocks {
					for _, ins := range b.Instrs {
						if ret, ok := ins.(*ssa.Return); ok && len(ret.Results) > 0 {
							for k := range origins(ret.Results[0], depth+1) {
								out[k] = true
							}
						}
					}
				}
			}
		}
		return out
	}
	fn := mustFunc(p, r, "server.(*Stream).ReadBytesFrame")
	if fn != nil {
		bad := ""
		pos := ""
		n := 0
		for _, b := range fn.Blocks {
			for _, ins := range b.Instrs {
				ret, ok := ins.(*ssa.Return)
				if !ok || len(ret.Results) == 0 {
					continue
				}
				n++
				out := origins(ret.Results[0], 0)
				for o := range out {
					if o != "fresh" && o != "nil" {
						bad, pos = o, p.InstrPos(ins)
					}
				}
			}
		}
		key := "server.(*Stream).ReadBytesFrame: result is a private buffer"
		switch {
		case n == 0:
			r.Fail("C15/R8: ReadBytesFrame has no return")
		case bad != "":
			r.Violate(rule, key, pos, "the data frame returned to the request decoder may come from \""+bad+"\" instead of a freshly made slice: the value operations keep the frame as the key's stored value, so the next request read on the connection overwrites a stored value (cross-key contamination)", nil)
		default:
			r.Hold(rule, key, p.Pos(fn.Pos()), fmt.Sprintf("%d returns, all fresh or nil", n))
		}
	}
	// adoption in the binary request decoder
	n := 0
	for _, f := range p.FuncsIn("server") {
		if f.Blocks == nil || p.IsNewFunc(f) {
			continue
		}
		rn := recvName(f)
		if rn != "BinaryServerProtocol" && rn != "TransparencyBinaryServerProtocol" {
			continue
		}
		for _, b := range f.Blocks {
			for _, ins := range b.Instrs {
				c := core.StaticCallee(ins)
				if c == nil || c.Name() != "NewLockCommandDataFromOriginBytes" {
					continue
				}
				n++
				out := origins(core.CallArgs(ins)[0], 0)
				key := siteKey(p, ins)
				bad := ""
				for o := range out {
					if o != "fresh" && o != "nil" && o != "call ReadBytesFrame" {
						bad = o
					}
				}
				if bad == "" {
					r.Hold(rule, key, p.InstrPos(ins), "adopts the reader's private frame")
				} else {
					r.Violate(rule, key, p.InstrPos(ins), "the request decoder adopts a frame from \""+bad+"\" as the command's value without copying it", nil)
				}
			}
		}
	}
	if n == 0 {
		r.Fail("C15/R8: no adoption site found in the binary request decoder")
	}
}

// c15R9: the value operation consults the key's depth (LockManager.locked) to
// decide "first holder only / last holder only" operations. When a request is
// granted as a new holder, the depth must already include that holder when
// ProcessLockData runs, otherwise the first-holder operation is dropped for
// the real first holder and applied (over the stored value) for the second.
func c15R9(p *core.Prog, r *core.Report) {
	const rule = "C15/R9"
	r.Rule(rule, "on every grant path that adds a holder (AddLock) and then applies the request's value operation (ProcessLockData), the key's depth was incremented in between", 2)
	depth := fk("server.LockManager", "locked")
	n := 0
	for _, name := range []string{"server.(*LockDB).Lock", "server.(*LockDB).wakeUpWaitLock"} {
		fn := mustFunc(p, r, name)
		if fn == nil {
			continue
		}
		ex := core.NewExplorer(p, core.Hooks{
			Instr: func(x *core.X) {
				if calleeIs(x.Ins, "LockManager", "AddLock") {
					x.Set("added", core.Plain(argCanon(x, x.Ins, 1)))
					x.Set("counted", "")
					return
				}
				if st, ok := x.Ins.(*ssa.Store); ok {
					if k, ok := storeKey(st.Addr); ok && k == depth && signOf(st) == "+" {
						x.Set("counted", "1")
					}
					return
				}
				if !calleeIs(x.Ins, "LockManager", "ProcessLockData") || x.Get("added") == "" {
					return
				}
				if core.Plain(argCanon(x, x.Ins, 2)) != x.Get("added") {
					return
				}
				n++
				key := siteKey(p, x.Ins)
				if x.Get("counted") == "1" {
					r.Hold(rule, key, x.Pos(), "depth includes the new holder")
				} else {
					r.Violate(rule, key, x.Pos(), "the request's value operation runs after the holder was added but before the key's depth was incremented: ProcessLockData reads the depth to decide first-holder-only operations, so the real first holder's operation is dropped and a second holder's is applied", x.St.Trace)
				}
			},
		})
		ex.NoHist = true
		ex.Run(fn, nil)
		if ex.Imprecise != "" {
			r.Fail("C15/R9 %s: %s", name, ex.Imprecise)
		}
	}
	if n == 0 {
		r.Fail("C15/R9: no grant path with a value operation found")
	}
}

// c15R10: two small-integer enumerations live side by side: the request type
// of a frame (COMMAND_LOCK, COMMAND_UNLOCK, ... - field CommandType of
// protocol.Command / ResultCommand) and the value-operation type
// (LOCK_DATA_COMMAND_TYPE_SET, ... PIPELINE - field CommandType of the value
// frames, commandType of the stored value). Their numbers overlap, so a
// comparison across the two compiles and silently tests something else.
func c15R10(p *core.Prog, r *core.Report) {
	const rule = "C15/R10"
	r.Rule(rule, "no comparison mixes the request-type enumeration (COMMAND_*) with the value-operation enumeration (LOCK_DATA_COMMAND_TYPE_*)", 2)
	proto, srv := p.Pkg("protocol"), p.Pkg("server")
	if proto == nil || srv == nil {
		r.Fail("C15/R10: packages not loaded")
		return
	}
	fieldDomain := map[types.Object]string{}
	mark := func(pk *packages.Package, typeName, field, dom string) {
		obj := pk.Types.Scope().Lookup(typeName)
		if obj == nil {
			return
		}
		st, ok := obj.Type().Underlying().(*types.Struct)
		if !ok {
			return
		}
		for i := 0; i < st.NumFields(); i++ {
			if st.Field(i).Name() == field {
				fieldDomain[st.Field(i)] = dom
			}
		}
	}
	mark(proto, "Command", "CommandType", "request type")
	mark(proto, "ResultCommand", "CommandType", "request type")
	mark(proto, "LockCommandData", "CommandType", "value operation")
	mark(proto, "LockResultCommandData", "CommandType", "value operation")
	mark(srv, "LockManagerData", "commandType", "value operation")
	if len(fieldDomain) < 5 {
		r.Fail("C15/R10: enumeration-carrying fields not found (%d of 5)", len(fieldDomain))
		return
	}
	n := 0
	for _, pk := range []*packages.Package{proto, srv} {
		domain := func(e ast.Expr) string {
			for {
				if pe, ok := e.(*ast.ParenExpr); ok {
					e = pe.X
					continue
				}
				break
			}
			switch t := e.(type) {
			case *ast.SelectorExpr:
				if obj := pk.TypesInfo.Uses[t.Sel]; obj != nil {
					if d, ok := fieldDomain[obj]; ok {
						return d
					}
					if c, ok := obj.(*types.Const); ok {
						return constDomain(c.Name())
					}
				}
			case *ast.Ident:
				if c, ok := pk.TypesInfo.Uses[t].(*types.Const); ok {
					return constDomain(c.Name())
				}
			}
			return ""
		}
		for _, file := range pk.Syntax {
			fname := p.Fset.Position(file.Pos()).Filename
			if strings.HasSuffix(fname, "_test.go") {
				continue
			}
			var fnName string
			ast.Inspect(file, func(nd ast.Node) bool {
				switch t := nd.(type) {
				case *ast.FuncDecl:
					fnName = t.Name.Name
				case *ast.BinaryExpr:
					if t.Op != token.EQL && t.Op != token.NEQ {
						return true
					}
					dx, dy := domain(t.X), domain(t.Y)
					if dx == "" || dy == "" {
						return true
					}
					n++
					if dx != dy {
						r.Violate(rule, fmt.Sprintf("%s.%s: %s", pk.Types.Name(), fnName, types.ExprString(t)), p.Pos(t.Pos()), "the comparison "+types.ExprString(t)+" puts a "+dx+" value against a "+dy+" value: the two enumerations share their small numbers, so this compiles and tests something unrelated to what it reads as", nil)
					}
				case *ast.SwitchStmt:
					if t.Tag == nil {
						return true
					}
					dt := domain(t.Tag)
					if dt == "" {
						return true
					}
					for _, cc := range t.Body.List {
						for _, e := range cc.(*ast.CaseClause).List {
							if de := domain(e); de != "" {
								n++
								if de != dt {
									r.Violate(rule, fmt.Sprintf("%s.%s: switch %s case %s", pk.Types.Name(), fnName, types.ExprString(t.Tag), types.ExprString(e)), p.Pos(e.Pos()), "a switch over a "+dt+" has a case of the "+de+" enumeration", nil)
								}
							}
						}
					}
				}
				return true
			})
		}
	}
	if n == 0 {
		r.Fail("C15/R10: no comparison of either enumeration found")
		return
	}
	r.Hold(rule, "comparisons of the two enumerations", "-", fmt.Sprintf("%d comparisons and switch cases examined", n))
}

func constDomain(name string) string {
	switch {
	case strings.HasPrefix(name, "LOCK_DATA_COMMAND_TYPE_"):
		return "value operation"
	case strings.HasPrefix(name, "COMMAND_"):
		return "request type"
	}
	return ""
}

// c15R11: a value frame is (length:4 little-endian) (op) (flags) [properties]
// payload, and the frame is what replies, SHOW queries, the log and
// replication carry verbatim. Every frame the value-operation code or a codec
// allocates and hands on as a frame must therefore announce, in its first
// four bytes, exactly its own length minus the four header bytes - decided on
// the allocation itself (make(L+4) / a byte literal of N elements) and the
// stores into elements 0..3 that dominate the hand-over.
func c15FrameFields() map[core.FieldKey]bool {
	return map[core.FieldKey]bool{
		fk("protocol.LockCommandData", "Data"):       true,
		fk("protocol.LockResultCommandData", "Data"): true,
		fk("server.LockManagerData", "data"):         true,
	}
}

// c15FrameParams: function -> parameter indexes (ssa Params order) that are
// adopted as a frame (stored into a frame field directly or through another
// adopting function).
func c15FrameParams(p *core.Prog) map[*ssa.Function]map[int]bool {
	fields := c15FrameFields()
	out := map[*ssa.Function]map[int]bool{}
	var fns []*ssa.Function
	for _, rel := range []string{"protocol", "server"} {
		fns = append(fns, p.FuncsIn(rel)...)
	}
	paramIdx := func(f *ssa.Function, v ssa.Value) int {
		for i, q := range f.Params {
			if q == v {
				return i
			}
		}
		return -1
	}
	for changed := true; changed; {
		changed = false
		for _, f := range fns {
			for _, b := range f.Blocks {
				for _, ins := range b.Instrs {
					mark := func(v ssa.Value) {
						if i := paramIdx(f, v); i >= 0 {
							if out[f] == nil {
								out[f] = map[int]bool{}
							}
							if !out[f][i] {
								out[f][i] = true
								changed = true
							}
						}
					}
					switch s := ins.(type) {
					case *ssa.Store:
						if fa, ok := s.Addr.(*ssa.FieldAddr); ok && fields[core.FieldKeyOf(fa.X.Type(), fa.Field)] {
							mark(s.Val)
						}
					case ssa.CallInstruction:
						c := core.StaticCallee(ins)
						if c == nil || out[c] == nil {
							continue
						}
						args := s.Common().Args
						for i := range out[c] {
							if i < len(args) {
								mark(args[i])
							}
						}
					}
				}
			}
		}
	}
	return out
}

// c15ByteOf recognises byte(L >> 8k) / byte(L) / byte(uint32(L) >> 8k) and
// returns (L, k).
func c15StripConv(x ssa.Value) ssa.Value {
	for {
		c, ok := x.(*ssa.Convert)
		if !ok {
			return x
		}
		if b, ok := c.X.Type().Underlying().(*types.Basic); !ok || b.Info()&types.IsInteger == 0 {
			return x
		}
		x = c.X
	}
}

func c15ByteOf(v ssa.Value) (ssa.Value, int, bool) {
	cv, ok := v.(*ssa.Convert)
	if !ok {
		return nil, 0, false
	}
	strip := c15StripConv
	x := strip(cv.X)
	if bo, ok := x.(*ssa.BinOp); ok && bo.Op == token.SHR {
		if c, ok := strip(bo.Y).(*ssa.Const); ok && c.Value != nil {
			if n, ok := constant.Int64Val(constant.ToInt(c.Value)); ok && n%8 == 0 && n >= 0 && n <= 24 {
				return strip(bo.X), int(n / 8), true
			}
		}
		return nil, 0, false
	}
	return x, 0, true
}

// c15HelperHeader: does fn store byte(L>>8k) into elements 0..3 of its
// parameter i on every path to its returns? Returns L (a parameter of fn) or
// own = true when L is len(parameter i) - 4.
func c15HelperHeader(fn *ssa.Function, i int) (ssa.Value, bool, bool) {
	var l ssa.Value
	seen := 0
	for _, u := range *fn.Params[i].Referrers() {
		a, ok := u.(*ssa.IndexAddr)
		if !ok {
			continue
		}
		k, ok := constIntOf(a.Index)
		if !ok || k < 0 || k > 3 {
			continue
		}
		for _, uu := range *a.Referrers() {
			st, ok := uu.(*ssa.Store)
			if !ok || st.Addr != a {
				continue
			}
			v, kk, ok := c15ByteOf(st.Val)
			if !ok || kk != int(k) || (l != nil && l != v) {
				return nil, false, false
			}
			for _, b := range fn.Blocks {
				if len(b.Instrs) == 0 {
					continue
				}
				if _, isRet := b.Instrs[len(b.Instrs)-1].(*ssa.Return); isRet && b != st.Block() && !st.Block().Dominates(b) {
					return nil, false, false
				}
			}
			l = v
			seen |= 1 << uint(k)
		}
	}
	if seen != 15 || l == nil {
		return nil, false, false
	}
	if bo, ok := l.(*ssa.BinOp); ok && bo.Op == token.SUB {
		if c, ok := constIntOf(bo.Y); ok && c == 4 {
			if call, ok := bo.X.(*ssa.Call); ok {
				if b, ok := call.Call.Value.(*ssa.Builtin); ok && b.Name() == "len" && len(call.Call.Args) == 1 && call.Call.Args[0] == fn.Params[i] {
					return nil, true, true
				}
			}
		}
	}
	for _, q := range fn.Params {
		if q == l {
			return l, false, true
		}
	}
	return nil, false, false
}

func constIntOf(v ssa.Value) (int64, bool) {
	c, ok := v.(*ssa.Const)
	if !ok || c.Value == nil || c.Value.Kind() != constant.Int {
		return 0, false
	}
	return constant.Int64Val(c.Value)
}

func instrDominates(a, b ssa.Instruction) bool {
	if a.Block() == b.Block() {
		for _, ins := range a.Block().Instrs {
			if ins == a {
				return true
			}
			if ins == b {
				return false
			}
		}
		return false
	}
	return a.Block().Dominates(b.Block())
}

func c15R11(p *core.Prog, r *core.Report) {
	const rule = "C15/R11"
	r.Rule(rule, "every value frame allocated by the value-operation code or a codec and handed on as a frame stores, before the hand-over, its own length minus four in its first four bytes (little-endian)", 10)
	fields := c15FrameFields()
	adopt := c15FrameParams(p)
	isByteSlice := func(t types.Type) bool {
		s, ok := t.Underlying().(*types.Slice)
		if !ok {
			return false
		}
		b, ok := s.Elem().Underlying().(*types.Basic)
		return ok && b.Kind() == types.Uint8
	}
	var fns []*ssa.Function
	for _, rel := range []string{"protocol", "server"} {
		fns = append(fns, p.FuncsIn(rel)...)
	}
	sort.Slice(fns, func(i, j int) bool { return core.FuncName(fns[i]) < core.FuncName(fns[j]) })
	total := 0
	for _, f := range fns {
		if f.Blocks == nil {
			continue
		}
		ord := 0
		for _, b := range f.Blocks {
			for _, ins := range b.Instrs {
				var frame ssa.Value   // the slice handed on
				var base ssa.Value    // what element addresses are taken of
				var lenV ssa.Value    // L with size == L+4 (make)
				constLen := int64(-1) // literal size
				switch m := ins.(type) {
				case *ssa.MakeSlice:
					if !isByteSlice(m.Type()) {
						continue
					}
					frame, base = m, m
					if bo, ok := m.Len.(*ssa.BinOp); ok && bo.Op == token.ADD {
						if c, ok := constIntOf(bo.Y); ok && c == 4 {
							lenV = c15StripConv(bo.X)
						} else if c, ok := constIntOf(bo.X); ok && c == 4 {
							lenV = c15StripConv(bo.Y)
						}
					} else if c, ok := constIntOf(m.Len); ok {
						constLen = c
					}
				case *ssa.Slice:
					al, ok := m.X.(*ssa.Alloc)
					if !ok || m.Low != nil || m.High != nil || !isByteSlice(m.Type()) {
						continue
					}
					arr, ok := al.Type().Underlying().(*types.Pointer).Elem().Underlying().(*types.Array)
					if !ok {
						continue
					}
					frame, base, constLen = m, al, arr.Len()
				default:
					continue
				}
				// hand-over sites
				var sinks []ssa.Instruction
				for _, u := range *frame.Referrers() {
					switch s := u.(type) {
					case *ssa.Store:
						if fa, ok := s.Addr.(*ssa.FieldAddr); ok && s.Val == frame && fields[core.FieldKeyOf(fa.X.Type(), fa.Field)] {
							sinks = append(sinks, u)
						}
					case ssa.CallInstruction:
						c := core.StaticCallee(u)
						if c == nil || adopt[c] == nil {
							continue
						}
						for i := range adopt[c] {
							if args := s.Common().Args; i < len(args) && args[i] == frame {
								sinks = append(sinks, u)
							}
						}
					}
				}
				if len(sinks) == 0 {
					continue
				}
				ord++
				total++
				key := fmt.Sprintf("%s: frame allocation #%d", core.FuncName(f), ord)
				pos := p.InstrPos(ins)
				// header stores
				type hdr struct {
					st  *ssa.Store
					l   ssa.Value
					c   int64
					isC bool
					ok  bool
				}
				var hs [4][]hdr
				helperWrites := false
				for _, u := range *base.Referrers() {
					switch a := u.(type) {
					case *ssa.IndexAddr:
						k, ok := constIntOf(a.Index)
						if !ok || k < 0 || k > 3 {
							continue
						}
						for _, uu := range *a.Referrers() {
							st, ok := uu.(*ssa.Store)
							if !ok || st.Addr != a {
								continue
							}
							h := hdr{st: st}
							if c, ok := constIntOf(st.Val); ok {
								h.c, h.isC, h.ok = c, true, true
							} else if l, kk, ok := c15ByteOf(st.Val); ok && kk == int(k) {
								h.l, h.ok = l, true
							}
							hs[k] = append(hs[k], h)
						}
					case ssa.CallInstruction:
						// a helper (or encoding/binary) that writes the header
						c := core.StaticCallee(u)
						if c == nil || adopt[c] != nil {
							continue
						}
						if c.Name() == "PutUint32" && c.Pkg != nil && c.Pkg.Pkg.Path() == "encoding/binary" {
							helperWrites = true
						}
					}
				}
				// binary.LittleEndian.PutUint32(buf[0:4], uint32(L)) and in-module header helpers
				var putL ssa.Value
				var putAt ssa.Instruction
				for _, u := range *base.Referrers() {
					sl, ok := u.(*ssa.Slice)
					if !ok {
						continue
					}
					if sl.Low != nil {
						if c, ok := constIntOf(sl.Low); !ok || c != 0 {
							continue
						}
					}
					for _, uu := range *sl.Referrers() {
						ci, ok := uu.(ssa.CallInstruction)
						if !ok {
							continue
						}
						c := core.StaticCallee(uu)
						if c != nil && c.Name() == "PutUint32" && c.Pkg != nil && c.Pkg.Pkg.Path() == "encoding/binary" && strings.Contains(c.String(), "ittleEndian") {
							args := ci.Common().Args
							v := args[len(args)-1]
							for {
								cv, ok := v.(*ssa.Convert)
								if !ok {
									break
								}
								v = cv.X
							}
							putL, putAt = v, uu
						}
					}
				}
				_ = helperWrites
				// an in-module helper that stores the header of its parameter
				selfLen := false
				if putAt == nil {
					for _, u := range *base.Referrers() {
						ci, ok := u.(ssa.CallInstruction)
						if !ok {
							continue
						}
						c := core.StaticCallee(u)
						if c == nil || adopt[c] != nil || c.Blocks == nil || !core.InModule(c) {
							continue
						}
						args := ci.Common().Args
						for i, a := range args {
							if a != base || i >= len(c.Params) {
								continue
							}
							if l, own, ok := c15HelperHeader(c, i); ok {
								putAt = u
								if own {
									selfLen = true
								} else {
									for j, q := range c.Params {
										if q == l && j < len(args) {
											putL = c15StripConv(args[j])
										}
									}
								}
							}
						}
					}
				}
				for _, sink := range sinks {
					skey := key
					if len(sinks) > 1 {
						skey = fmt.Sprintf("%s, hand-over at %s", key, eventLabel(sink))
					}
					if putAt != nil && instrDominates(putAt, sink) {
						switch {
						case selfLen:
							r.Hold(rule, skey, pos, "header written by a helper as len(frame)-4 before the hand-over")
						case putL == nil:
							r.Violate(rule, skey, pos, "the helper that writes the frame's length header takes the length from a value this rule cannot relate to the allocation", nil)
						case lenV != nil && c15StripConv(putL) == lenV:
							r.Hold(rule, skey, pos, "header written with PutUint32(length) before the hand-over; allocation is length+4")
						case constLen >= 0:
							if c, ok := constIntOf(putL); ok && c == constLen-4 {
								r.Hold(rule, skey, pos, "constant header equals size-4")
							} else {
								r.Violate(rule, skey, pos, "the frame's length header is not its allocated size minus four", nil)
							}
						default:
							r.Violate(rule, skey, pos, "the frame's length header (PutUint32) is not the length the allocation was sized by: allocation is not <that length>+4", nil)
						}
						continue
					}
					missing, wrong := "", ""
					for k := 0; k < 4; k++ {
						found := false
						for _, h := range hs[k] {
							if !instrDominates(h.st, sink) {
								continue
							}
							found = true
							switch {
							case !h.ok:
								wrong = fmt.Sprintf("byte %d is not byte(length>>%d)", k, 8*k)
							case h.isC && constLen >= 0:
								if h.c != ((constLen-4)>>(8*uint(k)))&0xff {
									wrong = fmt.Sprintf("byte %d is %d, the frame has %d bytes after the header", k, h.c, constLen-4)
								}
							case h.isC:
								wrong = fmt.Sprintf("byte %d is the constant %d in a frame of variable length", k, h.c)
							case lenV == nil || h.l != lenV:
								wrong = fmt.Sprintf("byte %d announces a length that is not the one the allocation was sized by (size = length+4)", k)
							}
						}
						if !found {
							missing += fmt.Sprintf(" %d", k)
						}
					}
					switch {
					case missing != "":
						r.Violate(rule, skey, pos, "the frame is handed on ("+eventLabel(sink)+" at "+p.InstrPos(sink)+") without a store to header byte(s)"+missing+" on every path before it: it announces a length that is not its own - replies, SHOW queries, the log and replication carry the frame verbatim", nil)
					case wrong != "":
						r.Violate(rule, skey, pos, "length header of the frame handed on at "+p.InstrPos(sink)+": "+wrong, nil)
					default:
						r.Hold(rule, skey, pos, "bytes 0..3 = little-endian(size-4) stored before the hand-over")
					}
				}
			}
		}
	}
	if total == 0 {
		r.Fail("C15/R11: no frame allocation found")
	}
}

// c15R12: the register holds either bytes (text SET / APPEND store the
// argument as it is: "10" = 0x31 0x30) or a number (INCR stores 8 bytes
// little-endian and marks the frame with LOCK_DATA_FLAG_VALUE_TYPE_NUMBER; the
// text result writers print a frame as an integer only under that mark). For
// the Redis-style commands to answer like a plain key-value store, the engine
// may read the stored bytes as a little-endian integer only when the frame
// carries the mark - otherwise SET n 10, INCRBY n 1 computes on 0x3031.
func c15R12(p *core.Prog, r *core.Report) {
	const rule = "C15/R12"
	r.Rule(rule, "the stored value is read as a little-endian integer (LockManagerData.GetIncrValue) only on paths that tested the frame's NUMBER type mark", 1)
	fn := mustFunc(p, r, "server.(*LockManagerData).GetIncrValue")
	if fn == nil {
		return
	}
	number := strconv.FormatInt(mustConst(p, r, "protocol", "LOCK_DATA_FLAG_VALUE_TYPE_NUMBER"), 10)
	n, bad := 0, ""
	ex := core.NewExplorer(p, core.Hooks{
		Track: func(x *core.X, a core.Atom) bool { return strings.Contains(a.String(), "[5]") },
		Exit: func(x *core.X, rets []core.Expr) {
			if len(rets) != 1 || rets[0].S == "0" {
				return
			}
			n++
			tested := false
			for h := range x.St.Hist {
				if strings.Contains(h, "[5] & "+number+")") {
					tested = true
				}
			}
			if !tested {
				bad = x.Pos()
			}
		},
	})
	ex.Run(fn, nil)
	key := "server.(*LockManagerData).GetIncrValue: integer reading of the stored bytes"
	switch {
	case ex.Imprecise != "":
		r.Fail("C15/R12: %s", ex.Imprecise)
	case n == 0:
		r.Fail("C15/R12: GetIncrValue has no computed result")
	case bad != "":
		r.Violate(rule, key, bad, "the stored bytes are read as a little-endian integer whatever the frame's type mark says: text SET n 10 stores the bytes \"10\", INCRBY n 1 then answers 12338 (0x3031 + 1), and APPEND on a number appends behind the 8 integer bytes while GET still prints the integer - the string and the numeric representation of the register are never converted into each other", nil)
	default:
		r.Hold(rule, key, p.Pos(fn.Pos()), "integer reading only under the NUMBER mark")
	}
}
