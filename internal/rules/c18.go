package rules

import (
	"fmt"
	"go/types"
	"strings"

	"golang.org/x/tools/go/ssa"

	"slockverif/internal/core"
)

func init() { Registry["C18"] = checkC18 }

func checkC18(p *core.Prog, r *core.Report) {
	r.Explanation = "Decides structural necessary conditions of disconnect semantics: (R1) Server.handle reaches serverProtocol.Close() on every path after a successful protocol detection (the failing path closes the stream); (R2) every Close of a connection protocol is a test-and-set under its mutex that takes ownership of the will queue (copied to a local, field cleared) before the mutex is released, and drains the local copy with every queued command handed to the engine entry regardless of earlier results; (R3) will registration never executes: the registration arms push to the will queue, rewrite the command type to LOCK/UNLOCK before the push (otherwise Close would only re-register it), and call no engine function; (R4) registration uses Push (tail) and the drain uses Pop (head) of the same queue; (R5) proxies are repointed to the default protocol inside the critical section that sets closed, and AddProxy reports success only after tracking the proxy (and refuses when closed); (R6) replies are re-routed by the connection's own client id, never to the closing connection itself, and Close removes the client-id entry only if it still maps to this connection. (R7) the code that registers a will (pushes the command object onto the connection's will queue) does not return that object to the command pool on the same path. (R8) the will drain dispatches through the closing protocol object itself, and a loop repointing every tracked proxy dominates the truncation of the proxy list. (R9) the text protocol sends a reply on lockWaiter only after testing the connection not closed, so the will drain cannot block on a channel nobody reads. (R10) a lock command handed to the local engine is not freed by the caller. (R11) a re-INIT overwrites the proxy's client id only after the previous id's table entry has been removed. (R12) the proxy re-routes through the client table only for an announced (non-zero) client id (a real defect was repaired). (R13) the closed flag of a server protocol object is set only inside its own Close method (two ADMIN branches mark the nested text protocol closed from outside: known findings). NOT decided: exactly-once when a close races the drain on a follower whose leader is unreachable, leaks of queued requests, delivery after reconnect."
	r.Assumptions = []string{"Go type checker and go/ssa are correct for /repo"}
	c18R1(p, r)
	c18R2(p, r)
	c18R3(p, r)
	c18R6(p, r)
	c18R7(p, r)
	c18R8(p, r)
	c18R9(p, r)
	c18R10(p, r)
	c18R11(p, r)
	c18R12(p, r)
	c18R13(p, r)
	c18R5(p, r)
}

// c18R5: a proxy adopted by a connection must be tracked by it, because Close
// repoints exactly the tracked proxies to the default protocol; an adopted but
// untracked proxy keeps pointing at the closed connection and its later
// replies are lost. So AddProxy of a connection protocol returns success only
// on a path that appended this proxy to the tracked list under the mutex (or
// found this very pointer already in it), and refuses once closed.
func c18R5(p *core.Prog, r *core.Report) {
	const rule = "C18/R5"
	r.Rule(rule, "AddProxy of a connection protocol: success only after the proxy was appended to the tracked list under the mutex (or is already in it by identity); refused when closed", 4)
	for _, name := range []string{"server.(*BinaryServerProtocol).AddProxy", "server.(*TextServerProtocol).AddProxy"} {
		fn := mustFunc(p, r, name)
		if fn == nil {
			continue
		}
		self, proxy := fn.Params[0].Name(), fn.Params[1].Name()
		ex := core.NewExplorer(p, core.Hooks{
			Track: func(x *core.X, a core.Atom) bool {
				s := core.Plain(a.String())
				return strings.HasSuffix(s, ".closed == true") || strings.HasSuffix(s, ".closed == false") || strings.HasSuffix(s, " == "+proxy) || strings.HasSuffix(s, " != "+proxy) || strings.HasPrefix(s, proxy+" == ") || strings.HasPrefix(s, proxy+" != ")
			},
			Instr: func(x *core.X) {
				if !x.Top() {
					return
				}
				if _, _, ok := trackLocks(x); ok {
					return
				}
				if st, ok := x.Ins.(*ssa.Store); ok {
					if k, ok := storeKey(st.Addr); ok && k.Field == "proxys" {
						v := core.Plain(x.Canon(st.Val).S)
						if strings.HasPrefix(v, "append("+self+".proxys") && strings.Contains(v, proxy) {
							if held(x, "glock") {
								x.Set("added", "1")
							} else {
								r.Violate(rule, name+": append", x.Pos(), "tracked list extended without the connection mutex", x.St.Trace)
							}
						}
					}
				}
			},
			Exit: func(x *core.X, rets []core.Expr) {
				if len(rets) != 1 {
					return
				}
				closed, same := false, false
				for h := range x.St.Hist {
					if strings.HasSuffix(h, ".closed == true") {
						closed = true
					}
					if (strings.HasSuffix(h, " == "+proxy) || strings.HasPrefix(h, proxy+" == ")) && strings.Contains(h, "proxys") {
						same = true
					}
				}
				switch {
				case closed:
					key := name + ": closed"
					if rets[0].S == "nil" || x.Get("added") == "1" {
						r.Violate(rule, key, x.Pos(), "a closed connection accepts a proxy: nothing will ever repoint it, its replies are lost", x.St.Trace)
					} else {
						r.Hold(rule, key, x.Pos(), "refused")
					}
				case rets[0].S == "nil":
					key := name + ": success"
					if x.Get("added") == "1" || same {
						r.Hold(rule, key, x.Pos(), "proxy is in the tracked list")
					} else {
						r.Violate(rule, key, x.Pos(), "AddProxy reports success without tracking the proxy: the caller repoints the proxy to this connection, Close will not reset it, and replies routed through it after the close are lost", x.St.Trace)
					}
				}
			},
		})
		ex.Run(fn, nil)
		if ex.Imprecise != "" {
			r.Fail("C18/R5 %s: %s", name, ex.Imprecise)
		}
	}
}

func c18R1(p *core.Prog, r *core.Report) {
	const rule = "C18/R1"
	r.Rule(rule, "Server.handle: every path after a successful checkProtocol reaches serverProtocol.Close()", 1)
	fn := mustFunc(p, r, "server.(*Server).handle")
	if fn == nil {
		return
	}
	ex := core.NewExplorer(p, core.Hooks{
		Track: func(x *core.X, a core.Atom) bool { return strings.HasPrefix(a.L, "checkProtocol(") },
		Instr: func(x *core.X) {
			if !x.Top() {
				return
			}
			if n, isInv := core.CallName(x.Ins); n == "Close" {
				recv := argCanon(x, x.Ins, 0)
				if isInv || strings.Contains(recv, "Protocol") {
					x.Set("closed", "1")
				}
				if strings.HasSuffix(core.Plain(recv), "stream") || recv == fn.Params[1].Name() {
					x.Set("sclosed", "1")
				}
			}
		},
		Exit: func(x *core.X, rets []core.Expr) {
			okProto := false
			for h := range x.St.Hist {
				if strings.HasPrefix(h, "checkProtocol(") && strings.HasSuffix(h, " == nil") {
					okProto = true
				}
			}
			if okProto {
				key := "server.(*Server).handle: exit after protocol detection"
				if x.Get("closed") == "1" {
					r.Hold(rule, key, x.Pos(), "protocol closed (wills run, proxies repointed)")
				} else {
					r.Violate(rule, key, x.Pos(), "connection handler returns without closing the protocol: wills are not executed and the connection state leaks", x.St.Trace)
				}
			} else {
				key := "server.(*Server).handle: exit after failed detection"
				if x.Get("sclosed") == "1" || x.Get("closed") == "1" {
					r.Hold(rule, key, x.Pos(), "stream closed")
				} else {
					r.Violate(rule, key, x.Pos(), "failed protocol detection returns without closing the stream", x.St.Trace)
				}
			}
		},
	})
	ex.NoHist = false
	ex.Run(fn, nil)
	if ex.Imprecise != "" {
		r.Fail("C18/R1: %s", ex.Imprecise)
	}
}

func c18R2(p *core.Prog, r *core.Report) {
	const rule = "C18/R2"
	r.Rule(rule, "Close: test-and-set of closed under the mutex, will queue taken (local copy, field nil) before release, proxies repointed in that section, drain hands every popped command to ProcessCommad", 8)
	for _, name := range []string{"server.(*BinaryServerProtocol).Close", "server.(*TextServerProtocol).Close", "server.(*TransparencyBinaryServerProtocol).Close", "server.(*TransparencyTextServerProtocol).Close"} {
		fn := mustFunc(p, r, name)
		if fn == nil {
			continue
		}
		wills := false
		ex := core.NewExplorer(p, core.Hooks{
			Track: func(x *core.X, a core.Atom) bool {
				s := core.Plain(a.String())
				return strings.HasSuffix(s, ".closed == false") || strings.HasSuffix(s, ".closed == true") || strings.Contains(s, ".willCommands")
			},
			Instr: func(x *core.X) {
				if !x.Top() {
					return
				}
				if cl, acq, ok := trackLocks(x); ok && cl == "glock" {
					if !acq {
						if x.Get("set") == "1" && x.Get("sect") == "1" {
							// leaving the section that set closed
							empty := false
							for h := range x.St.Hist {
								if strings.Contains(core.Plain(h), ".willCommands") && strings.HasSuffix(h, " == nil") {
									empty = true
								}
							}
							if empty {
								r.Hold(rule, name+": will queue ownership", x.Pos(), "no wills registered on this path")
							} else if x.Get("willsloaded") == "1" && x.Get("willscleared") != "1" {
								r.Violate(rule, name+": will queue ownership", x.Pos(), "mutex released with the will queue still reachable through the protocol (a concurrent registration or second Close could run the wills twice or lose them)", x.St.Trace)
							} else if x.Get("willsloaded") == "1" {
								r.Hold(rule, name+": will queue ownership", x.Pos(), "queue taken under the mutex")
							}
							x.Set("sect", "done")
						}
					} else if x.Get("sect") == "" {
						x.Set("sect", "1")
					}
					return
				}
				switch t := x.Ins.(type) {
				case *ssa.Store:
					k, ok := storeKey(t.Addr)
					if !ok {
						return
					}
					switch {
					case k.Field == "closed" && x.Canon(t.Val).S == "true":
						key := siteKey(p, x.Ins)
						tested := false
						for h := range x.St.Hist {
							if strings.HasSuffix(h, ".closed == false") {
								tested = true
							}
						}
						if held(x, "glock") && tested {
							r.Hold(rule, key, x.Pos(), "closed tested clear and set under the mutex")
						} else {
							r.Violate(rule, key, x.Pos(), "closed set without test-and-set under the protocol mutex: two Close calls could both drain the wills", x.St.Trace)
						}
						x.Set("set", "1")
					case k.Field == "willCommands" && x.Canon(t.Val).S == "nil":
						if held(x, "glock") {
							x.Set("willscleared", "1")
						}
					case k.Type == "server.ProxyServerProtocol" && k.Field == "serverProtocol":
						key := siteKey(p, x.Ins)
						if held(x, "glock") && x.Get("set") == "1" && x.Get("sect") == "1" {
							r.Hold(rule, key, x.Pos(), "proxy repointed inside the closing section")
						} else {
							r.Violate(rule, key, x.Pos(), "proxy repointed outside the critical section that sets closed: a late reply could still reach the closed connection or be lost", x.St.Trace)
						}
					}
				case *ssa.UnOp:
					if fa, ok := t.X.(*ssa.FieldAddr); ok {
						if k := core.FieldKeyOf(fa.X.Type(), fa.Field); k.Field == "willCommands" && held(x, "glock") {
							x.Set("willsloaded", "1")
						}
					}
				case ssa.CallInstruction:
					c := t.Common().StaticCallee()
					if c != nil && recvName(c) == "LockCommandQueue" {
						switch c.Name() {
						case "Pop":
							wills = true
							recv := core.Plain(argCanon(x, x.Ins, 0))
							key := siteKey(p, x.Ins)
							if strings.HasSuffix(recv, ".willCommands") && !strings.Contains(recv, "'") && x.Get("willscleared") != "1" {
								r.Violate(rule, key, x.Pos(), "drain pops from the protocol's field instead of the local copy taken under the mutex", x.St.Trace)
							} else {
								r.Hold(rule, key, x.Pos(), "drain pops the head of the taken queue (registration order)")
							}
							x.Set("popped", "1")
						case "PopRight":
							r.Violate(rule, siteKey(p, x.Ins), x.Pos(), "wills drained from the tail: registration order is reversed", x.St.Trace)
						}
					}
					if n, _ := core.CallName(x.Ins); (n == "ProcessCommad" || n == "Write") && x.Get("popped") == "1" {
						x.Set("popped", "")
						r.Hold(rule, siteKey(p, x.Ins), x.Pos(), "popped will handed to the engine entry")
					}
				}
			},
			Branch: func(x *core.X, a core.Atom) {
				// after a pop, the only branch allowed before ProcessCommad is the nil test that ends the loop
				if x.Get("popped") == "1" && x.Top() {
					if !(strings.HasPrefix(a.L, "Pop(") && a.R == "nil") {
						r.Violate(rule, name+": drain loop", x.Pos(), "the drain decides on "+stable(a.String())+" between popping a will and executing it: a will can be skipped (every registered will must run, whatever the earlier ones returned)", x.St.Trace)
						x.Set("popped", "")
					} else if a.Op == "==" {
						x.Set("popped", "")
					}
				}
			},
		})
		ex.Run(fn, nil)
		if ex.Imprecise != "" {
			r.Fail("C18/R2 %s: %s", name, ex.Imprecise)
		}
		_ = wills
	}
	// the drain must run every will: from the block that executes a popped will, no path
	// may leave the drain (reach a return, or the code after the loop) without passing
	// through the Pop that finds the queue empty
	for _, name := range []string{"server.(*BinaryServerProtocol).Close", "server.(*TextServerProtocol).Close", "server.(*TransparencyBinaryServerProtocol).Close", "server.(*TransparencyTextServerProtocol).Close"} {
		fn := p.Func(name)
		if fn == nil {
			continue
		}
		cands := []*ssa.Function{fn}
		for _, b := range fn.Blocks {
			for _, ins := range b.Instrs {
				if c := core.StaticCallee(ins); c != nil && core.InModule(c) && c.Blocks != nil && c != fn && recvName(c) != "LockCommandQueue" {
					cands = append(cands, c)
				}
			}
		}
		found := false
		for _, c := range cands {
			popBlocks := map[*ssa.BasicBlock]bool{}
			var execs []ssa.Instruction
			for _, b := range c.Blocks {
				for _, ins := range b.Instrs {
					if cc := core.StaticCallee(ins); cc != nil && recvName(cc) == "LockCommandQueue" && cc.Name() == "Pop" {
						popBlocks[b] = true
					}
				}
			}
			if len(popBlocks) == 0 {
				continue
			}
			for _, b := range c.Blocks {
				for _, ins := range b.Instrs {
					if _, isCall := ins.(ssa.CallInstruction); !isCall {
						continue
					}
					if n, _ := core.CallName(ins); n == "ProcessCommad" || (n == "Write" && strings.HasPrefix(name, "server.(*Transparency")) {
						if b.Comment == "for.body" || blockInLoop(b) {
							execs = append(execs, ins)
						}
					}
				}
			}
			for _, e := range execs {
				found = true
				seen := map[*ssa.BasicBlock]bool{}
				work := append([]*ssa.BasicBlock{}, e.Block().Succs...)
				// a Pop later in the same block (three-clause for: the post
				// statement is fused into the body) is passed on every way out
				after := false
				for _, ins := range e.Block().Instrs {
					if ins == e {
						after = true
						continue
					}
					if after {
						if cc := core.StaticCallee(ins); cc != nil && recvName(cc) == "LockCommandQueue" && cc.Name() == "Pop" {
							work = nil
						}
					}
				}
				escape := ""
				for len(work) > 0 {
					b := work[len(work)-1]
					work = work[:len(work)-1]
					if seen[b] || popBlocks[b] {
						continue
					}
					seen[b] = true
					if len(b.Instrs) > 0 {
						if _, ok := b.Instrs[len(b.Instrs)-1].(*ssa.Return); ok {
							escape = p.InstrPos(b.Instrs[len(b.Instrs)-1])
						}
					}
					work = append(work, b.Succs...)
				}
				key := name + ": drain runs every will (" + core.FuncName(c) + ")"
				if escape != "" {
					r.Violate(rule, key, p.InstrPos(e), "after executing a will the drain can leave the loop (return at "+escape+") without popping the rest of the queue: an error from one will (e.g. its database does not exist) stops the remaining wills from running", nil)
				} else {
					r.Hold(rule, key, p.InstrPos(e), "the only way out of the drain is the Pop that finds the queue empty")
				}
			}
		}
		if !found {
			r.Violate(rule, name+": drain runs every will", p.Pos(fn.Pos()), "no loop that pops the will queue and executes the command was found in Close or its direct callees", nil)
		}
	}
}

func c18R3(p *core.Prog, r *core.Report) {
	const rule = "C18/R3"
	r.Rule(rule, "will registration: command type rewritten to LOCK/UNLOCK before the push; no engine call on the registration path", 6)
	willLock := fmt.Sprint(mustConst(p, r, "protocol", "COMMAND_WILL_LOCK"))
	willUnlock := fmt.Sprint(mustConst(p, r, "protocol", "COMMAND_WILL_UNLOCK"))
	cmdLock := fmt.Sprint(mustConst(p, r, "protocol", "COMMAND_LOCK"))
	cmdUnlock := fmt.Sprint(mustConst(p, r, "protocol", "COMMAND_UNLOCK"))
	for _, fn := range p.FuncsIn("server") {
		if fn.Blocks == nil {
			continue
		}
		pushes := false
		for _, b := range fn.Blocks {
			for _, ins := range b.Instrs {
				if c := core.StaticCallee(ins); c != nil && recvName(c) == "LockCommandQueue" && c.Name() == "Push" {
					x := &core.X{Fr: &core.Frame{Fn: fn}, St: core.NewState()}
					if strings.HasSuffix(core.Plain(argCanon(x, ins, 0)), ".willCommands") {
						pushes = true
					}
				}
			}
		}
		if !pushes {
			continue
		}
		name := core.FuncName(fn)
		ex := core.NewExplorer(p, core.Hooks{
			Track: func(x *core.X, a core.Atom) bool {
				s := core.Plain(a.String())
				return strings.Contains(s, "CommandType") && (strings.HasSuffix(s, " == "+willLock) || strings.HasSuffix(s, " == "+willUnlock) || strings.HasSuffix(s, " != "+willLock) || strings.HasSuffix(s, " != "+willUnlock))
			},
			Instr: func(x *core.X) {
				if !x.Top() {
					return
				}
				if st, ok := x.Ins.(*ssa.Store); ok {
					if k, ok := storeKey(st.Addr); ok && k.Field == "CommandType" && (k.Type == "protocol.Command" || k.Type == "protocol.LockCommand") {
						base := core.Plain(strings.TrimPrefix(x.Canon(st.Addr).S, "&"))
						base = strings.TrimSuffix(strings.TrimSuffix(base, ".CommandType"), ".Command")
						x.Set("ct:"+base, x.Canon(st.Val).S)
					}
				}
				if calleeIs(x.Ins, "LockDB", "Lock") || calleeIs(x.Ins, "LockDB", "UnLock") {
					x.Set("engine", "1")
				}
				c := core.StaticCallee(x.Ins)
				if c == nil || recvName(c) != "LockCommandQueue" || c.Name() != "Push" {
					return
				}
				if !strings.HasSuffix(core.Plain(argCanon(x, x.Ins, 0)), ".willCommands") {
					return
				}
				cmd := core.Plain(argCanon(x, x.Ins, 1))
				cmd = strings.TrimSuffix(cmd, ".(*LockCommand)")
				key := siteKey(p, x.Ins)
				ct := x.Get("ct:" + cmd)
				if ct == "" {
					for k, v := range x.St.RS {
						if strings.HasPrefix(k, "ct:") && strings.Contains(k, strings.TrimSuffix(cmd, ".(*LockCommand)")) {
							ct = v
						}
					}
				}
				switch {
				case x.Get("engine") == "1":
					r.Violate(rule, key, x.Pos(), "the registration path also calls the engine: the will is executed at registration time", x.St.Trace)
				case ct == cmdLock || ct == cmdUnlock:
					r.Hold(rule, key, x.Pos(), "queued as an executable LOCK/UNLOCK command")
				default:
					r.Violate(rule, key, x.Pos(), "will queued with its WILL command type (type store seen: '"+ct+"'): at disconnect Close hands it back to this registration arm and it is never executed", x.St.Trace)
				}
			},
		})
		ex.Run(fn, nil)
		if ex.Imprecise != "" {
			r.Fail("C18/R3 %s: %s", name, ex.Imprecise)
		}
	}
}

func c18R6(p *core.Prog, r *core.Report) {
	const rule = "C18/R6"
	r.Rule(rule, "re-routing by own client id, never to the closing connection itself; the client-id entry is deleted only if it still maps to this connection", 4)
	clientsKey := fk("server.SLock", "clients")
	for _, name := range []string{"server.(*BinaryServerProtocol).ProcessLockResultCommand", "server.(*ProxyServerProtocol).ProcessLockResultCommandLocked", "server.(*BinaryServerProtocol).Close", "server.(*BinaryServerProtocol).Init"} {
		fn := mustFunc(p, r, name)
		if fn == nil {
			continue
		}
		self := fn.Params[0].Name()
		ex := core.NewExplorer(p, core.Hooks{
			Track: func(x *core.X, a core.Atom) bool {
				s := core.Plain(a.String())
				return strings.Contains(s, ".clients[") || strings.Contains(s, "#0 ==") || strings.Contains(s, "#0 !=") || strings.HasSuffix(s, " == "+self) || strings.HasSuffix(s, " != "+self) || strings.HasPrefix(s, self+" == ") || strings.HasPrefix(s, self+" != ")
			},
			Instr: func(x *core.X) {
				if !x.Top() {
					return
				}
				// map lookups keyed by the connection's own client id
				if lk, ok := x.Ins.(*ssa.Lookup); ok {
					m := core.Plain(x.Canon(lk.X).S)
					if strings.HasSuffix(m, ".clients") {
						k := core.Plain(x.Canon(lk.Index).S)
						key := name + ": clients lookup"
						if strings.HasSuffix(k, ".clientId") && (strings.HasPrefix(k, self+".") || strings.HasPrefix(k, self+".proxys[0].")) {
							r.Hold(rule, key, x.Pos(), "looked up by the connection's own client id")
						} else {
							r.Violate(rule, key, x.Pos(), "client table looked up by "+stable(k)+", not by this connection's own client id: a reply could reach an unrelated client", x.St.Trace)
						}
					}
				}
				// delete(clients, id) only under clients[id] == self
				if c, ok := x.Ins.(*ssa.Call); ok {
					if bi, ok := c.Common().Value.(*ssa.Builtin); ok && bi.Name() == "delete" {
						if k, ok := storeKey(c.Common().Args[0]); ok || true {
							_ = k
							m := core.Plain(x.Canon(c.Common().Args[0]).S)
							if strings.HasSuffix(m, ".clients") {
								key := siteKey(p, x.Ins)
								mine := false
								for h := range x.St.Hist {
									if strings.HasSuffix(h, " == "+self) || strings.HasPrefix(h, self+" == ") {
										mine = true
									}
								}
								if mine {
									r.Hold(rule, key, x.Pos(), "entry deleted only while it still maps to this connection")
								} else {
									r.Violate(rule, key, x.Pos(), "client-id entry deleted without checking that it still maps to this connection: a stale close unregisters the client's newer connection and its replies are lost", x.St.Trace)
								}
							}
						}
					}
				}
				// re-route call in the closed arm of the binary protocol
				if name == "server.(*BinaryServerProtocol).ProcessLockResultCommand" {
					if n, isInv := core.CallName(x.Ins); n == "ProcessLockResultCommandLocked" && isInv {
						key := siteKey(p, x.Ins)
						tgt := core.Plain(argCanon(x, x.Ins, 0))
						notSelf := false
						for h := range x.St.Hist {
							if strings.Contains(h, " != "+self) || strings.HasPrefix(h, self+" != ") {
								notSelf = true
							}
						}
						if notSelf {
							r.Hold(rule, key, x.Pos(), "re-route target differs from the closing connection")
						} else {
							r.Violate(rule, key, x.Pos(), "a closed connection re-routes a reply to "+stable(tgt)+" without excluding itself: while its wills are drained the client table still maps its id to itself, and the two ProcessLockResultCommand methods recurse until the process dies", x.St.Trace)
						}
					}
				}
			},
		})
		ex.Run(fn, nil)
		if ex.Imprecise != "" {
			r.Fail("C18/R6 %s: %s", name, ex.Imprecise)
		}
	}
	_ = clientsKey
}

// c18R7: a will is kept by reference: the command object pushed onto the
// connection's will queue is the one the drain at Close() executes. The code
// that registered it must not hand the same object back to the connection's
// command pool - the next request on the connection would overwrite it and the
// drain would replay that request instead of the will.
func c18R7(p *core.Prog, r *core.Report) {
	const rule = "C18/R7"
	r.Rule(rule, "a command object pushed onto a connection's will queue is not returned to the command pool on the same path (the queue keeps it by reference until the drain)", 2)
	n := 0
	for _, fn := range p.FuncsIn("server") {
		if fn.Blocks == nil || p.IsNewFunc(fn) {
			continue
		}
		rn := recvName(fn)
		if rn != "BinaryServerProtocol" && rn != "TextServerProtocol" {
			continue
		}
		// entry points: functions that dispatch a parsed command (call ProcessCommad) or push a will themselves
		relevant, drains := false, false
		for _, b := range fn.Blocks {
			for _, ins := range b.Instrs {
				if c := core.StaticCallee(ins); c != nil && c.Name() == "ProcessCommad" && recvName(c) == rn {
					relevant = true
				}
				if calleeIs(ins, "LockCommandQueue", "Push") {
					relevant = true
				}
				if calleeIs(ins, "LockCommandQueue", "Pop") {
					drains = true // the drain re-dispatches what it pops (C18/R2); loop iterations share names
				}
			}
		}
		if !relevant || drains || fn.Name() == "ProcessCommad" {
			continue
		}
		name := core.FuncName(fn)
		pushes := 0
		ex := core.NewExplorer(p, core.Hooks{
			Inline: func(x *core.X, callee *ssa.Function) bool {
				return callee.Name() == "ProcessCommad" && recvName(callee) == rn
			},
			Instr: func(x *core.X) {
				if calleeIs(x.Ins, "LockCommandQueue", "Push") && strings.HasSuffix(core.Plain(argCanon(x, x.Ins, 0)), ".willCommands") {
					pushes++
					x.Set("will:"+c18Obj(argCanon(x, x.Ins, 1)), "1")
					return
				}
				cmd, ok := freeCall(x, x.Ins)
				if !ok {
					return
				}
				cmd = c18Obj(cmd)
				if x.Get("will:"+cmd) == "1" {
					r.Violate(rule, name+": registered will stays out of the pool", x.Pos(), "the command object "+cmd+" was pushed onto the will queue on this path and is now returned to the connection's command pool: the next request reuses and overwrites it, and the drain at disconnect replays that request instead of the registered will", x.St.Trace)
					x.Set("bad", "1")
				}
			},
			Exit: func(x *core.X, rets []core.Expr) {},
		})
		ex.NoHist = true
		ex.MaxSteps = 600000
		ex.Run(fn, nil)
		if ex.Imprecise != "" {
			r.Stats["R7_outside_budget"]++
			continue
		}
		if pushes > 0 {
			n++
			r.Hold(rule, name+": registered will stays out of the pool", p.Pos(fn.Pos()), "no path frees a command it pushed onto the will queue")
		}
	}
	if n == 0 {
		r.Fail("C18/R7: no function registers a will")
	}
}

// c18Obj names a command object independent of the interface it travels in.
func c18Obj(s string) string {
	s = core.Plain(s)
	for _, suf := range []string{".(*LockCommand)", ".(*protocol.LockCommand)"} {
		s = strings.ReplaceAll(s, suf, "")
	}
	for strings.HasPrefix(s, "iface(") && strings.HasSuffix(s, ")") {
		s = s[len("iface(") : len(s)-1]
	}
	return s
}

// c18R8: two details of Close that the reply routing after a disconnect
// depends on. (a) The drain executes the wills through the closing
// connection's own protocol object: the engine's same-connection fast path
// compares a waiter's protocol with the executing one, and the shared sentinel
// object (what every closed connection's proxies point to) would match the
// waiters of every closed connection - their grants would be dropped instead
// of re-routed by client id. (b) Every proxy the connection tracks - its own
// and those adopted from earlier connections of the same client id - is
// repointed to the sentinel before the list is cut back to the own proxy;
// an adopted proxy left pointing at the closed object is never re-routed.
func c18R8(p *core.Prog, r *core.Report) {
	const rule = "C18/R8"
	r.Rule(rule, "Close: the will drain dispatches through the closing protocol object itself, and the loop that repoints every tracked proxy dominates the truncation of the proxy list", 4)
	for _, name := range []string{"server.(*BinaryServerProtocol).Close", "server.(*TextServerProtocol).Close"} {
		fn := mustFunc(p, r, name)
		if fn == nil {
			continue
		}
		// (a) receiver of the drain's dispatch
		nDispatch := 0
		for _, b := range fn.Blocks {
			for _, ins := range b.Instrs {
				ci, ok := ins.(ssa.CallInstruction)
				if !ok {
					continue
				}
				nm, recv := "", ssa.Value(nil)
				if ci.Common().IsInvoke() {
					nm, recv = ci.Common().Method.Name(), ci.Common().Value
				} else if c := ci.Common().StaticCallee(); c != nil && c.Signature.Recv() != nil && len(ci.Common().Args) > 0 {
					nm, recv = c.Name(), ci.Common().Args[0]
				}
				if nm != "ProcessCommad" {
					continue
				}
				nDispatch++
				key := name + ": will dispatch receiver"
				if recv == ssa.Value(fn.Params[0]) {
					r.Hold(rule, key, p.InstrPos(ins), "dispatched through the closing protocol object")
				} else {
					r.Violate(rule, key, p.InstrPos(ins), "the drain executes the wills through an object other than the closing connection's protocol: with the shared sentinel as the executing protocol the engine's same-connection fast path matches the waiters of every closed connection and their grants are dropped instead of being re-routed to the reconnected client", nil)
				}
			}
		}
		if nDispatch == 0 {
			r.Fail("C18/R8 %s: no will dispatch (ProcessCommad) found", name)
		}
		// (b) repoint loop dominates the truncation (looked for in Close and in helpers of the
		// same receiver that did not exist when the rule was confirmed)
		var phiOf func(v ssa.Value, d int) *ssa.Phi
		phiOf = func(v ssa.Value, d int) *ssa.Phi {
			if d > 4 {
				return nil
			}
			switch t := v.(type) {
			case *ssa.Phi:
				return t
			case *ssa.BinOp:
				if ph := phiOf(t.X, d+1); ph != nil {
					return ph
				}
				return phiOf(t.Y, d+1)
			case *ssa.Convert:
				return phiOf(t.X, d+1)
			}
			return nil
		}
		scan := func(f *ssa.Function) (truncs []*ssa.Store, heads []*ssa.BasicBlock) {
			isProxysLoad := func(v ssa.Value) bool {
				u, ok := v.(*ssa.UnOp)
				if !ok {
					return false
				}
				fa, ok := u.X.(*ssa.FieldAddr)
				return ok && core.FieldKeyOf(fa.X.Type(), fa.Field).Field == "proxys" && fa.X == ssa.Value(f.Params[0])
			}
			for _, b := range f.Blocks {
				for _, ins := range b.Instrs {
					st, ok := ins.(*ssa.Store)
					if !ok {
						continue
					}
					fa, ok := st.Addr.(*ssa.FieldAddr)
					if !ok {
						continue
					}
					k := core.FieldKeyOf(fa.X.Type(), fa.Field)
					if k.Field == "proxys" && fa.X == ssa.Value(f.Params[0]) {
						if sl, ok := st.Val.(*ssa.Slice); ok && isProxysLoad(sl.X) {
							truncs = append(truncs, st)
						}
					}
					if k.Type == "server.ProxyServerProtocol" && k.Field == "serverProtocol" {
						if u, ok := fa.X.(*ssa.UnOp); ok {
							if ia, ok := u.X.(*ssa.IndexAddr); ok && isProxysLoad(ia.X) {
								if ph := phiOf(ia.Index, 0); ph != nil {
									heads = append(heads, ph.Block())
								}
							}
						}
					}
				}
			}
			return
		}
		truncs, loopHeads := scan(fn)
		// helpers: a call to a new same-receiver method that repoints all proxies counts as
		// the loop (at the call's block); one that also truncates is checked in itself
		for _, b := range fn.Blocks {
			for _, ins := range b.Instrs {
				c := core.StaticCallee(ins)
				if c == nil || !p.IsNewFunc(c) || c.Blocks == nil || recvName(c) != recvName(fn) {
					continue
				}
				if args := core.CallArgs(ins); len(args) == 0 || args[0] != ssa.Value(fn.Params[0]) {
					continue
				}
				ht, hh := scan(c)
				if len(hh) > 0 && len(ht) == 0 {
					loopHeads = append(loopHeads, b)
				}
				for _, t := range ht {
					key := name + ": proxies repointed before the list is truncated"
					ok := false
					for _, h := range hh {
						if h.Dominates(t.Block()) {
							ok = true
						}
					}
					truncs = append(truncs, nil)
					if ok {
						r.Hold(rule, key, p.InstrPos(t), "a loop over all tracked proxies repoints them first (in "+c.Name()+")")
					} else {
						r.Violate(rule, key, p.InstrPos(t), "the proxy list is cut back to the connection's own proxy without a preceding loop that repoints every tracked proxy", nil)
					}
				}
			}
		}
		for _, t := range truncs {
			if t == nil {
				continue
			}
			key := name + ": proxies repointed before the list is truncated"
			ok := false
			for _, h := range loopHeads {
				if h.Dominates(t.Block()) {
					ok = true
				}
			}
			if ok {
				r.Hold(rule, key, p.InstrPos(t), "a loop over all tracked proxies repoints them first")
			} else {
				r.Violate(rule, key, p.InstrPos(t), "the proxy list is cut back to the connection's own proxy without a preceding loop that repoints every tracked proxy: a proxy adopted from an earlier connection of the same client id keeps pointing at this closed object, so replies for that connection's requests are answered \"closed\" instead of being re-routed to the client's current connection", nil)
			}
		}
		if len(truncs) == 0 {
			r.Fail("C18/R8 %s: truncation of the proxy list not found", name)
		}
	}
}

// c18R9: Close() drains the will queue in the connection's own goroutine - the
// goroutine that otherwise reads lockWaiter. Every will it executes is
// answered through the text protocol's reply function, which sends on
// lockWaiter (a small buffered channel). With nobody left to read, the send
// must not happen once the connection is closed: otherwise the drain blocks as
// soon as the buffer is full, the remaining wills never run and Close() never
// returns.
func c18R9(p *core.Prog, r *core.Report) {
	const rule = "C18/R9"
	r.Rule(rule, "TextServerProtocol sends a reply on lockWaiter only on a path that tested the connection not closed (the wills executed by Close are answered with nobody reading the channel)", 2)
	n := 0
	for _, fn := range p.FuncsIn("server") {
		if fn.Blocks == nil || p.IsNewFunc(fn) || recvName(fn) != "TextServerProtocol" {
			continue
		}
		sends := false
		for _, b := range fn.Blocks {
			for _, ins := range b.Instrs {
				if s, ok := ins.(*ssa.Send); ok {
					if u, ok := s.Chan.(*ssa.UnOp); ok {
						if fa, ok := u.X.(*ssa.FieldAddr); ok && core.FieldKeyOf(fa.X.Type(), fa.Field).Field == "lockWaiter" {
							sends = true
						}
					}
				}
			}
		}
		if !sends {
			continue
		}
		name := core.FuncName(fn)
		ex := core.NewExplorer(p, core.Hooks{
			Track: func(x *core.X, a core.Atom) bool { return strings.HasSuffix(core.Plain(a.L), ".closed") },
			Instr: func(x *core.X) {
				s, ok := x.Ins.(*ssa.Send)
				if !ok {
					return
				}
				ch := core.Plain(x.Canon(s.Chan).S)
				if !strings.HasSuffix(ch, ".lockWaiter") {
					return
				}
				n++
				base := strings.TrimSuffix(ch, ".lockWaiter")
				key := siteKey(p, x.Ins)
				open := false
				for h := range x.St.Hist {
					if core.Plain(h) == base+".closed == false" {
						open = true
					}
				}
				if open {
					r.Hold(rule, key, x.Pos(), "connection tested not closed")
				} else {
					r.Violate(rule, key, x.Pos(), "a reply is sent on lockWaiter without testing that the connection is still open: the wills that Close() executes are answered here with nobody reading the channel, so the drain blocks once the channel's buffer is full - the remaining wills never run and Close() never returns", x.St.Trace)
				}
			},
		})
		ex.Run(fn, nil)
		if ex.Imprecise != "" {
			r.Fail("C18/R9 %s: %s", name, ex.Imprecise)
		}
	}
	if n == 0 {
		r.Fail("C18/R9: no send on lockWaiter found in TextServerProtocol")
	}
}

// c18R10: a lock command handed to the local engine (ProcessCommad /
// ProcessLockCommand -> LockDB.Lock / UnLock) belongs to the engine from then
// on: it becomes the hold's command or the engine frees it. A caller that
// frees it as well - the shape of the forward-and-free loops of the
// transparency protocols, where the command is *sent away* and freeing is
// right - returns a live object to the pool: the will's hold is later
// overwritten by an unrelated connection's request.
func c18R10(p *core.Prog, r *core.Report) {
	const rule = "C18/R10"
	r.Rule(rule, "a lock command passed to the local engine through ProcessCommad / ProcessLockCommand is not passed to FreeLockCommand afterwards by the same function", 4)
	strip := func(v ssa.Value) ssa.Value {
		for {
			switch x := v.(type) {
			case *ssa.MakeInterface:
				v = x.X
			case *ssa.ChangeInterface:
				v = x.X
			case *ssa.TypeAssert:
				v = x.X
			default:
				return v
			}
		}
	}
	calleeName := func(ins ssa.Instruction) string {
		ci, ok := ins.(ssa.CallInstruction)
		if !ok {
			return ""
		}
		cc := ci.Common()
		if cc.IsInvoke() {
			return cc.Method.Name()
		}
		if f := cc.StaticCallee(); f != nil {
			return f.Name()
		}
		return ""
	}
	n := 0
	for _, fn := range p.FuncsIn("server") {
		if fn.Blocks == nil {
			continue
		}
		type site struct {
			ins ssa.Instruction
			arg ssa.Value
		}
		var procs, frees []site
		for _, b := range fn.Blocks {
			for _, ins := range b.Instrs {
				name := calleeName(ins)
				if name != "ProcessCommad" && name != "ProcessLockCommand" && name != "FreeLockCommand" {
					continue
				}
				args := ins.(ssa.CallInstruction).Common().Args
				if len(args) == 0 {
					continue
				}
				a := strip(args[len(args)-1])
				if pt, ok := a.Type().Underlying().(*types.Pointer); !ok || core.TypeKey(pt.Elem()) != "protocol.LockCommand" {
					// interface-typed value: keep it, the identity test below decides
					if _, isIface := a.Type().Underlying().(*types.Interface); !isIface {
						continue
					}
				}
				if name == "FreeLockCommand" {
					frees = append(frees, site{ins, a})
				} else {
					procs = append(procs, site{ins, a})
				}
			}
		}
		for i, pr := range procs {
			n++
			key := fmt.Sprintf("%s: %s#%d", core.FuncName(fn), calleeName(pr.ins), i+1)
			bad := ""
			for _, fr := range frees {
				if fr.arg != pr.arg {
					continue
				}
				after := false
				if fr.ins.Block() == pr.ins.Block() {
					for _, ins := range pr.ins.Block().Instrs {
						if ins == pr.ins {
							after = true
						}
						if ins == fr.ins {
							break
						}
					}
					if !after && blockReaches2(pr.ins.Block(), fr.ins.Block()) {
						after = true // through a loop
					}
				} else {
					after = blockReaches2(pr.ins.Block(), fr.ins.Block())
				}
				if after {
					bad = p.InstrPos(fr.ins)
				}
			}
			if bad != "" {
				r.Violate(rule, key, p.InstrPos(pr.ins), "the command handed to the engine is freed by the caller as well (at "+bad+"): the engine keeps it as the hold's command (or has freed it), so a live object returns to the connection's pool and the next request decoded into it rewrites the hold's lock id, key and expiry", nil)
			} else {
				r.Hold(rule, key, p.InstrPos(pr.ins), "not freed by the caller afterwards")
			}
		}
	}
	if n == 0 {
		r.Fail("C18/R10: no hand-over of a lock command to the engine found")
	}
}

// blockReaches2: can control flow from the end of a reach the start of b
// (through at least one edge)?
func blockReaches2(a, b *ssa.BasicBlock) bool {
	seen := map[*ssa.BasicBlock]bool{}
	work := append([]*ssa.BasicBlock{}, a.Succs...)
	for len(work) > 0 {
		c := work[len(work)-1]
		work = work[:len(work)-1]
		if c == b {
			return true
		}
		if seen[c] {
			continue
		}
		seen[c] = true
		work = append(work, c.Succs...)
	}
	return false
}

// c18R11: a connection that announces itself again under another id must take
// its *previous* id out of the client table; the table lookup and delete are
// keyed by the id stored on the proxy, so the store of the new id may not come
// before them on any path - otherwise the new, not yet registered id is
// deleted and the old entry keeps pointing at this connection (replies for
// other vanished connections of the old client are routed to it).
func c18R11(p *core.Prog, r *core.Report) {
	const rule = "C18/R11"
	r.Rule(rule, "BinaryServerProtocol.Init: the proxy's client id is overwritten only after the table entry of the previous id has been looked up and removed", 1)
	fn := mustFunc(p, r, "server.(*BinaryServerProtocol).Init")
	if fn == nil {
		return
	}
	var stores, deletes []ssa.Instruction
	for _, b := range fn.Blocks {
		for _, ins := range b.Instrs {
			switch x := ins.(type) {
			case *ssa.Store:
				if k, ok := storeKey(x.Addr); ok && k == fk("server.ProxyServerProtocol", "clientId") {
					stores = append(stores, ins)
				}
			case *ssa.Call:
				if bi, ok := x.Call.Value.(*ssa.Builtin); ok && bi.Name() == "delete" {
					deletes = append(deletes, ins)
				}
			case *ssa.Lookup:
				if _, ok := x.X.Type().Underlying().(*types.Map); ok {
					deletes = append(deletes, ins)
				}
			}
			// the table clean-up extracted into a helper: the call is the access
			if c := core.StaticCallee(ins); c != nil && core.InModule(c) && c.Blocks != nil && c11AccessesClientTable(c) {
				deletes = append(deletes, ins)
			}
		}
	}
	if len(stores) == 0 || len(deletes) == 0 {
		r.Fail("C18/R11: Init has no client-id store or no table access (%d/%d)", len(stores), len(deletes))
		return
	}
	key := "server.(*BinaryServerProtocol).Init: new id stored after the old entry is removed"
	// the instruction that reads the key of a table access: the load of the
	// proxy's id (a copy taken before the store is as good as the field itself)
	keyRead := func(d ssa.Instruction) ssa.Instruction {
		var k ssa.Value
		switch x := d.(type) {
		case *ssa.Call:
			if len(x.Call.Args) == 2 {
				k = x.Call.Args[1]
			}
		case *ssa.Lookup:
			k = x.Index
		}
		if u, ok := k.(*ssa.UnOp); ok {
			if kk, ok := storeKey(u.X); ok && kk == fk("server.ProxyServerProtocol", "clientId") {
				return u
			}
		}
		return d
	}
	for _, st := range stores {
		for _, d0 := range deletes {
			d := keyRead(d0)
			before := false
			if st.Block() == d.Block() {
				for _, ins := range st.Block().Instrs {
					if ins == st {
						before = true
						break
					}
					if ins == d {
						break
					}
				}
			} else {
				before = blockReaches2(st.Block(), d.Block())
			}
			if before {
				r.Violate(rule, key, p.InstrPos(st), "the proxy's client id is overwritten before the client table is consulted at "+p.InstrPos(d)+": a re-INIT under another id deletes the new id and leaves the old entry pointing at this connection", nil)
				return
			}
		}
	}
	r.Hold(rule, key, p.InstrPos(stores[0]), "table access keyed by the previous id")
}

// c18R12: a vanished connection's proxy is re-adopted by "the connection of
// the same client" through the client table, keyed by the id the connection
// announced with INIT. A connection that never announced one has the all-zero
// id; looking that up adopts its queued requests into whatever connection
// announced the zero id - an unrelated client receives the grant. The lookup
// is made only for an id that was announced (tested non-zero).
func c18R12(p *core.Prog, r *core.Report) {
	const rule = "C18/R12"
	r.Rule(rule, "ProxyServerProtocol re-routes a reply through the client table only after testing that its client id was announced (non-zero)", 1)
	fn := mustFunc(p, r, "server.(*ProxyServerProtocol).ProcessLockResultCommandLocked")
	if fn == nil {
		return
	}
	n, bad, badTrace := 0, "", []string(nil)
	ex := core.NewExplorer(p, core.Hooks{
		Track: func(x *core.X, a core.Atom) bool { return strings.Contains(a.String(), ".clientId") },
		Instr: func(x *core.X) {
			lk, ok := x.Ins.(*ssa.Lookup)
			if !ok || !x.Top() {
				return
			}
			if _, isMap := lk.X.Type().Underlying().(*types.Map); !isMap || !strings.Contains(x.Canon(lk.Index).S, ".clientId") {
				return
			}
			n++
			tested := false
			for h := range x.St.Hist {
				if strings.Contains(h, ".clientId") && strings.Contains(h, " != ") {
					tested = true
				}
			}
			if !tested && bad == "" {
				bad, badTrace = x.Pos(), x.St.Trace
			}
		},
	})
	ex.Run(fn, nil)
	key := "server.(*ProxyServerProtocol).ProcessLockResultCommandLocked: table lookup by an announced id"
	switch {
	case ex.Imprecise != "":
		r.Fail("C18/R12: %s", ex.Imprecise)
	case n == 0:
		r.Fail("C18/R12: no client-table lookup found")
	case bad != "":
		r.Violate(rule, key, bad, "the proxy of a vanished connection is looked up in the client table by an id that may never have been announced (all zero): a connection that sent no INIT, queued a request and disconnected has its grant delivered to whichever client announced the zero id", badTrace)
	default:
		r.Hold(rule, key, p.Pos(fn.Pos()), "id tested before the lookup")
	}
}

// c11AccessesClientTable: does fn look up or delete in a map with a key loaded
// from a proxy's clientId?
func c11AccessesClientTable(fn *ssa.Function) bool {
	for _, b := range fn.Blocks {
		for _, ins := range b.Instrs {
			var k ssa.Value
			switch x := ins.(type) {
			case *ssa.Call:
				if bi, ok := x.Call.Value.(*ssa.Builtin); ok && bi.Name() == "delete" && len(x.Call.Args) == 2 {
					k = x.Call.Args[1]
				}
			case *ssa.Lookup:
				if _, ok := x.X.Type().Underlying().(*types.Map); ok {
					k = x.Index
				}
			}
			if u, ok := k.(*ssa.UnOp); ok {
				if kk, ok := storeKey(u.X); ok && kk == fk("server.ProxyServerProtocol", "clientId") {
					return true
				}
			}
		}
	}
	return false
}

// c18R13: Close is where a connection's wills are executed, its session and
// proxies released. Marking a protocol object closed from outside (setting its
// closed flag without calling its Close) skips all of that: whatever wills the
// object holds are acknowledged and then silently lost. Who-may-write: the
// closed flag of a server protocol object is set to true only by that
// object's own Close method.
func c18R13(p *core.Prog, r *core.Report) {
	const rule = "C18/R13"
	r.Rule(rule, "the closed flag of a server protocol object is set only inside that object's own Close method (a protocol marked closed from outside never runs its wills)", 4)
	n := 0
	for _, fn := range p.FuncsIn("server") {
		if fn.Blocks == nil {
			continue
		}
		ord := 0
		for _, b := range fn.Blocks {
			for _, ins := range b.Instrs {
				st, ok := ins.(*ssa.Store)
				if !ok {
					continue
				}
				fa, ok := st.Addr.(*ssa.FieldAddr)
				if !ok {
					continue
				}
				k := core.FieldKeyOf(fa.X.Type(), fa.Field)
				if k.Field != "closed" || !strings.HasSuffix(k.Type, "ServerProtocol") {
					continue
				}
				if c, ok := st.Val.(*ssa.Const); !ok || c.Value == nil || c.Value.ExactString() != "true" {
					continue
				}
				n++
				own := fn.Name() == "Close" && len(fn.Params) > 0 && fa.X == ssa.Value(fn.Params[0])
				if own {
					r.Hold(rule, core.FuncName(fn)+": closed set by the object's own Close", p.InstrPos(ins), "")
					continue
				}
				ord++
				key := fmt.Sprintf("%s: %s marked closed from outside#%d", core.FuncName(fn), k.Type, ord)
				r.Violate(rule, key, p.InstrPos(ins), "a "+k.Type+" is marked closed without its Close being called: its will queue is never drained (a will registered over the nested text protocol of an ADMIN session is acknowledged with +OK and never runs), its session and proxy are never released", nil)
			}
		}
	}
	if n == 0 {
		r.Fail("C18/R13: no store to a protocol's closed flag found")
	}
}
