package rules

import (
	"fmt"
	"go/constant"
	"go/types"
	"sort"
	"strconv"
	"strings"

	"golang.org/x/tools/go/ssa"

	"slockverif/internal/core"
)

func init() { Registry["C16"] = checkC16 }

func checkC16(p *core.Prog, r *core.Report) {
	r.Explanation = "Decides structural necessary conditions of state-preserving compaction: (R1) the replacement snapshot is published (rewrite.aof.tmp renamed into place) before any compaction input is removed, and during a compaction files are removed only in its commit step; (R2) compactions are serialised by a test-and-set of isRewriting under the Aof mutex, cleared again on every exit (deferred function); (R3) an append file becomes a compaction input only if its index is strictly behind the current append file's (wrap-aware); (R4) the compaction callback drops a record only when its database is gone or LockDB.HasLock says the hold no longer exists - every other record is appended, with its value blob iff it announces one; (R5) the commit step runs only after the load returned no error, and the temporary file is flushed and closed before that; (R6) replay quiescence - the condition the start-up compaction waits for - is decided (flush waiters released, WaitFlushAofChannel returning without waiting) only on paths that read the replay channels' queue counters, because a channel that was handed records but has not woken up yet is not in the active count (a real defect found by this rule's subject was repaired); (R7) every list of log files built from FindAofFiles puts the snapshot before the append files (the list is the read and re-write order). (R8) LockDB.HasLock, the classifier compaction uses, answers \"gone\" for a record that is not a LOCK record only when the key has no manager, nothing is held, or no hold with the record's id exists. (R9) a compaction computes its input list once, before the load; the commit does not recompute it. (R10) the start-up compaction is started only after the replay of the loaded records has been waited for. (R11) the temporary snapshot and its value file are removed before they are opened for writing (a leftover of an interrupted compaction is never extended; a real defect was repaired). (R12) every LockCommand field HasLock reads is assigned by the compaction when it rebuilds the command from a record (a real defect was repaired: TimeoutFlag). NOT decided: equality of the recovered state before/after, appends racing a compaction, every intermediate directory image."
	r.Assumptions = []string{"Go type checker, go/ssa and VTA call graph are correct for /repo", "os.Rename replaces its target atomically"}
	c16R1(p, r)
	c16R2(p, r)
	c16R3(p, r)
	c16R4(p, r)
	c16R5(p, r)
	c16R6(p, r)
	logFileOrderRule(p, r, "C16/R7")
	c16R8(p, r)
	c16R9(p, r)
	c16R10(p, r)
	c16R11(p, r)
	c16R12(p, r)
}

// reachesRemove: does fn (transitively, by static calls in the module) call os.Remove / os.RemoveAll?
func reachesRemove(p *core.Prog, fn *ssa.Function, seen map[*ssa.Function]bool) bool {
	// bounded: the callee itself and its direct module callees (deep chains
	// through ack handling reach unrelated maintenance code)
	if fn == nil || seen[fn] || len(seen) > 12 {
		return false
	}
	seen[fn] = true
	for _, b := range fn.Blocks {
		for _, ins := range b.Instrs {
			c := core.StaticCallee(ins)
			if c == nil {
				continue
			}
			if c.Pkg != nil && c.Pkg.Pkg.Path() == "os" && (c.Name() == "Remove" || c.Name() == "RemoveAll") {
				if removesTmpOutput(ins) {
					continue // clearing a leftover of the compaction's own temporary output retires no input
				}
				return true
			}
			if core.InModule(c) && recvName(c) == "Aof" && len(seen) <= 2 && reachesRemove(p, c, seen) {
				return true
			}
		}
	}
	for _, af := range fn.AnonFuncs {
		if reachesRemove(p, af, seen) {
			return true
		}
	}
	return false
}

// removesTmpOutput: os.Remove(filepath.Join(..., "rewrite.aof.tmp[.dat]")) - the
// path's constant component names the compaction's temporary output.
func removesTmpOutput(ins ssa.Instruction) bool {
	args := core.CallArgs(ins)
	if len(args) == 0 {
		return false
	}
	join, ok := args[0].(*ssa.Call)
	if !ok || join.Call.StaticCallee() == nil || join.Call.StaticCallee().Name() != "Join" || len(join.Call.Args) != 1 {
		return false
	}
	sl, ok := join.Call.Args[0].(*ssa.Slice)
	if !ok {
		return false
	}
	al, ok := sl.X.(*ssa.Alloc)
	if !ok {
		return false
	}
	for _, u := range *al.Referrers() {
		ia, ok := u.(*ssa.IndexAddr)
		if !ok {
			continue
		}
		for _, uu := range *ia.Referrers() {
			if st, ok := uu.(*ssa.Store); ok {
				if c, ok := st.Val.(*ssa.Const); ok && c.Value != nil && c.Value.Kind() == constant.String && strings.Contains(constant.StringVal(c.Value), "rewrite.aof.tmp") {
					return true
				}
			}
		}
	}
	return false
}

func isOsCall(ins ssa.Instruction, name string) bool {
	c := core.StaticCallee(ins)
	return c != nil && c.Pkg != nil && c.Pkg.Pkg.Path() == "os" && c.Name() == name
}

func c16R1(p *core.Prog, r *core.Report) {
	const rule = "C16/R1"
	r.Rule(rule, "compaction commit: rename of rewrite.aof.tmp precedes every removal of an input; no other step of a compaction removes files", 2)
	// The commit is observed from the compaction routine itself, with the commit
	// helper (when there is one) explored inline: the rule is about the order of
	// the file-system effects, not about which function holds them.
	rw := mustFunc(p, r, "server.(*Aof).rewriteAofFiles")
	if rw == nil {
		return
	}
	commit := p.Func("server.(*Aof).clearRewriteAofFiles") // may have been inlined by hand
	var early []string
	pos, firstPos := "", ""
	total := 0
	ex := core.NewExplorer(p, core.Hooks{
		Inline: func(x *core.X, callee *ssa.Function) bool { return commit != nil && callee == commit },
		Track:  func(x *core.X, a core.Atom) bool { return strings.Contains(a.String(), "\"rewrite.aof\"") },
		Instr: func(x *core.X) {
			if !x.Top() && !(commit != nil && underFrame(x, commit)) {
				return
			}
			recordVarargs(x)
			if isOsCall(x.Ins, "Rename") {
				a := pathArg(x, x.Ins, 0)
				if strings.Contains(a, "\"rewrite.aof.tmp\"") {
					x.Set("published", "1")
				}
			}
			if isOsCall(x.Ins, "Remove") {
				total++
				if firstPos == "" {
					firstPos = x.Pos()
				}
				if x.Get("published") == "1" {
					// after publishing: a removed name must not be the published one
					a := core.Plain(pathArg(x, x.Ins, 0))
					literal := strings.Contains(a, "\"") && !strings.Contains(a, "rewrite.aof\"") // a constant other name
					guarded := false
					for h := range x.St.Hist {
						if strings.HasSuffix(h, " != \"rewrite.aof\"") || strings.HasPrefix(h, "\"rewrite.aof\" != ") {
							guarded = true
						}
					}
					if !literal && !guarded && !strings.Contains(a, "Sprintf(") {
						r.Violate(rule, "compaction commit: retire after publish", x.Pos(), "after rewrite.aof.tmp was renamed into place an input is removed whose name is not shown to differ from rewrite.aof (the input list contains the previous snapshot): the snapshot just published is deleted, the next restart recovers nothing from it", x.St.Trace)
					}
				}
				if x.Get("published") != "1" {
					k := siteKey(p, x.Ins)
					dup := false
					for _, e := range early {
						if e == k {
							dup = true
						}
					}
					if !dup {
						early = append(early, k)
						if pos == "" {
							pos = x.Pos()
						}
					}
				}
			}
		},
	})
	ex.Run(rw, nil)
	if ex.Imprecise != "" {
		r.Fail("C16/R1: %s", ex.Imprecise)
	}
	key := "compaction commit: publish before retire"
	if total == 0 {
		r.Fail("C16/R1: no os.Remove found in the compaction commit (rewriteAofFiles / clearRewriteAofFiles)")
	} else if len(early) > 0 {
		r.Violate(rule, key, pos, fmt.Sprintf("%d removal site(s) of compaction inputs execute before rewrite.aof.tmp is renamed into place: a crash in between leaves only rewrite.aof.tmp, which a restart ignores", len(early)), nil)
	} else {
		r.Hold(rule, key, firstPos, "snapshot renamed into place before the inputs are removed")
	}
	// no other removal during a compaction
	for _, b := range rw.Blocks {
		for _, ins := range b.Instrs {
			c := core.StaticCallee(ins)
			if c == nil || !core.InModule(c) {
				continue
			}
			key := siteKey(p, ins)
			if commit != nil && c == commit {
				r.Hold(rule, key, p.InstrPos(ins), "the commit step")
				continue
			}
			if p.IsNewFunc(c) {
				continue // explored inline above: its removals were ordered against the publish
			}
			if reachesRemove(p, c, map[*ssa.Function]bool{}) {
				r.Violate(rule, key, p.InstrPos(ins), "compaction calls "+c.Name()+", which removes files, outside its commit step (inputs or value files can vanish before the snapshot is published)", nil)
			}
		}
	}
}

func c16R2(p *core.Prog, r *core.Report) {
	const rule = "C16/R2"
	r.Rule(rule, "rewriteAofFiles: isRewriting is tested and set under the Aof mutex and cleared on every exit", 2)
	fn := mustFunc(p, r, "server.(*Aof).rewriteAofFiles")
	if fn == nil {
		return
	}
	self := fn.Params[0].Name()
	flag := fk("server.Aof", "isRewriting")
	ex := core.NewExplorer(p, core.Hooks{
		Inline: func(x *core.X, callee *ssa.Function) bool { return callee.Parent() == fn },
		Track:  func(x *core.X, a core.Atom) bool { return strings.HasSuffix(core.Plain(a.L), ".isRewriting") },
		Instr: func(x *core.X) {
			trackLocks(x)
			st, ok := x.Ins.(*ssa.Store)
			if !ok {
				return
			}
			if k, ok := storeKey(st.Addr); !ok || k != flag {
				return
			}
			v := x.Canon(st.Val).S
			key := siteKey(p, x.Ins)
			if v == "true" {
				if held(x, "glock") && x.Passed(self+".isRewriting == false") {
					r.Hold(rule, key, x.Pos(), "test-and-set under the mutex")
					x.Set("set", "1")
				} else {
					r.Violate(rule, key, x.Pos(), "isRewriting set without testing it clear under the Aof mutex: two compactions could run at once", x.St.Trace)
				}
			} else if v == "false" {
				x.Set("set", "")
			}
		},
		Exit: func(x *core.X, rets []core.Expr) {
			if x.Get("set") == "1" {
				r.Violate(rule, "server.(*Aof).rewriteAofFiles: exit", x.Pos(), "returns with isRewriting still set: no later compaction can start", x.St.Trace)
			} else {
				r.Hold(rule, "server.(*Aof).rewriteAofFiles: exit", x.Pos(), "flag cleared (or never taken) on exit")
			}
		},
	})
	ex.Run(fn, nil)
	if ex.Imprecise != "" {
		r.Fail("C16/R2: %s", ex.Imprecise)
	}
}

func c16R3(p *core.Prog, r *core.Report) {
	const rule = "C16/R3"
	r.Rule(rule, "findRewriteAofFiles adds an append file only when its index is strictly behind the current append file", 1)
	fn := mustFunc(p, r, "server.(*Aof).findRewriteAofFiles")
	if fn == nil {
		return
	}
	self := fn.Params[0].Name()
	ex := core.NewExplorer(p, core.Hooks{
		Track: func(x *core.X, a core.Atom) bool {
			return strings.Contains(core.Plain(a.String()), self+".aofFileIndex")
		},
		Instr: func(x *core.X) {
			c, ok := x.Ins.(*ssa.Call)
			if !ok || !x.Top() {
				return
			}
			if bi, ok := c.Common().Value.(*ssa.Builtin); !ok || bi.Name() != "append" {
				return
			}
			// the append of an append-file name (inside the loop)
			if !blockInLoop(x.Ins.Block()) {
				return
			}
			key := siteKey(p, x.Ins)
			behind, wrapped := false, false
			for _, a := range x.St.Facts.All() {
				s := core.Plain(a.String())
				if strings.HasSuffix(s, " < "+self+".aofFileIndex") {
					behind = true
				}
				if strings.HasPrefix(s, "2147483647 <= (") && strings.Contains(s, self+".aofFileIndex") {
					wrapped = true
				}
			}
			if behind || wrapped {
				r.Hold(rule, key, x.Pos(), "only files behind the current index")
			} else {
				r.Violate(rule, key, x.Pos(), "an append file is made a compaction input without establishing that its index is behind the current append file: the file being appended to could be compacted away", x.St.Trace)
			}
		},
	})
	ex.NoHist = true
	ex.Run(fn, nil)
}

func c16R4(p *core.Prog, r *core.Report) {
	const rule = "C16/R4"
	r.Rule(rule, "the compaction callback drops a record only if its database is gone or HasLock is false; kept records carry their value blob iff announced", 2)
	outer := mustFunc(p, r, "server.(*Aof).loadRewriteAofFiles")
	if outer == nil {
		return
	}
	var cb *ssa.Function
	for _, af := range outer.AnonFuncs {
		for _, b := range af.Blocks {
			for _, ins := range b.Instrs {
				if calleeIs(ins, "LockDB", "HasLock") {
					cb = af
				}
			}
		}
	}
	if cb == nil {
		r.Fail("C16/R4: compaction callback (closure calling HasLock) not found in loadRewriteAofFiles")
		return
	}
	// the mark that announces a value blob (other marks of the record - priority, rewritten - say nothing about it)
	dataFlag := strconv.FormatInt(mustConst(p, r, "server", "AOF_FLAG_CONTAINS_DATA"), 10)
	ex := core.NewExplorer(p, core.Hooks{
		Track: func(x *core.X, a core.Atom) bool {
			s := core.Plain(a.String())
			return strings.HasPrefix(s, "HasLock(") || strings.HasPrefix(s, "GetDB(") || strings.Contains(s, "AofFlag & ") || strings.HasPrefix(s, "AppendLock(")
		},
		Instr: func(x *core.X) {
			if !x.Top() {
				return
			}
			if calleeIs(x.Ins, "AofFile", "AppendLock") {
				x.Set("kept", "1")
			}
			if calleeIs(x.Ins, "AofFile", "WriteLockData") {
				x.Set("val", "1")
			}
		},
		Exit: func(x *core.X, rets []core.Expr) {
			gone := false
			notHeld := false
			announced := false
			appendFailed := false
			for h := range x.St.Hist {
				if strings.HasPrefix(h, "GetDB(") && strings.HasSuffix(h, " == nil") {
					gone = true
				}
				if strings.HasPrefix(h, "HasLock(") && strings.HasSuffix(h, " == false") {
					notHeld = true
				}
				if strings.Contains(h, "AofFlag & "+dataFlag+")") && strings.HasSuffix(h, " != 0") {
					announced = true
				}
				if strings.HasPrefix(h, "AppendLock(") && strings.HasSuffix(h, " != nil") {
					appendFailed = true
				}
			}
			kept := x.Get("kept") == "1"
			switch {
			case !kept && (gone || notHeld):
				r.Hold(rule, "compaction callback: record dropped", x.Pos(), "database gone or hold no longer exists")
			case !kept:
				r.Violate(rule, "compaction callback: record dropped without HasLock==false", x.Pos(), "a record is left out of the snapshot although its hold was not found gone (the snapshot would lose a live hold, or a partial release needed to reach the right depth)", x.St.Trace)
			case kept && announced && x.Get("val") != "1" && !appendFailed:
				r.Violate(rule, "compaction callback: value blob", x.Pos(), "record announcing a value is kept without copying its value blob", x.St.Trace)
			default:
				r.Hold(rule, "compaction callback: record kept", x.Pos(), "")
			}
		},
	})
	ex.Run(cb, nil)
	if ex.Imprecise != "" {
		r.Fail("C16/R4: %s", ex.Imprecise)
	}
}

func c16R5(p *core.Prog, r *core.Report) {
	const rule = "C16/R5"
	r.Rule(rule, "commit only after a clean load; temporary snapshot flushed and closed before it is returned", 2)
	if fn := mustFunc(p, r, "server.(*Aof).rewriteAofFiles"); fn != nil {
		commit := p.Func("server.(*Aof).clearRewriteAofFiles")
		seen := 0
		ex := core.NewExplorer(p, core.Hooks{
			Track: func(x *core.X, a core.Atom) bool { return strings.HasPrefix(core.Plain(a.L), "loadRewriteAofFiles(") },
			Instr: func(x *core.X) {
				if !x.Top() || x.Get("committing") == "1" {
					return
				}
				// the commit begins at the call of the commit helper or, when it was
				// inlined by hand, at the first rename / removal
				if !(commit != nil && core.StaticCallee(x.Ins) == commit) && !isOsCall(x.Ins, "Rename") && !isOsCall(x.Ins, "Remove") {
					return
				}
				x.Set("committing", "1")
				seen++
				ok := false
				for h := range x.St.Hist {
					if strings.HasPrefix(h, "loadRewriteAofFiles(") && strings.HasSuffix(h, " == nil") {
						ok = true
					}
				}
				key := "server.(*Aof).rewriteAofFiles: commit after a clean load"
				if ok {
					r.Hold(rule, key, x.Pos(), "load error tested nil before the commit")
				} else {
					r.Violate(rule, key, x.Pos(), "inputs are retired although the snapshot load may have failed", x.St.Trace)
				}
			},
		})
		ex.Run(fn, nil)
		if seen == 0 {
			r.Fail("C16/R5: no commit step found in rewriteAofFiles")
		}
	}
	if fn := mustFunc(p, r, "server.(*Aof).loadRewriteAofFiles"); fn != nil {
		ex := core.NewExplorer(p, core.Hooks{
			Instr: func(x *core.X) {
				if !x.Top() {
					return
				}
				if calleeIs(x.Ins, "AofFile", "Flush") {
					x.Set("fl", "1")
				}
				if calleeIs(x.Ins, "AofFile", "Close") {
					x.Set("cl", x.Get("fl"))
				}
				if calleeIs(x.Ins, "Aof", "LoadAofFiles") {
					x.Set("loaded", "1")
				}
			},
			Exit: func(x *core.X, rets []core.Expr) {
				if x.Get("loaded") != "1" {
					return
				}
				key := "server.(*Aof).loadRewriteAofFiles: return after the load"
				if x.Get("cl") == "1" {
					r.Hold(rule, key, x.Pos(), "flushed then closed")
				} else {
					r.Violate(rule, key, x.Pos(), "temporary snapshot returned without Flush followed by Close: the commit could publish a file whose tail is still in memory", x.St.Trace)
				}
			},
		})
		ex.Run(fn, nil)
	}
}

// c16R6: the start-up compaction (and every other caller of
// WaitFlushAofChannel) relies on "the replay channels are quiescent" meaning
// that every record handed to a channel has been applied. A channel that was
// handed records but has not woken up yet is not counted in
// channelActiveCount, so quiescence cannot be decided from that counter alone:
// every decision - releasing the flush waiters (close of channelFlushWaiter)
// and WaitFlushAofChannel returning without waiting - must also have looked at
// the channels' queue counters on its path. Otherwise the compaction runs
// against half-replayed tables and drops the records of live holds.
func c16R6(p *core.Prog, r *core.Report) {
	const rule = "C16/R6"
	r.Rule(rule, "replay quiescence (release of the flush waiters, WaitFlushAofChannel's no-wait return) is decided only on paths that read the channels' queue counters", 2)
	qk := fk("server.AofChannel", "queueCount")
	readsQueue := func(fn *ssa.Function) bool {
		for _, b := range fn.Blocks {
			for _, ins := range b.Instrs {
				if u, ok := ins.(*ssa.UnOp); ok {
					if fa, ok := u.X.(*ssa.FieldAddr); ok && core.FieldKeyOf(fa.X.Type(), fa.Field) == qk {
						return true
					}
				}
			}
		}
		return false
	}
	for _, fn := range p.FuncsIn("server") {
		if fn.Blocks == nil || recvName(fn) != "Aof" {
			continue
		}
		closes, isWait := false, fn.Name() == "WaitFlushAofChannel"
		for _, b := range fn.Blocks {
			for _, ins := range b.Instrs {
				if c, ok := ins.(*ssa.Call); ok {
					if bi, ok := c.Common().Value.(*ssa.Builtin); ok && bi.Name() == "close" {
						x := &core.X{Fr: &core.Frame{Fn: fn}, St: core.NewState()}
						if strings.HasSuffix(core.Plain(x.Canon(c.Common().Args[0]).S), ".channelFlushWaiter") {
							closes = true
						}
					}
				}
			}
		}
		if !closes && !isWait {
			continue
		}
		name := core.FuncName(fn)
		ex := core.NewExplorer(p, core.Hooks{
			Inline: func(x *core.X, c *ssa.Function) bool {
				return core.InModule(c) && recvName(c) == "Aof" && readsQueue(c)
			},
			Branch: func(x *core.X, a core.Atom) {
				// the loop over the channels was entered (possibly with no channel at all)
				if s := core.Plain(a.String()); strings.Contains(s, "len(") && strings.Contains(s, ".channels)") {
					x.Set("readq", "1")
				}
			},
			Instr: func(x *core.X) {
				switch t := x.Ins.(type) {
				case *ssa.UnOp:
					if fa, ok := t.X.(*ssa.FieldAddr); ok && core.FieldKeyOf(fa.X.Type(), fa.Field) == qk {
						x.Set("readq", "1")
					}
					if t.Op.String() == "<-" && x.Top() {
						x.Set("waited", "1")
					}
				case *ssa.Call:
					if !x.Top() {
						return
					}
					if bi, ok := t.Common().Value.(*ssa.Builtin); ok && bi.Name() == "close" {
						if strings.HasSuffix(core.Plain(x.Canon(t.Common().Args[0]).S), ".channelFlushWaiter") {
							key := name + ": release of the flush waiters"
							if x.Get("readq") == "1" {
								r.Hold(rule, key, x.Pos(), "queue counters read before the release")
							} else {
								r.Violate(rule, key, x.Pos(), "the flush waiters are released on the active-channel counter alone: a channel that was handed records but has not woken up yet is not counted, so callers (start-up compaction) proceed against half-replayed tables and drop live holds", x.St.Trace)
							}
						}
					}
				}
			},
			Exit: func(x *core.X, rets []core.Expr) {
				if !isWait || x.Get("waited") == "1" {
					return
				}
				key := name + ": return without waiting"
				if x.Get("readq") == "1" {
					r.Hold(rule, key, x.Pos(), "queue counters read before deciding not to wait")
				} else {
					r.Violate(rule, key, x.Pos(), "WaitFlushAofChannel returns without waiting and without having read the channels' queue counters", x.St.Trace)
				}
			},
		})
		ex.NoHist = true
		ex.Run(fn, nil)
		if ex.Imprecise != "" {
			r.Fail("C16/R6 %s: %s", name, ex.Imprecise)
		}
	}
}

// logFileOrderRule (C16/R7, shared as C07/R6): the log is a sequence: the
// compacted snapshot rewrite.aof first, then the append files by increasing
// index. Every function that builds a list of log files from FindAofFiles -
// start-up load, compaction input, full transfer to a follower - must put the
// snapshot in front of the append files: the list is the replay order, and the
// compaction writes its output in the order it reads, so a snapshot read after
// newer append files re-applies old depths and values over newer ones.
func logFileOrderRule(p *core.Prog, r *core.Report, rule string) {
	r.Rule(rule, "every list of log files built from FindAofFiles puts the snapshot (rewrite.aof) before the append files on every path", 3)
	find := mustFunc(p, r, "server.(*Aof).FindAofFiles")
	if find == nil {
		return
	}
	for _, fn := range p.FuncsIn("server") {
		if fn.Blocks == nil || fn == find {
			continue
		}
		calls := false
		for _, b := range fn.Blocks {
			for _, ins := range b.Instrs {
				if core.StaticCallee(ins) == find {
					calls = true
				}
			}
		}
		if !calls {
			continue
		}
		name := core.FuncName(fn)
		both, bad := false, false
		ex := core.NewExplorer(p, core.Hooks{
			Instr: func(x *core.X) {
				if !x.Top() {
					return
				}
				v := ""
				switch t := x.Ins.(type) {
				case *ssa.Store:
					// append(list, x) stores x into the variadic argument array first
					ia, ok := t.Addr.(*ssa.IndexAddr)
					if !ok {
						return
					}
					al, ok := ia.X.(*ssa.Alloc)
					if !ok || al.Comment != "varargs" {
						return
					}
					v = core.Plain(x.Canon(t.Val).S)
				case *ssa.Call:
					// append(list, files...)
					bi, ok := t.Common().Value.(*ssa.Builtin)
					if !ok || bi.Name() != "append" || len(t.Common().Args) < 2 {
						return
					}
					// the list of append files itself used as the base the snapshot is appended to
					if base := core.Plain(x.Canon(t.Common().Args[0]).S); strings.Contains(base, "FindAofFiles(") && strings.Contains(base, "#0") && x.Get("snapstore") == "1" {
						both = true
						if !bad {
							bad = true
							r.Violate(rule, name+": log file list order", x.Pos(), "the snapshot rewrite.aof is appended to the list of append files itself: the list is the read / replay order (newest last), so the snapshot's older records are taken for the newest", x.St.Trace)
						}
						return
					}
					x.Set("snapstore", "")
					v = core.Plain(x.Canon(t.Common().Args[1]).S)
					if !strings.Contains(v, "FindAofFiles(") {
						return
					}
				default:
					return
				}
				switch {
				case strings.Contains(v, "FindAofFiles(") && strings.Contains(v, "#1"):
					if _, isStore := x.Ins.(*ssa.Store); isStore {
						x.Set("snapstore", "1")
					}
					if x.Get("files") == "1" {
						both = true
						if !bad {
							bad = true
							r.Violate(rule, name+": log file list order", x.Pos(), "the snapshot rewrite.aof is appended to the list after append files: the list is the read / replay order, so older snapshot records are applied (and re-written by the compaction) after newer append-file records - depths and values regress", x.St.Trace)
						}
					}
					x.Set("snap", "1")
				case strings.Contains(v, "FindAofFiles(") && strings.Contains(v, "#0"):
					if x.Get("snap") == "1" {
						both = true
					}
					x.Set("files", "1")
				}
			},
		})
		ex.NoHist = true
		ex.Run(fn, nil)
		if ex.Imprecise != "" {
			r.Fail("%s %s: %s", rule, name, ex.Imprecise)
		}
		if both && !bad {
			r.Hold(rule, name+": log file list order", p.Pos(fn.Pos()), "snapshot first")
		}
	}
}

// recordVarargs remembers, per path, what is stored into the argument arrays
// of variadic calls (filepath.Join, fmt.Sprintf), so that pathArg can show the
// components of a joined path.
func recordVarargs(x *core.X) {
	st, ok := x.Ins.(*ssa.Store)
	if !ok {
		return
	}
	ia, ok := st.Addr.(*ssa.IndexAddr)
	if !ok {
		return
	}
	al, ok := ia.X.(*ssa.Alloc)
	if !ok || al.Comment != "varargs" {
		return
	}
	if c, ok := ia.Index.(*ssa.Const); ok && c.Value != nil {
		x.Set("va:"+x.Fr.ID+":"+al.Name()+":"+c.Value.ExactString(), x.Canon(st.Val).S)
	}
}

// pathArg renders argument i of a call; a filepath.Join(...) argument is shown
// with its recorded components.
func pathArg(x *core.X, ins ssa.Instruction, i int) string {
	args := core.CallArgs(ins)
	if i >= len(args) {
		return ""
	}
	if c, ok := args[i].(*ssa.Call); ok {
		if callee := c.Common().StaticCallee(); callee != nil && callee.Name() == "Join" && len(c.Common().Args) == 1 {
			if sl, ok := c.Common().Args[0].(*ssa.Slice); ok {
				if al, ok := sl.X.(*ssa.Alloc); ok {
					var parts []string
					for k := 0; k < 8; k++ {
						v := x.Get(fmt.Sprintf("va:%s:%s:%d", x.Fr.ID, al.Name(), k))
						if v == "" {
							break
						}
						parts = append(parts, v)
					}
					return "Join(" + strings.Join(parts, ",") + ")"
				}
			}
		}
	}
	return x.Canon(args[i]).S
}

// c16R8: compaction keeps a record iff LockDB.HasLock says its hold still
// exists. Only a LOCK record carries terms and a value that can be compared
// with the live hold (and be found superseded); every other record of a
// still-held id (a partial release, an unlock followed by a re-acquire under
// the same id) is needed by the replay to reach the right depth and terms.
// So outside the LOCK-record comparison the only reasons to answer "gone" are:
// no manager, nothing held on the key, no hold with that id.
func c16R8(p *core.Prog, r *core.Report) {
	const rule = "C16/R8"
	r.Rule(rule, "LockDB.HasLock answers false for a record that is not a LOCK record only when the key has no manager, nothing is held on it, or no hold with the record's id exists", 2)
	fn := mustFunc(p, r, "server.(*LockDB).HasLock")
	if fn == nil {
		return
	}
	cmd := fn.Params[1].Name()
	lockType := "1"
	if v, ok := constGroup(p, "protocol", "COMMAND_")["COMMAND_LOCK"]; ok {
		lockType = fmt.Sprint(v)
	}
	n := 0
	ex := core.NewExplorer(p, core.Hooks{
		Track: func(x *core.X, a core.Atom) bool { return true },
		Exit: func(x *core.X, rets []core.Expr) {
			if len(rets) != 1 || rets[0].S != "false" {
				return
			}
			n++
			cause, lockArm := "", false
			for h := range x.St.Hist {
				h = core.Plain(h)
				switch {
				case strings.HasPrefix(h, "GetLockManager(") && strings.HasSuffix(h, " == nil") && !strings.Contains(h, ")."):
					cause = "no manager for the key"
				case strings.HasPrefix(h, "GetLockManager(") && strings.HasSuffix(h, ".locked == 0"):
					cause = "nothing held on the key"
				case strings.HasPrefix(h, "GetLockedLock(") && strings.HasSuffix(h, " == nil") && !strings.Contains(h[strings.LastIndex(h, ")"):], "."):
					cause = "no hold with the record's id"
				case strings.HasPrefix(h, cmd+".") && strings.HasSuffix(h, "CommandType == "+lockType):
					lockArm = true
				}
			}
			key := "server.(*LockDB).HasLock: record reported gone"
			switch {
			case cause != "":
				r.Hold(rule, key+" ("+cause+")", x.Pos(), cause)
			case lockArm:
				r.Hold(rule, key+" (LOCK record superseded)", x.Pos(), "inside the comparison of a LOCK record with the live hold")
			default:
				r.Violate(rule, key+" (other reason)", x.Pos(), "a record that is not a LOCK record is reported gone although a hold with its id exists on the path: compaction drops a partial release / an unlock that a later re-acquire under the same id depends on, and the next restart rebuilds the hold with the wrong depth or the terms of an earlier acquisition", x.St.Trace)
			}
		},
	})
	ex.Run(fn, nil)
	if ex.Imprecise != "" {
		r.Fail("C16/R8: %s", ex.Imprecise)
	}
	if n == 0 {
		r.Fail("C16/R8: HasLock has no false return")
	}
}

// c16R9: the commit retires exactly the files the compaction has read. The
// list is computed once (findRewriteAofFiles) before the load; recomputing it
// afterwards - the current append file index may have moved on in the
// meantime - makes the commit delete append files none of whose records
// reached the snapshot.
func c16R9(p *core.Prog, r *core.Report) {
	const rule = "C16/R9"
	r.Rule(rule, "a compaction computes its list of input files once, before it loads them; nothing after the load recomputes the list that the commit removes", 1)
	rw := mustFunc(p, r, "server.(*Aof).rewriteAofFiles")
	if rw == nil {
		return
	}
	commit := p.Func("server.(*Aof).clearRewriteAofFiles")
	n := 0
	bad := false
	ex := core.NewExplorer(p, core.Hooks{
		Inline: func(x *core.X, callee *ssa.Function) bool { return commit != nil && callee == commit },
		Instr: func(x *core.X) {
			if calleeIs(x.Ins, "Aof", "loadRewriteAofFiles") {
				x.Set("loaded", "1")
				return
			}
			if !calleeIs(x.Ins, "Aof", "findRewriteAofFiles") {
				return
			}
			n++
			key := siteKey(p, x.Ins)
			if x.Get("loaded") == "1" {
				bad = true
				r.Violate(rule, key, x.Pos(), "the list of compaction inputs is computed again after the inputs were loaded: an append file rotated out while the compaction was running enters the list and is removed by the commit although none of its records reached the snapshot", x.St.Trace)
			} else if !bad {
				r.Hold(rule, key, x.Pos(), "computed before the load")
			}
		},
	})
	ex.NoHist = true
	ex.Run(rw, nil)
	if ex.Imprecise != "" {
		r.Fail("C16/R9: %s", ex.Imprecise)
	}
	if n == 0 {
		r.Fail("C16/R9: rewriteAofFiles never computes its input list")
	}
}

// c16R10: the compaction keeps a record only when LockDB.HasLock finds the
// hold in the tables. At start-up the tables are filled asynchronously by the
// replay channels, so the start-up compaction may be started only after the
// replay has been waited for (WaitFlushAofChannel): started before, it judges
// holds that are not replayed yet dead, drops their records, retires the
// files they came from - and the next restart has lost them.
func c16R10(p *core.Prog, r *core.Report) {
	const rule = "C16/R10"
	r.Rule(rule, "every start of the compaction (go rewriteAofFiles) in a function that loads the log is dominated by a WaitFlushAofChannel call", 2)
	n := 0
	for _, fn := range p.FuncsIn("server") {
		if fn.Blocks == nil {
			continue
		}
		var waits, starts []ssa.Instruction
		loads := false
		for _, b := range fn.Blocks {
			for _, ins := range b.Instrs {
				switch x := ins.(type) {
				case *ssa.Go:
					if c := x.Call.StaticCallee(); c != nil && c.Name() == "rewriteAofFiles" {
						starts = append(starts, ins)
					}
				case *ssa.Call:
					if c := x.Call.StaticCallee(); c != nil {
						switch c.Name() {
						case "WaitFlushAofChannel":
							waits = append(waits, ins)
						case "LoadAofFiles", "LoadAofFile":
							loads = true
						}
					}
				}
			}
		}
		if !loads {
			continue
		}
		for i, st := range starts {
			n++
			key := fmt.Sprintf("%s: start of the compaction#%d", core.FuncName(fn), i+1)
			ok := false
			for _, w := range waits {
				if instrDominates(w, st) {
					ok = true
				}
			}
			if ok {
				r.Hold(rule, key, p.InstrPos(st), "after WaitFlushAofChannel")
			} else {
				r.Violate(rule, key, p.InstrPos(st), "the start-up compaction is started before the replay of the loaded records has been waited for: it asks the tables about holds that are not replayed yet, drops their records and retires the files - the next restart has lost them", nil)
			}
		}
	}
	if n == 0 {
		r.Fail("C16/R10: no start of the compaction found in a loading function")
	}
}

// c16R11: the compaction writes its output to rewrite.aof.tmp, which is
// opened for appending. A file of that name left behind by an interrupted or
// failed compaction must not be extended: the new snapshot would carry every
// kept record twice (re-entrant depth doubles on the restart after next). The
// function that opens the temporary snapshot for writing removes the record
// file and its value file first.
func c16R11(p *core.Prog, r *core.Report) {
	const rule = "C16/R11"
	r.Rule(rule, "the compaction's output rewrite.aof.tmp (and its value file) is removed before it is opened for writing: a leftover of an interrupted compaction is never extended", 1)
	n := 0
	for _, fn := range p.FuncsIn("server") {
		if fn.Blocks == nil {
			continue
		}
		opens := false
		for _, b := range fn.Blocks {
			for _, ins := range b.Instrs {
				if c := core.StaticCallee(ins); c != nil && c.Name() == "NewAofFile" {
					opens = true
				}
			}
		}
		if !opens {
			continue
		}
		name := core.FuncName(fn)
		ex := core.NewExplorer(p, core.Hooks{
			Instr: func(x *core.X) {
				if !x.Top() {
					return
				}
				recordVarargs(x)
				if isOsCall(x.Ins, "Remove") {
					x.Set("rm:"+core.Plain(pathArg(x, x.Ins, 0)), "1")
					return
				}
				c := core.StaticCallee(x.Ins)
				if c == nil || c.Name() != "NewAofFile" {
					return
				}
				path := core.Plain(pathArg(x, x.Ins, 1))
				if !strings.Contains(path, "rewrite.aof.tmp") {
					return
				}
				if m, ok := constArg(x.Ins, 2); !ok || m == 0 {
					return // read-only
				}
				if x.Get("seen") == "1" {
					return
				}
				x.Set("seen", "1")
				n++
				key := name + ": temporary snapshot starts empty"
				dat := strings.Replace(path, "rewrite.aof.tmp", "rewrite.aof.tmp.dat", 1)
				switch {
				case x.Get("rm:"+path) != "1":
					r.Violate(rule, key, x.Pos(), "rewrite.aof.tmp is opened for appending without being removed first: a file left by a compaction that was interrupted after writing it (or that failed on a read error) is extended, rewrite.aof then carries every kept record twice and a re-entrant hold comes back with twice its depth after the restart after next", x.St.Trace)
				case x.Get("rm:"+dat) != "1":
					r.Violate(rule, key, x.Pos(), "the value file rewrite.aof.tmp.dat of a leftover temporary snapshot is not removed before the new one is written: values are appended behind the leftover's and no longer line up with their records", x.St.Trace)
				default:
					r.Hold(rule, key, x.Pos(), "record and value file removed before the open")
				}
			},
		})
		ex.NoHist = true
		ex.Run(fn, nil)
	}
	if n == 0 {
		r.Fail("C16/R11: no function opens rewrite.aof.tmp for writing")
	}
}

// c16R12: the compaction decides whether a record is still needed by asking
// LockDB.HasLock with a LockCommand it rebuilds from the record, in an object
// that starts zeroed. Every field of that command which HasLock (or a function
// it hands the command to) reads must be assigned from the record, as the
// replay does - a field left zero makes HasLock compare against the wrong
// request (TimeoutFlag carries RCOUNT_IS_PRIORITY: an update record of a
// priority hold is then judged different from the live hold and dropped).
func c16R12(p *core.Prog, r *core.Report) {
	const rule = "C16/R12"
	r.Rule(rule, "every LockCommand field read by LockDB.HasLock (directly or in a function it passes the command to) is assigned by loadRewriteAofFiles when it rebuilds the command from a record", 5)
	has := mustFunc(p, r, "server.(*LockDB).HasLock")
	load := mustFunc(p, r, "server.(*Aof).loadRewriteAofFiles")
	if has == nil || load == nil {
		return
	}
	isCmd := func(t types.Type) bool {
		pt, ok := t.Underlying().(*types.Pointer)
		return ok && core.TypeKey(pt.Elem()) == "protocol.LockCommand"
	}
	reads := map[string]string{} // field -> where
	var scan func(fn *ssa.Function, param ssa.Value, depth int)
	scan = func(fn *ssa.Function, param ssa.Value, depth int) {
		if fn == nil || fn.Blocks == nil || depth > 2 {
			return
		}
		for _, b := range fn.Blocks {
			for _, ins := range b.Instrs {
				switch x := ins.(type) {
				case *ssa.FieldAddr:
					if x.X != param {
						continue
					}
					// a read (any referrer that is not a store to this address); the
					// embedded protocol.Command is looked through to its own fields
					for _, u := range *x.Referrers() {
						if st, ok := u.(*ssa.Store); ok && st.Addr == ssa.Value(x) {
							continue
						}
						k := core.FieldKeyOf(x.X.Type(), x.Field)
						if sub, ok := u.(*ssa.FieldAddr); ok && sub.X == ssa.Value(x) {
							k = core.FieldKeyOf(sub.X.Type(), sub.Field)
						}
						if _, ok := reads[k.Field]; !ok {
							reads[k.Field] = core.FuncName(fn)
						}
					}
				case ssa.CallInstruction:
					c := x.Common().StaticCallee()
					if c == nil || !core.InModule(c) {
						continue
					}
					for i, a := range x.Common().Args {
						if a == param && i < len(c.Params) {
							scan(c, c.Params[i], depth+1)
						}
					}
				}
			}
		}
	}
	for _, q := range has.Params {
		if isCmd(q.Type()) {
			scan(has, q, 0)
		}
	}
	assigned := map[string]bool{}
	var collect func(fn *ssa.Function)
	collect = func(fn *ssa.Function) {
		for _, b := range fn.Blocks {
			for _, ins := range b.Instrs {
				if st, ok := ins.(*ssa.Store); ok {
					if k, ok := storeKey(st.Addr); ok && (k.Type == "protocol.LockCommand" || k.Type == "protocol.Command") {
						assigned[k.Field] = true
					}
				}
			}
		}
		for _, af := range fn.AnonFuncs {
			collect(af)
		}
	}
	collect(load)
	if len(reads) == 0 || len(assigned) == 0 {
		r.Fail("C16/R12: no field reads in HasLock (%d) or no assignments in loadRewriteAofFiles (%d)", len(reads), len(assigned))
		return
	}
	var fields []string
	for f := range reads {
		fields = append(fields, f)
	}
	sort.Strings(fields)
	for _, f := range fields {
		key := "server.(*Aof).loadRewriteAofFiles: LockCommand." + f + " assigned before HasLock"
		if assigned[f] {
			r.Hold(rule, key, p.Pos(load.Pos()), "assigned from the record (read in "+reads[f]+")")
		} else {
			r.Violate(rule, key, p.Pos(load.Pos()), "HasLock reads command."+f+" (in "+reads[f]+") but the compaction never assigns it - it is always zero there, while the replay derives it from the record: a record of a hold taken with the priority flag is compared as if the flag were clear, judged different from the live hold and dropped from the snapshot (the recovered deadline differs before and after the compaction)", nil)
		}
	}
}
