package rules

import (
	"fmt"
	"os"
	"sort"
	"strings"

	"golang.org/x/tools/go/ssa"

	"slockverif/internal/core"
)

// lockState is the interprocedural must-hold analysis (engine E3) for one
// abstract mutex class. Functions are explored once per entry state reached
// from the goroutine roots; callees are applied as summaries
// entryHeld -> {(exitHeld, constant bool result)}.
type lockState struct {
	p       *core.Prog
	r       *core.Report
	classes map[string]bool                // mutex classes tracked ("shard", "ackGlocks", ...)
	isStore func(k core.FieldKey) bool     // fields whose stores are observed
	isEvent func(ins ssa.Instruction) bool // other instructions that make a function relevant (observed calls)
	// observe is called for every instruction of a function explored as top
	// (stores, calls, loads) with the current held state.
	observe func(x *core.X, top *ssa.Function, entry string)

	relevant map[*ssa.Function]bool
	sum      map[lsKey][]lsExit
	inprog   map[lsKey]bool
	via      map[lsKey]string // first requesting context of each explored (fn, entry)
	cur      []lsKey          // stack of contexts being explored
	Explored int
	Steps    int
	Dead     []string // relevant functions with no caller at all (not analysed)
}

type lsKey struct {
	fn   *ssa.Function
	held string // sorted, comma-joined held classes
}

type lsExit struct {
	held string
	ret  string
}

// heldSet renders the tracked classes currently held.
func (ls *lockState) heldSet(x *core.X) string {
	var hs []string
	for c := range ls.classes {
		if held(x, c) {
			hs = append(hs, c)
		}
	}
	sort.Strings(hs)
	return strings.Join(hs, ",")
}

func (ls *lockState) setMap(h string) map[string]string {
	m := map[string]string{}
	for c := range ls.classes {
		m["L:"+c] = ""
	}
	if h != "" {
		for _, c := range strings.Split(h, ",") {
			m["L:"+c] = "1"
		}
	}
	return m
}

// computeRelevant marks functions that transitively operate the mutex class
// or store to observed fields.
func (ls *lockState) computeRelevant() {
	ls.relevant = map[*ssa.Function]bool{}
	cg := ls.p.CallGraph()
	direct := map[*ssa.Function]bool{}
	for _, fn := range ls.p.Funcs() {
		if fn.Blocks == nil {
			continue
		}
		x := &core.X{Fr: &core.Frame{Fn: fn}, St: core.NewState()}
		for _, b := range fn.Blocks {
			for _, ins := range b.Instrs {
				if c, _, ok := mutexOp(x, ins); ok && ls.classes[c] {
					direct[fn] = true
				}
				if ls.isEvent != nil && ls.isEvent(ins) {
					direct[fn] = true
				}
				if st, ok := ins.(*ssa.Store); ok && ls.isStore != nil {
					if k, ok := storeKey(st.Addr); ok && ls.isStore(k) {
						direct[fn] = true
					}
				}
			}
		}
	}
	// backward closure over call edges
	work := make([]*ssa.Function, 0, len(direct))
	for f := range direct {
		ls.relevant[f] = true
		work = append(work, f)
	}
	for len(work) > 0 {
		f := work[len(work)-1]
		work = work[:len(work)-1]
		n := cg.Nodes[f]
		if n == nil {
			continue
		}
		for _, e := range n.In {
			c := e.Caller.Func
			if c == nil || !core.InModule(c) || ls.relevant[c] {
				continue
			}
			if _, isGo := e.Site.(*ssa.Go); isGo {
				continue
			}
			ls.relevant[c] = true
			work = append(work, c)
		}
	}
}

// summary explores fn with the given entry state (once) and returns its exits.
func (ls *lockState) summary(fn *ssa.Function, entry string) []lsExit {
	k := lsKey{fn, entry}
	if s, ok := ls.sum[k]; ok {
		return s
	}
	if ls.inprog[k] {
		return []lsExit{{held: entry}} // recursion: assume the state is preserved
	}
	ls.inprog[k] = true
	defer delete(ls.inprog, k)
	if len(ls.cur) > 0 {
		ls.via[k] = ls.ctxName(ls.cur[len(ls.cur)-1])
	} else {
		ls.via[k] = "root"
	}
	ls.cur = append(ls.cur, k)
	defer func() { ls.cur = ls.cur[:len(ls.cur)-1] }()
	exits := map[lsExit]bool{}
	init := core.NewState()
	for k, v := range ls.setMap(entry) {
		if v != "" {
			init.RS[k] = v
		}
	}
	ex := core.NewExplorer(ls.p, core.Hooks{
		Instr: func(x *core.X) {
			if !x.Top() {
				return
			}
			if c, acq, ok := mutexOp(x, x.Ins); ok {
				if ls.classes[c] {
					if acq {
						x.Set("L:"+c, "1")
					} else {
						x.Set("L:"+c, "")
					}
				}
				return
			}
			if ls.observe != nil {
				ls.observe(x, fn, entry)
			}
		},
		Call: func(x *core.X, site ssa.CallInstruction) ([]core.CallOut, bool) {
			if _, isGo := site.(*ssa.Go); isGo {
				return nil, false
			}
			var rel []*ssa.Function
			for _, c := range ls.p.Callees(site) {
				if ls.relevant[c] && c.Blocks != nil {
					rel = append(rel, c)
				}
			}
			if len(rel) == 0 {
				return nil, false
			}
			cur := ls.heldSet(x)
			seen := map[lsExit]bool{}
			var outs []core.CallOut
			for _, c := range rel {
				for _, e := range ls.summary(c, cur) {
					if len(rel) > 1 {
						e.ret = "" // dynamic dispatch: result not attributable
					}
					if seen[e] {
						continue
					}
					seen[e] = true
					outs = append(outs, core.CallOut{Set: ls.setMap(e.held), Ret: e.ret})
				}
			}
			if len(outs) == 0 {
				// callee never returns on any path (e.g. infinite loop): keep state
				outs = []core.CallOut{{Set: map[string]string{}}}
			}
			return outs, true
		},
		Infeasible: shardAxiom,
		Exit: func(x *core.X, rets []core.Expr) {
			e := lsExit{held: ls.heldSet(x)}
			if len(rets) == 1 && (rets[0].S == "true" || rets[0].S == "false") {
				e.ret = rets[0].S
			}
			exits[e] = true
		},
	})
	ex.MaxSteps = 2_000_000
	if os.Getenv("SLOCKCHECK_TRACE") != "" {
		fmt.Fprintf(os.Stderr, "lockstate: exploring %s held=%v\n", core.FuncName(fn), entry)
	}
	ex.Run(fn, init)
	if os.Getenv("SLOCKCHECK_TRACE") != "" {
		fmt.Fprintf(os.Stderr, "lockstate: done %s steps=%d\n", core.FuncName(fn), ex.Steps)
	}
	ls.Explored++
	ls.Steps += ex.Steps
	if ex.Imprecise != "" {
		ls.r.Fail("lock-state exploring %s: %s", core.FuncName(fn), ex.Imprecise)
	}
	var out []lsExit
	for e := range exits {
		out = append(out, e)
	}
	sort.Slice(out, func(i, j int) bool {
		if out[i].held != out[j].held {
			return out[i].held < out[j].held
		}
		return out[i].ret < out[j].ret
	})
	ls.sum[k] = out
	return out
}

func (ls *lockState) ctxName(k lsKey) string {
	h := k.held
	if h == "" {
		h = "none held"
	}
	return core.FuncName(k.fn) + "[" + h + "]"
}

// chain renders how a context was first reached from a root.
func (ls *lockState) chain(fn *ssa.Function, entry string) string {
	k := lsKey{fn, entry}
	out := ls.ctxName(k)
	for i := 0; i < 6; i++ {
		v, ok := ls.via[k]
		if !ok || v == "root" {
			return out + " <- root"
		}
		out += " <- " + v
		// parse back
		found := false
		for kk := range ls.via {
			if ls.ctxName(kk) == v {
				k = kk
				found = true
				break
			}
		}
		if !found {
			break
		}
	}
	return out
}

// run explores every relevant function reachable from the roots. Roots are
// relevant functions without ordinary module callers, and targets of go
// statements; they start with the mutex not held.
func (ls *lockState) run() {
	ls.sum = map[lsKey][]lsExit{}
	ls.inprog = map[lsKey]bool{}
	ls.via = map[lsKey]string{}
	ls.computeRelevant()
	cg := ls.p.CallGraph()
	var roots []*ssa.Function
	for fn := range ls.relevant {
		n := cg.Nodes[fn]
		isRoot := true
		if n == nil || (len(n.In) == 0 && fn.Name() != "main" && fn.Name() != "init") {
			ls.Dead = append(ls.Dead, core.FuncName(fn))
			continue // no caller of any kind: unreachable code, not an obligation
		}
		if n != nil {
			for _, e := range n.In {
				if e.Caller.Func == nil || !core.InModule(e.Caller.Func) || e.Caller.Func == fn {
					continue
				}
				if _, isGo := e.Site.(*ssa.Go); isGo {
					continue
				}
				isRoot = false
				break
			}
			for _, e := range n.In {
				if _, isGo := e.Site.(*ssa.Go); isGo {
					isRoot = true
				}
			}
		}
		if isRoot {
			roots = append(roots, fn)
		}
	}
	sort.Slice(roots, func(i, j int) bool { return core.FuncName(roots[i]) < core.FuncName(roots[j]) })
	for _, fn := range roots {
		ls.summary(fn, "")
	}
	sort.Strings(ls.Dead)
	ls.r.Stats["lockstate_roots"] = len(roots)
	ls.r.Stats["lockstate_relevant_functions"] = len(ls.relevant)
	ls.r.Stats["lockstate_contexts_explored"] = ls.Explored
	ls.r.Stats["lockstate_steps"] = ls.Steps
	ls.r.Stats["lockstate_unreachable_functions"] = len(ls.Dead)
}

// shardAxiom: a LockDB has at least one shard (NewLockDB sets managerMaxGlocks
// to the configured concurrency or 2*NumCPU, never 0), so a loop over all
// shards runs at least once.
func shardAxiom(a core.Atom) bool {
	l := core.Plain(a.L)
	return strings.HasSuffix(l, ".managerMaxGlocks") && (a.Op == "<=" && a.R == "0" || a.Op == "==" && a.R == "0")
}
