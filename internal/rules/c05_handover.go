package rules

import (
	"go/constant"
	"go/token"

	"golang.org/x/tools/go/ssa"

	"slockverif/internal/core"
)

// msHandOverRule (C05/R9, C06/R10): the millisecond wheel has M slots and
// Add<Millisecond>X files an entry `amount % M` milliseconds ahead, so the slot
// of an entry whose amount is >= M comes round before its deadline. The sweep
// of that slot may keep an entry for firing only when amount < M; every entry
// with amount >= M must take the hand-over to the second wheel (AddTimeOut /
// AddExpried). Structurally: the comparison of the entry's amount with a
// constant that guards the hand-over call hands over every amount >= t with
// t <= M, where M is the modulus constant read from the filing function.
func msHandOverRule(p *core.Prog, r *core.Report, rule, sweeper, filer, handOver, amount string) {
	r.Rule(rule, "the millisecond sweep hands every entry whose "+amount+" is >= the wheel's modulus over to the second wheel (threshold of the guarding comparison <= modulus of the filing function)", 1)
	sw, fl := mustFunc(p, r, sweeper), mustFunc(p, r, filer)
	if sw == nil || fl == nil {
		return
	}
	isAmount := func(v ssa.Value) bool {
		for {
			switch x := v.(type) {
			case *ssa.Convert:
				v = x.X
				continue
			case *ssa.ChangeType:
				v = x.X
				continue
			case *ssa.UnOp:
				if fa, ok := x.X.(*ssa.FieldAddr); ok && x.Op == token.MUL {
					return fieldName(fa) == amount
				}
			}
			return false
		}
	}
	constOf := func(v ssa.Value) (int64, bool) {
		for {
			if cv, ok := v.(*ssa.Convert); ok {
				v = cv.X
				continue
			}
			break
		}
		if c, ok := v.(*ssa.Const); ok && c.Value != nil && c.Value.Kind() == constant.Int {
			n, exact := constant.Int64Val(c.Value)
			return n, exact
		}
		return 0, false
	}
	// modulus M: `amount % M` in the filing function
	var mod int64 = -1
	for _, b := range fl.Blocks {
		for _, ins := range b.Instrs {
			if bo, ok := ins.(*ssa.BinOp); ok && bo.Op == token.REM && isAmount(bo.X) {
				if n, ok := constOf(bo.Y); ok {
					if mod >= 0 && mod != n {
						r.Fail("%s: %s takes the amount modulo two different constants", rule, filer)
						return
					}
					mod = n
				}
			}
		}
	}
	if mod <= 0 {
		r.Fail("%s: no `%s %% constant` found in %s", rule, amount, filer)
		return
	}
	key := sweeper + ": hand-over threshold"
	n := 0
	for _, b := range sw.Blocks {
		for _, ins := range b.Instrs {
			call, ok := ins.(*ssa.Call)
			if !ok {
				continue
			}
			cal := call.Call.StaticCallee()
			if cal == nil || cal.Name() != handOver {
				continue
			}
			n++
			// nearest dominating If on the amount
			thr, found := int64(-1), false
			for d := b; d != nil && !found; d = d.Idom() {
				id := d.Idom()
				if id == nil {
					break
				}
				iff, ok := id.Instrs[len(id.Instrs)-1].(*ssa.If)
				if !ok {
					continue
				}
				bo, ok := iff.Cond.(*ssa.BinOp)
				if !ok {
					continue
				}
				onTrue := id.Succs[0] == d && id.Succs[1] != d
				onFalse := id.Succs[1] == d && id.Succs[0] != d
				if !onTrue && !onFalse {
					continue
				}
				op, x, y := bo.Op, bo.X, bo.Y
				if !isAmount(x) && isAmount(y) { // K op amount  ->  amount op' K
					x, y = y, x
					switch op {
					case token.LSS:
						op = token.GTR
					case token.LEQ:
						op = token.GEQ
					case token.GTR:
						op = token.LSS
					case token.GEQ:
						op = token.LEQ
					}
				}
				if !isAmount(x) {
					continue
				}
				k, ok := constOf(y)
				if !ok {
					continue
				}
				if onFalse { // negate
					switch op {
					case token.LSS:
						op = token.GEQ
					case token.LEQ:
						op = token.GTR
					case token.GEQ:
						op = token.LSS
					case token.GTR:
						op = token.LEQ
					}
				}
				switch op {
				case token.GEQ:
					thr, found = k, true
				case token.GTR:
					thr, found = k+1, true
				default:
					// hand-over on the small side: entries >= M are not handed over
					thr, found = 1<<62, true
				}
			}
			if !found {
				r.Violate(rule, key, p.InstrPos(call), "the hand-over to the second wheel is not guarded by a comparison of the entry's "+amount+" with a constant", nil)
			} else if thr <= mod {
				r.Hold(rule, key, p.InstrPos(call), "every entry with amount >= modulus is handed over")
			} else {
				r.Violate(rule, key, p.InstrPos(call), "an entry whose "+amount+" equals the wheel's modulus (or lies between it and the comparison's threshold) is filed 0..k ms ahead by the `% modulus` of "+filer+" and is not handed over to the second wheel: the sweep fires it seconds before its deadline", nil)
			}
		}
	}
	if n == 0 {
		r.Violate(rule, key, p.Pos(sw.Pos()), "the millisecond sweep never hands an entry over to the second wheel: every entry with "+amount+" >= the modulus fires early", nil)
	}
}
