package rules

import (
	"fmt"
	"go/types"
	"strings"

	"golang.org/x/tools/go/ssa"

	"slockverif/internal/core"
)

func init() { Registry["C08"] = checkC08 }

func checkC08(p *core.Prog, r *core.Report) {
	r.Explanation = "Decides structural necessary conditions of clean-prefix recovery: (R1) the log readers (AofFile.ReadLock, ReadHeader, ReadLockData, ReadTail) never report success after a detected failure: no return of an error value that the path facts prove nil while another error was found non-nil, and ReadLock's success returns carry the full-record equality n == recordLen+2; (R2) ReadHeader succeeds only after n == 12, the magic and the version tests; opening for append truncates a file shorter than its 12-byte header before writing a new header; (R3) in LoadAofFile a failed value read returns the error without invoking the record callback for that record; the record's value blob is read before any skip of the record (so the sequential value file stays aligned); (R4) AofFile.Flush writes the record file before the value file on every path; (R5) value bytes are buffered (dwindex grows) only on paths where records are buffered too (windex > 0), because Close and the rotation path flush only when records are buffered. (R6) the readers never hand out the error of io.ReadFull / io.ReadAtLeast unmapped (a partly present item must read as io.EOF, the only value the loaders treat as end of log); (R7) an oversized value is written directly to the value file only with the record buffer empty. (R8) the sequential readers return a constructed (non-EOF) error only about an item they have read completely - a partly present header or record must read as io.EOF; (R9) opening the newest append file for append cuts it back to a whole number of records before anything is appended. (R10) some function of the log truncates the value file - none does: known finding. (R11) a Truncate in AofFile.Open is made on files opened with O_APPEND, or a Seek follows (Truncate does not move the offset). (R12) ReadTail reads the newest record at an offset aligned to whole records (a real defect was repaired: a follower refused to start on a torn file). NOT decided: behaviour at each of the 64 residues, where exactly the two files are cut after a crash between the two writes, fsync timing - these need crash images."
	r.Assumptions = []string{"Go type checker and go/ssa are correct for /repo", "bufio.Reader.Read returns (n>0, nil) or (0, err)"}
	c08R1(p, r)
	c08R2(p, r)
	c08R3(p, r)
	c08R4(p, r)
	c08R5(p, r)
	c08R6(p, r)
	c08R7(p, r)
	c08R8(p, r)
	c08R9(p, r)
	c08R10(p, r)
	c08R11(p, r)
	c08R12(p, r)
}

func c08R1(p *core.Prog, r *core.Report) {
	const rule = "C08/R1"
	r.Rule(rule, "log readers never return a nil-proven error value after a detected failure; ReadLock succeeds only with n == recordLen+2", 8)
	for _, name := range []string{"server.(*AofFile).ReadLock", "server.(*AofFile).ReadHeader", "server.(*AofFile).ReadLockData", "server.(*AofFile).ReadTail"} {
		fn := mustFunc(p, r, name)
		if fn == nil {
			continue
		}
		ex := core.NewExplorer(p, core.Hooks{
			Track: func(x *core.X, a core.Atom) bool { return true },
			Exit: func(x *core.X, rets []core.Expr) {
				if len(rets) != 1 {
					return
				}
				ret := x.Ins.(*ssa.Return)
				key := siteKey(p, ret)
				e := rets[0].S
				if e == "nil" {
					if strings.HasSuffix(name, "ReadLock") {
						ok := false
						for h := range x.St.Hist {
							if strings.Contains(h, " == ") && strings.Contains(h, " + 2)") && strings.Contains(h, "Read(") {
								ok = true
							}
						}
						if ok {
							r.Hold(rule, key, x.Pos(), "success only with the full record length")
						} else {
							r.Violate(rule, key, x.Pos(), "ReadLock reports success without n == recordLen+2 on the path: a partial record would be accepted", x.St.Trace)
						}
					} else {
						r.Hold(rule, key, x.Pos(), "success return")
					}
					return
				}
				// returning an error value: it must not be known nil while some other error was detected
				knownNil := x.St.Facts.HasPlain(core.Plain(e)+" == nil") || x.Passed(core.Plain(e)+" == nil") && !x.Passed(core.Plain(e)+" != nil")
				if knownNil {
					r.Violate(rule, key, x.Pos(), "returns "+stable(e)+", which is nil on this path, after a failure was detected: the caller sees success (torn data accepted)", x.St.Trace)
				} else {
					r.Hold(rule, key, x.Pos(), "error propagated")
				}
			},
		})
		ex.Run(fn, nil)
		if ex.Imprecise != "" {
			r.Fail("C08/R1 %s: %s", name, ex.Imprecise)
		}
	}
}

func c08R2(p *core.Prog, r *core.Report) {
	const rule = "C08/R2"
	r.Rule(rule, "ReadHeader succeeds only after n==12, magic and version tests; Open(append) truncates a sub-header file before rewriting the header", 2)
	if fn := mustFunc(p, r, "server.(*AofFile).ReadHeader"); fn != nil {
		ex := core.NewExplorer(p, core.Hooks{
			Track: func(x *core.X, a core.Atom) bool { return true },
			Exit: func(x *core.X, rets []core.Expr) {
				if len(rets) != 1 || rets[0].S != "nil" {
					return
				}
				key := "server.(*AofFile).ReadHeader: success"
				var miss []string
				has := func(sub ...string) bool {
					for h := range x.St.Hist {
						all := true
						for _, s := range sub {
							if !strings.Contains(h, s) {
								all = false
							}
						}
						if all {
							return true
						}
					}
					return false
				}
				suffix := func(suf string, sub ...string) bool {
					for h := range x.St.Hist {
						if strings.HasSuffix(h, suf) {
							all := true
							for _, s := range sub {
								if !strings.Contains(h, s) {
									all = false
								}
							}
							if all {
								return true
							}
						}
					}
					return false
				}
				if !suffix(" == 12", "Read(") {
					miss = append(miss, "n == 12")
				}
				if !has("\"SLOCKAOF\"", "==") {
					miss = append(miss, "magic == SLOCKAOF")
				}
				if !suffix(" == 1", "[8]", "[9]") {
					miss = append(miss, "version == 1")
				}
				if len(miss) > 0 {
					r.Violate(rule, key, x.Pos(), "header accepted without: "+strings.Join(miss, ", "), x.St.Trace)
				} else {
					r.Hold(rule, key, x.Pos(), "")
				}
			},
		})
		ex.Run(fn, nil)
	}
	if fn := mustFunc(p, r, "server.(*AofFile).Open"); fn != nil {
		self := fn.Params[0].Name()
		ex := core.NewExplorer(p, core.Hooks{
			Track: func(x *core.X, a core.Atom) bool { return strings.Contains(core.Plain(a.String()), self+".size") },
			Instr: func(x *core.X) {
				if !x.Top() {
					return
				}
				if n, _ := core.CallName(x.Ins); n == "Truncate" {
					x.Set("trunc", "1")
				}
				if calleeIs(x.Ins, "AofFile", "WriteHeader") {
					key := siteKey(p, x.Ins)
					empty := x.Passed(self + ".size == 0")
					switch {
					case empty:
						r.Hold(rule, key, x.Pos(), "new file: header written")
					case x.Passed(self+".size < 12") && x.Get("trunc") == "1":
						r.Hold(rule, key, x.Pos(), "sub-header file truncated, header rewritten")
					default:
						r.Violate(rule, key, x.Pos(), "header written into a non-empty file that was not truncated (records would follow a torn header)", x.St.Trace)
					}
				}
			},
		})
		ex.Run(fn, nil)
	}
}

func c08R3(p *core.Prog, r *core.Report) { loadAlignRule(p, r, "C08/R3") }

// loadAlignRule is shared by C08/R3 and C07/R4 (reader half).
func loadAlignRule(p *core.Prog, r *core.Report, rule string) {
	r.Rule(rule, "LoadAofFile: a record's value blob is read before the record can be skipped, and a failed value read ends the load without the callback", 2)
	fn := mustFunc(p, r, "server.(*Aof).LoadAofFile")
	if fn == nil {
		return
	}
	iter := fn.Params[len(fn.Params)-1]
	ex := core.NewExplorer(p, core.Hooks{
		Track: func(x *core.X, a core.Atom) bool {
			s := core.Plain(a.String())
			return strings.Contains(s, "AofFlag & ") || strings.HasPrefix(s, "ReadLockData(")
		},
		Instr: func(x *core.X) {
			if !x.Top() {
				return
			}
			switch {
			case calleeIs(x.Ins, "AofFile", "ReadLock"):
				x.Set("rec", "fresh")
				x.Set("data", "")
			case calleeIs(x.Ins, "AofLock", "Decode"):
				x.Set("rec", "decoded")
			case calleeIs(x.Ins, "AofFile", "ReadLockData"):
				x.Set("data", "read")
			}
			if c, ok := x.Ins.(*ssa.Call); ok && c.Common().Value == ssa.Value(iter) {
				key := siteKey(p, x.Ins)
				failed := false
				for _, a := range x.St.Facts.All() {
					if strings.HasPrefix(core.Plain(a.L), "ReadLockData(") && a.Op == "!=" && a.R == "nil" {
						failed = true
					}
				}
				if failed {
					r.Violate(rule, key, x.Pos(), "record callback invoked although the value read failed", x.St.Trace)
				} else {
					r.Hold(rule, key, x.Pos(), "callback only after a complete value read")
				}
			}
		},
		Branch: func(x *core.X, a core.Atom) {
			// any decision that may skip the record (a `continue`) taken after Decode must come
			// after the value blob was consumed when the record announces one
			if x.Get("rec") != "decoded" || !x.Top() {
				return
			}
			s := core.Plain(a.String())
			if strings.Contains(s, "AofFlag & ") || strings.HasPrefix(s, "Decode(") || strings.HasPrefix(s, "ReadLockData(") {
				if strings.Contains(s, "AofFlag & ") && a.Op == "!=" {
					x.Set("hasdata", "1")
				}
				if strings.Contains(s, "AofFlag & ") && a.Op == "==" {
					x.Set("hasdata", "0")
				}
				return
			}
			if x.Get("hasdata") == "" {
				r.Violate(rule, "server.(*Aof).LoadAofFile: skip decision before the value-blob test", x.Pos(), "a record is examined for skipping ("+stable(s)+") before its contains-data flag was tested and its value consumed: the sequential value file loses alignment for every later record", x.St.Trace)
				x.Set("hasdata", "reported")
			} else if x.Get("hasdata") == "1" && x.Get("data") != "read" {
				r.Violate(rule, "server.(*Aof).LoadAofFile: skip decision before the value read", x.Pos(), "record with a value is examined for skipping before ReadLockData consumed its blob", x.St.Trace)
				x.Set("hasdata", "reported")
			} else if x.Get("hasdata") != "reported" {
				r.Hold(rule, "server.(*Aof).LoadAofFile: skip decisions follow the value read", x.Pos(), "")
			}
		},
	})
	ex.NoHist = true
	ex.Run(fn, nil)
	if ex.Imprecise != "" {
		r.Fail("%s: %s", rule, ex.Imprecise)
	}
}

func c08R4(p *core.Prog, r *core.Report) {
	const rule = "C08/R4"
	r.Rule(rule, "AofFile.Flush writes the record file before the value file", 1)
	fn := mustFunc(p, r, "server.(*AofFile).Flush")
	if fn == nil {
		return
	}
	ex := core.NewExplorer(p, core.Hooks{
		Instr: func(x *core.X) {
			if n, _ := core.CallName(x.Ins); n != "Write" || !x.Top() {
				return
			}
			recv := core.Plain(argCanon(x, x.Ins, 0))
			switch {
			case strings.HasSuffix(recv, ".file"):
				if x.Get("dw") == "1" {
					r.Violate(rule, siteKey(p, x.Ins), x.Pos(), "record file written after the value file: a crash in between leaves records whose values are missing", x.St.Trace)
				}
				x.Set("fw", "1")
			case strings.HasSuffix(recv, ".dataFile"):
				x.Set("dw", "1")
				key := siteKey(p, x.Ins)
				// records buffered (windex > 0) must have been written first
				r.Hold(rule, key, x.Pos(), fmt.Sprintf("value write (records first=%v)", x.Get("fw") == "1"))
			}
		},
	})
	ex.Run(fn, nil)
}

func c08R5(p *core.Prog, r *core.Report) {
	const rule = "C08/R5"
	r.Rule(rule, "a value is buffered only while records are buffered (store to AofFile.dwindex that grows it requires windex > 0 on the path)", 1)
	dw := fk("server.AofFile", "dwindex")
	for _, fn := range p.FuncsIn("server") {
		if fn.Blocks == nil || recvName(fn) != "AofFile" {
			continue
		}
		has := false
		for _, b := range fn.Blocks {
			for _, ins := range b.Instrs {
				if st, ok := ins.(*ssa.Store); ok {
					if k, ok := storeKey(st.Addr); ok && k == dw && signOf(st) == "+" {
						has = true
					}
				}
			}
		}
		if !has {
			continue
		}
		self := fn.Params[0].Name()
		ex := core.NewExplorer(p, core.Hooks{
			Track: func(x *core.X, a core.Atom) bool { return strings.Contains(core.Plain(a.String()), self+".windex") },
			Instr: func(x *core.X) {
				st, ok := x.Ins.(*ssa.Store)
				if !ok || !x.Top() {
					return
				}
				if k, ok := storeKey(st.Addr); !ok || k != dw || signOf(st) != "+" {
					return
				}
				key := siteKey(p, x.Ins)
				if x.St.Facts.HasPlain("0 < " + self + ".windex") {
					r.Hold(rule, key, x.Pos(), "records are buffered on this path")
				} else {
					r.Violate(rule, key, x.Pos(), "value bytes buffered on a path where no record is buffered (windex may be 0): Close / rotation flush only when records are buffered, so the value would be dropped while its record is already on disk", x.St.Trace)
				}
			},
		})
		ex.NoHist = true
		ex.Run(fn, nil)
	}
}

// c08R6: the loaders (LoadAofFile / LoadAofFiles / LoadAndInit) treat exactly
// io.EOF from the record and value readers as "the log ends here" - that is
// what turns a file cut inside its last item into a clean prefix. A reader
// that reports a partly present item with another error value
// (io.ErrUnexpectedEOF from io.ReadFull / io.ReadAtLeast) makes the next
// start fail instead. So the error values the AofFile readers return come
// from Read calls of the underlying reader (end of file = io.EOF), from
// io.EOF itself, or are freshly made format errors - never straight from
// io.ReadFull / io.ReadAtLeast.
func c08R6(p *core.Prog, r *core.Report) {
	const rule = "C08/R6"
	r.Rule(rule, "the AofFile readers never return the error of io.ReadFull / io.ReadAtLeast unmapped (a partly present item must read as io.EOF, the only value the loaders treat as end of log)", 3)
	for _, name := range []string{"server.(*AofFile).ReadHeader", "server.(*AofFile).ReadLock", "server.(*AofFile).ReadLockData", "server.(*AofFile).ReadTail"} {
		fn := p.Func(name)
		if fn == nil || fn.Blocks == nil {
			continue
		}
		bad := ""
		var origin func(v ssa.Value, depth int) string
		origin = func(v ssa.Value, depth int) string {
			if depth > 6 {
				return ""
			}
			switch t := v.(type) {
			case *ssa.Extract:
				if c, ok := t.Tuple.(*ssa.Call); ok {
					if callee := c.Common().StaticCallee(); callee != nil && callee.Pkg != nil && callee.Pkg.Pkg.Path() == "io" && (callee.Name() == "ReadFull" || callee.Name() == "ReadAtLeast") {
						return "io." + callee.Name()
					}
				}
			case *ssa.Phi:
				for _, e := range t.Edges {
					if o := origin(e, depth+1); o != "" {
						return o
					}
				}
			case *ssa.MakeInterface:
				return origin(t.X, depth+1)
			case *ssa.ChangeInterface:
				return origin(t.X, depth+1)
			}
			return ""
		}
		pos := p.Pos(fn.Pos())
		for _, b := range fn.Blocks {
			for _, ins := range b.Instrs {
				ret, ok := ins.(*ssa.Return)
				if !ok || len(ret.Results) == 0 {
					continue
				}
				ev := ret.Results[len(ret.Results)-1]
				if o := origin(ev, 0); o != "" {
					// mapped when the function compares the value with io.ErrUnexpectedEOF
					mapped := false
					for _, bb := range fn.Blocks {
						for _, ii := range bb.Instrs {
							if bo, ok := ii.(*ssa.BinOp); ok {
								x := &core.X{Fr: &core.Frame{Fn: fn}, St: core.NewState()}
								if strings.Contains(x.Canon(bo).S, "ErrUnexpectedEOF") {
									mapped = true
								}
							}
						}
					}
					if !mapped {
						bad = o
						pos = p.InstrPos(ins)
					}
				}
			}
		}
		key := name + ": error identity"
		if bad != "" {
			r.Violate(rule, key, pos, "returns the error of "+bad+" as is: a partly present item is reported as io.ErrUnexpectedEOF, which the loaders do not treat as end of log - the next start fails instead of recovering the record prefix", nil)
		} else {
			r.Hold(rule, key, pos, "end of data is reported by the underlying Read (io.EOF)")
		}
	}
}

// c08R7: records are written to the append file before the values they
// announce (R4, in Flush). A value too large for the value buffer bypasses the
// buffer and is written to the value file directly - which is only in order
// when no record is still sitting in the record buffer (windex == 0), i.e. its
// own record has already been written. Otherwise a crash leaves a value
// without its record and every later value is paired with the wrong record.
func c08R7(p *core.Prog, r *core.Report) {
	const rule = "C08/R7"
	r.Rule(rule, "WriteLockData writes a value directly to the value file only on a path that established the record buffer empty (windex <= 0) after the last flush", 1)
	fn := mustFunc(p, r, "server.(*AofFile).WriteLockData")
	if fn == nil {
		return
	}
	self := fn.Params[0].Name()
	n := 0
	ex := core.NewExplorer(p, core.Hooks{
		Track: func(x *core.X, a core.Atom) bool { return strings.Contains(core.Plain(a.String()), self+".windex") },
		Instr: func(x *core.X) {
			if !x.Top() {
				return
			}
			name, _ := core.CallName(x.Ins)
			if name != "Write" {
				return
			}
			if !strings.HasSuffix(core.Plain(argCanon(x, x.Ins, 0)), ".dataFile") {
				return
			}
			n++
			key := siteKey(p, x.Ins)
			f := &x.St.Facts
			if f.Implies(core.MkAtom(self+".windex", "<=", "0", nil)) || f.Implies(core.MkAtom(self+".windex", "==", "0", nil)) {
				r.Hold(rule, key, x.Pos(), "record buffer empty: the announcing record is already in the append file")
			} else {
				r.Violate(rule, key, x.Pos(), "a value is written straight to the value file while records may still be buffered (windex not established <= 0 on this path): after a crash the value file holds a value whose record was never written, and later values are paired with the wrong records", x.St.Trace)
			}
		},
	})
	ex.Run(fn, nil)
	if ex.Imprecise != "" {
		r.Fail("C08/R7: %s", ex.Imprecise)
	}
	if n == 0 {
		r.Fail("C08/R7: no direct write to the value file found in WriteLockData")
	}
}

// c08R8: the loaders treat io.EOF as "end of log" and every other error as
// fatal (the server refuses to start). A log cut by a crash ends inside an
// item - the header, a record, a value - so a reader may report a constructed
// (hard) error only about an item whose bytes it has read completely; for an
// item that is only partly there it must answer io.EOF.
func c08R8(p *core.Prog, r *core.Report) {
	const rule = "C08/R8"
	r.Rule(rule, "the sequential log readers return a constructed (non-EOF) error after a read only when the item was read completely: the last read on the path is a successful io.ReadFull / io.ReadAtLeast, or its byte count was tested equal to a constant", 3)
	for _, name := range []string{"server.(*AofFile).ReadHeader", "server.(*AofFile).ReadLock", "server.(*AofFile).ReadLockData"} {
		fn := mustFunc(p, r, name)
		if fn == nil {
			continue
		}
		seen := 0
		bad := map[string]bool{}
		ex := core.NewExplorer(p, core.Hooks{
			Track: func(x *core.X, a core.Atom) bool { return true },
			Instr: func(x *core.X) {
				ci, ok := x.Ins.(ssa.CallInstruction)
				if !ok {
					return
				}
				if _, isDefer := x.Ins.(*ssa.Defer); isDefer {
					return
				}
				callee := ci.Common().StaticCallee()
				nm := ""
				if callee != nil {
					nm = callee.Name()
					if callee.Pkg != nil && callee.Pkg.Pkg.Path() == "io" && (nm == "ReadFull" || nm == "ReadAtLeast") {
						x.Set("read", core.Plain(x.Canon(ci.Value()).S))
						x.Set("full", "1")
						return
					}
				} else if ci.Common().IsInvoke() {
					nm = ci.Common().Method.Name()
				}
				if nm == "Read" && ci.Value() != nil {
					if x.Get("read") == "" {
						x.Set("first", core.Plain(x.Canon(ci.Value()).S))
					}
					x.Set("read", core.Plain(x.Canon(ci.Value()).S))
					x.Set("full", "")
				}
			},
			Exit: func(x *core.X, rets []core.Expr) {
				if len(rets) != 1 || x.Get("read") == "" {
					return
				}
				e := core.Plain(rets[0].S)
				if !(strings.HasPrefix(e, "New(") || strings.HasPrefix(e, "Errorf(")) {
					return
				}
				seen++
				key := fmt.Sprintf("%s: hard error %s", name, strings.SplitN(e, "@", 2)[0])
				complete := x.Get("full") == "1"
				if !complete {
					// the count of the (single) read tested equal to a constant
					rd := x.Get("read")
					if x.Get("first") == rd {
						for h := range x.St.Hist {
							hp := core.Plain(h)
							if strings.HasPrefix(hp, rd+"#0 == ") {
								if _, ok := core.ParseIntStr(strings.TrimPrefix(hp, rd+"#0 == ")); ok {
									complete = true
								}
							}
						}
					}
				}
				if complete {
					if !bad[key] {
						r.Hold(rule, key, x.Pos(), "item completely read")
					}
				} else {
					bad[key] = true
					r.Violate(rule, key, x.Pos(), "a hard error is returned about an item that may be only partly present (the last read was a plain Read whose count was not established): a log cut by a crash inside this item makes the loader fail and the server refuses to start, instead of treating the cut as the end of the log", x.St.Trace)
				}
			},
		})
		ex.Run(fn, nil)
		if ex.Imprecise != "" {
			r.Fail("C08/R8 %s: %s", name, ex.Imprecise)
		}
		r.Stats["R8_"+fn.Name()] = seen
	}
}

// c08R9: records are appended to the newest append file that was found at
// start-up. If that file ends inside a record (the torn tail the loader has
// just skipped), appending behind it shifts every later record off the 64-byte
// grid and the next restart reads garbage. Opening for append must cut the
// file back to a whole number of records first.
func c08R9(p *core.Prog, r *core.Report) {
	const rule = "C08/R9"
	r.Rule(rule, "AofFile.Open in append mode keeps an existing file (size >= header) only after testing (size - header) % record length and truncating the remainder", 1)
	fn := mustFunc(p, r, "server.(*AofFile).Open")
	if fn == nil {
		return
	}
	self := fn.Params[0].Name()
	n := 0
	ex := core.NewExplorer(p, core.Hooks{
		Track: func(x *core.X, a core.Atom) bool {
			s := core.Plain(a.String())
			return strings.Contains(s, self+".size") || strings.Contains(s, " % ")
		},
		Instr: func(x *core.X) {
			if !x.Top() {
				return
			}
			if nm, _ := core.CallName(x.Ins); nm == "Truncate" {
				x.Set("trunc", "1")
			}
			// the write buffer is set up last on the append arm: the point where the file is accepted
			st, ok := x.Ins.(*ssa.Store)
			if !ok {
				return
			}
			if k, ok := storeKey(st.Addr); !ok || k.Field != "wbuf" || k.Type != "server.AofFile" {
				return
			}
			kept := false
			aligned, remainder := false, false
			for h := range x.St.Hist {
				hp := core.Plain(h)
				if hp == "12 <= "+self+".size" || hp == self+".size >= 12" {
					kept = true
				}
				if strings.Contains(hp, " % 64") {
					if strings.HasSuffix(hp, " == 0") {
						aligned = true
					} else {
						remainder = true
					}
				}
			}
			if !kept {
				return
			}
			n++
			key := "server.(*AofFile).Open: existing file kept for append"
			switch {
			case aligned:
				r.Hold(rule, key+" (aligned)", x.Pos(), "whole number of records")
			case remainder && x.Get("trunc") == "1":
				r.Hold(rule, key+" (remainder cut)", x.Pos(), "torn tail truncated before appending")
			default:
				r.Violate(rule, key, x.Pos(), "an existing append file is kept for appending without bringing its length back to a whole number of 64-byte records: after a crash that cut the last record, the records written after the restart sit off the record grid and the following restart does not recover them", x.St.Trace)
			}
		},
	})
	ex.Run(fn, nil)
	if ex.Imprecise != "" {
		r.Fail("C08/R9: %s", ex.Imprecise)
	}
	if n == 0 {
		r.Fail("C08/R9: the append arm of AofFile.Open that keeps an existing file was not found")
	}
}

// c08R10: a crash between the two writes of a flush leaves the last record
// complete and its value cut short. The loader stops there, but the record
// file is then appended to behind that record and the value file behind the
// torn bytes: every later restart stops at the same record (or reads values
// off their grid) and never reaches what was persisted afterwards. Whatever
// the repair looks like, it has to cut the value file back - and today nothing
// in the server ever truncates it.
func c08R10(p *core.Prog, r *core.Report) {
	const rule = "C08/R10"
	r.Rule(rule, "some function of the log truncates the value file (AofFile.dataFile): a value cut short by a crash must be removed before values are appended behind it", 1)
	where := ""
	for _, fn := range p.FuncsIn("server") {
		for _, b := range fn.Blocks {
			for _, ins := range b.Instrs {
				ci, ok := ins.(ssa.CallInstruction)
				if !ok {
					continue
				}
				callee := ci.Common().StaticCallee()
				if callee == nil || callee.Name() != "Truncate" || len(ci.Common().Args) == 0 {
					continue
				}
				if u, ok := ci.Common().Args[0].(*ssa.UnOp); ok {
					if fa, ok := u.X.(*ssa.FieldAddr); ok {
						if k := core.FieldKeyOf(fa.X.Type(), fa.Field); k.Type == "server.AofFile" && k.Field == "dataFile" {
							where = p.InstrPos(ins)
						}
					}
				}
			}
		}
	}
	key := "server.AofFile.dataFile: a torn value is cut off before values are appended"
	open := mustFunc(p, r, "server.(*AofFile).Open")
	pos := "-"
	if open != nil {
		pos = p.Pos(open.Pos())
	}
	if where != "" {
		r.Hold(rule, key, where, "the value file is truncated here")
	} else {
		r.Violate(rule, key, pos, "nothing in the server ever truncates the value file: after a crash that left the last record's value cut short, the restart appends new records behind that record and new values behind the torn bytes, and every later restart stops at the record with the torn value - what was persisted after the first restart is never recovered", nil)
	}
}

// c08R11: Open(append) cuts a torn tail off with Truncate (R9). Truncate does
// not move the file offset, so "whatever is persisted after that restart is in
// turn recovered" needs the later writes to land at the new end: the file is
// opened with O_APPEND (every write goes to the current end), or a Seek to the
// end follows the Truncate. Otherwise the first record after a torn-tail
// restart is written at the old end, behind a hole of zeros, and the next
// restart fails on it.
func c08R11(p *core.Prog, r *core.Report) {
	const rule = "C08/R11"
	r.Rule(rule, "AofFile.Open: a Truncate of a log file is made on a file opened with O_APPEND, or is followed by a Seek before Open returns", 1)
	fn := mustFunc(p, r, "server.(*AofFile).Open")
	if fn == nil {
		return
	}
	oAppend := ""
	if pk := p.Pkg("server"); pk != nil {
		for _, imp := range pk.Types.Imports() {
			if imp.Path() == "os" {
				if c, ok := imp.Scope().Lookup("O_APPEND").(*types.Const); ok {
					oAppend = c.Val().ExactString()
				}
			}
		}
	}
	if oAppend == "" {
		r.Fail("C08/R11: os.O_APPEND not found")
		return
	}
	n := 0
	bad := map[string]bool{}
	ex := core.NewExplorer(p, core.Hooks{
		ResolvePhi: func(phi *ssa.Phi) bool {
			b, ok := phi.Type().Underlying().(*types.Basic)
			return ok && b.Info()&types.IsInteger != 0
		},
		Track: func(x *core.X, a core.Atom) bool { return strings.Contains(a.String(), ".mode") },
		Instr: func(x *core.X) {
			if !x.Top() {
				return
			}
			c := core.StaticCallee(x.Ins)
			if c == nil || c.Pkg == nil || c.Pkg.Pkg.Path() != "os" {
				return
			}
			args := core.CallArgs(x.Ins)
			switch c.Name() {
			case "OpenFile":
				if len(args) >= 2 {
					flag := core.Plain(x.Canon(args[1]).S)
					if strings.Contains(flag, "| "+oAppend) || flag == oAppend {
						x.Set("append:"+core.Plain(x.Canon(args[0]).S), "1")
						x.Set("appendany", x.Get("appendany")+"1")
					}
					x.Set("opens", x.Get("opens")+"1")
				}
			case "Truncate":
				// the mode is read twice (a local copy, then the field again); nothing in
				// Open writes it, so a path that took the copy for "not append" and the
				// field for "append" does not exist
				if !p.MayWrite(fn)[fk("server.AofFile", "mode")] {
					for h := range x.St.Hist {
						if hp := core.Plain(h); strings.Contains(hp, ".mode") && strings.HasSuffix(hp, " != 1") {
							return
						}
					}
				}
				n++
				// every file this function opened on the path was opened for appending?
				if len(x.Get("appendany")) < len(x.Get("opens")) || x.Get("opens") == "" {
					x.Set("pending", x.Pos())
				}
			case "Seek":
				x.Set("pending", "")
			}
		},
		Exit: func(x *core.X, rets []core.Expr) {
			if pos := x.Get("pending"); pos != "" && !bad[pos] {
				bad[pos] = true
				r.Violate(rule, "server.(*AofFile).Open: Truncate at the torn tail", pos, "the file is cut with Truncate but was not opened with O_APPEND and no Seek follows: Truncate leaves the offset at the old end, so the first record written after a torn-tail restart lands behind a hole of zero bytes and the next restart fails (Lock Len error / not an AOF file)", x.St.Trace)
			}
		},
	})
	ex.Run(fn, nil)
	switch {
	case ex.Imprecise != "":
		r.Fail("C08/R11: %s", ex.Imprecise)
	case n == 0:
		r.Fail("C08/R11: Open has no Truncate")
	case len(bad) == 0:
		r.Hold(rule, "server.(*AofFile).Open: Truncate at the torn tail", p.Pos(fn.Pos()), "files opened with O_APPEND (or a Seek follows)")
	}
}

// c08R12: ReadTail fetches the newest record of a log file for the position a
// node restarts with (follower start-up, LoadMaxAofId). After a crash the file
// can end inside a record, so "the last 64 bytes" are not a record: the read
// offset has to be derived from the size rounded down to a whole number of
// records behind the 12-byte header. Decided on the value: the offset handed
// to ReadAt is computed with the record size (a remainder or a quotient by 64
// of size-12), not just size-64.
func c08R12(p *core.Prog, r *core.Report) {
	const rule = "C08/R12"
	r.Rule(rule, "AofFile.ReadTail reads at an offset derived from the file size rounded down to whole records ((size-12) modulo / divided by 64), never simply size-64", 1)
	fn := mustFunc(p, r, "server.(*AofFile).ReadTail")
	if fn == nil {
		return
	}
	n, bad := 0, ""
	ex := core.NewExplorer(p, core.Hooks{
		ResolvePhi: func(phi *ssa.Phi) bool {
			b, ok := phi.Type().Underlying().(*types.Basic)
			return ok && b.Info()&types.IsInteger != 0
		},
		Instr: func(x *core.X) {
			c := core.StaticCallee(x.Ins)
			if c == nil || c.Name() != "ReadAt" || !x.Top() {
				return
			}
			args := core.CallArgs(x.Ins)
			off := core.Plain(x.Canon(args[len(args)-1]).S)
			n++
			if !(strings.Contains(off, "% 64") || strings.Contains(off, "/ 64")) || !strings.Contains(off, "- 12") {
				bad = x.Pos() + " offset " + stable(off)
			}
		},
	})
	ex.NoHist = true
	ex.Run(fn, nil)
	key := "server.(*AofFile).ReadTail: offset of the last whole record"
	switch {
	case ex.Imprecise != "":
		r.Fail("C08/R12: %s", ex.Imprecise)
	case n == 0:
		r.Fail("C08/R12: ReadTail has no ReadAt")
	case bad != "":
		r.Violate(rule, key, strings.SplitN(bad, " ", 2)[0], "the newest record is read at "+strings.SplitN(bad, " offset ", 2)[1]+", the last 64 bytes of the file whatever its length: when the file ends inside a record (crash) the bytes are not a record, ReadTail answers \"Lock Len error\" and a node starting as a follower on that directory refuses to start", nil)
	default:
		r.Hold(rule, key, p.Pos(fn.Pos()), "offset aligned to whole records")
	}
}
