package rules

import (
	"fmt"
	"go/constant"
	"go/token"
	"go/types"
	"sort"
	"strings"

	"golang.org/x/tools/go/ssa"

	"slockverif/internal/core"
)

// Engine E4: byte-layout extraction of straight-line codec functions from SSA.
//
// An encoder writes buf[p] = <byte k of field F | constant | string char>;
// a decoder writes F(.byte k) = <expression over buf[p]>. Constant-bound loops
// are expanded by recognising their induction variable.

// Layout is the extracted byte map of one codec function.
type Layout struct {
	Fn     string
	Enc    map[int]string // position -> "F#k" | "const:v" | "str:F[i]" | "?..."
	Dec    map[string]int // "F#k" -> position
	StrDec map[string]string
	DecAll map[string][]int // every (field byte -> position) pair seen, for functions with several decode arms
	Issues []string         // statements that could not be interpreted
	Pos    map[string]string
}

func newLayout(fn string) *Layout {
	return &Layout{Fn: fn, Enc: map[int]string{}, Dec: map[string]int{}, StrDec: map[string]string{}, DecAll: map[string][]int{}, Pos: map[string]string{}}
}

type loopRange struct{ lo, hi int } // inclusive lo, exclusive hi

// inductionRange recognises phi = [c0, phi+1] with header test phi < K.
func inductionRange(phi *ssa.Phi) (loopRange, bool) {
	if len(phi.Edges) != 2 {
		return loopRange{}, false
	}
	var c0 *ssa.Const
	var step ssa.Value
	for _, e := range phi.Edges {
		if c, ok := e.(*ssa.Const); ok {
			c0 = c
		} else {
			step = e
		}
	}
	if c0 == nil || step == nil {
		return loopRange{}, false
	}
	b, ok := step.(*ssa.BinOp)
	if !ok || b.Op != token.ADD || b.X != ssa.Value(phi) {
		return loopRange{}, false
	}
	if c1, ok := b.Y.(*ssa.Const); !ok || c1.Int64() != 1 {
		return loopRange{}, false
	}
	// header condition
	refs := phi.Referrers()
	if refs == nil {
		return loopRange{}, false
	}
	for _, r := range *refs {
		cmp, ok := r.(*ssa.BinOp)
		if !ok || cmp.X != ssa.Value(phi) {
			continue
		}
		k, ok := cmp.Y.(*ssa.Const)
		if !ok {
			continue
		}
		used := false
		if cr := cmp.Referrers(); cr != nil {
			for _, u := range *cr {
				if _, ok := u.(*ssa.If); ok && u.Block() == phi.Block() {
					used = true
				}
			}
		}
		if !used {
			continue
		}
		switch cmp.Op {
		case token.LSS:
			return loopRange{int(c0.Int64()), int(k.Int64())}, true
		case token.LEQ:
			return loopRange{int(c0.Int64()), int(k.Int64()) + 1}, true
		}
	}
	return loopRange{}, false
}

// evalInt evaluates an integer SSA value under bindings of induction phis.
func evalInt(v ssa.Value, env map[*ssa.Phi]int) (int, bool) {
	switch x := v.(type) {
	case *ssa.Const:
		if x.Value != nil && x.Value.Kind() == constant.Int {
			return int(x.Int64()), true
		}
	case *ssa.Phi:
		if n, ok := env[x]; ok {
			return n, true
		}
	case *ssa.Convert:
		return evalInt(x.X, env)
	case *ssa.BinOp:
		a, ok1 := evalInt(x.X, env)
		b, ok2 := evalInt(x.Y, env)
		if ok1 && ok2 {
			switch x.Op {
			case token.ADD:
				return a + b, true
			case token.SUB:
				return a - b, true
			case token.MUL:
				return a * b, true
			}
		}
	}
	return 0, false
}

// phisIn collects induction phis an expression depends on.
func phisIn(v ssa.Value, out map[*ssa.Phi]bool, depth int) {
	if v == nil || depth > 12 {
		return
	}
	switch x := v.(type) {
	case *ssa.Phi:
		out[x] = true
	case *ssa.BinOp:
		phisIn(x.X, out, depth+1)
		phisIn(x.Y, out, depth+1)
	case *ssa.Convert:
		phisIn(x.X, out, depth+1)
	case *ssa.UnOp:
		phisIn(x.X, out, depth+1)
	case *ssa.IndexAddr:
		phisIn(x.X, out, depth+1)
		phisIn(x.Index, out, depth+1)
	case *ssa.Index:
		phisIn(x.X, out, depth+1)
		phisIn(x.Index, out, depth+1)
	case *ssa.Lookup:
		phisIn(x.X, out, depth+1)
		phisIn(x.Index, out, depth+1)
	case *ssa.FieldAddr:
		phisIn(x.X, out, depth+1)
	case *ssa.Slice:
		phisIn(x.X, out, depth+1)
	}
}

// bufOffset: is v (a slice value) the buffer root, possibly re-sliced from a
// constant low bound? Returns the offset.
func bufOffset(v ssa.Value, isBuf func(ssa.Value) bool) (int, bool) {
	off := 0
	for i := 0; i < 4; i++ {
		if isBuf(v) {
			return off, true
		}
		s, ok := v.(*ssa.Slice)
		if !ok {
			return 0, false
		}
		lo := 0
		if s.Low != nil {
			n, ok := evalInt(s.Low, nil)
			if !ok {
				return 0, false
			}
			lo = n
		}
		off += lo
		v = s.X
	}
	return 0, false
}

// fieldPath renders the field path of an address relative to a struct root
// (embedded struct names dropped): RequestId[3], Lcount.
func fieldPath(addr ssa.Value, isRoot func(ssa.Value) bool, env map[*ssa.Phi]int) (field string, elem int, ok bool) {
	elem = -1
	var parts []string
	v := addr
	for i := 0; i < 8; i++ {
		switch a := v.(type) {
		case *ssa.IndexAddr:
			n, ok := evalInt(a.Index, env)
			if !ok {
				return "", 0, false
			}
			elem = n
			v = a.X
		case *ssa.FieldAddr:
			k := core.FieldKeyOf(a.X.Type(), a.Field)
			st := a.X.Type().Underlying().(*types.Pointer).Elem().Underlying().(*types.Struct)
			if !st.Field(a.Field).Embedded() {
				parts = append([]string{k.Field}, parts...)
			}
			v = a.X
		default:
			if isRoot(v) {
				if len(parts) == 0 {
					return "", 0, false
				}
				return strings.Join(parts, "."), elem, true
			}
			return "", 0, false
		}
	}
	return "", 0, false
}

func sizeOfBasic(t types.Type) int {
	if b, ok := t.Underlying().(*types.Basic); ok {
		switch b.Kind() {
		case types.Uint8, types.Int8, types.Bool:
			return 1
		case types.Uint16, types.Int16:
			return 2
		case types.Uint32, types.Int32:
			return 4
		case types.Uint64, types.Int64, types.Int, types.Uint:
			return 8
		}
	}
	return 0
}

type codecCtx struct {
	p      *core.Prog
	fn     *ssa.Function
	isBuf  func(ssa.Value) bool
	isRoot func(ssa.Value) bool
	env    map[*ssa.Phi]int
}

// encByte interprets the value stored into a buffer byte.
func (c *codecCtx) encByte(v ssa.Value) string {
	switch x := v.(type) {
	case *ssa.Const:
		if x.Value != nil {
			return "const:" + x.Value.ExactString()
		}
	case *ssa.Convert:
		inner := x.X
		if sizeOfBasic(x.Type()) != 1 {
			return "?" + c.canon(v)
		}
		if sh, ok := inner.(*ssa.BinOp); ok && sh.Op == token.SHR {
			if n, ok := evalInt(sh.Y, c.env); ok && n%8 == 0 {
				if f, e, ok := c.loadField(sh.X); ok && e < 0 {
					return fmt.Sprintf("%s#%d", f, n/8)
				}
			}
			return "?" + c.canon(v)
		}
		if f, e, ok := c.loadField(inner); ok {
			if e >= 0 {
				return fmt.Sprintf("%s#%d", f, e)
			}
			return f + "#0"
		}
		return c.encByte(inner)
	case *ssa.UnOp:
		if f, e, ok := c.loadField(x); ok {
			if e >= 0 {
				return fmt.Sprintf("%s#%d", f, e)
			}
			return f + "#0"
		}
	case *ssa.Lookup: // string char s[i]
		if f, _, ok := c.loadField(x.X); ok {
			if n, ok := evalInt(x.Index, c.env); ok {
				return fmt.Sprintf("str:%s[%d]", f, n)
			}
		}
	case *ssa.Index:
		if f, _, ok := c.loadField(x.X); ok {
			if n, ok := evalInt(x.Index, c.env); ok {
				return fmt.Sprintf("%s#%d", f, n)
			}
		}
	case *ssa.Phi:
		// padded string byte: phi of (char, 0)
		var parts []string
		for _, e := range x.Edges {
			parts = append(parts, c.encByte(e))
		}
		sort.Strings(parts)
		return "either(" + strings.Join(parts, "|") + ")"
	}
	return "?" + c.canon(v)
}

func (c *codecCtx) canon(v ssa.Value) string {
	x := &core.X{Fr: &core.Frame{Fn: c.fn}, St: core.NewState()}
	return stable(x.Canon(v).S)
}

// loadField: v is a load (or value) of a field of the root struct.
func (c *codecCtx) loadField(v ssa.Value) (string, int, bool) {
	switch x := v.(type) {
	case *ssa.UnOp:
		if x.Op == token.MUL {
			return fieldPath(x.X, c.isRoot, c.env)
		}
	case *ssa.Convert:
		return c.loadField(x.X)
	case *ssa.ChangeType:
		return c.loadField(x.X)
	}
	return "", 0, false
}

// decTerms interprets a decoder expression: list of (bufPos, byteIndex).
func (c *codecCtx) decTerms(v ssa.Value, width int) ([][2]int, string) {
	switch x := v.(type) {
	case *ssa.Convert:
		return c.decTerms(x.X, width)
	case *ssa.UnOp:
		if x.Op == token.MUL {
			if ia, ok := x.X.(*ssa.IndexAddr); ok {
				if off, ok := bufOffset(ia.X, c.isBuf); ok {
					if n, ok := evalInt(ia.Index, c.env); ok {
						return [][2]int{{off + n, 0}}, ""
					}
				}
			}
		}
	case *ssa.Index:
		if off, ok := bufOffset(x.X, c.isBuf); ok {
			if n, ok := evalInt(x.Index, c.env); ok {
				return [][2]int{{off + n, 0}}, ""
			}
		}
	case *ssa.BinOp:
		switch x.Op {
		case token.OR, token.ADD:
			a, e1 := c.decTerms(x.X, width)
			b, e2 := c.decTerms(x.Y, width)
			if e1 != "" {
				return nil, e1
			}
			if e2 != "" {
				return nil, e2
			}
			return append(a, b...), ""
		case token.SHL:
			n, ok := evalInt(x.Y, c.env)
			if !ok || n%8 != 0 {
				return nil, "shift by a non-byte amount in " + c.canon(v)
			}
			// the shifted operand must already be widened, otherwise the byte is shifted out
			if sizeOfBasic(x.X.Type()) < n/8+1 {
				return nil, fmt.Sprintf("byte shifted left by %d inside a %d-byte type (%s): the value is always 0", n, sizeOfBasic(x.X.Type()), c.canon(v))
			}
			a, e := c.decTerms(x.X, width)
			if e != "" {
				return nil, e
			}
			for i := range a {
				a[i][1] += n / 8
			}
			return a, ""
		}
	}
	return nil, "uninterpreted decoder expression " + c.canon(v)
}

// ExtractLayout interprets all stores of fn. bufParam / rootParam are the
// parameter indexes of the byte buffer and the struct (or -1 to use isBuf /
// isRoot predicates supplied by the caller).
func ExtractLayout(p *core.Prog, fn *ssa.Function, isBuf, isRoot func(ssa.Value) bool) *Layout {
	lay := newLayout(core.FuncName(fn))
	ranges := map[*ssa.Phi]loopRange{}
	for _, b := range fn.Blocks {
		for _, ins := range b.Instrs {
			if ph, ok := ins.(*ssa.Phi); ok {
				if r, ok := inductionRange(ph); ok {
					ranges[ph] = r
				}
			}
		}
	}
	handle := func(ins ssa.Instruction, env map[*ssa.Phi]int) {
		c := &codecCtx{p: p, fn: fn, isBuf: isBuf, isRoot: isRoot, env: env}
		switch t := ins.(type) {
		case *ssa.Store:
			if ia, ok := t.Addr.(*ssa.IndexAddr); ok {
				if off, ok := bufOffset(ia.X, isBuf); ok {
					n, ok := evalInt(ia.Index, env)
					if !ok {
						lay.Issues = append(lay.Issues, p.InstrPos(ins)+": buffer index not constant: "+c.canon(ia.Index))
						return
					}
					lay.Enc[off+n] = c.encByte(t.Val)
					lay.Pos[fmt.Sprint("enc", off+n)] = p.InstrPos(ins)
					return
				}
			}
			if f, e, ok := fieldPath(t.Addr, isRoot, env); ok {
				width := sizeOfBasic(t.Val.Type())
				// string(buf[a:b])
				if reg, ok := c.strRegion(t.Val); ok {
					lay.StrDec[f] = reg
					return
				}
				terms, errs := c.decTerms(t.Val, width)
				if errs != "" {
					if strings.Contains(c.canon(t.Val), "buf") || strings.HasPrefix(errs, "byte shifted") {
						lay.Issues = append(lay.Issues, p.InstrPos(ins)+": field "+f+": "+errs)
					}
					return
				}
				for _, tm := range terms {
					k := tm[1]
					if e >= 0 {
						k = e
					}
					lay.Dec[fmt.Sprintf("%s#%d", f, k)] = tm[0]
					lay.DecAll[fmt.Sprintf("%s#%d", f, k)] = append(lay.DecAll[fmt.Sprintf("%s#%d", f, k)], tm[0])
					lay.Pos[fmt.Sprintf("dec%s#%d", f, k)] = p.InstrPos(ins)
				}
			}
		case *ssa.Call:
			if bi, ok := t.Common().Value.(*ssa.Builtin); ok && bi.Name() == "copy" {
				dst, src := t.Common().Args[0], t.Common().Args[1]
				// array field <-> buffer region: copy(x.F[:], buf[a:b]) / copy(buf[a:], x.F[:])
				arrField := func(v ssa.Value) (string, int, bool) {
					sl, ok := v.(*ssa.Slice)
					if !ok || sl.Low != nil {
						return "", 0, false
					}
					pt, ok := sl.X.Type().Underlying().(*types.Pointer)
					if !ok {
						return "", 0, false
					}
					at, ok := pt.Elem().Underlying().(*types.Array)
					if !ok {
						return "", 0, false
					}
					f, e, ok := fieldPath(sl.X, isRoot, env)
					if !ok || e >= 0 {
						return "", 0, false
					}
					n := int(at.Len())
					if sl.High != nil {
						h, ok := evalInt(sl.High, env)
						if !ok {
							return "", 0, false
						}
						n = h
					}
					return f, n, true
				}
				if f, n, ok := arrField(dst); ok {
					if ss, ok := src.(*ssa.Slice); ok {
						if off, ok := bufOffset(ss, isBuf); ok {
							m := n
							if ss.High != nil {
								if h, ok := evalInt(ss.High, env); ok {
									lo := 0
									if ss.Low != nil {
										lo, _ = evalInt(ss.Low, env)
									}
									if h-lo < m {
										m = h - lo
									}
								} else {
									lay.Issues = append(lay.Issues, p.InstrPos(ins)+": copy from the buffer with a non-constant bound")
									return
								}
							}
							for i := 0; i < m; i++ {
								k := fmt.Sprintf("%s#%d", f, i)
								lay.Dec[k] = off + i
								lay.DecAll[k] = append(lay.DecAll[k], off+i)
								lay.Pos["dec"+k] = p.InstrPos(ins)
							}
							return
						}
					}
				}
				if off, ok := bufOffset(dst, isBuf); ok {
					if f, n, ok := arrField(src); ok {
						m := n
						if ds, ok := dst.(*ssa.Slice); ok && ds.High != nil {
							if h, ok := evalInt(ds.High, env); ok {
								lo := 0
								if ds.Low != nil {
									lo, _ = evalInt(ds.Low, env)
								}
								if h-lo < m {
									m = h - lo
								}
							}
						}
						for i := 0; i < m && off+i < 64; i++ {
							lay.Enc[off+i] = fmt.Sprintf("%s#%d", f, i)
							lay.Pos[fmt.Sprint("enc", off+i)] = p.InstrPos(ins)
						}
						return
					}
				}
				if off, ok := bufOffset(dst, isBuf); ok {
					if ms, ok := src.(*ssa.MakeSlice); ok {
						if n, ok := evalInt(ms.Len, env); ok {
							for i := 0; i < n && off+i < 64; i++ {
								lay.Enc[off+i] = "const:0"
							}
							return
						}
					}
					if sl, ok := src.(*ssa.Slice); ok {
						if al, ok := sl.X.(*ssa.Alloc); ok && zeroArray(al) {
							n := -1
							if sl.High != nil {
								n, _ = evalInt(sl.High, env)
							} else if at, ok := al.Type().Underlying().(*types.Pointer).Elem().Underlying().(*types.Array); ok {
								n = int(at.Len())
							}
							if n >= 0 {
								for i := 0; i < n && off+i < 64; i++ {
									lay.Enc[off+i] = "const:0"
								}
								return
							}
						}
					}
					lay.Issues = append(lay.Issues, p.InstrPos(ins)+": copy into the buffer from "+c.canon(src))
				}
			}
		}
	}
	for _, b := range fn.Blocks {
		for _, ins := range b.Instrs {
			deps := map[*ssa.Phi]bool{}
			switch t := ins.(type) {
			case *ssa.Store:
				phisIn(t.Addr, deps, 0)
				phisIn(t.Val, deps, 0)
			case *ssa.Call:
				for _, a := range t.Common().Args {
					phisIn(a, deps, 0)
				}
			default:
				continue
			}
			var loopPhis []*ssa.Phi
			unknown := false
			for ph := range deps {
				if _, ok := ranges[ph]; ok {
					loopPhis = append(loopPhis, ph)
				} else if sizeOfBasic(ph.Type()) > 1 {
					// a non-induction integer phi in an index: cannot expand
					if _, isStore := ins.(*ssa.Store); isStore {
						unknown = true
					}
				}
			}
			if unknown && len(loopPhis) == 0 {
				handle(ins, nil)
				continue
			}
			if len(loopPhis) == 0 {
				handle(ins, nil)
				continue
			}
			if len(loopPhis) > 1 {
				lay.Issues = append(lay.Issues, p.InstrPos(ins)+": nested induction variables")
				continue
			}
			r := ranges[loopPhis[0]]
			for i := r.lo; i < r.hi; i++ {
				handle(ins, map[*ssa.Phi]int{loopPhis[0]: i})
			}
		}
	}
	return lay
}

// zeroArray: a local array that is never written (make([]byte, n) with constant n).
func zeroArray(al *ssa.Alloc) bool {
	refs := al.Referrers()
	if refs == nil {
		return true
	}
	for _, r := range *refs {
		switch r.(type) {
		case *ssa.Store, *ssa.IndexAddr:
			return false
		}
	}
	return true
}

// strRegion recognises string(buf[a:b]) (possibly wrapped in strings.Trim) or
// buf[a:b] as the value of a string / byte-slice field.
func (c *codecCtx) strRegion(v ssa.Value) (string, bool) {
	for i := 0; i < 4; i++ {
		switch x := v.(type) {
		case *ssa.Call:
			if len(x.Common().Args) == 0 {
				return "", false
			}
			v = x.Common().Args[0]
		case *ssa.Convert:
			v = x.X
		case *ssa.Slice:
			if _, ok := bufOffset(x.X, c.isBuf); !ok || x.Low == nil {
				return "", false
			}
			lo, ok := evalInt(x.Low, c.env)
			if !ok {
				return "", false
			}
			hi := "end"
			if x.High != nil {
				if n, ok := evalInt(x.High, c.env); ok {
					hi = fmt.Sprint(n)
				} else {
					hi = c.canon(x.High)
				}
			}
			return fmt.Sprintf("%d:%s", lo, hi), true
		default:
			return "", false
		}
	}
	return "", false
}

func paramPred(fn *ssa.Function, idx int) func(ssa.Value) bool {
	if idx < 0 || idx >= len(fn.Params) {
		return func(ssa.Value) bool { return false }
	}
	p := fn.Params[idx]
	return func(v ssa.Value) bool { return v == ssa.Value(p) }
}
