package rules

import (
	"fmt"
	"go/token"
	"sort"
	"strings"

	"golang.org/x/tools/go/ssa"

	"slockverif/internal/core"
)

func init() { Registry["C02"] = checkC02 }

// engine mutators: calls that change hold / queue / value / log state.
var mutatorNames = map[string]bool{
	"AddLock": true, "RemoveLock": true, "AddWaitLock": true, "UpdateLockedLock": true,
	"ProcessLockData": true, "ProcessRecoverLockData": true, "ProcessAckLockData": true, "ProcessExecuteLockCommand": true,
	"PushLockAof": true, "PushUnLockAof": true, "AddTimeOut": true, "AddMillisecondTimeOut": true,
	"AddExpried": true, "AddMillisecondExpried": true, "RemoveLongExpried": true, "RemoveLongTimeOut": true,
	"ClearLockCommandDatas": true, "cancelWaitLock": true, "addUnlockLockCommandToWaitLock": true, "unlockTreeLock": true,
	"wakeUpWaitLock": true, "DoAckLock": true,
}

func isMutatorCall(ins ssa.Instruction) (string, bool) {
	callee := core.StaticCallee(ins)
	if callee == nil || !core.InModule(callee) {
		return "", false
	}
	if mutatorNames[callee.Name()] {
		return callee.Name(), true
	}
	return "", false
}

func checkC02(p *core.Prog, r *core.Report) {
	r.Explanation = "Decides structural necessary conditions of owner-only release and exact depth: (R1) in UnLock the hold that is tombstoned, decremented and removed is on every path the non-nil result of GetLockedLock(request) or, only under the unlock-first flag, the manager's oldest holder; (R2) every refusal reply of Lock/UnLock (UNLOCK_ERROR, UNOWN_ERROR, LOCK_ACK_WAITING, STATE_ERROR, TIMEOUT, and LOCKED_ERROR without the update flag) is reached without any engine mutation on its path (stores to hold/queue/value state, mutator calls) - the cancel-wait hand-over excepted; (R3) UnLock's success paths lower the key's depth exactly once, by 1 only under Rcount>0 with depth>1 (no removal unless the depth reaches 0) or when the depth is <=1, otherwise by the hold's whole depth, with exactly one RemoveLock; (R4) every path to the re-entrant depth increment in Lock carries the guards owner-found, not ack-pending, depth<0xff, depth<=Rcount, not priority-flagged, Expried!=0; (R5) cancelWaitLock answers the canceller LOCKED_ERROR and the cancelled waiter UNLOCK_ERROR, and the not-found path UNLOCK_ERROR. (R6) LockManager.RemoveLock keeps the LockId index of the holder list in step: a hold promoted to oldest holder, and a released non-oldest hold, are deleted from the index on the same path (the index lookup has no liveness test). (R7) cancelWaitLock selects a queue entry only on the not-answered side of a test of that entry's timeouted flag (an answered entry with the same LockId must not shadow the live request behind it). (R8) the holder lookup by LockId returns from the inline slice only a live entry (depth > 0) with the requested id, from the overflow index only its lookup by that id, and answers \"not a holder\" only after examining both. (R9) every grant that adds a holder consults the holder index for the request's LockId first, or has established that the key has no holders (wakeUpWaitLock does not: two known findings - two queued requests with one LockId become two holds). NOT decided: that the two parts of the holder list together contain exactly the holders (maintenance of the containers), arithmetic beyond the guards."
	r.Assumptions = []string{"Go type checker and go/ssa are correct for /repo", "the holder list (inline slice + overflow index) contains exactly the current holders (container maintenance, beyond R6/R8)"}
	c02R1(p, r)
	c02R2(p, r)
	c02R3(p, r)
	c02R4(p, r)
	c02R5(p, r)
	c02R6(p, r)
	c02R7(p, r)
	c02R8(p, r)
	c02R9(p, r)
}

func c02R1(p *core.Prog, r *core.Report) {
	const rule = "C02/R1"
	r.Rule(rule, "UnLock releases only the hold found by GetLockedLock(request) (non-nil), or the oldest holder under the unlock-first flag", 6)
	fn := mustFunc(p, r, "server.(*LockDB).UnLock")
	if fn == nil {
		return
	}
	cmd := fn.Params[2].Name()
	lockedKey, expKey := fk("server.Lock", "locked"), fk("server.Lock", "expried")
	check := func(x *core.X, target string, what string) {
		key := siteKey(p, x.Ins)
		t := core.Plain(target)
		switch {
		case strings.HasPrefix(t, "GetLockedLock("):
			n, a, ok := splitCall(t)
			if !ok || n != "GetLockedLock" || len(a) != 2 || a[1] != cmd {
				r.Violate(rule, key, x.Pos(), what+" of "+t+": lookup is not for this request", x.St.Trace)
			} else if !x.Passed(t + " != nil") {
				r.Violate(rule, key, x.Pos(), what+" of "+t+" without the non-nil test", x.St.Trace)
			} else {
				r.Hold(rule, key, x.Pos(), what+" of the hold found by LockId")
			}
		case strings.HasSuffix(t, ".currentLock"):
			if x.Passed("("+cmd+".Flag & 1) != 0") && x.Passed(t+" != nil") {
				r.Hold(rule, key, x.Pos(), what+" of the oldest holder under the unlock-first flag")
			} else {
				r.Violate(rule, key, x.Pos(), what+" of the oldest holder "+t+" without the unlock-first flag / non-nil test on this path", x.St.Trace)
			}
		default:
			r.Violate(rule, key, x.Pos(), what+" of "+t+", which is neither the hold found by LockId nor the oldest holder", x.St.Trace)
		}
	}
	ex := core.NewExplorer(p, core.Hooks{
		Track: func(x *core.X, a core.Atom) bool {
			return strings.HasPrefix(a.L, "GetLockedLock(") || strings.Contains(a.L, ".currentLock") || strings.Contains(a.L, cmd+".Flag & 1)")
		},
		Instr: func(x *core.X) {
			if !x.Top() {
				return
			}
			switch t := x.Ins.(type) {
			case *ssa.Store:
				if k, ok := storeKey(t.Addr); ok && (k == lockedKey || k == expKey) {
					a := strings.TrimPrefix(x.Canon(t.Addr).S, "&")
					check(x, a[:strings.LastIndex(a, ".")], "store to "+k.Field)
				}
			case ssa.CallInstruction:
				if calleeIs(x.Ins, "LockManager", "RemoveLock") {
					check(x, argCanon(x, x.Ins, 1), "RemoveLock")
				}
			}
		},
	})
	ex.Run(fn, nil)
	if ex.Imprecise != "" {
		r.Fail("C02/R1: %s", ex.Imprecise)
	}
}

func c02R2(p *core.Prog, r *core.Report) {
	const rule = "C02/R2"
	r.Rule(rule, "refusal replies of Lock/UnLock are reached without any engine mutation on the path", 10)
	refusal := map[string]string{}
	for _, n := range []string{"RESULT_UNLOCK_ERROR", "RESULT_UNOWN_ERROR", "RESULT_LOCK_ACK_WAITING", "RESULT_STATE_ERROR", "RESULT_UNKNOWN_DB", "RESULT_TIMEOUT", "RESULT_LOCKED_ERROR"} {
		refusal[fmt.Sprint(mustConst(p, r, "protocol", n))] = n
	}
	for _, name := range []string{"server.(*LockDB).Lock", "server.(*LockDB).UnLock"} {
		fn := mustFunc(p, r, name)
		if fn == nil {
			continue
		}
		cmd := fn.Params[2].Name()
		ex := core.NewExplorer(p, core.Hooks{
			Track: func(x *core.X, a core.Atom) bool { return strings.Contains(a.L, cmd+".Flag & 2)") },
			Instr: func(x *core.X) {
				if !x.Top() {
					return
				}
				switch t := x.Ins.(type) {
				case *ssa.Store:
					if k, ok := storeKey(t.Addr); ok {
						if (k.Type == "server.LockManager" || k.Type == "server.Lock" || k.Type == "server.LockManagerData" || k.Type == "server.LockData") && x.Get("mut") == "" {
							x.Set("mut", "store "+k.String()+" at "+x.Pos())
						}
						if k.Type == "protocol.LockDBState" && k.Field != "UnlockErrorCount" && x.Get("mut") == "" {
							x.Set("mut", "store "+k.String()+" at "+x.Pos())
						}
					}
				case ssa.CallInstruction:
					if n, ok := isMutatorCall(x.Ins); ok {
						if x.Get("mut") == "" {
							x.Set("mut", "call "+n+" at "+x.Pos())
						}
						return
					}
					rq, res, _, ok := replyCall(x, x.Ins)
					if !ok || rq != cmd {
						return
					}
					rn, isRef := refusal[res]
					if !isRef {
						return
					}
					key := siteKey(p, x.Ins)
					if rn == "RESULT_LOCKED_ERROR" && !x.St.Facts.HasPlain("("+cmd+".Flag & 2) == 0") {
						return // update request: LOCKED_ERROR reports a performed update
					}
					if m := x.Get("mut"); m != "" {
						if strings.HasPrefix(m, "call cancelWaitLock") {
							return
						}
						r.Violate(rule, key, x.Pos(), rn+" refusal after an engine mutation on the same path ("+m+")", x.St.Trace)
					} else {
						r.Hold(rule, key, x.Pos(), rn+" without mutation")
					}
				}
			},
		})
		ex.Run(fn, nil)
		if ex.Imprecise != "" {
			r.Fail("C02/R2 %s: %s", name, ex.Imprecise)
		}
	}
}

func c02R3(p *core.Prog, r *core.Report) {
	const rule = "C02/R3"
	r.Rule(rule, "UnLock success paths: depth lowered exactly once (by 1 under Rcount>0 with depth>1, or when depth<=1; else by the whole depth) and RemoveLock called exactly once unless the depth stays positive", 3)
	fn := mustFunc(p, r, "server.(*LockDB).UnLock")
	if fn == nil {
		return
	}
	cmd := fn.Params[2].Name()
	classes := map[string]*struct {
		pos, bad string
		path     []string
	}{}
	ex := core.NewExplorer(p, core.Hooks{
		Inline: inlineSet(p, "server.(*LockDB).unlockTreeLock", "server.(*LockDB).addUnlockLockCommandToWaitLock"),
		Track: func(x *core.X, a core.Atom) bool {
			s := core.Plain(a.String())
			return strings.Contains(s, ".locked") || strings.Contains(s, cmd+".Rcount") || strings.Contains(s, cmd+".TimeoutFlag & 16)")
		},
		Instr: func(x *core.X) {
			switch t := x.Ins.(type) {
			case *ssa.Store:
				if k, ok := storeKey(t.Addr); ok && x.Top() {
					if k == lmLocked {
						if b, ok := t.Val.(*ssa.BinOp); ok && b.Op == token.SUB {
							x.Set("mdec", x.Get("mdec")+"|"+core.Plain(x.Canon(b.Y).S))
						}
					}
					if k == fk("server.Lock", "locked") {
						if b, ok := t.Val.(*ssa.BinOp); ok && b.Op == token.SUB {
							x.Set("ldec", x.Get("ldec")+"|"+core.Plain(x.Canon(b.Y).S))
						}
					}
				}
			case ssa.CallInstruction:
				if calleeIs(x.Ins, "LockManager", "RemoveLock") && x.Top() {
					x.Set("rm", x.Get("rm")+"R")
				}
				if rq, res, _, ok := replyCall(x, x.Ins); ok && rq == cmd && res == "0" {
					x.Set("ok", "1")
				}
			}
		},
		Exit: func(x *core.X, rets []core.Expr) {
			if x.Get("ok") != "1" {
				return
			}
			partialGuard := x.Passed("0 < "+cmd+".Rcount") && x.Passed("("+cmd+".TimeoutFlag & 16) == 0")
			deep, shallow, staysPositive := false, false, false
			isHold := func(op string) bool {
				b := strings.TrimSuffix(op, ".locked")
				return b != op && (strings.HasPrefix(b, "GetLockedLock(") || strings.HasSuffix(b, ".currentLock"))
			}
			for h := range x.St.Hist {
				switch {
				case strings.HasPrefix(h, "1 < ") && isHold(h[4:]):
					deep = true
				case strings.HasSuffix(h, " <= 1") && isHold(strings.TrimSuffix(h, " <= 1")):
					shallow = true
				case strings.HasSuffix(h, " != 0") && isHold(strings.TrimSuffix(h, " != 0")):
					staysPositive = true
				}
			}
			mdec, ldec, rm := x.Get("mdec"), x.Get("ldec"), x.Get("rm")
			key := fmt.Sprintf("server.(*LockDB).UnLock: success{depth>1=%v rcount-partial=%v stays-positive=%v mgr-=%s lock-=%s removes=%d}", deep, partialGuard && deep, staysPositive && partialGuard && deep, mdec, ldec, len(rm))
			bad := ""
			switch {
			case strings.Count(mdec, "|") != 1:
				bad = "key depth lowered " + fmt.Sprint(strings.Count(mdec, "|")) + " times on a successful unlock"
			case deep && partialGuard:
				if mdec != "|1" || ldec != "|1" {
					bad = "Rcount>0 unlock of a deeper hold must remove exactly one depth from the hold and the key"
				} else if staysPositive && rm != "" {
					bad = "hold removed although its depth stays positive"
				} else if !staysPositive && rm != "R" {
					bad = "hold whose depth reached 0 must be removed exactly once"
				}
			case deep:
				if !strings.HasSuffix(mdec, ".locked)") || !strings.HasPrefix(mdec, "|uint32(") {
					bad = "Rcount=0 (or priority) unlock of a deeper hold must subtract the hold's whole depth, got " + mdec
				} else if rm != "R" {
					bad = "hold must be removed exactly once"
				}
			case shallow:
				if mdec != "|1" {
					bad = "unlock of a depth<=1 hold must lower the key depth by 1, got " + mdec
				} else if rm != "R" {
					bad = "hold must be removed exactly once"
				}
			default:
				bad = "success path without a depth classification (depth>1 / depth<=1 test missing)"
			}
			c := classes[key]
			if c == nil {
				c = &struct {
					pos, bad string
					path     []string
				}{pos: x.Pos()}
				classes[key] = c
			}
			if bad != "" && c.bad == "" {
				c.bad = bad
				c.path = x.St.Trace
			}
		},
	})
	ex.Run(fn, nil)
	if ex.Imprecise != "" {
		r.Fail("C02/R3: %s", ex.Imprecise)
	}
	keys := make([]string, 0, len(classes))
	for k := range classes {
		keys = append(keys, k)
	}
	sort.Strings(keys)
	for _, k := range keys {
		if classes[k].bad != "" {
			r.Violate(rule, k, classes[k].pos, classes[k].bad, classes[k].path)
		} else {
			r.Hold(rule, k, classes[k].pos, "")
		}
	}
}

func c02R4(p *core.Prog, r *core.Report) {
	const rule = "C02/R4"
	r.Rule(rule, "the re-entrant depth increment in Lock is guarded by owner found, ackCount==0xff, depth<0xff, depth<=Rcount, priority flag clear, Expried!=0", 1)
	fn := mustFunc(p, r, "server.(*LockDB).Lock")
	if fn == nil {
		return
	}
	cmd := fn.Params[2].Name()
	ex := core.NewExplorer(p, core.Hooks{
		Track: func(x *core.X, a core.Atom) bool {
			s := a.String()
			return strings.Contains(s, "GetLockedLock(") || strings.Contains(s, cmd+".Rcount") || strings.Contains(s, cmd+".Expried") || strings.Contains(s, cmd+".TimeoutFlag & 16)")
		},
		Instr: func(x *core.X) {
			st, ok := x.Ins.(*ssa.Store)
			if !ok || !x.Top() {
				return
			}
			k, ok := storeKey(st.Addr)
			if !ok || k != fk("server.Lock", "locked") {
				return
			}
			b, ok := st.Val.(*ssa.BinOp)
			if !ok || b.Op != token.ADD {
				return
			}
			a := strings.TrimPrefix(x.Canon(st.Addr).S, "&")
			hold := core.Plain(a[:strings.LastIndex(a, ".")])
			f := &x.St.Facts
			var missing []string
			need := map[string]string{
				"owner found by LockId": hold + " != nil",
				"not ack-pending":       hold + ".ackCount == 255",
				"depth < 0xff":          hold + ".locked < 255",
				"depth <= Rcount":       hold + ".locked <= " + cmd + ".Rcount",
				"priority flag clear":   "(" + cmd + ".TimeoutFlag & 16) == 0",
				"Expried != 0":          cmd + ".Expried != 0",
			}
			names := make([]string, 0, len(need))
			for n := range need {
				names = append(names, n)
			}
			sort.Strings(names)
			if !strings.HasPrefix(hold, "GetLockedLock(") {
				missing = append(missing, "incremented hold is "+hold+", not the result of GetLockedLock")
			}
			for _, n := range names {
				if !f.HasPlain(need[n]) {
					missing = append(missing, n+" ("+need[n]+")")
				}
			}
			key := siteKey(p, x.Ins)
			if len(missing) > 0 {
				r.Violate(rule, key, x.Pos(), "re-entrant increment without guard(s): "+strings.Join(missing, "; "), x.St.Trace)
			} else {
				r.Hold(rule, key, x.Pos(), "all six guards on the path")
			}
		},
	})
	ex.Run(fn, nil)
	if ex.Imprecise != "" {
		r.Fail("C02/R4: %s", ex.Imprecise)
	}
}

func c02R5(p *core.Prog, r *core.Report) {
	const rule = "C02/R5"
	r.Rule(rule, "cancelWaitLock answers the canceller LOCKED_ERROR and the cancelled waiter UNLOCK_ERROR; not-found answers UNLOCK_ERROR", 3)
	fn := mustFunc(p, r, "server.(*LockDB).cancelWaitLock")
	if fn == nil {
		return
	}
	cmd := fn.Params[2].Name()
	lockedErr := fmt.Sprint(mustConst(p, r, "protocol", "RESULT_LOCKED_ERROR"))
	unlockErr := fmt.Sprint(mustConst(p, r, "protocol", "RESULT_UNLOCK_ERROR"))
	ex := core.NewExplorer(p, core.Hooks{
		Instr: func(x *core.X) {
			if st, ok := x.Ins.(*ssa.Store); ok {
				if k, ok := storeKey(st.Addr); ok && k == fk("server.Lock", "timeouted") {
					x.Set("found", "1")
				}
			}
			rq, res, _, ok := replyCall(x, x.Ins)
			if !ok {
				return
			}
			key := siteKey(p, x.Ins)
			want := ""
			switch {
			case rq == cmd && x.Get("found") == "1":
				want = lockedErr
			case rq == cmd:
				want = unlockErr
			default:
				want = unlockErr
			}
			if res != want {
				r.Violate(rule, key, x.Pos(), "reply to "+rq+" carries result "+res+", want "+want, x.St.Trace)
			} else {
				r.Hold(rule, key, x.Pos(), "result "+res)
			}
		},
	})
	ex.Run(fn, nil)
}

func c02R6(p *core.Prog, r *core.Report) {
	const rule = "C02/R6"
	r.Rule(rule, "LockManager.RemoveLock deletes from the holders' LockId index every hold it promotes to oldest holder and every non-oldest hold it releases", 2)
	fn := mustFunc(p, r, "server.(*LockManager).RemoveLock")
	if fn == nil {
		return
	}
	self, lk := fn.Params[0].Name(), fn.Params[1].Name()
	ex := core.NewExplorer(p, core.Hooks{
		Track: func(x *core.X, a core.Atom) bool {
			s := core.Plain(a.String())
			return strings.Contains(s, self+".currentLock") || strings.Contains(s, self+".locks") || strings.HasSuffix(core.Plain(a.L), ".scaleQueue") || strings.HasSuffix(core.Plain(a.L), ".locked") || strings.HasSuffix(core.Plain(a.R), ".locked")
		},
		// the index helper is explored inline, so that the rule sees the map deletion
		// whether it is written in the helper or directly in RemoveLock
		Inline: func(x *core.X, c *ssa.Function) bool {
			return strings.HasSuffix(core.FuncName(c), "(*LockManagerLockQueue).RemoveLock")
		},
		Branch: func(x *core.X, a core.Atom) {
			// no map-backed index exists on this path: nothing to delete
			if strings.HasSuffix(core.Plain(a.L), ".scaleQueue") && a.Op == "==" && a.R == "nil" {
				x.Set("noidx", "1")
			}
		},
		Instr: func(x *core.X) {
			if c, ok := x.Ins.(*ssa.Call); ok {
				if bi, ok := c.Common().Value.(*ssa.Builtin); ok && bi.Name() == "delete" && len(c.Common().Args) == 2 {
					if strings.HasSuffix(core.Plain(x.Canon(c.Common().Args[0]).S), ".scaleQueue.maps") {
						k := core.Plain(x.Canon(c.Common().Args[1]).S)
						if strings.HasSuffix(k, ".LockId") {
							x.Set("idx:"+strings.TrimSuffix(k, ".LockId"), "1")
							// the index is keyed by LockId: deleting the entry of a queue slot
							// that is already released (skipped while looking for the next
							// oldest holder) removes the entry of that LockId's *current* hold
							hold := strings.TrimSuffix(strings.TrimSuffix(k, ".LockId"), ".command")
							if hold != lk {
								key := "server.(*LockManager).RemoveLock: index deletion for a popped slot"
								if x.Passed("0 < "+hold+".locked") || x.Passed(hold+".locked != 0") {
									r.Hold(rule, key, x.Pos(), "only for the live hold being promoted")
								} else {
									r.Violate(rule, key, x.Pos(), "the LockId index entry is deleted for a queue slot that was not tested live: if that LockId has re-acquired the key, its current hold disappears from the index (a re-lock is granted as a second hold, its unlock gets UNOWN_ERROR)", x.St.Trace)
								}
							}
						}
					}
				}
			}
			if !x.Top() {
				return
			}
			if st, ok := x.Ins.(*ssa.Store); ok {
				if k, ok := storeKey(st.Addr); ok && k == fk("server.LockManager", "currentLock") {
					v := core.Plain(x.Canon(st.Val).S)
					if v == "nil" {
						return
					}
					key := siteKey(p, x.Ins)
					if x.Get("idx:"+v+".command") == "1" || x.Get("noidx") == "1" {
						r.Hold(rule, key, x.Pos(), "promoted hold deleted from the index first (or no map-backed index exists)")
					} else {
						r.Violate(rule, key, x.Pos(), "hold "+v+" promoted to oldest holder without deleting it from the LockId index (a later unlock of that LockId would find the ended hold)", x.St.Trace)
					}
				}
			}
		},
		Exit: func(x *core.X, rets []core.Expr) {
			notCurrent := x.Passed(lk+" != "+self+".currentLock") || x.Passed(self+".currentLock != "+lk)
			if !notCurrent || !x.Passed(self+".locks != nil") {
				return
			}
			key := "server.(*LockManager).RemoveLock: release of a non-oldest hold"
			if x.Get("idx:"+lk+".command") == "1" || x.Get("noidx") == "1" {
				r.Hold(rule, key, x.Pos(), "released hold deleted from the index (or no map-backed index exists)")
			} else {
				r.Violate(rule, key, x.Pos(), "released non-oldest hold stays in the LockId index", x.St.Trace)
			}
		},
	})
	ex.Run(fn, nil)
}

// c02R7: answered requests (timed out, cancelled) stay parked in the wait
// queue until they reach its head. cancelWaitLock looks a waiter up by LockId,
// so an answered entry with the same LockId must not be selected and must not
// end the search - otherwise it shadows the live request queued behind it, the
// canceller is told UNLOCK_ERROR and the live request is later granted although
// its owner cancelled it. Structurally: every assignment of a queue entry to
// the candidate is dominated by the not-answered side of a test of that
// entry's timeouted flag.
func c02R7(p *core.Prog, r *core.Report) { cancelSelectsLive(p, r, "C02/R7") }

// cancelSelectsLive is shared by C02/R7 and C03/R10: the same dominance
// condition is necessary for both (C02: an answered entry must not shadow the
// live request; C03: an answered entry must not be answered a second time).
func cancelSelectsLive(p *core.Prog, r *core.Report, rule string) {
	r.Rule(rule, "cancelWaitLock selects a queue entry as the waiter to cancel only on the not-answered side of a test of that entry's timeouted flag", 1)
	fn := mustFunc(p, r, "server.(*LockDB).cancelWaitLock")
	if fn == nil {
		return
	}
	isElem := func(v ssa.Value) bool {
		u, ok := v.(*ssa.UnOp)
		if !ok {
			return false
		}
		_, ok = u.X.(*ssa.IndexAddr)
		return ok && core.TypeKey(v.Type()) == "server.Lock"
	}
	// blocks entered on the not-answered side of "elem.timeouted"
	live := map[ssa.Value][]*ssa.BasicBlock{}
	for _, b := range fn.Blocks {
		if len(b.Instrs) == 0 {
			continue
		}
		iff, ok := b.Instrs[len(b.Instrs)-1].(*ssa.If)
		if !ok {
			continue
		}
		cond, side := iff.Cond, 1
		if n, ok := cond.(*ssa.UnOp); ok && n.Op.String() == "!" {
			cond, side = n.X, 0
		}
		ld, ok := cond.(*ssa.UnOp)
		if !ok {
			continue
		}
		fa, ok := ld.X.(*ssa.FieldAddr)
		if !ok {
			continue
		}
		if k := core.FieldKeyOf(fa.X.Type(), fa.Field); k.Type == "server.Lock" && k.Field == "timeouted" && isElem(fa.X) {
			live[fa.X] = append(live[fa.X], b.Succs[side])
		}
	}
	n := 0
	for _, b := range fn.Blocks {
		for _, ins := range b.Instrs {
			phi, ok := ins.(*ssa.Phi)
			if !ok || core.TypeKey(phi.Type()) != "server.Lock" {
				continue
			}
			for i, e := range phi.Edges {
				if !isElem(e) {
					continue
				}
				n++
				pred := b.Preds[i]
				key := fmt.Sprintf("server.(*LockDB).cancelWaitLock: candidate assignment#%d", n)
				ok := false
				for _, lb := range live[e] {
					if lb.Dominates(pred) {
						ok = true
					}
				}
				if ok {
					r.Hold(rule, key, p.InstrPos(phi), "entry selected on the not-answered side of its timeouted test")
				} else {
					r.Violate(rule, key, p.InstrPos(phi), "a wait-queue entry becomes the waiter to cancel without its timeouted flag having been tested clear for it: an already answered entry with the same LockId shadows the live request behind it (canceller gets UNLOCK_ERROR, the cancelled request is granted later)", nil)
				}
			}
		}
	}
	if n == 0 {
		r.Violate(rule, "server.(*LockDB).cancelWaitLock: candidate assignment", p.Pos(fn.Pos()), "no selection of a wait-queue entry found in cancelWaitLock", nil)
	}
}

// c02R8: the holder lookup by LockId (LockManagerLockQueue.GetLock, behind
// GetLockedLock) answers for the whole holder list: the inline slice and the
// map-backed overflow. Ownership is exact only if a hit is a live entry with
// the requested id and a miss has looked at both parts.
func c02R8(p *core.Prog, r *core.Report) {
	const rule = "C02/R8"
	r.Rule(rule, "holder lookup by LockId: a hit from the inline slice is a live entry (depth > 0) with the requested id, a hit from the overflow index is its lookup by that id, and a miss has scanned the inline slice to its end (or found it absent) and missed in the index (or found it absent)", 3)
	fn := mustFunc(p, r, "server.(*LockManagerLockQueue).GetLock")
	if fn == nil {
		return
	}
	self, cmd := fn.Params[0].Name(), fn.Params[1].Name()
	name := "server.(*LockManagerLockQueue).GetLock"
	ex := core.NewExplorer(p, core.Hooks{
		Track: func(x *core.X, a core.Atom) bool { return true },
		Exit: func(x *core.X, rets []core.Expr) {
			if len(rets) != 1 {
				return
			}
			ret := core.Plain(rets[0].S)
			hist := map[string]bool{}
			for h := range x.St.Hist {
				hist[core.Plain(h)] = true
			}
			has := func(pred func(string) bool) bool {
				for h := range hist {
					if pred(h) {
						return true
					}
				}
				return false
			}
			switch {
			case ret == "nil":
				sliceDone := hist[self+".fastQueue == nil"] || has(func(h string) bool {
					return strings.HasPrefix(h, "len("+self+".fastQueue") && strings.Contains(h, " <= ")
				})
				indexDone := hist[self+".scaleQueue == nil"] || has(func(h string) bool {
					return strings.Contains(h, self+".scaleQueue.maps[") && strings.HasSuffix(h, " == false")
				})
				key := name + ": miss"
				switch {
				case !sliceDone:
					r.Violate(rule, key, x.Pos(), "\"not a holder\" is answered on a path that has not scanned the inline slice of holders to its end: a holder stored there is not found by its own id (its unlock is refused, its repeated lock is granted as a second hold)", x.St.Trace)
				case !indexDone:
					r.Violate(rule, key, x.Pos(), "\"not a holder\" is answered on a path that has not looked the id up in the overflow index of holders", x.St.Trace)
				default:
					r.Hold(rule, key, x.Pos(), "both parts of the holder list examined")
				}
			case strings.Contains(ret, ".scaleQueue.maps["):
				key := name + ": hit in the overflow index"
				if strings.Contains(ret, ".maps["+cmd+".LockId]") && has(func(h string) bool {
					return strings.Contains(h, self+".scaleQueue.maps["+cmd+".LockId]") && strings.HasSuffix(h, " == true")
				}) {
					r.Hold(rule, key, x.Pos(), "lookup by the requested id succeeded")
				} else {
					r.Violate(rule, key, x.Pos(), "an index entry is returned that is not the successful lookup of the requested LockId", x.St.Trace)
				}
			case strings.Contains(ret, ".fastQueue"):
				key := name + ": hit in the inline slice"
				live := hist["0 < "+ret+".locked"] || hist[ret+".locked != 0"]
				same := hist[cmd+".LockId == "+ret+".command.LockId"] || hist[ret+".command.LockId == "+cmd+".LockId"]
				switch {
				case !same:
					r.Violate(rule, key, x.Pos(), "an entry of the inline slice is returned without its LockId having been compared equal to the requested one", x.St.Trace)
				case !live:
					r.Violate(rule, key, x.Pos(), "an entry of the inline slice is returned without testing that it is still held (depth > 0): released entries stay in the slice until they reach its head, so a released id is taken for a current holder (its next lock is granted as a re-entry past the admission test, its repeated unlock lowers the depth twice)", x.St.Trace)
				default:
					r.Hold(rule, key, x.Pos(), "live entry with the requested id")
				}
			default:
				r.Violate(rule, name+": result", x.Pos(), "the lookup returns "+ret+", which is neither an entry of the holder list nor nil", x.St.Trace)
			}
		},
	})
	ex.Run(fn, nil)
	if ex.Imprecise != "" {
		r.Fail("C02/R8: %s", ex.Imprecise)
	}
}

// c02R9: a LockId that already holds the key gains depth through the
// re-entrant path (bounded by Rcount) - never a second, independent hold:
// unlock finds one hold per LockId, and the holder index has one entry per
// LockId. So every grant that adds a holder (AddLock) to a key that may
// already have holders consults the holder index for the request's LockId
// first (GetLockedLock), or has established that the key has no holders.
func c02R9(p *core.Prog, r *core.Report) {
	const rule = "C02/R9"
	r.Rule(rule, "every AddLock in Lock / wakeUpWaitLock is preceded on its path by a holder lookup for the request's LockId (GetLockedLock) or by the fact that the key has no holders", 3)
	for _, name := range []string{"server.(*LockDB).Lock", "server.(*LockDB).wakeUpWaitLock"} {
		fn := mustFunc(p, r, name)
		if fn == nil {
			continue
		}
		seen := map[string]bool{}
		ex := core.NewExplorer(p, core.Hooks{
			Track: func(x *core.X, a core.Atom) bool {
				s := core.Plain(a.String())
				return strings.HasSuffix(s, ".locked <= 0") || strings.HasSuffix(s, ".locked == 0")
			},
			Instr: func(x *core.X) {
				if !x.Top() {
					return
				}
				if calleeIs(x.Ins, "LockManager", "GetLockedLock") {
					x.Set("looked", "1")
					return
				}
				if !calleeIs(x.Ins, "LockManager", "AddLock") {
					return
				}
				key := siteKey(p, x.Ins)
				ok := x.Get("looked") == "1"
				for h := range x.St.Hist {
					hp := core.Plain(h)
					if strings.Contains(hp, "Manager") && (strings.HasSuffix(hp, ".locked <= 0") || strings.HasSuffix(hp, ".locked == 0")) {
						ok = true
					}
				}
				if ok {
					if !seen[key] {
						r.Hold(rule, key, x.Pos(), "holder lookup (or no holders) before the grant")
					}
				} else if !seen[key+"!"] {
					seen[key+"!"] = true
					r.Violate(rule, key, x.Pos(), "a holder is added without looking for an existing hold of the request's LockId: two queued requests bearing the same LockId are both granted, the LockId then owns two independent holds - an unlock releases only one of them, a second unlock of the same LockId succeeds again, and the one-entry-per-LockId holder index is corrupted", x.St.Trace)
				}
				seen[key] = true
			},
		})
		ex.Run(fn, nil)
		if ex.Imprecise != "" {
			r.Fail("C02/R9 %s: %s", name, ex.Imprecise)
		}
	}
}
