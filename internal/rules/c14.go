package rules

import (
	"fmt"
	"go/token"
	"go/types"
	"sort"
	"strconv"
	"strings"

	"golang.org/x/tools/go/ssa"

	"slockverif/internal/core"
)

func init() { Registry["C14"] = checkC14 }

func checkC14(p *core.Prog, r *core.Report) {
	r.Explanation = "Decides structural necessary conditions of lossless codecs by extracting the byte layout of every straight-line codec function from SSA (constant-bound loops expanded): (R1) every Encode of package protocol writes all 64 positions; (R2) for each of the 20 Encode/Decode pairs every field byte that Decode reads from position p is the byte Encode writes at p (little-endian multi-byte fields, widening before shifting), string fields are read from the region they are written to; (R3) LockCommand and LockResultCommand match the offsets documented in README.md; (R4) every hand-inlined decoder of lock frames in server/ and client/ (functions storing LockCommand fields from a byte buffer) agrees with LockCommand.Decode on every arm, and the inlined result encoder of BinaryServerProtocol agrees with LockResultCommand.Encode; (R5) every RESULT_* code indexes inside ERROR_MSG (every result code has a text rendering); (R7) the text forms COUNT n / RCOUNT n reach the wire as n-1 and results render Count+1 / Rcount+1. (R8) the text parser's in-argument cursor is only reset, accumulated or set to the argument length (a necessary condition of chunking independence; found a real defect, repaired). (R9) the key/id normaliser defines all 16 bytes of its destination on every path (short arguments left-padded with zeros even in a recycled command). (R10) line segments of the reply parser can be empty (inclusive end initialised before the start; a real defect was repaired). (R11) every text converter assigns every wire field of its pooled LockCommand on every path. (R12) after an element-count line the text parsers expect an element only under a test of the count (the empty list \"*0\" is complete at once; a real defect was repaired). (R13) after a text converter hands the rest of its argument list to a nested conversion inside its option loop, the loop does not go on over those arguments. (R14) no integer field of the text parsers is assigned from a loop-carried local accumulator (partial tokens live in fields, so a return at the end of a read loses nothing). NOT decided: the rest of chunking independence, the rest of the Build/Parse round trip, binary-safety of arguments, effect equivalence of text and binary LOCK, key normalisation (MD5/hex paths)."
	r.Assumptions = []string{"Go type checker and go/ssa are correct for /repo", "codec functions are straight-line apart from constant-bound loops (anything else is reported as uninterpreted)"}
	c14R123(p, r)
	c14R4(p, r)
	c14R5(p, r, "C14/R5")
	c14R7(p, r)
	c14R8(p, r)
	c14R9(p, r)
	c14R10(p, r)
	c14R11(p, r)
	c14R12(p, r)
	c14R13(p, r)
	c14R14(p, r)
}

// c14R8: the text parser is resumable - it returns in the middle of an argument
// when a read ends there and continues with the next read. cargIndex is its
// place inside the current argument (digits of a length while in the header
// stages, payload bytes consumed in the payload stage), so every store to it is
// a reset (0), an accumulation (old + consumed) or "argument complete"
// (= cargLen). Any other value makes the place depend on how the bytes were
// split over reads.
func c14R8(p *core.Prog, r *core.Report) {
	const rule = "C14/R8"
	r.Rule(rule, "text parser: every store to the in-argument cursor is a reset, an accumulation of what was consumed, or the argument length (place independent of chunking)", 12)
	for _, fn := range p.FuncsIn("protocol") {
		if fn.Blocks == nil || recvName(fn) != "TextParser" {
			continue
		}
		x := &core.X{Fr: &core.Frame{Fn: fn}, St: core.NewState()}
		ord := 0
		for _, b := range fn.Blocks {
			for _, ins := range b.Instrs {
				st, ok := ins.(*ssa.Store)
				if !ok {
					continue
				}
				k, ok := storeKey(st.Addr)
				if !ok || k.Type != "protocol.TextParser" || k.Field != "cargIndex" {
					continue
				}
				ord++
				recv := fn.Params[0].Name()
				v := core.Plain(x.Canon(st.Val).S)
				key := fmt.Sprintf("%s: store cargIndex#%d", core.FuncName(fn), ord)
				switch {
				case v == "0":
					r.Hold(rule, key, p.InstrPos(ins), "reset")
				case strings.HasPrefix(v, "("+recv+".cargIndex + "):
					r.Hold(rule, key, p.InstrPos(ins), "accumulates what this read consumed")
				case v == recv+".cargLen":
					r.Hold(rule, key, p.InstrPos(ins), "argument complete")
				default:
					r.Violate(rule, key, p.InstrPos(ins), "in-argument cursor set to "+stable(v)+": after an argument that arrived over several reads this is not the number of payload bytes consumed, so the next read (e.g. the trailing CRLF alone) is taken for payload - the argument list depends on how the stream was split", nil)
				}
			}
		}
	}
}

func codecTypes(p *core.Prog) []string {
	seen := map[string]int{}
	for _, fn := range p.FuncsIn("protocol") {
		if fn.Signature.Recv() == nil || (fn.Name() != "Encode" && fn.Name() != "Decode") || fn.Signature.Params().Len() != 1 {
			continue
		}
		seen[recvName(fn)]++
	}
	var out []string
	for t, n := range seen {
		if n == 2 {
			out = append(out, t)
		}
	}
	sort.Strings(out)
	return out
}

// README.md "Slock Binary Protocol" tables (specification, kept here).
var readmeRequest = map[string][2]int{"Magic": {0, 1}, "Version": {1, 1}, "CommandType": {2, 1}, "RequestId": {3, 16}, "Flag": {19, 1}, "DbId": {20, 1},
	"LockId": {21, 16}, "LockKey": {37, 16}, "Timeout": {53, 2}, "TimeoutFlag": {55, 2}, "Expried": {57, 2}, "ExpriedFlag": {59, 2}, "Count": {61, 2}, "Rcount": {63, 1}}
var readmeResponse = map[string][2]int{"Magic": {0, 1}, "Version": {1, 1}, "CommandType": {2, 1}, "RequestId": {3, 16}, "Result": {19, 1}, "Flag": {20, 1}, "DbId": {21, 1},
	"LockId": {22, 16}, "LockKey": {38, 16}, "Lcount": {54, 2}, "Count": {56, 2}, "Lrcount": {58, 1}, "Rcount": {59, 1}}

func c14R123(p *core.Prog, r *core.Report) {
	r.Rule("C14/R1", "every Encode writes all 64 positions of the frame", 20)
	r.Rule("C14/R2", "Decode reads each field byte from the position Encode writes it to", 400)
	r.Rule("C14/R3", "LockCommand / LockResultCommand layouts equal the README tables", 27)
	types_ := codecTypes(p)
	if len(types_) < 15 {
		r.Fail("C14: only %d Encode/Decode pairs found in package protocol", len(types_))
	}
	for _, t := range types_ {
		enc := p.Func("protocol.(*" + t + ").Encode")
		dec := p.Func("protocol.(*" + t + ").Decode")
		le := ExtractLayout(p, enc, paramPred(enc, 1), paramPred(enc, 0))
		ld := ExtractLayout(p, dec, paramPred(dec, 1), paramPred(dec, 0))
		if len(le.Enc) == 0 && len(ld.Dec) == 0 {
			continue // not a fixed 64-byte frame codec (text request/response wrappers)
		}
		for _, is := range append(le.Issues, ld.Issues...) {
			r.Undecide("C14/R2", "protocol."+t+": uninterpreted "+is[strings.Index(is, ": ")+2:], strings.SplitN(is, ": ", 2)[0], is)
		}
		// R1
		var missing []string
		for i := 0; i < 64; i++ {
			if _, ok := le.Enc[i]; !ok {
				missing = append(missing, strconv.Itoa(i))
			}
		}
		if len(missing) > 0 {
			r.Violate("C14/R1", "protocol."+t+".Encode: totality", p.Pos(enc.Pos()), "positions never written (stale bytes of a reused buffer would be sent): "+strings.Join(missing, ","), nil)
		} else {
			r.Hold("C14/R1", "protocol."+t+".Encode: totality", p.Pos(enc.Pos()), "64/64 positions written")
		}
		// R2
		keys := make([]string, 0, len(ld.Dec))
		for k := range ld.Dec {
			keys = append(keys, k)
		}
		sort.Strings(keys)
		for _, k := range keys {
			pos := ld.Dec[k]
			key := "protocol." + t + ": " + k
			got := le.Enc[pos]
			if got == k || strings.HasPrefix(got, "either(") && strings.Contains(got, k) {
				r.Hold("C14/R2", key, ld.Pos["dec"+k], fmt.Sprintf("position %d", pos))
			} else {
				r.Violate("C14/R2", key, ld.Pos["dec"+k], fmt.Sprintf("Decode reads %s from position %d but Encode writes %s there", k, pos, got), nil)
			}
		}
		// every encoded field byte is decoded
		decoded := map[string]bool{}
		for k := range ld.Dec {
			decoded[k] = true
		}
		for f := range ld.StrDec {
			decoded["str:"+f] = true
		}
		for pos := 0; pos < 64; pos++ {
			e := le.Enc[pos]
			if e == "" || strings.HasPrefix(e, "const:") || strings.HasPrefix(e, "?") {
				continue
			}
			f := e
			if i := strings.Index(e, "#"); i > 0 {
				f = e[:i]
			}
			if decoded[e] || decoded["str:"+f] || strings.HasPrefix(f, "Blank") || strings.HasPrefix(e, "either(") {
				continue
			}
			r.Violate("C14/R2", "protocol."+t+": encoded-not-decoded "+e, p.Pos(dec.Pos()), fmt.Sprintf("Encode writes %s at position %d but Decode never reads it (decode-then-encode loses the byte)", e, pos), nil)
		}
		// strings: region agreement
		for f, reg := range ld.StrDec {
			lo, _ := strconv.Atoi(strings.SplitN(reg, ":", 2)[0])
			key := "protocol." + t + ": string " + f
			e := le.Enc[lo]
			if strings.HasPrefix(e, f+"#") || strings.HasPrefix(e, "str:"+f) || strings.Contains(e, f+"#0") {
				r.Hold("C14/R2", key, p.Pos(dec.Pos()), "read from the region it is written to ("+reg+")")
			} else {
				r.Violate("C14/R2", key, p.Pos(dec.Pos()), fmt.Sprintf("Decode reads %s from %s but Encode writes %s at %d", f, reg, e, lo), nil)
			}
		}
		// R3
		var spec map[string][2]int
		switch t {
		case "LockCommand":
			spec = readmeRequest
		case "LockResultCommand":
			spec = readmeResponse
		}
		names := make([]string, 0, len(spec))
		for f := range spec {
			names = append(names, f)
		}
		sort.Strings(names)
		for _, f := range names {
			sp := spec[f]
			for k := 0; k < sp[1]; k++ {
				key := fmt.Sprintf("README %s: %s#%d", t, f, k)
				want := sp[0] + k
				e := le.Enc[want]
				d, dok := ld.Dec[fmt.Sprintf("%s#%d", f, k)]
				if e == fmt.Sprintf("%s#%d", f, k) && dok && d == want {
					r.Hold("C14/R3", key, p.Pos(enc.Pos()), fmt.Sprintf("offset %d", want))
				} else {
					r.Violate("C14/R3", key, p.Pos(enc.Pos()), fmt.Sprintf("README puts %s byte %d at offset %d; Encode writes %s there, Decode reads it from %d", f, k, want, e, d), nil)
				}
			}
		}
	}
}

// isLockCommandPtr reports whether v is a *protocol.LockCommand / *protocol.LockResultCommand value.
func isPtrTo(v ssa.Value, name string) bool {
	pt, ok := v.Type().Underlying().(*types.Pointer)
	if !ok {
		return false
	}
	nt, ok := pt.Elem().(*types.Named)
	return ok && nt.Obj().Name() == name && nt.Obj().Pkg() != nil && nt.Obj().Pkg().Name() == "protocol"
}

func isByteSliceParamOrField(v ssa.Value) bool {
	sl, ok := v.Type().Underlying().(*types.Slice)
	if !ok {
		return false
	}
	if b, ok := sl.Elem().Underlying().(*types.Basic); !ok || b.Kind() != types.Uint8 {
		return false
	}
	switch x := v.(type) {
	case *ssa.Parameter:
		return true
	case *ssa.UnOp: // load of a []byte field (self.wbuf, self.rbuf)
		_, ok := x.X.(*ssa.FieldAddr)
		return ok
	}
	return false
}

func c14R4(p *core.Prog, r *core.Report) {
	const rule = "C14/R4"
	r.Rule(rule, "hand-inlined lock-frame decoders/encoders outside the protocol package agree with LockCommand.Decode / LockResultCommand.Encode", 100)
	refDec := p.Func("protocol.(*LockCommand).Decode")
	refEnc := p.Func("protocol.(*LockResultCommand).Encode")
	if refDec == nil || refEnc == nil {
		r.Fail("C14/R4: reference codecs missing")
		return
	}
	ref := ExtractLayout(p, refDec, paramPred(refDec, 1), paramPred(refDec, 0))
	refE := ExtractLayout(p, refEnc, paramPred(refEnc, 1), paramPred(refEnc, 0))
	found := 0
	for _, rel := range []string{"server", "client"} {
		for _, fn := range p.FuncsIn(rel) {
			if fn.Blocks == nil {
				continue
			}
			lay := ExtractLayout(p, fn, isByteSliceParamOrField, func(v ssa.Value) bool { return isPtrTo(v, "LockCommand") })
			if len(lay.DecAll) >= 10 {
				found++
				keys := make([]string, 0, len(lay.DecAll))
				for k := range lay.DecAll {
					keys = append(keys, k)
				}
				sort.Strings(keys)
				for _, k := range keys {
					want, ok := ref.Dec[k]
					key := core.FuncName(fn) + ": inline decode " + k
					bad := ""
					for _, got := range lay.DecAll[k] {
						if !ok || got != want {
							bad = fmt.Sprintf("inline decoder reads %s from position %d, LockCommand.Decode reads it from %d", k, got, want)
						}
					}
					if bad != "" {
						r.Violate(rule, key, lay.Pos["dec"+k], bad, nil)
					} else {
						r.Hold(rule, key, lay.Pos["dec"+k], fmt.Sprintf("%d arm(s) agree", len(lay.DecAll[k])))
					}
				}
				// every field byte of the reference must be decoded by the inline decoder (per arm count)
				arms := 0
				for _, v := range lay.DecAll {
					if len(v) > arms {
						arms = len(v)
					}
				}
				for k := range ref.Dec {
					if strings.HasPrefix(k, "Magic") || strings.HasPrefix(k, "Version") || strings.HasPrefix(k, "CommandType") {
						continue
					}
					if len(lay.DecAll[k]) < arms {
						r.Violate(rule, core.FuncName(fn)+": inline decode "+k, p.Pos(fn.Pos()), fmt.Sprintf("field byte %s decoded on %d of %d arms (lossy or stale field on the others)", k, len(lay.DecAll[k]), arms), nil)
					}
				}
				for _, is := range lay.Issues {
					if strings.Contains(is, "byte shifted") {
						r.Violate(rule, core.FuncName(fn)+": inline decode "+is[strings.Index(is, "field"):strings.Index(is, "field")+strings.Index(is[strings.Index(is, "field"):], ":")], strings.SplitN(is, ": ", 2)[0], is, nil)
					}
				}
			}
			// inline result encoders: >= 40 buffer positions written from a *LockCommand
			fromRoot := 0
			for _, e := range lay.Enc {
				if !strings.HasPrefix(e, "?") && !strings.HasPrefix(e, "const:") {
					fromRoot++
				}
			}
			if len(lay.Enc) >= 40 && fromRoot >= 30 && fn != refEnc {
				found++
				for pos := 0; pos < 64; pos++ {
					got, want := lay.Enc[pos], refE.Enc[pos]
					key := fmt.Sprintf("%s: inline encode position %d", core.FuncName(fn), pos)
					if roleOf(got) == roleOf(want) || strings.HasPrefix(want, "const:") && strings.HasPrefix(got, "const:") {
						r.Hold(rule, key, lay.Pos[fmt.Sprint("enc", pos)], got)
					} else if strings.HasPrefix(got, "const:") && (strings.HasPrefix(want, "Magic") || strings.HasPrefix(want, "Version") || strings.HasPrefix(want, "Flag")) {
						r.Hold(rule, key, lay.Pos[fmt.Sprint("enc", pos)], "constant "+got+" for "+want)
					} else {
						r.Violate(rule, key, lay.Pos[fmt.Sprint("enc", pos)], fmt.Sprintf("inline encoder writes %s at position %d, LockResultCommand.Encode writes %s", got, pos, want), nil)
					}
				}
			}
		}
	}
	r.Stats["R4_inline_codecs"] = found
	if found < 3 {
		r.Fail("C14/R4: only %d inline codecs recognised (expected the server's LOCK/UNLOCK decoders and its result encoder)", found)
	}
}

// roleOf maps "Lcount#1" / "?uint8((lcount >> 8))" to a comparable role.
func roleOf(e string) string {
	e = strings.ToLower(e)
	if strings.HasPrefix(e, "?") {
		// parameter-sourced byte: ?uint8((lcount >> 8)) / ?lcount / ?result
		k := 0
		if i := strings.Index(e, ">> "); i >= 0 {
			n, _ := strconv.Atoi(strings.TrimRight(e[i+3:], ")"))
			k = n / 8
		}
		name := strings.Trim(e, "?()")
		for _, pre := range []string{"uint8(", "byte("} {
			name = strings.TrimPrefix(name, pre)
		}
		name = strings.Trim(name, "()")
		if i := strings.IndexAny(name, " )"); i > 0 {
			name = name[:i]
		}
		return fmt.Sprintf("%s#%d", name, k)
	}
	if strings.HasPrefix(e, "either(") {
		return "flag#0"
	}
	return e
}

// c14R5 is shared with C13/R2: every result code has a text rendering.
func c14R5(p *core.Prog, r *core.Report, rule string) {
	r.Rule(rule, "len(ERROR_MSG) > max(RESULT_*): every result code has a text rendering (and indexing the table cannot panic)", 10)
	codes := constGroup(p, "protocol", "RESULT_")
	pk := p.Pkg("protocol")
	n := -1
	if pk != nil {
		n = compositeLen(p, "protocol", "ERROR_MSG")
	}
	if n < 0 {
		r.Fail("%s: ERROR_MSG initialiser not found", rule)
		return
	}
	names := make([]string, 0, len(codes))
	for k := range codes {
		names = append(names, k)
	}
	sort.Strings(names)
	for _, name := range names {
		key := "protocol.ERROR_MSG covers " + name
		if int(codes[name]) < n {
			r.Hold(rule, key, "protocol/command.go", fmt.Sprintf("code %d < %d entries", codes[name], n))
		} else {
			r.Violate(rule, key, "protocol/command.go", fmt.Sprintf("result code %s=%d has no entry in ERROR_MSG (%d entries): rendering it in the text protocol indexes out of range and crashes the server", name, codes[name], n), nil)
		}
	}
}

// R7: the text form COUNT n / RCOUNT n is the wire value n-1 (n > 0), and the
// text result renders wire Count+1 / Rcount+1.
func c14R7(p *core.Prog, r *core.Report) {
	const rule = "C14/R7"
	r.Rule(rule, "text COUNT/RCOUNT n reach the wire as n-1 for n>0 (n otherwise); results render Count+1 and Rcount+1", 6)
	if fn := mustFunc(p, r, "protocol.(*TextCommandConverter).ConvertTextLockAndUnLockCommand"); fn != nil {
		ex := core.NewExplorer(p, core.Hooks{
			Track: func(x *core.X, a core.Atom) bool {
				return strings.HasPrefix(a.R, "Atoi(") || strings.HasPrefix(a.L, "Atoi(")
			},
			Instr: func(x *core.X) {
				st, ok := x.Ins.(*ssa.Store)
				if !ok || !x.Top() {
					return
				}
				k, ok := storeKey(st.Addr)
				if !ok || k.Type != "protocol.LockCommand" || (k.Field != "Count" && k.Field != "Rcount") {
					return
				}
				raw0 := x.Canon(st.Val).S
				v := core.Plain(raw0)
				if _, isC := st.Val.(*ssa.Const); isC {
					return // default initialisation
				}
				key := siteKey(p, x.Ins)
				// the Atoi call this value derives from (with its site id)
				atoi := ""
				if i := strings.Index(raw0, "Atoi("); i >= 0 {
					rest := raw0[i:]
					depth := 0
					for j := 0; j < len(rest); j++ {
						if rest[j] == '(' || rest[j] == '[' {
							depth++
						}
						if rest[j] == ')' || rest[j] == ']' {
							depth--
							if depth == 0 {
								end := j + 1
								for end < len(rest) && !strings.ContainsRune(" .,)]", rune(rest[end])) {
									end++
								}
								atoi = rest[:end]
								break
							}
						}
					}
				}
				pos := x.St.Facts.HasText("0 < " + atoi)
				nonpos := x.St.Facts.HasText(atoi + " <= 0")
				shape := strings.Replace(raw0, atoi, "N", 1) // e.g. (uint16(N) - 1), uint16(N)
				minus1 := atoi != "" && (shape == "(uint16(N) - 1)" || shape == "(uint8(N) - 1)" || shape == "uint16((N - 1))" || shape == "uint8((N - 1))")
				raw := atoi != "" && (shape == "uint16(N)" || shape == "uint8(N)")
				switch {
				case pos && minus1, nonpos && raw:
					r.Hold(rule, key, x.Pos(), "wire "+k.Field+" = "+stable(v))
				default:
					r.Violate(rule, key, x.Pos(), fmt.Sprintf("text %s maps to wire value %s on a path with n>0=%v (want n-1 for n>0, n otherwise: the wire field is 'additional holders')", strings.ToUpper(k.Field), stable(v), pos), x.St.Trace)
				}
			},
		})
		ex.NoHist = true
		ex.Run(fn, nil)
		if ex.Imprecise != "" {
			r.Fail("C14/R7: %s", ex.Imprecise)
		}
	}
	if fn := mustFunc(p, r, "protocol.(*TextCommandConverter).WriteTextLockAndUnLockCommandResult"); fn != nil {
		seen := map[string]string{}
		for _, b := range fn.Blocks {
			for _, ins := range b.Instrs {
				mi, ok := ins.(*ssa.MakeInterface)
				if !ok {
					continue
				}
				var load ssa.Value = mi.X
				plus := false
				if bo, ok := mi.X.(*ssa.BinOp); ok && bo.Op.String() == "+" {
					if c, ok := bo.Y.(*ssa.Const); ok && c.Int64() == 1 {
						plus = true
						load = bo.X
					}
				}
				if u, ok := load.(*ssa.UnOp); ok {
					if fa, ok := u.X.(*ssa.FieldAddr); ok {
						k := core.FieldKeyOf(fa.X.Type(), fa.Field)
						if k.Type == "protocol.LockResultCommand" && (k.Field == "Count" || k.Field == "Rcount") {
							if plus {
								seen[k.Field] = "+1@" + p.InstrPos(ins)
							} else if seen[k.Field] == "" {
								seen[k.Field] = "raw@" + p.InstrPos(ins)
							}
						}
					}
				}
			}
		}
		for _, f := range []string{"Count", "Rcount"} {
			key := "protocol.(*TextCommandConverter).WriteTextLockAndUnLockCommandResult: render " + f
			s := seen[f]
			switch {
			case strings.HasPrefix(s, "+1@"):
				r.Hold(rule, key, s[3:], "renders wire "+f+"+1")
			case s == "":
				r.Violate(rule, key, p.Pos(fn.Pos()), f+" is not rendered", nil)
			default:
				r.Violate(rule, key, s[4:], "renders the raw wire "+f+" (text clients count holders, the wire counts additional holders: off by one)", nil)
			}
		}
	}
}

var _ = ssa.Value(nil)

// c14R9: key / id normalisation writes into the LockKey / LockId field of a
// LockCommand that is recycled from a pool and never cleared, so the
// normaliser itself must define all 16 bytes on every path ("at most 16 bytes
// left-padded with zeros"). Per path the set of definitely written positions
// is collected from constant-index stores, whole-array stores, constant-bound
// loops all of whose body paths store element i, and copies whose start is
// constant and whose length is known (array type, len(x)==k on the path,
// hex.DecodeString of a string of known length).
func c14R9(p *core.Prog, r *core.Report) {
	const rule = "C14/R9"
	r.Rule(rule, "ConvertArgId2LockId defines all 16 bytes of the destination on every path (short arguments are left-padded with zeros even when the destination holds an older key)", 1)
	fn := mustFunc(p, r, "protocol.(*TextCommandConverter).ConvertArgId2LockId")
	if fn == nil || len(fn.Params) < 3 {
		return
	}
	dst := fn.Params[2]
	isDst := func(v ssa.Value) bool { return v == ssa.Value(dst) }
	// loops: induction phi i over [lo,hi) such that every path through the body stores dst[i]
	loopCover := map[*ssa.Phi][2]int{}
	for _, b := range fn.Blocks {
		for _, ins := range b.Instrs {
			ph, ok := ins.(*ssa.Phi)
			if !ok {
				continue
			}
			rg, ok := inductionRange(ph)
			if !ok {
				continue
			}
			// blocks storing dst[ph]
			storeBlocks := map[*ssa.BasicBlock]bool{}
			for _, bb := range fn.Blocks {
				for _, ii := range bb.Instrs {
					if st, ok := ii.(*ssa.Store); ok {
						if ia, ok := st.Addr.(*ssa.IndexAddr); ok && isDst(ia.X) && ia.Index == ssa.Value(ph) {
							storeBlocks[bb] = true
						}
					}
				}
			}
			if len(storeBlocks) == 0 {
				continue
			}
			// body entry: the successor of the header's test that stays in the loop
			hdr := ph.Block()
			escape := false
			for _, succ := range hdr.Succs {
				if !blockReaches(succ, hdr) {
					continue // loop exit
				}
				seen := map[*ssa.BasicBlock]bool{}
				work := []*ssa.BasicBlock{succ}
				for len(work) > 0 {
					c := work[len(work)-1]
					work = work[:len(work)-1]
					if seen[c] || storeBlocks[c] {
						continue
					}
					seen[c] = true
					if c == hdr {
						escape = true // back at the header without a store
						break
					}
					work = append(work, c.Succs...)
				}
			}
			if !escape {
				loopCover[ph] = [2]int{rg.lo, rg.hi}
			}
		}
	}
	knownLen := func(x *core.X, v ssa.Value) (int, bool) {
		// slice of an array
		if sl, ok := v.(*ssa.Slice); ok && sl.Low == nil && sl.High == nil {
			if pt, ok := sl.X.Type().Underlying().(*types.Pointer); ok {
				if at, ok := pt.Elem().Underlying().(*types.Array); ok {
					return int(at.Len()), true
				}
			}
		}
		e := "len(" + core.Plain(x.Canon(v).S) + ")"
		for _, a := range x.St.Facts.All() {
			if core.Plain(a.L) == e && a.Op == "==" {
				if n, err := strconv.Atoi(a.R); err == nil {
					return n, true
				}
			}
		}
		// hex.DecodeString(s) with err == nil: len(s)/2
		if ex, ok := v.(*ssa.Extract); ok && ex.Index == 0 {
			if c, ok := ex.Tuple.(*ssa.Call); ok {
				if callee := c.Common().StaticCallee(); callee != nil && callee.Pkg != nil && callee.Pkg.Pkg.Path() == "encoding/hex" && callee.Name() == "DecodeString" {
					arg := "len(" + core.Plain(x.Canon(c.Common().Args[0]).S) + ")"
					for _, a := range x.St.Facts.All() {
						if core.Plain(a.L) == arg && a.Op == "==" {
							if n, err := strconv.Atoi(a.R); err == nil {
								return n / 2, true
							}
						}
					}
				}
			}
		}
		return 0, false
	}
	mark := func(x *core.X, lo, hi int) {
		for i := lo; i < hi && i < 16; i++ {
			if i >= 0 {
				x.Set(fmt.Sprintf("w:%d", i), "1")
			}
		}
	}
	ex := core.NewExplorer(p, core.Hooks{
		Track: func(x *core.X, a core.Atom) bool { return strings.HasPrefix(core.Plain(a.L), "len(") },
		Instr: func(x *core.X) {
			if !x.Top() {
				return
			}
			switch t := x.Ins.(type) {
			case *ssa.Store:
				if isDst(t.Addr) {
					mark(x, 0, 16)
					return
				}
				ia, ok := t.Addr.(*ssa.IndexAddr)
				if !ok || !isDst(ia.X) {
					return
				}
				if c, ok := ia.Index.(*ssa.Const); ok && c.Value != nil {
					n := int(c.Int64())
					mark(x, n, n+1)
				} else if ph, ok := ia.Index.(*ssa.Phi); ok {
					if rg, ok := loopCover[ph]; ok {
						mark(x, rg[0], rg[1])
					}
				}
			case *ssa.Call:
				bi, ok := t.Common().Value.(*ssa.Builtin)
				if !ok || bi.Name() != "copy" {
					return
				}
				sl, ok := t.Common().Args[0].(*ssa.Slice)
				if !ok || !isDst(sl.X) {
					return
				}
				start, startKnown := 0, true
				if sl.Low != nil {
					if c, ok := sl.Low.(*ssa.Const); ok && c.Value != nil {
						start = int(c.Int64())
					} else {
						startKnown = false
					}
				}
				n, lenKnown := knownLen(x, t.Common().Args[1])
				if startKnown && lenKnown {
					mark(x, start, start+n)
				} else {
					x.Set("opaque", x.Pos())
					if !startKnown {
						// a start that is provably >= 1 leaves position 0 to the other writes
						lowExpr := core.Plain(x.Canon(sl.Low).S)
						if lb := x.St.Facts.LowerBound(lowExpr); lb >= 1 {
							x.Set("gap", "1")
						} else if strings.HasPrefix(lowExpr, "(16 - len(") {
							inner := strings.TrimSuffix(strings.TrimPrefix(lowExpr, "(16 - "), ")")
							// len(arg) <= 15 on the path: the copy starts at 1 or later
							if x.St.Facts.UpperBound(inner) <= 15 {
								x.Set("gap", "1")
							}
						}
					}
				}
			}
		},
		Exit: func(x *core.X, rets []core.Expr) {
			missing := []string{}
			for i := 0; i < 16; i++ {
				if x.Get(fmt.Sprintf("w:%d", i)) != "1" {
					missing = append(missing, strconv.Itoa(i))
				}
			}
			var cls []string
			for _, a := range x.St.Facts.All() {
				if strings.HasPrefix(core.Plain(a.L), "len(") {
					cls = append(cls, stable(core.Plain(a.String())))
				}
			}
			sort.Strings(cls)
			key := "protocol.(*TextCommandConverter).ConvertArgId2LockId: path{" + strings.Join(cls, " && ") + "}"
			switch {
			case len(missing) == 0:
				r.Hold(rule, key, x.Pos(), "all 16 bytes defined")
			case x.Get("opaque") == "" || (x.Get("gap") == "1" && x.Get("w:0") != "1"):
				r.Violate(rule, key, x.Pos(), "positions "+strings.Join(missing, ",")+" of the key/id are not written on this path: a LockCommand recycled from the pool keeps bytes of its previous key there, so a short key is not left-padded with zeros and addresses a different lock than its binary form", x.St.Trace)
			default:
				r.Undecide(rule, key, x.Pos(), "positions "+strings.Join(missing, ",")+" are covered only by a copy whose start or length the analysis cannot bound ("+x.Get("opaque")+")")
			}
		},
	})
	ex.Run(fn, nil)
	if ex.Imprecise != "" {
		r.Fail("C14/R9: %s", ex.Imprecise)
	}
}

func blockReaches(from, to *ssa.BasicBlock) bool {
	seen := map[*ssa.BasicBlock]bool{}
	work := []*ssa.BasicBlock{from}
	for len(work) > 0 {
		c := work[len(work)-1]
		work = work[:len(work)-1]
		if c == to {
			return true
		}
		if seen[c] {
			continue
		}
		seen[c] = true
		work = append(work, c.Succs...)
	}
	return false
}

// c14R10: the reply parser collects a line as rbuf[start:end+1] with end the
// index of the last accepted byte. The parser is resumable, so a scan can
// start at a byte that is not accepted (the terminator alone in a new read, a
// separator): the segment must then be empty, i.e. end must start at start-1.
// An end initialised to start makes every scan append at least one byte - the
// terminator itself - and the result depends on how the stream was split.
func c14R10(p *core.Prog, r *core.Report) {
	const rule = "C14/R10"
	r.Rule(rule, "text parser: a segment taken as rbuf[start:end+1] has its inclusive end initialised before start (an empty scan appends nothing)", 3)
	for _, fn := range p.FuncsIn("protocol") {
		if fn.Blocks == nil || recvName(fn) != "TextParser" {
			continue
		}
		x := &core.X{Fr: &core.Frame{Fn: fn}, St: core.NewState()}
		n := 0
		for _, b := range fn.Blocks {
			for _, ins := range b.Instrs {
				sl, ok := ins.(*ssa.Slice)
				if !ok || sl.High == nil || sl.Low == nil {
					continue
				}
				if !strings.HasSuffix(core.Plain(x.Canon(sl.X).S), ".rbuf") {
					continue
				}
				add, ok := sl.High.(*ssa.BinOp)
				if !ok || add.Op.String() != "+" {
					continue
				}
				one, ok := add.Y.(*ssa.Const)
				if !ok || one.Value == nil || one.Value.ExactString() != "1" {
					continue
				}
				end, ok := add.X.(*ssa.Phi)
				if !ok {
					continue
				}
				n++
				key := fmt.Sprintf("%s: segment#%d", core.FuncName(fn), n)
				bad := false
				for i, e := range end.Edges {
					pred := end.Block().Preds[i]
					if blockReaches(end.Block(), pred) {
						continue // loop-carried edge
					}
					// entry edge: the initial value of the inclusive end
					if e == sl.Low || x.Canon(e).S == x.Canon(sl.Low).S {
						bad = true
					}
				}
				if bad {
					r.Violate(rule, key, p.InstrPos(sl), "the inclusive end of the segment starts at the segment's first byte: a scan that accepts no byte (terminator or separator first in a new read) still appends one byte, so the parsed reply depends on how the stream was split", nil)
				} else {
					r.Hold(rule, key, p.InstrPos(sl), "an empty scan yields an empty segment")
				}
			}
		}
	}
}

// c14R11: the text converters build their LockCommand in an object taken from
// the connection's pool, which still holds the fields of the last command that
// used it. "A LOCK written in text form has the same effect as the equivalent
// binary command" therefore needs every wire field of the command to be
// assigned on every path from the pool to the converter's return - by
// GetAndResetLockCommand or by the converter itself. A field that is only
// assigned when its argument is present (TIMEOUT, EXPRIED, flags) and not reset
// otherwise keeps the previous command's value.
func c14R11(p *core.Prog, r *core.Report) {
	const rule = "C14/R11"
	r.Rule(rule, "every text converter assigns every wire field of the pooled LockCommand (all fields but Data) on every path before returning it", 10)
	reset := mustFunc(p, r, "protocol.(*TextCommandConverter).GetAndResetLockCommand")
	if reset == nil {
		return
	}
	// required fields from the type
	var required []string
	if pk := p.Pkg("protocol"); pk != nil {
		if obj := pk.Types.Scope().Lookup("LockCommand"); obj != nil {
			var walk func(t types.Type)
			walk = func(t types.Type) {
				st, ok := t.Underlying().(*types.Struct)
				if !ok {
					return
				}
				for i := 0; i < st.NumFields(); i++ {
					f := st.Field(i)
					if f.Embedded() {
						walk(f.Type())
						continue
					}
					if f.Name() != "Data" {
						required = append(required, f.Name())
					}
				}
			}
			walk(obj.Type())
		}
	}
	if len(required) < 10 {
		r.Fail("C14/R11: LockCommand fields not found")
		return
	}
	for _, fn := range p.FuncsIn("protocol") {
		if fn.Blocks == nil || fn == reset {
			continue
		}
		calls := false
		for _, b := range fn.Blocks {
			for _, ins := range b.Instrs {
				if core.StaticCallee(ins) == reset {
					calls = true
				}
			}
		}
		if !calls {
			continue
		}
		name := core.FuncName(fn)
		ex := core.NewExplorer(p, core.Hooks{
			Inline: func(x *core.X, c *ssa.Function) bool { return c == reset },
			Instr: func(x *core.X) {
				switch t := x.Ins.(type) {
				case *ssa.Store:
					fa, ok := t.Addr.(*ssa.FieldAddr)
					if !ok {
						return
					}
					k := core.FieldKeyOf(fa.X.Type(), fa.Field)
					if k.Type == "protocol.LockCommand" || k.Type == "protocol.Command" {
						x.Set("as:"+k.Field, "1")
					}
				case ssa.CallInstruction:
					// &cmd.F handed to a helper that fills it (key / id normaliser)
					for _, a := range core.CallArgs(x.Ins) {
						if fa, ok := a.(*ssa.FieldAddr); ok {
							k := core.FieldKeyOf(fa.X.Type(), fa.Field)
							if k.Type == "protocol.LockCommand" || k.Type == "protocol.Command" {
								x.Set("as:"+k.Field, "1")
							}
						}
					}
				}
			},
			Exit: func(x *core.X, rets []core.Expr) {
				if len(rets) == 0 || rets[0].S == "nil" {
					return
				}
				var missing []string
				for _, f := range required {
					if x.Get("as:"+f) != "1" {
						missing = append(missing, f)
					}
				}
				key := name + ": fields defined at return"
				if len(missing) == 0 {
					r.Hold(rule, key, x.Pos(), "all wire fields assigned")
				} else {
					r.Violate(rule, key, x.Pos(), "the command is returned with "+strings.Join(missing, ", ")+" not assigned on this path: the pooled object keeps the value of the previous command on this connection, so the text command no longer equals its binary form", x.St.Trace)
				}
			},
		})
		ex.NoHist = true
		ex.Run(fn, nil)
		if ex.Imprecise != "" {
			r.Fail("C14/R11 %s: %s", name, ex.Imprecise)
		}
	}
}

// c14R12: BuildRequest / BuildResponse encode a list of n elements as "*n"
// followed by n elements - for the empty list "*0\r\n" and nothing else. The
// parsers are state machines; the state that follows the element-count line
// may be "expect an element" only when the count just read is positive,
// otherwise the list is already complete. Decided on the stores: a store of a
// non-zero constant to TextParser.stage that follows (same block, or dominated
// by the block of) a store of a parsed, non-constant element count to
// TextParser.argsCount must be control-dependent on a comparison of that count
// with a constant.
func c14R12(p *core.Prog, r *core.Report) {
	const rule = "C14/R12"
	r.Rule(rule, "text parsers: after the element-count line the next state is \"expect an element\" only under a test of the count just read (an empty list is complete at once)", 1)
	isField := func(addr ssa.Value, field string) bool {
		fa, ok := addr.(*ssa.FieldAddr)
		if !ok {
			return false
		}
		k := core.FieldKeyOf(fa.X.Type(), fa.Field)
		return k.Type == "protocol.TextParser" && k.Field == field
	}
	strip := func(v ssa.Value) ssa.Value {
		for {
			c, ok := v.(*ssa.Convert)
			if !ok {
				return v
			}
			v = c.X
		}
	}
	n := 0
	for _, fn := range p.FuncsIn("protocol") {
		if fn.Blocks == nil {
			continue
		}
		for _, b := range fn.Blocks {
			for ai, ins := range b.Instrs {
				a, ok := ins.(*ssa.Store)
				if !ok || !isField(a.Addr, "argsCount") {
					continue
				}
				if _, isConst := a.Val.(*ssa.Const); isConst {
					continue
				}
				count := strip(a.Val)
				isCount := func(v ssa.Value) bool {
					v = strip(v)
					if v == count {
						return true
					}
					if u, ok := v.(*ssa.UnOp); ok && u.Op == token.MUL && isField(u.X, "argsCount") {
						return true
					}
					return false
				}
				// state stores that follow
				for _, tb := range fn.Blocks {
					if tb != b && !b.Dominates(tb) {
						continue
					}
					for ti, tins := range tb.Instrs {
						t, ok := tins.(*ssa.Store)
						if !ok || !isField(t.Addr, "stage") || (tb == b && ti < ai) {
							continue
						}
						c, ok := t.Val.(*ssa.Const)
						if !ok || c.Value == nil || c.Value.ExactString() == "0" {
							continue
						}
						n++
						key := fmt.Sprintf("%s: state %s after the element count", core.FuncName(fn), c.Value.ExactString())
						guarded := false
						for d := tb.Idom(); d != nil; d = d.Idom() {
							if len(d.Instrs) == 0 {
								continue
							}
							iff, ok := d.Instrs[len(d.Instrs)-1].(*ssa.If)
							if !ok {
								continue
							}
							cmp, ok := iff.Cond.(*ssa.BinOp)
							if !ok {
								continue
							}
							_, lc := strip(cmp.X).(*ssa.Const)
							_, rc := strip(cmp.Y).(*ssa.Const)
							if !((isCount(cmp.X) && rc) || (isCount(cmp.Y) && lc)) {
								continue
							}
							k := 0
							for _, s := range d.Succs {
								if s == tb || s.Dominates(tb) {
									k++
								}
							}
							if k == 1 {
								guarded = true
							}
						}
						if guarded {
							r.Hold(rule, key, p.InstrPos(tins), "under a test of the count just read")
						} else {
							r.Violate(rule, key, p.InstrPos(tins), "the parser expects an element after every element-count line, also after \"*0\": the encoding of an empty list never completes and the next request or reply on the connection is rejected - the parser does not parse its own Build* output back", nil)
						}
					}
				}
			}
		}
	}
	if n == 0 {
		r.Fail("C14/R12: no state store after an element-count store found in the text parsers")
	}
}

// c14R13: a converter that hands the rest of its argument list (args[i+k:], no
// upper bound) to another consumer inside a loop over i has given those
// arguments away: the nested command they describe owns them. If the loop then
// goes on with i+step it applies the nested command's options to the outer
// command as well, and the text form no longer describes the binary command it
// stands for. Decided on the loop variable: on every back edge reachable from
// the hand-over the new value of i is len(args) (+ constant), or there is no
// such back edge (the loop is left).
func c14R13(p *core.Prog, r *core.Report) {
	const rule = "C14/R13"
	r.Rule(rule, "text converters: after the rest of the argument list is handed to a nested conversion inside an option loop, the loop does not go on over those arguments", 1)
	n := 0
	for _, fn := range p.FuncsIn("protocol") {
		if fn.Blocks == nil {
			continue
		}
		for _, b := range fn.Blocks {
			for _, ins := range b.Instrs {
				call, ok := ins.(ssa.CallInstruction)
				if !ok {
					continue
				}
				for _, a := range call.Common().Args {
					sl, ok := a.(*ssa.Slice)
					if !ok || sl.High != nil || sl.Low == nil {
						continue
					}
					if st, ok := sl.X.Type().Underlying().(*types.Slice); !ok || !types.Identical(st.Elem(), types.Typ[types.String]) {
						continue
					}
					// loop variable: a header phi the lower bound depends on
					var phi *ssa.Phi
					v := sl.Low
					for d := 0; d < 4 && phi == nil; d++ {
						switch x := v.(type) {
						case *ssa.Phi:
							phi = x
						case *ssa.BinOp:
							if _, ok := x.Y.(*ssa.Const); ok {
								v = x.X
							} else if _, ok := x.X.(*ssa.Const); ok {
								v = x.Y
							} else {
								d = 4
							}
						default:
							d = 4
						}
					}
					if phi == nil {
						continue
					}
					h := phi.Block()
					isHeader := false
					for _, pred := range h.Preds {
						if h.Dominates(pred) {
							isHeader = true
						}
					}
					if !h.Dominates(b) || !isHeader {
						continue // not a loop around the hand-over
					}
					n++
					key := fmt.Sprintf("%s: rest of the arguments handed to %s", core.FuncName(fn), eventLabel(ins))
					// value of the loop variable on a back edge, as seen from b
					var eval func(v ssa.Value, depth int) string
					eval = func(v ssa.Value, depth int) string {
						if depth > 8 {
							return "?"
						}
						switch x := v.(type) {
						case *ssa.Phi:
							if x == phi {
								return "i"
							}
							res := ""
							for i, e := range x.Edges {
								pred := x.Block().Preds[i]
								if pred != b && !b.Dominates(pred) {
									continue
								}
								s := eval(e, depth+1)
								if res != "" && res != s {
									return "?"
								}
								res = s
							}
							if res == "" {
								return "?"
							}
							return res
						case *ssa.BinOp:
							if c, ok := constIntOf(x.Y); ok && x.Op == token.ADD && c >= 0 {
								return eval(x.X, depth+1)
							}
							return "?"
						case *ssa.Call:
							if bi, ok := x.Call.Value.(*ssa.Builtin); ok && bi.Name() == "len" && len(x.Call.Args) == 1 && x.Call.Args[0] == sl.X {
								return "len"
							}
						case *ssa.Convert:
							return eval(x.X, depth+1)
						}
						return "?"
					}
					bad, back := "", 0
					for i, pred := range h.Preds {
						if !h.Dominates(pred) {
							continue // loop entry
						}
						if pred != b && !blockReachesAvoiding(b, pred, h) {
							continue
						}
						back++
						switch eval(phi.Edges[i], 0) {
						case "len":
						case "i":
							bad = "the option loop goes on with the next pair of the arguments it has just handed to the nested conversion: every option of the nested command (LOCK_ID, TIMEOUT, EXPRIED, ...) is applied to the outer command as well"
						default:
							bad = "cannot show that the option loop ends after the hand-over (loop variable is neither advanced to len(args) nor the loop left)"
						}
					}
					if bad != "" {
						r.Violate(rule, key, p.InstrPos(ins), bad, nil)
					} else if back == 0 {
						r.Hold(rule, key, p.InstrPos(ins), "the loop is left after the hand-over")
					} else {
						r.Hold(rule, key, p.InstrPos(ins), "the loop variable is advanced to len(args) after the hand-over")
					}
				}
			}
		}
	}
	if n == 0 {
		r.Fail("C14/R13: no hand-over of the rest of an argument list inside a loop found")
	}
}

func blockReachesAvoiding(from, to, avoid *ssa.BasicBlock) bool {
	seen := map[*ssa.BasicBlock]bool{avoid: true}
	work := append([]*ssa.BasicBlock{}, from.Succs...)
	for len(work) > 0 {
		c := work[len(work)-1]
		work = work[:len(work)-1]
		if c == to {
			return true
		}
		if seen[c] {
			continue
		}
		seen[c] = true
		work = append(work, c.Succs...)
	}
	return false
}

// c14R14: the text parsers are resumable: when the read buffer is exhausted in
// the middle of a token they return and are called again with the next read.
// Whatever has been gathered so far therefore has to live in the parser's
// fields; a value accumulated in a local across the bytes of one call (a
// loop-carried accumulator) is re-initialised by the next call, so the parsed
// result depends on where the stream was split. Decided on the stores: no
// store to an integer field of TextParser takes its value from a loop-carried
// accumulator.
func c14R14(p *core.Prog, r *core.Report) {
	const rule = "C14/R14"
	r.Rule(rule, "text parsers: no integer field of the parser is assigned from a loop-carried local accumulator (partial tokens live in fields, so a return at the end of a read loses nothing)", 10)
	n := 0
	for _, fn := range p.FuncsIn("protocol") {
		if fn.Blocks == nil || recvName(fn) != "TextParser" {
			continue
		}
		isHeader := func(b *ssa.BasicBlock) bool {
			for _, pred := range b.Preds {
				if b.Dominates(pred) {
					return true
				}
			}
			return false
		}
		var dependsOn func(v ssa.Value, phi *ssa.Phi, depth int) bool
		dependsOn = func(v ssa.Value, phi *ssa.Phi, depth int) bool {
			if depth > 6 {
				return false
			}
			switch x := v.(type) {
			case *ssa.Phi:
				if x == phi {
					return true
				}
				for _, e := range x.Edges {
					if dependsOn(e, phi, depth+1) {
						return true
					}
				}
			case *ssa.BinOp:
				return dependsOn(x.X, phi, depth+1) || dependsOn(x.Y, phi, depth+1)
			case *ssa.Convert:
				return dependsOn(x.X, phi, depth+1)
			}
			return false
		}
		var accumulator func(v ssa.Value, depth int) *ssa.Phi
		accumulator = func(v ssa.Value, depth int) *ssa.Phi {
			if depth > 4 {
				return nil
			}
			switch x := v.(type) {
			case *ssa.Phi:
				if isHeader(x.Block()) {
					for i, e := range x.Edges {
						if x.Block().Dominates(x.Block().Preds[i]) && e != ssa.Value(x) && dependsOn(e, x, 0) {
							return x
						}
					}
				}
				for _, e := range x.Edges {
					if e != ssa.Value(x) {
						if a := accumulator(e, depth+1); a != nil {
							return a
						}
					}
				}
			case *ssa.BinOp:
				if a := accumulator(x.X, depth+1); a != nil {
					return a
				}
				return accumulator(x.Y, depth+1)
			case *ssa.Convert:
				return accumulator(x.X, depth+1)
			}
			return nil
		}
		ord := map[string]int{}
		for _, b := range fn.Blocks {
			for _, ins := range b.Instrs {
				st, ok := ins.(*ssa.Store)
				if !ok {
					continue
				}
				fa, ok := st.Addr.(*ssa.FieldAddr)
				if !ok {
					continue
				}
				k := core.FieldKeyOf(fa.X.Type(), fa.Field)
				if k.Type != "protocol.TextParser" {
					continue
				}
				if bt, ok := st.Val.Type().Underlying().(*types.Basic); !ok || bt.Info()&types.IsInteger == 0 {
					continue
				}
				n++
				ord[k.Field]++
				key := fmt.Sprintf("%s: store %s#%d", core.FuncName(fn), k.Field, ord[k.Field])
				if a := accumulator(st.Val, 0); a != nil {
					r.Violate(rule, key, p.InstrPos(ins), "the parser field "+k.Field+" is assigned from a local that accumulates across the bytes of one call ("+a.Comment+"): when the read ends in the middle of the token the function returns, the next call starts the local afresh, and the parsed value depends on where the stream was split", nil)
				} else {
					r.Hold(rule, key, p.InstrPos(ins), "not a loop-carried accumulator")
				}
			}
		}
	}
	if n == 0 {
		r.Fail("C14/R14: no integer field store found in the text parsers")
	}
}
