package rules

import (
	"fmt"
	"go/constant"
	"go/token"

	"golang.org/x/tools/go/ssa"

	"slockverif/internal/core"
)

// c15R13: PUSH continues the stored frame as an array only when the stored
// frame IS an array; onto a scalar (SET / APPEND / INCR value) it starts a
// fresh one-element array. The continuation is recognisable in the code: the
// new frame's type byte is the STORED frame's flag byte (a read of
// currentData.data[...]) OR-ed with the ARRAY mark. Every such site must be
// dominated by the true side of an IsArrayValue() test - otherwise the scalar's
// bytes are kept in front of the pushed element and read back as a length
// prefix (sibling of C15/R12, which guards the integer reading by the NUMBER
// mark).
func c15R13(p *core.Prog, r *core.Report) {
	const rule = "C15/R13"
	r.Rule(rule, "a new frame that keeps the stored frame's flag byte and adds the ARRAY mark (the stored value continued as an array) is built only on the true side of an IsArrayValue() test", 1)
	arrayMark := mustConst(p, r, "protocol", "LOCK_DATA_FLAG_VALUE_TYPE_ARRAY")
	total := 0
	for _, name := range []string{"server.(*LockManager).ProcessLockData"} {
		fn := mustFunc(p, r, name)
		if fn == nil {
			continue
		}
		var fromStored func(v ssa.Value, depth int) bool
		fromStored = func(v ssa.Value, depth int) bool {
			if depth > 6 {
				return false
			}
			switch x := v.(type) {
			case *ssa.Convert:
				return fromStored(x.X, depth+1)
			case *ssa.BinOp:
				return fromStored(x.X, depth+1) || fromStored(x.Y, depth+1)
			case *ssa.UnOp:
				if x.Op != token.MUL {
					return false
				}
				ia, ok := x.X.(*ssa.IndexAddr)
				if !ok {
					return false
				}
				// slice loaded from a field `data` of a value loaded from a field `currentData`
				ld, ok := ia.X.(*ssa.UnOp)
				if !ok {
					return false
				}
				fa, ok := ld.X.(*ssa.FieldAddr)
				if !ok || fieldName(fa) != "data" {
					return false
				}
				bl, ok := fa.X.(*ssa.UnOp)
				if !ok {
					return false
				}
				bfa, ok := bl.X.(*ssa.FieldAddr)
				return ok && fieldName(bfa) == "currentData"
			}
			return false
		}
		isArrayCall := func(v ssa.Value) bool {
			c, ok := v.(*ssa.Call)
			if !ok {
				return false
			}
			cal := c.Call.StaticCallee()
			return cal != nil && cal.Name() == "IsArrayValue" && cal.Signature.Recv() != nil
		}
		// implies(v, want): "v == want" entails that IsArrayValue() returned true.
		// Covers the call itself, negations, and the phi of a short-circuit
		// conjunction / disjunction kept in a local (`ok := a && b && x.IsArrayValue()`).
		var implies func(v ssa.Value, want bool, depth int) bool
		implies = func(v ssa.Value, want bool, depth int) bool {
			if depth > 4 {
				return false
			}
			switch x := v.(type) {
			case *ssa.Call:
				return want && isArrayCall(x)
			case *ssa.UnOp:
				if x.Op == token.NOT {
					return implies(x.X, !want, depth+1)
				}
			case *ssa.Phi:
				some := false
				for _, e := range x.Edges {
					if c, isC := e.(*ssa.Const); isC && c.Value != nil && c.Value.Kind() == constant.Bool {
						if constant.BoolVal(c.Value) == want {
							return false // the constant edge yields `want` without the test
						}
						continue
					}
					if !implies(e, want, depth+1) {
						return false
					}
					some = true
				}
				return some
			}
			return false
		}
		n := 0
		for _, b := range fn.Blocks {
			for _, ins := range b.Instrs {
				bo, ok := ins.(*ssa.BinOp)
				if !ok || bo.Op != token.OR {
					continue
				}
				var other ssa.Value
				for _, pair := range [][2]ssa.Value{{bo.X, bo.Y}, {bo.Y, bo.X}} {
					if c, ok := pair[0].(*ssa.Const); ok && c.Value != nil && c.Value.Kind() == constant.Int {
						if v, _ := constant.Int64Val(c.Value); v == arrayMark {
							other = pair[1]
						}
					}
				}
				if other == nil || !fromStored(other, 0) {
					continue
				}
				n++
				total++
				key := fmt.Sprintf("%s: stored frame continued as an array#%d", name, n)
				ok = false
				for d := b; d != nil; d = d.Idom() {
					if len(d.Instrs) == 0 {
						continue
					}
					iff, isIf := d.Instrs[len(d.Instrs)-1].(*ssa.If)
					if !isIf || d == b {
						continue
					}
					// the side of the branch that dominates the site
					t, f := d.Succs[0], d.Succs[1]
					switch {
					case t.Dominates(b) && !f.Dominates(b):
						if implies(iff.Cond, true, 0) {
							ok = true
						}
					case f.Dominates(b) && !t.Dominates(b):
						if implies(iff.Cond, false, 0) {
							ok = true
						}
					}
				}
				if ok {
					r.Hold(rule, key, p.InstrPos(bo), "on the true side of IsArrayValue()")
				} else {
					r.Violate(rule, key, p.InstrPos(bo), "the stored frame is continued as an array (its flag byte kept, ARRAY mark added) on a path that did not test IsArrayValue(): a PUSH onto a scalar value keeps the scalar's bytes in front of the pushed element, where the array reader takes them for a length prefix", nil)
				}
			}
		}
	}
	if total == 0 {
		r.Fail("C15/R13: no site continues the stored frame as an array")
	}
}

var _ = core.InModule
