package rules

import (
	"fmt"
	"go/ast"
	"go/token"
	"go/types"
	"regexp"
	"sort"
	"strings"

	"golang.org/x/tools/go/ssa"

	"slockverif/internal/core"
)

// ---------------------------------------------------------------------------
// Site keys: function + callee/field + ordinal in source order (never lines).

type siteIndex struct {
	ord map[ssa.Instruction]string
}

var siteIdx = map[*ssa.Function]*siteIndex{}

func eventLabel(ins ssa.Instruction) string {
	switch t := ins.(type) {
	case ssa.CallInstruction:
		n, _ := core.CallName(ins)
		if n == "" {
			n = "dyncall"
		}
		if _, ok := ins.(*ssa.Go); ok {
			return "go " + n
		}
		if _, ok := ins.(*ssa.Defer); ok {
			return "defer " + n
		}
		return "call " + n
	case *ssa.Store:
		if k, ok := storeKey(t.Addr); ok {
			return "store " + k.String()
		}
		return "store"
	case *ssa.Return:
		return "return"
	case *ssa.If:
		return "if"
	case *ssa.Send:
		return "send"
	case *ssa.MapUpdate:
		return "mapupdate"
	case *ssa.Index, *ssa.IndexAddr:
		return "index"
	case *ssa.Slice:
		return "slice"
	case *ssa.UnOp:
		return "load"
	case *ssa.FieldAddr, *ssa.Field:
		return "field"
	}
	return "instr"
}

// siteKey returns "fn: label#k" where k is the ordinal of this instruction
// among instructions with the same label in the function, in source order.
func siteKey(p *core.Prog, ins ssa.Instruction) string {
	fn := ins.Parent()
	si := siteIdx[fn]
	if si == nil {
		si = &siteIndex{ord: map[ssa.Instruction]string{}}
		type ent struct {
			ins ssa.Instruction
			pos token.Pos
			seq int
		}
		groups := map[string][]ent{}
		seq := 0
		for _, b := range fn.Blocks {
			for _, i := range b.Instrs {
				seq++
				l := eventLabel(i)
				if l == "instr" {
					continue
				}
				groups[l] = append(groups[l], ent{i, i.Pos(), seq})
			}
		}
		for l, es := range groups {
			sort.SliceStable(es, func(a, b int) bool {
				if es[a].pos != es[b].pos && es[a].pos.IsValid() && es[b].pos.IsValid() {
					return es[a].pos < es[b].pos
				}
				return es[a].seq < es[b].seq
			})
			for k, e := range es {
				si.ord[e.ins] = fmt.Sprintf("%s#%d", l, k+1)
			}
		}
		siteIdx[fn] = si
	}
	return core.FuncName(fn) + ": " + si.ord[ins]
}

// storeKey returns the struct field a store address designates.
func storeKey(addr ssa.Value) (core.FieldKey, bool) { return core.StoreTargetKey(addr) }

func fk(typ, field string) core.FieldKey { return core.FieldKey{Type: typ, Field: field} }

// ---------------------------------------------------------------------------
// Mutex events

// mutexOp classifies a call as acquire/release of a mutex class.
// class "shard" = any *PriorityMutex; other mutexes are classed by the last
// field of the receiver path (e.g. "glock", "aofGlock").
func mutexOp(x *core.X, ins ssa.Instruction) (class string, acquire, ok bool) {
	c, isCall := ins.(ssa.CallInstruction)
	if !isCall {
		return "", false, false
	}
	callee := c.Common().StaticCallee()
	if callee == nil || callee.Signature.Recv() == nil {
		return "", false, false
	}
	rt := callee.Signature.Recv().Type()
	if pt, ok := rt.(*types.Pointer); ok {
		rt = pt.Elem()
	}
	nt, isNamed := rt.(*types.Named)
	if !isNamed {
		return "", false, false
	}
	tn := nt.Obj().Name()
	pk := ""
	if nt.Obj().Pkg() != nil {
		pk = nt.Obj().Pkg().Path()
	}
	name := callee.Name()
	switch {
	case tn == "PriorityMutex" && strings.HasPrefix(pk, core.ModulePath):
		switch name {
		case "Lock", "LowPriorityLock", "HighPriorityLock":
			return "shard", true, true
		case "Unlock", "LowPriorityUnlock", "HighPriorityUnlock":
			return "shard", false, true
		}
	case pk == "sync" && (tn == "Mutex" || tn == "RWMutex"):
		recv := x.Canon(c.Common().Args[0]).S
		recv = strings.TrimPrefix(recv, "&")
		cl := recv
		if i := strings.LastIndex(recv, "."); i >= 0 {
			cl = recv[i+1:]
		}
		if j := strings.Index(cl, "["); j >= 0 {
			cl = cl[:j]
		}
		switch name {
		case "Lock", "RLock":
			return cl, true, true
		case "Unlock", "RUnlock":
			return cl, false, true
		}
	}
	return "", false, false
}

// trackLocks updates the rule state with held mutex classes: RS["L:<class>"].
// Returns the class and direction when the instruction is a mutex operation.
func trackLocks(x *core.X) (string, bool, bool) {
	class, acq, ok := mutexOp(x, x.Ins)
	if !ok {
		return "", false, false
	}
	if acq {
		x.Set("L:"+class, "1")
	} else {
		x.Set("L:"+class, "")
	}
	return class, acq, true
}

func held(x *core.X, class string) bool { return x.Get("L:"+class) == "1" }

// ---------------------------------------------------------------------------
// Small helpers

func isMethod(fn *ssa.Function, typ, name string) bool {
	if fn == nil || fn.Name() != name || fn.Signature.Recv() == nil {
		return false
	}
	rt := fn.Signature.Recv().Type()
	if pt, ok := rt.(*types.Pointer); ok {
		rt = pt.Elem()
	}
	if nt, ok := rt.(*types.Named); ok {
		return nt.Obj().Name() == typ
	}
	return false
}

// calleeIs reports whether ins statically calls method typ.name of the module.
func calleeIs(ins ssa.Instruction, typ, name string) bool {
	return isMethod(core.StaticCallee(ins), typ, name)
}

func argCanon(x *core.X, ins ssa.Instruction, i int) string {
	args := core.CallArgs(ins)
	if i >= len(args) {
		return ""
	}
	return x.Canon(args[i]).S
}

func constArg(ins ssa.Instruction, i int) (int64, bool) {
	args := core.CallArgs(ins)
	if i >= len(args) {
		return 0, false
	}
	if c, ok := args[i].(*ssa.Const); ok && c.Value != nil {
		e := core.Expr{S: c.Value.ExactString()}
		if v, ok := e.IsConstInt(); ok {
			return v, true
		}
		if c.Value.String() == "true" {
			return 1, true
		}
		if c.Value.String() == "false" {
			return 0, true
		}
	}
	return 0, false
}

func tail(tr []string, n int) []string {
	if len(tr) > n {
		return tr[len(tr)-n:]
	}
	return tr
}

// inlineSet builds an Inline hook from function names (module-relative).
func inlineSet(p *core.Prog, names ...string) func(x *core.X, callee *ssa.Function) bool {
	set := map[*ssa.Function]bool{}
	for _, n := range names {
		if f := p.Func(n); f != nil {
			set[f] = true
		}
	}
	return func(x *core.X, callee *ssa.Function) bool { return set[callee] }
}

// moduleCallers returns the distinct module functions that call fn with an
// ordinary (non-go) static or dynamic call.
func moduleCallers(p *core.Prog, fn *ssa.Function) []*ssa.Function {
	seen := map[*ssa.Function]bool{}
	var out []*ssa.Function
	for _, s := range p.Callers(fn) {
		if _, isGo := s.(*ssa.Go); isGo {
			continue
		}
		c := s.Parent()
		if c == fn || seen[c] {
			continue
		}
		seen[c] = true
		out = append(out, c)
	}
	sort.Slice(out, func(i, j int) bool { return core.FuncName(out[i]) < core.FuncName(out[j]) })
	return out
}

// constOf returns the integer value of a module constant like
// protocol.RESULT_SUCCED.
func constOf(p *core.Prog, rel, name string) (int64, bool) {
	pk := p.Pkg(rel)
	if pk == nil {
		return 0, false
	}
	obj := pk.Types.Scope().Lookup(name)
	c, ok := obj.(*types.Const)
	if !ok {
		return 0, false
	}
	e := core.Expr{S: c.Val().ExactString()}
	return e.IsConstInt()
}

func mustConst(p *core.Prog, r *core.Report, rel, name string) int64 {
	v, ok := constOf(p, rel, name)
	if !ok {
		r.Fail("anchor missing: constant %s.%s", rel, name)
	}
	return v
}

// splitCall parses a canonical call expression "name(a,b,c)@id" into its name
// and top-level arguments.
func splitCall(s string) (name string, args []string, ok bool) {
	i := strings.Index(s, "(")
	if i <= 0 {
		return "", nil, false
	}
	name = s[:i]
	depth := 0
	start := i + 1
	for j := i; j < len(s); j++ {
		switch s[j] {
		case '(', '[':
			depth++
		case ')', ']':
			depth--
			if depth == 0 {
				if j > start {
					args = append(args, s[start:j])
				}
				return name, args, true
			}
		case ',':
			if depth == 1 {
				args = append(args, s[start:j])
				start = j + 1
			}
		}
	}
	return "", nil, false
}

var reIDs = regexp.MustCompile(`'?@[^ .,)\]\[]*`)

// stable strips value ids (@frame:tN) and snapshot marks so that a string can
// be used in an obligation key.
func stable(s string) string { return reIDs.ReplaceAllString(s, "") }

// plainAtoms returns the facts with snapshot identities removed.
func plainAtoms(f *core.Facts) []core.Atom {
	all := f.All()
	out := make([]core.Atom, len(all))
	for i, a := range all {
		a.L, a.R = core.Plain(a.L), core.Plain(a.R)
		out[i] = a
	}
	return out
}

// isPureCall reports whether a canonical string is exactly one call
// expression "name(...)" with an optional value id and nothing derived from it.
func isPureCall(s, name string) bool {
	if !strings.HasPrefix(s, name+"(") {
		return false
	}
	depth := 0
	for i := len(name); i < len(s); i++ {
		switch s[i] {
		case '(', '[':
			depth++
		case ')', ']':
			depth--
			if depth == 0 {
				rest := s[i+1:]
				return rest == "" || (strings.HasPrefix(rest, "@") || strings.HasPrefix(rest, "'")) && !strings.ContainsAny(rest, ".([")
			}
		}
	}
	return false
}

// splitTop strips one layer of outer parentheses from s and splits it at the
// last top-level occurrence of " op ".
func splitTop(s, op string) (l, r string, ok bool) {
	if len(s) < 2 || s[0] != '(' || s[len(s)-1] != ')' {
		return "", "", false
	}
	in := s[1 : len(s)-1]
	depth := 0
	pat := " " + op + " "
	idx := -1
	for i := 0; i < len(in); i++ {
		switch in[i] {
		case '(', '[':
			depth++
		case ')', ']':
			depth--
			if depth < 0 {
				return "", "", false
			}
		}
		if depth == 0 && strings.HasPrefix(in[i:], pat) {
			idx = i
		}
	}
	if idx < 0 || depth != 0 {
		return "", "", false
	}
	return in[:idx], in[idx+len(pat):], true
}

// unwrapCall returns x for "name(x)" with balanced parentheses.
func unwrapCall(s, name string) (string, bool) {
	if !strings.HasPrefix(s, name+"(") || !strings.HasSuffix(s, ")") {
		return "", false
	}
	in := s[len(name)+1 : len(s)-1]
	depth := 0
	for i := 0; i < len(in); i++ {
		switch in[i] {
		case '(', '[':
			depth++
		case ')', ']':
			depth--
			if depth < 0 {
				return "", false
			}
		}
	}
	return in, depth == 0
}

// compositeLen returns the number of elements of the composite literal that
// initialises a package-level variable, or -1.
func compositeLen(p *core.Prog, rel, name string) int {
	pk := p.Pkg(rel)
	if pk == nil {
		return -1
	}
	for _, f := range pk.Syntax {
		for _, d := range f.Decls {
			gd, ok := d.(*ast.GenDecl)
			if !ok {
				continue
			}
			for _, sp := range gd.Specs {
				vs, ok := sp.(*ast.ValueSpec)
				if !ok {
					continue
				}
				for i, id := range vs.Names {
					if id.Name == name && i < len(vs.Values) {
						if cl, ok := vs.Values[i].(*ast.CompositeLit); ok {
							return len(cl.Elts)
						}
					}
				}
			}
		}
	}
	return -1
}

// pureBoolHelper reports whether callee is a small module function returning a
// single bool that writes no field (transitively) - a predicate helper that a
// refactor may split out of a decision function. Rules that inline a decision
// function inline such helpers beneath it, so that extracting part of the
// decision into a helper does not change what the rule sees.
func pureBoolHelper(p *core.Prog, callee *ssa.Function) bool {
	if callee == nil || callee.Blocks == nil || !core.InModule(callee) {
		return false
	}
	res := callee.Signature.Results()
	if res.Len() != 1 {
		return false
	}
	if b, ok := res.At(0).Type().Underlying().(*types.Basic); !ok || b.Kind() != types.Bool {
		return false
	}
	if len(p.MayWrite(callee)) != 0 {
		return false
	}
	n := 0
	for _, b := range callee.Blocks {
		for _, ins := range b.Instrs {
			n++
			switch ins.(type) {
			case *ssa.Go, *ssa.Defer, *ssa.Send, *ssa.Select, *ssa.MapUpdate:
				return false
			}
		}
	}
	return n <= 120
}

// underFrame reports whether the current frame is fn or is nested below an
// inlined activation of fn.
func underFrame(x *core.X, fn *ssa.Function) bool {
	for f := x.Fr; f != nil; f = f.Parent {
		if f.Fn == fn {
			return true
		}
	}
	return false
}
