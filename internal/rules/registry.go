// Package rules holds the per-property rule sets (DESIGN.md section 4).
package rules

import (
	"fmt"
	"sort"

	"golang.org/x/tools/go/ssa"

	"slockverif/internal/core"
)

// Registry maps property ids to their checks.
var Registry = map[string]func(p *core.Prog, r *core.Report){}

// mustFunc resolves an anchor or records a machinery failure.
func mustFunc(p *core.Prog, r *core.Report, name string) *ssa.Function {
	fn := p.Func(name)
	if fn == nil {
		r.Fail("anchor missing: function %s", name)
	}
	return fn
}

// Dump prints the canonical conditions and call/store events of a function.
func Dump(p *core.Prog, name string) {
	fn := p.Func(name)
	if fn == nil {
		fmt.Println("no such function; candidates:")
		for _, f := range p.Funcs() {
			fmt.Println("  ", core.FuncName(f))
		}
		return
	}
	seen := map[string]bool{}
	var lines []string
	ex := core.NewExplorer(p, core.Hooks{
		Branch: func(x *core.X, a core.Atom) {
			l := fmt.Sprintf("%s BR %s", x.Pos(), a)
			if !seen[l] {
				seen[l] = true
				lines = append(lines, l)
			}
		},
		Instr: func(x *core.X) {
			switch t := x.Ins.(type) {
			case ssa.CallInstruction:
				l := ""
				if t.Value() != nil {
					l = fmt.Sprintf("%s CALL %s", x.Pos(), x.Canon(t.Value()))
				}
				if t.Value() == nil {
					n, _ := core.CallName(x.Ins)
					l = fmt.Sprintf("%s CALL %s", x.Pos(), n)
				}
				if !seen[l] {
					seen[l] = true
					lines = append(lines, l)
				}
			case *ssa.Store:
				l := fmt.Sprintf("%s STORE %s := %s", x.Pos(), x.Canon(t.Addr), x.Canon(t.Val))
				if !seen[l] {
					seen[l] = true
					lines = append(lines, l)
				}
			}
		},
	})
	ex.Run(fn, nil)
	sort.Strings(lines)
	for _, l := range lines {
		fmt.Println(l)
	}
	fmt.Printf("steps=%d paths=%d imprecise=%q\n", ex.Steps, ex.Paths, ex.Imprecise)
}
