package rules

import (
	"fmt"
	"go/token"
	"go/types"
	"sort"
	"strings"

	"golang.org/x/tools/go/ssa"

	"slockverif/internal/core"
)

func init() { Registry["C09"] = checkC09 }

func checkC09(p *core.Prog, r *core.Report) {
	r.Explanation = "Decides structural necessary conditions of exact log shipping: (R1) ReplicationBufferQueue.Pop returns success only when the item it hands out continues the cursor (fresh/recycled cursor: item.seq - cursor.seq == 1, or the first item, or an unset cursor; live cursor: item.seq == cursor.seq before advancing); every other path returns a non-nil error ('out of buf'), so a recycled item under a lagging cursor is never silently followed; (R2) handleInitSync answers an unknown position with ERR_NOT_FOUND unless it is exactly the manager's current position, and refuses ids with file index 0; (R3) the follower reacts to ERR_NOT_FOUND by zeroing its position and re-requesting a full transfer; (R4) Aof.PushLock publishes every record to the ring after the file write attempt on every path, taking the ring mutex before releasing the append mutex (file order = ring order); (R5) ReplicationClient.Process hands every decoded record to its three pipelines (replay, append, re-publish) exactly once each in that order, and every exit sends the nil terminator to all three; (R6) the full-transfer bound: with an empty ring the transfer stops one past the last persisted record (offset + 1), and sendFiles stops at the first record at or past the bound. (R7) the follower's receive ring is at least two buffers larger than each pipeline queue's capacity, so a record still queued is never overwritten. (R9) the ring accepts a resume position only after examining all 16 bytes of the follower's log id. (R10) a cursor that does not get its position from the ring (full transfer from an empty ring, resume at exactly the current position) is positioned at ring.seq-1 before the answer is written, and (R1) Pop no longer waives continuity for an unpositioned cursor (a real defect was repaired). (R11) the sender writes a record directly to the stream only with its batch buffer empty. NOT decided: the rest of ring overflow behaviour under slow followers, reconnect races, convergence of snapshots."
	r.Assumptions = []string{"Go type checker and go/ssa are correct for /repo"}
	c09R1(p, r)
	c09R2(p, r)
	c09R3(p, r)
	c09R4(p, r)
	c09R5(p, r)
	c09R6(p, r)
	c09R7(p, r)
	c09R8(p, r)
	c09R9(p, r)
	c09R10(p, r)
	c09R11(p, r)
}

func c09R1(p *core.Prog, r *core.Report) {
	const rule = "C09/R1"
	r.Rule(rule, "Pop succeeds only on seq continuity; all other paths return a non-nil error", 2)
	fn := mustFunc(p, r, "server.(*ReplicationBufferQueue).Pop")
	if fn == nil {
		return
	}
	ex := core.NewExplorer(p, core.Hooks{
		Track: func(x *core.X, a core.Atom) bool {
			return strings.Contains(a.String(), ".seq") || strings.Contains(a.String(), "pollCount")
		},
		Exit: func(x *core.X, rets []core.Expr) {
			if len(rets) != 1 || rets[0].S != "nil" {
				return
			}
			fresh, cont, waived := false, false, false
			var cls []string
			for h := range x.St.Hist {
				if strings.Contains(h, ".seq") {
					cls = append(cls, h)
				}
				switch {
				case strings.HasSuffix(h, ".seq) == 1") && strings.Contains(h, " - "):
					cont, fresh = true, true
				case strings.HasSuffix(h, ".seq == 0") && !strings.Contains(h, "cursor.seq == 0"):
					cont, fresh = true, true
				case strings.Contains(h, "cursor.seq == 18446744073709551615"), strings.Contains(h, "18446744073709551615 == cursor.seq"):
					// "never positioned" is not continuity: a cursor that attaches to
					// whatever the tail is skips everything recycled before its first Pop
					fresh, waived = true, true
				case strings.Contains(h, ".seq == ") && strings.Contains(h, "cursor.seq") && !strings.Contains(h, " - ") && !strings.HasSuffix(h, "== 0") && !strings.Contains(h, "18446744073709551615"):
					cont = true
				}
			}
			key := "server.(*ReplicationBufferQueue).Pop: success{" + map[bool]string{true: "fresh cursor", false: "live cursor"}[fresh] + "}"
			if cont {
				r.Hold(rule, key, x.Pos(), "continuity established")
			} else if waived {
				r.Violate(rule, "server.(*ReplicationBufferQueue).Pop: success{unpositioned cursor}", x.Pos(), "Pop waives the continuity test for a cursor that was never positioned (seq = 2^64-1) and attaches it to the current tail: a follower that full-syncs from a leader whose ring is empty gets only what is still in the ring at its first Pop - everything recycled before that is in neither the file transfer nor the stream, and no error is raised", x.St.Trace)
			} else {
				r.Violate(rule, key, x.Pos(), "Pop hands out an item without establishing that it continues the cursor's sequence ("+stable(strings.Join(cls, "; "))+"): a recycled item under a lagging follower is followed silently and records are skipped", x.St.Trace)
			}
		},
	})
	ex.Run(fn, nil)
}

func c09R2(p *core.Prog, r *core.Report) {
	const rule = "C09/R2"
	r.Rule(rule, "handleInitSync: unknown position -> ERR_NOT_FOUND unless it equals the current position; file index 0 refused", 2)
	fn := mustFunc(p, r, "server.(*ReplicationServer).handleInitSync")
	if fn == nil {
		return
	}
	ex := core.NewExplorer(p, core.Hooks{
		Track: func(x *core.X, a core.Atom) bool {
			s := core.Plain(a.String())
			return strings.HasPrefix(s, "Search(") || strings.Contains(s, "currentAofId") || strings.Contains(s, "ParseAofId(") || strings.HasSuffix(s, "[4] == 0") || strings.HasSuffix(s, "[4] != 0")
		},
		Instr: func(x *core.X) {
			if !x.Top() {
				return
			}
			// continuing after a failed search: the store that recycles the cursor
			if st, ok := x.Ins.(*ssa.Store); ok {
				if k, ok := storeKey(st.Addr); ok && k == fk("server.ReplicationBufferQueueCursor", "currentItem") {
					searchFailed, same, refusedZero := false, false, false
					for h := range x.St.Hist {
						if strings.HasPrefix(h, "Search(") && strings.HasSuffix(h, " != nil") {
							searchFailed = true
						}
						if strings.Contains(h, "currentAofId") && strings.Contains(h, " == ") && strings.Contains(h, "ParseAofId(") {
							same = true
						}
						if strings.HasSuffix(h, "[4] == 0") || strings.HasSuffix(h, "[4] != 0") {
							refusedZero = true
						}
					}
					if !searchFailed {
						return // the cursor is positioned on another branch (full transfer from an empty ring), not a resume
					}
					key := siteKey(p, x.Ins)
					if searchFailed && same {
						r.Hold(rule, key, x.Pos(), "resume without search only at exactly the current position")
					} else if searchFailed {
						r.Violate(rule, key, x.Pos(), "a position not found in the ring is accepted without being the manager's current position: the follower is silently skipped ahead", x.St.Trace)
					}
					if refusedZero {
						r.Hold(rule, "server.(*ReplicationServer).handleInitSync: file index 0", x.Pos(), "ids with file index 0 are tested")
					} else {
						r.Violate(rule, "server.(*ReplicationServer).handleInitSync: file index 0", x.Pos(), "a resume id with file index 0 is not refused", x.St.Trace)
					}
				}
			}
		},
	})
	ex.Run(fn, nil)
}

func c09R3(p *core.Prog, r *core.Report) {
	const rule = "C09/R3"
	r.Rule(rule, "follower: ERR_NOT_FOUND zeroes the position and re-requests a full transfer", 1)
	fn := mustFunc(p, r, "server.(*ReplicationClient).sendSyncCommand")
	if fn == nil {
		return
	}
	self := fn.Params[0].Name()
	found := false
	ex := core.NewExplorer(p, core.Hooks{
		Track: func(x *core.X, a core.Atom) bool { return strings.Contains(a.String(), "ERR_NOT_FOUND") },
		Instr: func(x *core.X) {
			if !x.Top() {
				return
			}
			if st, ok := x.Ins.(*ssa.Store); ok {
				if k, ok := storeKey(st.Addr); ok && k == fk("server.ReplicationClient", "currentAofId") {
					x.Set("zeroed", "1")
				}
			}
			if core.StaticCallee(x.Ins) == fn {
				notFound := false
				for h := range x.St.Hist {
					if strings.Contains(h, "\"ERR_NOT_FOUND\"") && strings.Contains(h, " == ") {
						notFound = true
					}
				}
				key := siteKey(p, x.Ins)
				found = true
				if notFound && x.Get("zeroed") == "1" {
					r.Hold(rule, key, x.Pos(), "position cleared before the full-sync retry")
				} else {
					r.Violate(rule, key, x.Pos(), "sync is retried without clearing the follower's position on ERR_NOT_FOUND (it would ask for the same unknown position for ever, or resume from a stale one)", x.St.Trace)
				}
			}
		},
	})
	_ = self
	ex.Run(fn, nil)
	if !found {
		r.Violate(rule, "server.(*ReplicationClient).sendSyncCommand: retry", p.Pos(fn.Pos()), "no full-sync retry after ERR_NOT_FOUND", nil)
	}
}

func c09R4(p *core.Prog, r *core.Report) {
	const rule = "C09/R4"
	r.Rule(rule, "Aof.PushLock: ring publication on every path after the write attempt; ring mutex taken before the append mutex is released", 2)
	fn := mustFunc(p, r, "server.(*Aof).PushLock")
	if fn == nil {
		return
	}
	ex := core.NewExplorer(p, core.Hooks{
		Instr: func(x *core.X) {
			if !x.Top() {
				return
			}
			if cl, acq, ok := mutexOp(x, x.Ins); ok {
				if cl == "aofGlock" && !acq && x.Get("wrote") == "1" {
					key := siteKey(p, x.Ins)
					if x.Get("L:replGlock") == "1" {
						r.Hold(rule, key, x.Pos(), "hand-over-hand: ring mutex held when the append mutex is released")
					} else {
						r.Violate(rule, key, x.Pos(), "append mutex released before the ring mutex is taken: two appenders can publish to the ring in the opposite order of their file offsets", x.St.Trace)
					}
				}
				trackLocks(x)
				return
			}
			if calleeIs(x.Ins, "AofFile", "WriteLock") {
				x.Set("wrote", "1")
			}
			if calleeIs(x.Ins, "ReplicationManager", "PushLock") {
				x.Set("pub", "1")
				if x.Get("L:replGlock") != "1" {
					r.Violate(rule, siteKey(p, x.Ins), x.Pos(), "ring publication outside the ring mutex", x.St.Trace)
				}
			}
		},
		Exit: func(x *core.X, rets []core.Expr) {
			if x.Get("wrote") != "1" {
				return
			}
			key := "server.(*Aof).PushLock: exit after a write attempt"
			if x.Get("pub") == "1" {
				r.Hold(rule, key, x.Pos(), "record published to the ring")
			} else {
				r.Violate(rule, key, x.Pos(), "a record that was (attempted to be) appended is not published to the ring on this path: followers skip it", x.St.Trace)
			}
		},
	})
	ex.Run(fn, nil)
}

func c09R5(p *core.Prog, r *core.Report) {
	const rule = "C09/R5"
	r.Rule(rule, "ReplicationClient.Process fans every record out to replay, append and re-publish queues once each, in order; every exit terminates all three", 2)
	fn := mustFunc(p, r, "server.(*ReplicationClient).Process")
	if fn == nil {
		return
	}
	ex := core.NewExplorer(p, core.Hooks{
		Instr: func(x *core.X) {
			snd, ok := x.Ins.(*ssa.Send)
			if !ok || !x.Top() {
				return
			}
			ch := core.Plain(x.Canon(snd.Chan).S)
			q := ""
			for _, n := range []string{"replayQueue", "aofQueue", "pushQueue"} {
				if strings.HasSuffix(ch, "."+n) {
					q = n[:1]
				}
			}
			if q == "" {
				return
			}
			if c, isC := snd.X.(*ssa.Const); isC && c.Value == nil {
				x.Set("term", x.Get("term")+q)
				return
			}
			// a record: the three sends must come as r, a, p for the same value
			v := x.Canon(snd.X).S
			seq := x.Get("fan")
			if q == "r" {
				if seq != "" && seq != "rap" {
					r.Violate(rule, siteKey(p, x.Ins), x.Pos(), "previous record was fanned out as '"+seq+"' (want replay, append, re-publish)", x.St.Trace)
				}
				x.Set("fan", "r")
				x.Set("fanv", v)
				return
			}
			if v != x.Get("fanv") {
				r.Violate(rule, siteKey(p, x.Ins), x.Pos(), "pipeline "+q+" receives a different record than the replay pipeline", x.St.Trace)
			}
			x.Set("fan", seq+q)
			if q == "p" {
				key := siteKey(p, x.Ins)
				if seq+q == "rap" {
					r.Hold(rule, key, x.Pos(), "record sent to all three pipelines in order")
				} else {
					r.Violate(rule, key, x.Pos(), "record fanned out as '"+seq+q+"' (want replay, append, re-publish exactly once each)", x.St.Trace)
				}
			}
		},
		Exit: func(x *core.X, rets []core.Expr) {
			key := "server.(*ReplicationClient).Process: exit"
			fan := x.Get("fan")
			if fan != "" && fan != "rap" {
				r.Violate(rule, key+" mid-record", x.Pos(), "returns with a record delivered to only some pipelines ("+fan+")", x.St.Trace)
				return
			}
			if x.Get("term") == "rap" {
				r.Hold(rule, key, x.Pos(), "all three pipelines terminated")
			} else {
				r.Violate(rule, key, x.Pos(), "exit without the nil terminator on all three pipelines (sent: '"+x.Get("term")+"'): a pipeline goroutine would wait for ever", x.St.Trace)
			}
		},
	})
	ex.Run(fn, nil)
	if ex.Imprecise != "" {
		r.Fail("C09/R5: %s", ex.Imprecise)
	}
}

func c09R6(p *core.Prog, r *core.Report) {
	const rule = "C09/R6"
	r.Rule(rule, "full-transfer bound = last persisted offset + 1 when the ring is empty; sendFiles stops at the first record at or past the bound", 2)
	if fn := mustFunc(p, r, "server.(*ReplicationServer).handleInitSync"); fn != nil {
		n := 0
		ex := core.NewExplorer(p, core.Hooks{
			Instr: func(x *core.X) {
				st, ok := x.Ins.(*ssa.Store)
				if !ok || !x.Top() {
					return
				}
				k, ok := storeKey(st.Addr)
				if !ok || k != fk("server.AofLock", "AofOffset") {
					return
				}
				n++
				v := core.Plain(x.Canon(st.Val).S)
				key := siteKey(p, x.Ins)
				if strings.HasSuffix(v, ".aofFileOffset + 1)") {
					r.Hold(rule, key, x.Pos(), "bound is one past the last persisted record")
				} else {
					r.Violate(rule, key, x.Pos(), "full-transfer bound set to "+stable(v)+" (want aofFileOffset + 1): the newest persisted record is neither transferred nor in the ring", x.St.Trace)
				}
			},
			Call: func(x *core.X, site ssa.CallInstruction) ([]core.CallOut, bool) { return nil, false },
		})
		ex.Run(fn, nil)
		if n == 0 {
			// the bound is set some other way: a whole-id copy of the current position has no +1
			viaSet := false
			for _, b := range fn.Blocks {
				for _, ins := range b.Instrs {
					if calleeIs(ins, "AofLock", "SetAofId") {
						viaSet = true
					}
				}
			}
			key := "server.(*ReplicationServer).handleInitSync: transfer bound"
			if viaSet {
				r.Violate(rule, key, p.Pos(fn.Pos()), "the full-transfer bound is copied from the current position (SetAofId) instead of aofFileOffset + 1: the newest persisted record is neither transferred nor in the ring", nil)
			} else {
				r.Undecide(rule, key, p.Pos(fn.Pos()), "the full-transfer bound is no longer a store to waofLock.AofOffset in handleInitSync; cannot locate it")
			}
		}
	}
	// sendFiles callback: stop test
	if outer := mustFunc(p, r, "server.(*ReplicationServer).sendFiles"); outer != nil {
		for _, cb := range outer.AnonFuncs {
			ex := core.NewExplorer(p, core.Hooks{
				Track: func(x *core.X, a core.Atom) bool {
					return strings.Contains(a.String(), "AofIndex") || strings.Contains(a.String(), "AofOffset")
				},
				Exit: func(x *core.X, rets []core.Expr) {
					if len(rets) != 2 || rets[0].S != "false" {
						return
					}
					key := "server.(*ReplicationServer).sendFiles: stop"
					ok := false
					for h := range x.St.Hist {
						if strings.Contains(h, "waofLock.AofOffset <= ") && strings.Contains(h, ".AofOffset") || strings.Contains(h, "waofLock.AofIndex < ") {
							ok = true
						}
					}
					if ok {
						r.Hold(rule, key, x.Pos(), "transfer stops at the first record at or past the bound")
					} else {
						r.Violate(rule, key, x.Pos(), "file transfer stops on a condition that is not 'record at or past the bound'", x.St.Trace)
					}
				},
			})
			ex.Run(cb, nil)
		}
	}
}

// c09R7: the follower's reader decodes records into a fixed ring of receive
// buffers and hands *pointers* to its three pipelines through bounded queues;
// a buffer is reused after ring-size further records. A record handed over is
// still owned by a pipeline while it sits in that pipeline's queue or in the
// consumer's hand, i.e. up to capacity+1 records per pipeline are outstanding
// when the reader blocks. The buffer being refilled must not be one of them:
// ring size >= queue capacity + 2 for each pipeline queue.
func c09R7(p *core.Prog, r *core.Report) {
	const rule = "C09/R7"
	r.Rule(rule, "follower receive ring: len(rbufs) >= cap(queue)+2 for each of the three pipeline queues (a record still queued is never overwritten by a later one)", 3)
	fn := mustFunc(p, r, "server.NewReplicationClient")
	if fn == nil {
		return
	}
	sizes := map[string]int64{}
	pos := map[string]string{}
	for _, b := range fn.Blocks {
		for _, ins := range b.Instrs {
			st, ok := ins.(*ssa.Store)
			if !ok {
				continue
			}
			k, ok := storeKey(st.Addr)
			if !ok || k.Type != "server.ReplicationClient" {
				continue
			}
			var sz ssa.Value
			switch v := st.Val.(type) {
			case *ssa.MakeSlice:
				sz = v.Len
			case *ssa.MakeChan:
				sz = v.Size
			case *ssa.Slice:
				// make([]T, N) with constant N is lowered to new [N]T + slice
				if al, ok := v.X.(*ssa.Alloc); ok {
					if pt, ok := al.Type().Underlying().(*types.Pointer); ok {
						if at, ok := pt.Elem().Underlying().(*types.Array); ok {
							sizes[k.Field] = at.Len()
							pos[k.Field] = p.InstrPos(ins)
						}
					}
				}
				continue
			default:
				continue
			}
			if c, ok := sz.(*ssa.Const); ok && c.Value != nil {
				sizes[k.Field] = c.Int64()
				pos[k.Field] = p.InstrPos(ins)
			} else {
				sizes[k.Field] = -1
				pos[k.Field] = p.InstrPos(ins)
			}
		}
	}
	ring, ok := sizes["rbufs"]
	if !ok || ring < 0 {
		r.Undecide(rule, "server.NewReplicationClient: receive ring size", p.Pos(fn.Pos()), "ring size is not a constant make() in the constructor")
		return
	}
	for _, q := range []string{"replayQueue", "aofQueue", "pushQueue"} {
		c, ok := sizes[q]
		key := "server.NewReplicationClient: " + q
		switch {
		case !ok || c < 0:
			r.Undecide(rule, key, p.Pos(fn.Pos()), "queue capacity is not a constant make() in the constructor")
		case ring >= c+2:
			r.Hold(rule, key, pos[q], fmt.Sprintf("ring %d >= capacity %d + 2", ring, c))
		default:
			r.Violate(rule, key, pos[q], fmt.Sprintf("queue capacity %d with a receive ring of %d buffers: when this pipeline stalls the reader refills a buffer that is still queued, the follower appends/replays a later record twice and loses the earlier one", c, ring), nil)
		}
	}
}

// c09R8: the live append file (Aof.aofFile) buffers records in memory
// (wbuf/windex, dwbuf/dwindex) and is flushed by the log goroutines under the
// append mutex. Every other writer of that buffer - including the follower's
// file-transfer receiver, which appends transferred records to the live file
// when the transfer reaches the current index - must hold the same mutex,
// otherwise a concurrent flush writes a half-updated buffer: the follower's
// append file gets duplicated or torn records and no longer equals the leader's.
func c09R8(p *core.Prog, r *core.Report) {
	const rule = "C09/R8"
	r.Rule(rule, "buffer operations on the live append file (WriteLock, AppendLock, WriteLockData, Flush on Aof.aofFile) are made with the append mutex held, in every calling context", 6)
	ops := map[string]bool{"WriteLock": true, "AppendLock": true, "WriteLockData": true, "Flush": true}
	isOp := func(ins ssa.Instruction) bool {
		c := core.StaticCallee(ins)
		return c != nil && recvName(c) == "AofFile" && ops[c.Name()] && core.InModule(c)
	}
	type obs struct {
		pos    string
		unheld []string
		n      int
	}
	sites := map[string]*obs{}
	ls := &lockState{p: p, r: r, classes: map[string]bool{"aofGlock": true}, isEvent: isOp}
	ls.observe = func(x *core.X, top *ssa.Function, entry string) {
		if !isOp(x.Ins) {
			return
		}
		recv := core.Plain(argCanon(x, x.Ins, 0))
		if !strings.HasSuffix(recv, ".aofFile") {
			return // a file opened locally (transfer target, rewrite output): not shared
		}
		key := siteKey(p, x.Ins)
		o := sites[key]
		if o == nil {
			o = &obs{pos: x.Pos()}
			sites[key] = o
		}
		o.n++
		if !held(x, "aofGlock") {
			o.unheld = append(o.unheld, ls.chain(top, entry))
		}
	}
	ls.run()
	keys := make([]string, 0, len(sites))
	for k := range sites {
		keys = append(keys, k)
	}
	sort.Strings(keys)
	for _, k := range keys {
		o := sites[k]
		if len(o.unheld) > 0 {
			r.Violate(rule, k, o.pos, "the live append file's buffer is written/flushed without the append mutex ("+o.unheld[0]+"): a concurrent flush by the log goroutine sees a half-updated buffer, records are duplicated or torn in the append file", nil)
		} else {
			r.Hold(rule, k, o.pos, "append mutex held in every context")
		}
	}
}

// c09R9: a reconnecting follower is resumed from the ring only if the ring
// holds the record it names. The name is the full 16-byte log id (offset, file
// index and command time): two leader histories reuse (file index, offset)
// pairs, so a position that matches in only part of the id belongs to a
// different history and the follower must be resynced from scratch instead.
// Structurally: ReplicationBufferQueue.Search returns success only on paths
// that read all 16 bytes of the id it was given.
func c09R9(p *core.Prog, r *core.Report) {
	const rule = "C09/R9"
	r.Rule(rule, "ReplicationBufferQueue.Search accepts a ring position only after examining all 16 bytes of the follower's log id", 1)
	fn := mustFunc(p, r, "server.(*ReplicationBufferQueue).Search")
	if fn == nil || len(fn.Params) < 2 {
		return
	}
	// the by-value array parameter is spilled to a local cell
	var cell *ssa.Alloc
	for _, b := range fn.Blocks {
		for _, ins := range b.Instrs {
			if st, ok := ins.(*ssa.Store); ok && st.Val == ssa.Value(fn.Params[1]) {
				if al, ok := st.Addr.(*ssa.Alloc); ok {
					cell = al
				}
			}
		}
	}
	n := 0
	ex := core.NewExplorer(p, core.Hooks{
		Instr: func(x *core.X) {
			if !x.Top() {
				return
			}
			switch t := x.Ins.(type) {
			case *ssa.IndexAddr:
				if cell != nil && t.X == ssa.Value(cell) {
					if c, ok := t.Index.(*ssa.Const); ok && c.Value != nil {
						x.Set("rd:"+c.Value.ExactString(), "1")
					}
				}
			case *ssa.Index:
				if t.X == ssa.Value(fn.Params[1]) {
					if c, ok := t.Index.(*ssa.Const); ok && c.Value != nil {
						x.Set("rd:"+c.Value.ExactString(), "1")
					}
				}
			case *ssa.BinOp:
				// whole-array comparison
				if (t.Op.String() == "==" || t.Op.String() == "!=") && (t.X == ssa.Value(fn.Params[1]) || t.Y == ssa.Value(fn.Params[1])) {
					for i := 0; i < 16; i++ {
						x.Set(fmt.Sprintf("rd:%d", i), "1")
					}
				}
			}
		},
		Exit: func(x *core.X, rets []core.Expr) {
			if len(rets) != 1 || rets[0].S != "nil" {
				return
			}
			n++
			cnt := 0
			for i := 0; i < 16; i++ {
				if x.Get(fmt.Sprintf("rd:%d", i)) == "1" {
					cnt++
				}
			}
			key := "server.(*ReplicationBufferQueue).Search: accept"
			if cnt == 16 {
				r.Hold(rule, key, x.Pos(), "all 16 id bytes examined")
			} else {
				r.Violate(rule, key, x.Pos(), fmt.Sprintf("a ring position is accepted after examining only %d of the 16 bytes of the follower's log id: a follower of a different history whose (file, offset) happens to exist in the ring is resumed instead of resynced and keeps a log that is not the leader's", cnt), x.St.Trace)
			}
		},
	})
	ex.NoHist = true
	ex.Run(fn, nil)
	if ex.Imprecise != "" {
		r.Fail("C09/R9: %s", ex.Imprecise)
	}
	if n == 0 {
		r.Fail("C09/R9: Search has no successful return")
	}
}

// c09R10: Pop accepts the tail only when it continues the cursor's sequence.
// A full transfer that starts from an empty ring therefore has to position the
// cursor at the ring's next sequence number together with the transfer bound:
// both handleInitSync branches that leave the ring (empty ring on a full
// transfer, exact current position on a resume) store cursor.seq :=
// ring.seq - 1 before answering. Without it the first Pop either fails for
// ever (used ring) or - with a waiver for unpositioned cursors - attaches to
// whatever is left in the ring.
func c09R10(p *core.Prog, r *core.Report) {
	const rule = "C09/R10"
	r.Rule(rule, "handleInitSync: a cursor that does not get its position from the ring (empty ring on a full transfer / resume at exactly the current position) is positioned at ring.seq-1 before the answer is written", 2)
	fn := mustFunc(p, r, "server.(*ReplicationServer).handleInitSync")
	if fn == nil {
		return
	}
	n := 0
	ex := core.NewExplorer(p, core.Hooks{
		Track: func(x *core.X, a core.Atom) bool {
			s := core.Plain(a.String())
			return strings.HasPrefix(s, "Head(") || strings.HasPrefix(s, "Search(")
		},
		Instr: func(x *core.X) {
			if !x.Top() {
				return
			}
			if st, ok := x.Ins.(*ssa.Store); ok {
				if k, ok := storeKey(st.Addr); ok && k == fk("server.ReplicationBufferQueueCursor", "seq") {
					v := core.Plain(x.Canon(st.Val).S)
					if strings.HasSuffix(v, ".bufferQueue.seq - 1)") {
						x.Set("positioned", "1")
					}
				}
				return
			}
			if !calleeIs(x.Ins, "ReplicationServer", "waitStarted") && !strings.Contains(eventLabel(x.Ins), "Write") {
				return
			}
			branch := ""
			for h := range x.St.Hist {
				h = core.Plain(h)
				if strings.HasPrefix(h, "Head(") && strings.HasSuffix(h, "== io.EOF") {
					branch = "full transfer from an empty ring"
				}
				if strings.HasPrefix(h, "Search(") && strings.HasSuffix(h, "!= nil") {
					branch = "resume at the current position"
				}
			}
			if branch == "" || x.Get("done:"+branch) == "1" {
				return
			}
			x.Set("done:"+branch, "1")
			n++
			key := "server.(*ReplicationServer).handleInitSync: " + branch
			if x.Get("positioned") == "1" {
				r.Hold(rule, key, x.Pos(), "cursor.seq := ring.seq - 1 before the answer")
			} else {
				r.Violate(rule, key, x.Pos(), "the answer is written with a cursor that was not positioned at the ring's next sequence number: its first Pop cannot establish continuity (it fails for ever on a ring that has been used, or attaches to whatever is left if unpositioned cursors are waived)", x.St.Trace)
			}
		},
	})
	ex.Run(fn, nil)
	if ex.Imprecise != "" {
		r.Fail("C09/R10: %s", ex.Imprecise)
	}
	if n == 0 {
		r.Fail("C09/R10: neither branch found in handleInitSync")
	}
}

// c09R11: the sender batches records in a 4 KiB buffer and writes a record
// that is too large for the buffer directly to the stream. "No record skipped,
// duplicated or reordered" needs the batch to be empty at that moment: a
// direct write while earlier records still sit in the batch overtakes them.
// Decided per loop iteration of SendProcess, on the flow graph: every acyclic
// path from the loop header to a direct write that does not pass the write of
// the batch must be excluded by its own size tests (the record fits the
// remaining room and is larger than the whole buffer: impossible for a
// non-negative fill level). The batch is assumed possibly non-empty at the
// loop header.
func c09R11(p *core.Prog, r *core.Report) {
	const rule = "C09/R11"
	r.Rule(rule, "SendProcess writes a record directly to the stream only with the batch buffer empty (the batch was written out in the same iteration, or the path's size tests exclude a non-empty batch)", 1)
	fn := mustFunc(p, r, "server.(*ReplicationServer).SendProcess")
	if fn == nil {
		return
	}
	// a slice of a buffer made in this function (make with a constant size is an
	// array allocation sliced whole)
	isBatchArg := func(v ssa.Value) bool {
		for d := 0; d < 4; d++ {
			switch x := v.(type) {
			case *ssa.Slice:
				v = x.X
			case *ssa.MakeSlice, *ssa.Alloc:
				return d > 0
			default:
				return false
			}
		}
		return false
	}
	var directs []ssa.Instruction
	flushAt := map[*ssa.BasicBlock][]ssa.Instruction{}
	for _, b := range fn.Blocks {
		for _, ins := range b.Instrs {
			c := core.StaticCallee(ins)
			if c == nil || c.Name() != "WriteBytes" {
				continue
			}
			args := core.CallArgs(ins)
			if isBatchArg(args[len(args)-1]) {
				flushAt[b] = append(flushAt[b], ins)
			} else {
				directs = append(directs, ins)
			}
		}
	}
	if len(directs) == 0 {
		r.Fail("C09/R11: SendProcess has no direct write of a record")
		return
	}
	// linear forms over SSA values
	var name func(v ssa.Value, d int) string
	name = func(v ssa.Value, d int) string {
		if d > 8 {
			return v.Name()
		}
		switch x := v.(type) {
		case *ssa.UnOp:
			return name(x.X, d+1)
		case *ssa.FieldAddr:
			return name(x.X, d+1) + "." + core.FieldKeyOf(x.X.Type(), x.Field).Field
		case *ssa.Parameter:
			return x.Name()
		}
		return v.Name()
	}
	var lin func(v ssa.Value, d int) core.Lin
	lin = func(v ssa.Value, d int) core.Lin {
		if c, ok := constIntOf(v); ok {
			return core.LinConst(c)
		}
		if d > 8 {
			return core.LinTerm("v:" + v.Name())
		}
		switch x := v.(type) {
		case *ssa.Convert:
			return lin(x.X, d+1)
		case *ssa.BinOp:
			switch x.Op {
			case token.ADD:
				return lin(x.X, d+1).Add(lin(x.Y, d+1))
			case token.SUB:
				return lin(x.X, d+1).Sub(lin(x.Y, d+1))
			}
		case *ssa.Call:
			if bi, ok := x.Call.Value.(*ssa.Builtin); ok && bi.Name() == "len" && len(x.Call.Args) == 1 {
				return core.LinTerm("len:" + name(x.Call.Args[0], 0))
			}
		case *ssa.Phi:
			return core.LinTerm("phi:" + x.Name())
		}
		return core.LinTerm("v:" + v.Name())
	}
	condFacts := func(b *ssa.BasicBlock, succ int) []core.Lin {
		if len(b.Instrs) == 0 {
			return nil
		}
		iff, ok := b.Instrs[len(b.Instrs)-1].(*ssa.If)
		if !ok {
			return nil
		}
		cmp, ok := iff.Cond.(*ssa.BinOp)
		if !ok {
			return nil
		}
		if bt, ok := cmp.X.Type().Underlying().(*types.Basic); !ok || bt.Info()&types.IsInteger == 0 {
			return nil
		}
		l, rr := lin(cmp.X, 0), lin(cmp.Y, 0)
		op := cmp.Op
		if succ == 1 { // false edge: negate
			switch op {
			case token.GTR:
				op = token.LEQ
			case token.GEQ:
				op = token.LSS
			case token.LSS:
				op = token.GEQ
			case token.LEQ:
				op = token.GTR
			default:
				return nil
			}
		}
		switch op {
		case token.GTR: // l > r  ->  l - r - 1 >= 0
			return []core.Lin{l.Sub(rr).Add(core.LinConst(-1))}
		case token.GEQ:
			return []core.Lin{l.Sub(rr)}
		case token.LSS:
			return []core.Lin{rr.Sub(l).Add(core.LinConst(-1))}
		case token.LEQ:
			return []core.Lin{rr.Sub(l)}
		}
		return nil
	}
	isHeader := func(b *ssa.BasicBlock) bool {
		for _, pred := range b.Preds {
			if b.Dominates(pred) {
				return true
			}
		}
		return false
	}
	for i, d := range directs {
		key := fmt.Sprintf("server.(*ReplicationServer).SendProcess: direct write#%d only with an empty batch", i+1)
		db := d.Block()
		var h *ssa.BasicBlock
		for x := db; x != nil; x = x.Idom() {
			if isHeader(x) && blockReaches2(db, x) {
				h = x
				break
			}
		}
		if h == nil {
			r.Hold(rule, key, p.InstrPos(d), "not inside the sending loop")
			continue
		}
		flushedBefore := func(b *ssa.BasicBlock, upto ssa.Instruction) bool {
			for _, f := range flushAt[b] {
				if upto == nil {
					return true
				}
				for _, ins := range b.Instrs {
					if ins == f {
						return true
					}
					if ins == upto {
						break
					}
				}
			}
			return false
		}
		feasible, paths := "", 0
		var dfs func(b *ssa.BasicBlock, facts []core.Lin, seen map[*ssa.BasicBlock]bool)
		dfs = func(b *ssa.BasicBlock, facts []core.Lin, seen map[*ssa.BasicBlock]bool) {
			if feasible != "" || paths > 5000 {
				return
			}
			if b == db {
				if flushedBefore(b, d) {
					return
				}
				paths++
				if core.LinEntails(facts, core.LinConst(-1)) {
					return
				}
				for _, f := range facts {
					for t := range f.T {
						if strings.HasPrefix(t, "phi:") && core.LinEntails(facts, core.LinTerm(t).Scale(-1).Add(core.LinConst(-1))) {
							return // the fill level would be negative
						}
					}
				}
				feasible = fmt.Sprintf("%d size tests on the path, none excludes a non-empty batch", len(facts))
				return
			}
			if flushedBefore(b, nil) {
				return // the batch is written out on this path
			}
			for si, s := range b.Succs {
				if seen[s] || s == h || !h.Dominates(s) || (s != db && !blockReaches2(s, db) && s != db) {
					continue
				}
				seen[s] = true
				dfs(s, append(append([]core.Lin{}, facts...), condFacts(b, si)...), seen)
				delete(seen, s)
			}
		}
		dfs(h, nil, map[*ssa.BasicBlock]bool{h: true})
		switch {
		case paths > 5000:
			r.Fail("C09/R11: too many paths to %s", p.InstrPos(d))
		case feasible != "":
			r.Violate(rule, key, p.InstrPos(d), "a record is written directly to the follower's stream on a path of the sending loop that does not write the batch out first ("+feasible+"): records still sitting in the batch buffer are overtaken - the follower receives, applies, logs and re-publishes the leader's records out of order", nil)
		default:
			r.Hold(rule, key, p.InstrPos(d), fmt.Sprintf("%d paths without a batch write, all excluded by their size tests", paths))
		}
	}
}
