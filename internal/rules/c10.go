package rules

import (
	"fmt"
	"sort"
	"strings"

	"golang.org/x/tools/go/ssa"

	"slockverif/internal/core"
)

func init() { Registry["C10"] = checkC10 }

func checkC10(p *core.Prog, r *core.Report) {
	r.Explanation = "Decides structural necessary conditions of leader-only decisions: (R1) in LockDB.Lock/UnLock every engine mutation (mutator call or store to hold/queue/value state) lies on a path where the node's role was tested under the shard mutex in the same critical section and is leader, or the request is marked as replay (FROM_AOF); the role field LockDB.status is only written with the shard mutexes held (interprocedural lock-state); (R2) in the follower-side (Transparency*) protocols every call into the local engine lies on a path that tested slock.state == LEADER (or, for pass-through of non-lock commands, tested the command type); (R3) PushLockAof / PushUnLockAof / PushExecutorLockCommand reach their push only after testing status == LEADER; (R4) doExpried ends a hold on its own clock only when forced, leader, not replicated, or after the leader-wait window (EXPRIED_WAIT_LEADER_MAX_TIME) has elapsed; (R5) the leader and follower text command registries have the same command names; (R6) the replay mark FROM_AOF (flag 0x04), which exempts a request from the role test, is never taken from a client frame: every client-facing decoder path to the engine masks or rejects it. (R7) the only local answer of a non-leader, the concurrent-check shortcut, is given only to requests with that flag and Timeout == 0; (R8) AddLock marks every hold created from a replayed record as isAof independent of role (what the follower's expiry arm re-arms); (R9) Server.handle re-dispatches the request a protocol object had already read when it handed back AGAIN (role change) before reading the next one; (R10) the wake-up pass tests the role before it grants a queued request (it does not: known finding). NOT decided: reply relaying fidelity, reconnection to a new leader, equality of outcomes across nodes."
	r.Assumptions = []string{"Go type checker, go/ssa and VTA call graph are correct for /repo", "all *PriorityMutex values are one abstract lock class"}
	c10R1(p, r)
	c10R1b(p, r)
	c10R2(p, r)
	c10R3(p, r)
	c10R4(p, r)
	c10R5(p, r)
	c10R6(p, r)
	c10R7(p, r)
	c10R8(p, r)
	c10R9(p, r)
	c10R10(p, r)
}

func engineStateStore(k core.FieldKey) bool {
	return k.Type == "server.LockManager" && k.Field != "refCount" || k.Type == "server.Lock" || k.Type == "server.LockManagerData" || k.Type == "server.LockData"
}

func c10R1(p *core.Prog, r *core.Report) {
	const rule = "C10/R1"
	r.Rule(rule, "every engine mutation in Lock/UnLock follows, in the same shard-mutex section, a role test that found leader, or a FROM_AOF mark", 30)
	leader := fmt.Sprint(mustConst(p, r, "server", "STATE_LEADER"))
	for _, name := range []string{"server.(*LockDB).Lock", "server.(*LockDB).UnLock"} {
		fn := mustFunc(p, r, name)
		if fn == nil {
			continue
		}
		self, cmd := fn.Params[0].Name(), fn.Params[2].Name()
		check := func(x *core.X, what string) {
			key := siteKey(p, x.Ins)
			led, aof := x.Get("led"), x.Get("aof")
			switch {
			case led == "leader":
				r.Hold(rule, key, x.Pos(), what+": leader tested under the mutex")
			case led == "other" && aof == "1":
				r.Hold(rule, key, x.Pos(), what+": replay (FROM_AOF) on a non-leader")
			case led == "":
				r.Violate(rule, key, x.Pos(), what+" without a role test under the shard mutex in this critical section (a role change between the test and the mutation lets a non-leader decide)", x.St.Trace)
			default:
				r.Violate(rule, key, x.Pos(), what+" on a path where the node is not leader and the request is not a replay", x.St.Trace)
			}
		}
		ex := core.NewExplorer(p, core.Hooks{
			Instr: func(x *core.X) {
				if !x.Top() {
					return
				}
				if cl, acq, ok := trackLocks(x); ok && cl == "shard" {
					if !acq {
						x.Set("led", "")
					}
					return
				}
				switch t := x.Ins.(type) {
				case *ssa.Store:
					if k, ok := storeKey(t.Addr); ok && engineStateStore(k) {
						check(x, "store "+k.String())
					}
				case ssa.CallInstruction:
					if n, ok := isMutatorCall(x.Ins); ok && n != "DoAckLock" {
						check(x, "call "+n) // DoAckLock re-enters the engine under its own mutex section
					}
				}
			},
			Branch: func(x *core.X, a core.Atom) {
				l := core.Plain(a.L)
				if l == self+".status" && a.R == leader {
					if !held(x, "shard") {
						return // a test outside the mutex proves nothing for the section
					}
					if a.Op == "==" {
						x.Set("led", "leader")
					} else {
						x.Set("led", "other")
					}
				}
				if l == "("+cmd+".Flag & 4)" && a.R == "0" {
					// the mark is only ever OR-ed into a command: once seen set it stays set
					if a.Op == "!=" {
						x.Set("aof", "1")
					} else if x.Get("aof") != "1" {
						x.Set("aof", "0")
					}
				}
			},
		})
		ex.Run(fn, nil)
		if ex.Imprecise != "" {
			r.Fail("C10/R1 %s: %s", name, ex.Imprecise)
		}
	}
}

func c10R1b(p *core.Prog, r *core.Report) {
	const rule = "C10/R1b"
	r.Rule(rule, "LockDB.status is written only with the shard mutexes held (so the role test under a shard mutex is atomic with a role change)", 1)
	statusKey := fk("server.LockDB", "status")
	exempt := map[string]string{
		"server.NewLockDB":       "constructor: database not published yet",
		"server.(*LockDB).Close": "shutdown: STATE_CLOSE is terminal, sweepers and requests stop on it",
	}
	type obs struct {
		pos    string
		unheld []string
	}
	sites := map[string]*obs{}
	ls := &lockState{p: p, r: r, classes: map[string]bool{"shard": true}, isStore: func(k core.FieldKey) bool { return k == statusKey }}
	ls.observe = func(x *core.X, top *ssa.Function, entry string) {
		st, ok := x.Ins.(*ssa.Store)
		if !ok {
			return
		}
		if k, ok := storeKey(st.Addr); !ok || k != statusKey {
			return
		}
		key := siteKey(p, x.Ins)
		o := sites[key]
		if o == nil {
			o = &obs{pos: x.Pos()}
			sites[key] = o
		}
		if !held(x, "shard") {
			o.unheld = append(o.unheld, ls.chain(top, entry))
		}
	}
	ls.run()
	keys := make([]string, 0, len(sites))
	for k := range sites {
		keys = append(keys, k)
	}
	sort.Strings(keys)
	for _, k := range keys {
		o := sites[k]
		fnName := strings.SplitN(k, ": ", 2)[0]
		if why, ok := exempt[fnName]; ok {
			r.Hold(rule, k, o.pos, "exempt: "+why)
		} else if len(o.unheld) > 0 {
			r.Violate(rule, k, o.pos, "role written without the shard mutexes: "+o.unheld[0], nil)
		} else {
			r.Hold(rule, k, o.pos, "written under the shard mutexes")
		}
	}
}

func c10R2(p *core.Prog, r *core.Report) {
	const rule = "C10/R2"
	r.Rule(rule, "follower-side protocols call the local engine only on paths that tested slock.state == LEADER", 4)
	leader := fmt.Sprint(mustConst(p, r, "server", "STATE_LEADER"))
	cmdLock := fmt.Sprint(mustConst(p, r, "protocol", "COMMAND_LOCK"))
	cmdUnlock := fmt.Sprint(mustConst(p, r, "protocol", "COMMAND_UNLOCK"))
	for _, fn := range p.FuncsIn("server") {
		name := core.FuncName(fn)
		if fn.Blocks == nil || !(strings.HasPrefix(name, "server.(*TransparencyBinaryServerProtocol).") || strings.HasPrefix(name, "server.(*TransparencyTextServerProtocol).")) {
			continue
		}
		if strings.HasSuffix(name, ").Close") {
			continue // will execution at disconnect is C18
		}
		relevant := false
		for _, b := range fn.Blocks {
			for _, ins := range b.Instrs {
				if calleeIs(ins, "LockDB", "Lock") || calleeIs(ins, "LockDB", "UnLock") {
					relevant = true
				}
				if c := core.StaticCallee(ins); c != nil && (c.Name() == "ProcessCommad" || c.Name() == "ProcessLockCommand") && core.InModule(c) {
					relevant = true
				}
			}
		}
		if !relevant {
			continue
		}
		self := fn.Params[0].Name()
		ex := core.NewExplorer(p, core.Hooks{
			Track: func(x *core.X, a core.Atom) bool {
				l := core.Plain(a.L)
				return l == self+".slock.state" || strings.HasPrefix(l, "GetCommandType(") || strings.HasSuffix(l, ".CommandType")
			},
			Instr: func(x *core.X) {
				if !x.Top() {
					return
				}
				isEngine := calleeIs(x.Ins, "LockDB", "Lock") || calleeIs(x.Ins, "LockDB", "UnLock")
				isDelegate := false
				if c := core.StaticCallee(x.Ins); c != nil && (c.Name() == "ProcessCommad" || c.Name() == "ProcessLockCommand") && (recvName(c) == "BinaryServerProtocol" || recvName(c) == "TextServerProtocol") {
					isDelegate = true // hand-over to the wrapped leader-side protocol
				}
				if !isEngine && !isDelegate {
					return
				}
				key := siteKey(p, x.Ins)
				if x.Passed(self + ".slock.state == " + leader) {
					r.Hold(rule, key, x.Pos(), "leader tested on the path")
					return
				}
				if isDelegate {
					// pass-through of commands that are proven not to be lock/unlock
					notLock, notUnlock := false, false
					for h := range x.St.Hist {
						if strings.HasSuffix(h, " != "+cmdLock) && (strings.HasPrefix(h, "GetCommandType(") || strings.Contains(h, ".CommandType")) {
							notLock = true
						}
						if strings.HasSuffix(h, " != "+cmdUnlock) && (strings.HasPrefix(h, "GetCommandType(") || strings.Contains(h, ".CommandType")) {
							notUnlock = true
						}
					}
					if notLock && notUnlock {
						r.Hold(rule, key, x.Pos(), "pass-through of a non-lock command")
						return
					}
					if strings.HasSuffix(name, ").ProcessLockCommand") {
						// ProcessLockCommand is only reached from replay/executor paths that carry their own role test in the engine
						r.Hold(rule, key, x.Pos(), "internal re-dispatch entry (engine performs the role test, R1)")
						return
					}
				}
				r.Violate(rule, key, x.Pos(), "local engine reached on a follower-side protocol path without testing slock.state == LEADER (request neither refused nor forwarded)", x.St.Trace)
			},
		})
		ex.Run(fn, nil)
		if ex.Imprecise != "" {
			r.Fail("C10/R2 %s: %s", name, ex.Imprecise)
		}
	}
}

func c10R3(p *core.Prog, r *core.Report) {
	const rule = "C10/R3"
	r.Rule(rule, "PushLockAof / PushUnLockAof / PushExecutorLockCommand push only after testing status == LEADER", 3)
	leader := fmt.Sprint(mustConst(p, r, "server", "STATE_LEADER"))
	type spec struct{ fn, status, push string }
	for _, sp := range []spec{
		{"server.(*LockManager).PushLockAof", ".lockDb.status", "AofChannel).Push"},
		{"server.(*LockManager).PushUnLockAof", ".lockDb.status", "AofChannel).Push"},
		{"server.(*LockDB).PushExecutorLockCommand", ".status", "LockDBExecutor).Push"},
	} {
		fn := mustFunc(p, r, sp.fn)
		if fn == nil {
			continue
		}
		self := fn.Params[0].Name()
		n := 0
		ex := core.NewExplorer(p, core.Hooks{
			Track: func(x *core.X, a core.Atom) bool { return core.Plain(a.L) == self+sp.status },
			Instr: func(x *core.X) {
				c := core.StaticCallee(x.Ins)
				if c == nil || !strings.HasSuffix(core.FuncName(c), sp.push) || !x.Top() {
					return
				}
				n++
				key := siteKey(p, x.Ins)
				if x.Passed(self + sp.status + " == " + leader) {
					r.Hold(rule, key, x.Pos(), "leader-only")
				} else {
					r.Violate(rule, key, x.Pos(), "push reached without status == LEADER on the path (a non-leader would log / execute on its own)", x.St.Trace)
				}
			},
		})
		ex.Run(fn, nil)
		if n == 0 {
			r.Fail("C10/R3: no push site found in %s", sp.fn)
		}
	}
}

func c10R4(p *core.Prog, r *core.Report) {
	const rule = "C10/R4"
	r.Rule(rule, "doExpried tombstones a hold only when forced, leader, not replicated, or the leader-wait window elapsed", 1)
	fn := mustFunc(p, r, "server.(*LockDB).doExpried")
	if fn == nil {
		return
	}
	leader := fmt.Sprint(mustConst(p, r, "server", "STATE_LEADER"))
	maxWait := fmt.Sprint(mustConst(p, r, "server", "EXPRIED_WAIT_LEADER_MAX_TIME"))
	self, lk, forced := fn.Params[0].Name(), fn.Params[1].Name(), fn.Params[2].Name()
	ex := core.NewExplorer(p, core.Hooks{
		Track: func(x *core.X, a core.Atom) bool {
			s := core.Plain(a.String())
			return strings.Contains(s, self+".status") || strings.Contains(s, lk+".isAof") || strings.Contains(s, lk+".expriedTime") || strings.Contains(s, forced)
		},
		Instr: func(x *core.X) {
			st, ok := x.Ins.(*ssa.Store)
			if !ok || !x.Top() {
				return
			}
			k, ok := storeKey(st.Addr)
			if !ok || k != fk("server.Lock", "expried") || x.Canon(st.Val).S != "true" {
				return
			}
			key := siteKey(p, x.Ins)
			waited := x.Passed("0 < "+lk+".expriedTime") && x.Passed(maxWait+" <= ("+self+".currentTime - "+lk+".expriedTime)")
			switch {
			case x.Passed(forced + " == true"):
				r.Hold(rule, key, x.Pos(), "forced (flush)")
			case x.Passed(self + ".status == " + leader):
				r.Hold(rule, key, x.Pos(), "leader")
			case x.Passed(lk + ".isAof == false"):
				r.Hold(rule, key, x.Pos(), "hold is not replicated")
			case waited:
				r.Hold(rule, key, x.Pos(), "leader-wait window elapsed")
			default:
				r.Violate(rule, key, x.Pos(), "a non-leader ends a replicated hold on its own clock without waiting "+maxWait+"s for the leader's record", x.St.Trace)
			}
		},
	})
	ex.Run(fn, nil)
	if ex.Imprecise != "" {
		r.Fail("C10/R4: %s", ex.Imprecise)
	}
}

func c10R5(p *core.Prog, r *core.Report) {
	const rule = "C10/R5"
	r.Rule(rule, "leader and follower text protocols register the same command names", 20)
	lead := registryKeys(p, mustFunc(p, r, "server.(*TextServerProtocol).FindHandler"))
	foll := registryKeys(p, mustFunc(p, r, "server.(*TransparencyTextServerProtocol).FindHandler"))
	all := map[string]bool{}
	for k := range lead {
		all[k] = true
	}
	for k := range foll {
		all[k] = true
	}
	names := make([]string, 0, len(all))
	for k := range all {
		names = append(names, k)
	}
	sort.Strings(names)
	for _, n := range names {
		key := "text registries: " + n
		switch {
		case !lead[n]:
			r.Violate(rule, key, "-", "command "+n+" is registered on followers only", nil)
		case !foll[n]:
			r.Violate(rule, key, "-", "command "+n+" is registered on the leader only: a follower answers it differently", nil)
		default:
			r.Hold(rule, key, "-", "")
		}
	}
}

// R6: provenance of the replay mark.
func c10R6(p *core.Prog, r *core.Report) {
	const rule = "C10/R6"
	r.Rule(rule, "the replay mark FROM_AOF (0x04) that exempts a request from the engine's role test is never taken from a client frame: every client-facing path to db.Lock/UnLock masks the bit or tests it clear", 2)
	type site struct{ pos, key string }
	bad := map[string][]site{"Lock": nil, "UnLock": nil}
	good := map[string]int{}
	for _, fn := range p.FuncsIn("server") {
		name := core.FuncName(fn)
		if fn.Blocks == nil {
			continue
		}
		client := false
		for _, pre := range []string{"server.(*BinaryServerProtocol).", "server.(*TextServerProtocol).", "server.(*TransparencyBinaryServerProtocol).", "server.(*TransparencyTextServerProtocol)."} {
			if strings.HasPrefix(name, pre) {
				client = true
			}
		}
		if !client || strings.HasSuffix(name, ").Close") || strings.HasSuffix(name, ").ProcessLockCommand") {
			continue // ProcessLockCommand is the replay/executor entry (flag set by the server itself)
		}
		has := false
		for _, b := range fn.Blocks {
			for _, ins := range b.Instrs {
				if calleeIs(ins, "LockDB", "Lock") || calleeIs(ins, "LockDB", "UnLock") {
					has = true
				}
			}
		}
		if !has {
			continue
		}
		seen := map[string]bool{}
		ex := core.NewExplorer(p, core.Hooks{
			Track: func(x *core.X, a core.Atom) bool { return strings.Contains(a.L, ".Flag & 4)") },
			Instr: func(x *core.X) {
				if !x.Top() {
					return
				}
				which := ""
				if calleeIs(x.Ins, "LockDB", "Lock") {
					which = "Lock"
				} else if calleeIs(x.Ins, "LockDB", "UnLock") {
					which = "UnLock"
				} else {
					return
				}
				cmd := core.Plain(argCanon(x, x.Ins, 2))
				key := siteKey(p, x.Ins)
				if x.Passed("(" + cmd + ".Flag & 4) == 0") {
					good[which]++
				} else if !seen[key] {
					seen[key] = true
					bad[which] = append(bad[which], site{x.Pos(), key})
				}
			},
		})
		ex.Run(fn, nil)
		if ex.Imprecise != "" {
			r.Fail("C10/R6 %s: %s", name, ex.Imprecise)
		}
	}
	for _, which := range []string{"Lock", "UnLock"} {
		fn := p.Func("server.(*LockDB)." + which)
		pos := "-"
		if fn != nil {
			pos = p.Pos(fn.Pos())
		}
		key := "server.(*LockDB)." + which + ": replay exemption provenance"
		if len(bad[which]) == 0 {
			r.Hold(rule, key, pos, fmt.Sprintf("%d client-facing call sites, all with the mark tested clear", good[which]))
			continue
		}
		var ss []string
		for _, s := range bad[which] {
			ss = append(ss, s.pos)
		}
		sort.Strings(ss)
		r.Violate(rule, key, pos, fmt.Sprintf("a client frame's flag byte reaches the engine with bit 0x04 (FROM_AOF) intact at %d client-facing call sites (%s); the engine's role test exempts such a request, so a node that lost leadership between the protocol's leader test and the engine's decides on its own", len(bad[which]), strings.Join(ss, ", ")), nil)
	}
}

// c10R7: the one answer a non-leader gives on its own is the concurrent-check
// shortcut (CheckProbableLock, called by the forwarding protocols before they
// relay a LOCK): "would certainly not be admitted right now". That is only the
// leader's answer too when the request would not wait - flag CONCURRENT_CHECK
// set and Timeout == 0. For a request with a timeout the leader queues it, so
// a local TIMEOUT makes the outcome depend on which node was asked.
func c10R7(p *core.Prog, r *core.Report) {
	const rule = "C10/R7"
	r.Rule(rule, "CheckProbableLock answers locally only requests with the concurrent-check flag and Timeout == 0", 2)
	fn := mustFunc(p, r, "server.(*LockDB).CheckProbableLock")
	if fn == nil {
		return
	}
	cmd := fn.Params[2].Name()
	n := 0
	ex := core.NewExplorer(p, core.Hooks{
		Track: func(x *core.X, a core.Atom) bool {
			s := core.Plain(a.String())
			return strings.Contains(s, cmd+".Flag & 8)") || strings.Contains(s, cmd+".Timeout")
		},
		Instr: func(x *core.X) {
			if !x.Top() {
				return
			}
			if rq, _, _, ok := replyCall(x, x.Ins); ok && rq == cmd {
				n++
				key := siteKey(p, x.Ins)
				flag := x.Passed("(" + cmd + ".Flag & 8) != 0")
				zero := x.Passed(cmd+".Timeout == 0") || x.Passed(cmd+".Timeout <= 0")
				if flag && zero {
					r.Hold(rule, key, x.Pos(), "concurrent-check request that would not wait")
				} else {
					r.Violate(rule, key, x.Pos(), fmt.Sprintf("a non-leader answers this request itself (concurrent-check flag tested: %v, Timeout == 0 tested: %v): the leader would queue a request with a timeout and grant it later, so the result depends on which node was asked", flag, zero), x.St.Trace)
				}
			}
		},
	})
	ex.Run(fn, nil)
	if ex.Imprecise != "" {
		r.Fail("C10/R7: %s", ex.Imprecise)
	}
	if n == 0 {
		r.Fail("C10/R7: no local reply found in CheckProbableLock")
	}
}

// c10R8: a hold created from a stream / log record (FROM_AOF) is marked isAof
// whatever the node's role. doExpried's follower arm re-arms exactly the holds
// with isAof; a replicated hold without the mark is ended by the follower on
// its own clock, before the leader's record arrives.
func c10R8(p *core.Prog, r *core.Report) {
	const rule = "C10/R8"
	r.Rule(rule, "AddLock marks every hold created from a replayed record (FROM_AOF) as isAof, on every path, independent of the node's role", 1)
	fn := mustFunc(p, r, "server.(*LockManager).AddLock")
	if fn == nil {
		return
	}
	lk := fn.Params[1].Name()
	n := 0
	ex := core.NewExplorer(p, core.Hooks{
		Track: func(x *core.X, a core.Atom) bool { return strings.Contains(core.Plain(a.String()), ".Flag & 4)") },
		Instr: func(x *core.X) {
			if !x.Top() {
				return
			}
			if st, ok := x.Ins.(*ssa.Store); ok {
				if k, ok := storeKey(st.Addr); ok && k == fk("server.Lock", "isAof") && x.Canon(st.Val).S == "true" {
					if strings.HasPrefix(core.Plain(x.Canon(st.Addr).S), "&"+lk+".") {
						x.Set("marked", "1")
					}
				}
			}
		},
		Exit: func(x *core.X, rets []core.Expr) {
			replay := false
			for h := range x.St.Hist {
				if strings.HasSuffix(h, ".Flag & 4) != 0") {
					replay = true
				}
			}
			if !replay {
				return
			}
			n++
			key := "server.(*LockManager).AddLock: hold from a replayed record"
			if x.Get("marked") == "1" {
				r.Hold(rule, key, x.Pos(), "marked isAof")
			} else {
				r.Violate(rule, key, x.Pos(), "a hold created from a replayed record leaves AddLock without isAof on this path: a follower's expiry sweep does not re-arm it and ends it on its own clock", x.St.Trace)
			}
		},
	})
	ex.Run(fn, nil)
	if ex.Imprecise != "" {
		r.Fail("C10/R8: %s", ex.Imprecise)
	}
	if n == 0 {
		r.Fail("C10/R8: AddLock has no path that tests the FROM_AOF flag")
	}
}

// c10R9: a connection's protocol object hands control back to Server.handle
// with AGAIN when the node's role changed under it; the request it had already
// read is stashed (rbuf / the parsed text command). handle must re-dispatch
// that request through the protocol object that fits the new role before it
// reads the next one, otherwise the request is neither refused nor forwarded.
func c10R9(p *core.Prog, r *core.Report) {
	const rule = "C10/R9"
	r.Rule(rule, "Server.handle reads the next request (Process) only after testing the previous result for AGAIN and, when it was AGAIN, after re-dispatching the stashed request (ProcessParse of the stashed bytes / RunCommand)", 8)
	fn := mustFunc(p, r, "server.(*Server).handle")
	if fn == nil {
		return
	}
	// the protocol types whose Process can hand back AGAIN (filled from the code)
	var stashers []string
	for _, f := range p.FuncsIn("server") {
		if f.Name() != "Process" || f.Signature.Recv() == nil || f.Blocks == nil {
			continue
		}
		for _, b := range f.Blocks {
			for _, ins := range b.Instrs {
				if u, ok := ins.(*ssa.UnOp); ok {
					if g, ok := u.X.(*ssa.Global); ok && g.Name() == "AGAIN" {
						stashers = append(stashers, recvName(f))
					}
				}
			}
		}
	}
	if len(stashers) == 0 {
		r.Fail("C10/R9: no protocol type's Process returns AGAIN")
		return
	}
	n := 0
	ex := core.NewExplorer(p, core.Hooks{
		Track: func(x *core.X, a core.Atom) bool { return false },
		Branch: func(x *core.X, a core.Atom) {
			if x.Top() && a.Op == "==" && a.R == "false" {
				for _, t := range stashers {
					if strings.HasSuffix(a.L, ".(*"+t+")#1") {
						x.Set("excl:"+t, "1")
					}
				}
			}
			if !x.Top() || !(strings.HasSuffix(a.L, "AGAIN") || strings.HasSuffix(a.R, "AGAIN")) {
				return
			}
			switch a.Op {
			case "==":
				x.Set("pending", "yes")
			case "!=":
				x.Set("pending", "no")
			}
		},
		Instr: func(x *core.X) {
			if !x.Top() {
				return
			}
			ci, ok := x.Ins.(ssa.CallInstruction)
			if !ok {
				return
			}
			if _, isGo := x.Ins.(*ssa.Go); isGo {
				return
			}
			if _, isDefer := x.Ins.(*ssa.Defer); isDefer {
				return
			}
			name := ""
			if ci.Common().IsInvoke() {
				name = ci.Common().Method.Name()
			} else if c := ci.Common().StaticCallee(); c != nil && c.Signature.Recv() != nil {
				name = c.Name()
			}
			switch name {
			case "ProcessParse":
				if a := core.Plain(argCanon(x, x.Ins, 1)); strings.Contains(a, ".rbuf") && x.Get("pending") == "yes" {
					x.Set("pending", "replayed")
				}
			case "RunCommand":
				if x.Get("pending") == "yes" {
					x.Set("pending", "replayed")
				}
			case "Process":
				n++
				key := siteKey(p, x.Ins)
				// an arm for protocol objects that never stash (every stashing type excluded on the path)
				never := true
				for _, t := range stashers {
					if x.Get("excl:"+t) != "1" {
						never = false
					}
				}
				switch {
				case never:
					r.Hold(rule, key, x.Pos(), "protocol object of a type that never hands back a stashed request")
				case x.Get("pending") == "no":
					r.Hold(rule, key, x.Pos(), "previous result tested: nothing stashed")
				case x.Get("pending") == "replayed":
					r.Hold(rule, key, x.Pos(), "stashed request re-dispatched first")
				case x.Get("pending") == "yes":
					r.Violate(rule, key, x.Pos(), "the previous protocol object returned AGAIN (it had read a request and stashed it) and the next request is read without re-dispatching the stashed one: that request is neither refused nor forwarded, its client gets no reply", x.St.Trace)
				default:
					r.Violate(rule, key, x.Pos(), "the next request is read without testing whether the previous protocol object handed back a stashed request (AGAIN): after a role change the request already read is dropped - neither refused nor forwarded", x.St.Trace)
				}
				for _, t := range stashers {
					x.Set("excl:"+t, "")
				}
				x.Set("pending", "")
			}
		},
	})
	ex.NoHist = true
	ex.Run(fn, nil)
	if ex.Imprecise != "" {
		r.Fail("C10/R9: %s", ex.Imprecise)
	}
	if n == 0 {
		r.Fail("C10/R9: no Process call found in Server.handle")
	}
}

// c10R10: Lock and UnLock test the database's role before they decide
// anything (R1), but a request that was queued while the node was leader is
// granted later by the wake-up pass - after an unlock, a timeout or an expiry
// on the node's own clock. A demotion does not flush the wait queues, so the
// wake-up pass has to test the role itself before it grants.
func c10R10(p *core.Prog, r *core.Report) {
	const rule = "C10/R10"
	r.Rule(rule, "the wake-up pass grants a queued request (AddLock in wakeUpWaitLock) only on a path that tested the database's role", 1)
	fn := mustFunc(p, r, "server.(*LockDB).wakeUpWaitLock")
	if fn == nil {
		return
	}
	self := fn.Params[0].Name()
	n := 0
	bad := false
	ex := core.NewExplorer(p, core.Hooks{
		Track: func(x *core.X, a core.Atom) bool { return strings.Contains(core.Plain(a.String()), ".status") },
		Instr: func(x *core.X) {
			if !calleeIs(x.Ins, "LockManager", "AddLock") {
				return
			}
			n++
			key := "server.(*LockDB).wakeUpWaitLock: grant of a queued request"
			tested := false
			for h := range x.St.Hist {
				if strings.HasPrefix(core.Plain(h), self+".status ") || strings.Contains(core.Plain(h), ".slock.state ") {
					tested = true
				}
			}
			if tested {
				if !bad {
					r.Hold(rule, key, x.Pos(), "role tested before the grant")
				}
			} else if !bad {
				bad = true
				r.Violate(rule, key, x.Pos(), "the wake-up pass grants a queued request without testing the database's role: a request queued while the node was leader is granted by the demoted node on its own (after a hold expires on its clock, a timeout or an unlock record), answered SUCCED, and the real leader knows nothing of it", x.St.Trace)
			}
		},
	})
	ex.Run(fn, nil)
	if ex.Imprecise != "" {
		r.Fail("C10/R10: %s", ex.Imprecise)
	}
	if n == 0 {
		r.Fail("C10/R10: wakeUpWaitLock grants nothing (AddLock not found)")
	}
}
