package rules

import (
	"fmt"
	"go/token"
	"sort"
	"strings"

	"golang.org/x/tools/go/ssa"

	"slockverif/internal/core"
)

func init() { Registry["C12"] = checkC12 }

func checkC12(p *core.Prog, r *core.Report) {
	r.Explanation = "Decides structural necessary conditions of election safety on the acceptor side: (R1) every store to the acceptor's accepted number (ArbiterVoter.proposalId) in the proposal handlers happens under the voter mutex on a path that tested new > accepted, new > committed and 'no commit outstanding' (proposalHost empty); every store to the committed number (commitId) in the commit handlers happens under the mutex on a path that tested 'this is the accepted proposal' and new > committed; all other stores to the two numbers are listed lifecycle sites (constructor, load from saved metadata, configuration, leaving the set, the candidate's own bookkeeping after a majority); (R3) the candidate's vote / proposal / commit rounds succeed only with at least len(members)/2+1 answers; (R4) in DoVote a reply becomes the selected candidate only after the eligibility filter (data member, non-zero weight) for that reply, and replaces the selection only on newer log / greater weight / greater host; (R5) the proposal handlers refuse before accepting when the member's own log is newer (CompareAofId(own, proposed) > 0 for a voting data member). (R6) the acceptor's outstanding-commit marker (proposalHost) is cleared only at a closed list of points. (R7) the comparator of log positions weighs the id bytes the way the log writes them (file index major, record number minor). (R8, shared with C16/R7) every list of log files built from FindAofFiles - including the one LoadMaxAofId scans from its end for the position a member restarts with - puts the snapshot before the append files. (R9) every store that raises the committed number from a commit is followed by a save of the member state (none is: known findings - a restarted acceptor forgets the commit it answered). NOT decided: any interleaving of two candidates, message loss, that at most one winner emerges, persistence of the committed number across a restart (the candidate-side stores and the save points are listed, not proven), kill -9 of a real cluster."
	r.Assumptions = []string{"Go type checker, go/ssa and VTA call graph are correct for /repo", "the voter mutex serialises the acceptor handlers"}
	c12R1(p, r)
	c12R3(p, r)
	c12R4(p, r)
	c12R5(p, r)
	c12R6(p, r)
	c12R7(p, r)
	c12R9(p, r)
	logFileOrderRule(p, r, "C12/R8") // the position a member restarts with (LoadMaxAofId) reads the same list, newest last
}

// lifecycle stores of the two numbers outside the acceptor handlers
var c12Lifecycle = map[string]string{
	"server.NewArbiterVoter":                                    "constructor",
	"server.(*ArbiterStore).Load":                               "seed from saved metadata at start",
	"server.(*ArbiterManager).Load":                             "seed from saved metadata at start",
	"server.(*ArbiterManager).Config":                           "first configuration of a replica set",
	"server.(*ArbiterManager).QuitMember":                       "member leaves the replica set",
	"server.(*ArbiterVoter).DoProposal":                         "candidate's own accepted number, written after a majority accepted it (proposer side, not decided)",
	"server.(*ArbiterVoter).DoCommit":                           "candidate's own committed number, written after a majority committed (proposer side, not decided)",
	"server.(*ArbiterManager).commandHandleAnnouncementCommand": "adopting the winner's announcement (clears the outstanding commit)",
	"server.(*ArbiterManager).voteSucced":                       "winner bookkeeping after the election",
	"server.(*ArbiterVoter).clearVote":                          "vote state reset",
}

func c12R1(p *core.Prog, r *core.Report) {
	const rule = "C12/R1"
	r.Rule(rule, "acceptor stores of proposalId/commitId are guarded monotone stores under the voter mutex; every other store is a listed lifecycle site", 6)
	propKey, commKey := fk("server.ArbiterVoter", "proposalId"), fk("server.ArbiterVoter", "commitId")
	acceptors := map[string]string{
		"server.(*ArbiterManager).commandHandleProposalCommand": "proposal",
		"server.(*ArbiterMember).DoSelfProposal":                "proposal",
		"server.(*ArbiterManager).commandHandleCommitCommand":   "commit",
		"server.(*ArbiterMember).DoSelfCommit":                  "commit",
	}
	for _, fn := range p.FuncsIn("server") {
		if fn.Blocks == nil {
			continue
		}
		has := false
		for _, b := range fn.Blocks {
			for _, ins := range b.Instrs {
				if st, ok := ins.(*ssa.Store); ok {
					if k, ok := storeKey(st.Addr); ok && (k == propKey || k == commKey) {
						has = true
					}
				}
			}
		}
		if !has {
			continue
		}
		name := core.FuncName(fn)
		kind, isAcceptor := acceptors[name]
		if !isAcceptor {
			for _, b := range fn.Blocks {
				for _, ins := range b.Instrs {
					if st, ok := ins.(*ssa.Store); ok {
						if k, ok := storeKey(st.Addr); ok && (k == propKey || k == commKey) {
							key := siteKey(p, ins)
							if why, ok := c12Lifecycle[name]; ok {
								r.Hold(rule, key, p.InstrPos(ins), "lifecycle: "+why)
							} else {
								r.Violate(rule, key, p.InstrPos(ins), "store to "+k.String()+" outside the acceptor handlers and the listed lifecycle sites: an accepted/committed number could regress", nil)
							}
						}
					}
				}
			}
			continue
		}
		ex := core.NewExplorer(p, core.Hooks{
			Track: func(x *core.X, a core.Atom) bool {
				s := core.Plain(a.String())
				return strings.Contains(s, ".proposalId") || strings.Contains(s, ".commitId") || strings.Contains(s, ".proposalHost") || strings.Contains(s, ".ProposalId")
			},
			Instr: func(x *core.X) {
				trackLocks(x)
				st, ok := x.Ins.(*ssa.Store)
				if !ok || !x.Top() {
					return
				}
				k, ok := storeKey(st.Addr)
				if !ok || (k != propKey && k != commKey) {
					return
				}
				key := siteKey(p, x.Ins)
				nv := core.Plain(x.Canon(st.Val).S)
				voter := core.Plain(strings.TrimSuffix(strings.TrimPrefix(x.Canon(st.Addr).S, "&"), "."+k.Field))
				var miss []string
				if !held(x, "glock") {
					miss = append(miss, "voter mutex held")
				}
				if kind == "proposal" && k == propKey {
					if !x.Passed(voter + ".proposalId < " + nv) {
						miss = append(miss, "new > accepted ("+voter+".proposalId < "+nv+")")
					}
					if !x.Passed(voter + ".commitId < " + nv) {
						miss = append(miss, "new > committed")
					}
					if !x.Passed(voter + ".proposalHost == \"\"") {
						miss = append(miss, "no commit outstanding (proposalHost == \"\")")
					}
				} else if kind == "commit" && k == commKey {
					if !x.Passed(voter+".proposalId == "+nv) && !x.Passed(nv+" == "+voter+".proposalId") {
						miss = append(miss, "commit is for the accepted proposal (proposalId == new)")
					}
					if !x.Passed(voter + ".commitId < " + nv) {
						miss = append(miss, "new > committed")
					}
				} else {
					miss = append(miss, "a "+kind+" handler writes "+k.Field)
				}
				if len(miss) > 0 {
					r.Violate(rule, key, x.Pos(), "store to "+k.Field+" without: "+strings.Join(miss, "; ")+" - two overlapping candidacies could both be accepted/committed by this member", x.St.Trace)
				} else {
					r.Hold(rule, key, x.Pos(), "guarded monotone store under the voter mutex")
				}
			},
		})
		ex.Run(fn, nil)
		if ex.Imprecise != "" {
			r.Fail("C12/R1 %s: %s", name, ex.Imprecise)
		}
	}
}

func c12R3(p *core.Prog, r *core.Report) {
	const rule = "C12/R3"
	r.Rule(rule, "DoVote / DoProposal / DoCommit succeed only with len(responses) >= len(members)/2 + 1", 3)
	for _, name := range []string{"server.(*ArbiterVoter).DoVote", "server.(*ArbiterVoter).DoProposal", "server.(*ArbiterVoter).DoCommit"} {
		fn := mustFunc(p, r, name)
		if fn == nil {
			continue
		}
		ex := core.NewExplorer(p, core.Hooks{
			Track: func(x *core.X, a core.Atom) bool {
				return strings.Contains(a.String(), "len(") && strings.Contains(a.String(), ".members)")
			},
			Exit: func(x *core.X, rets []core.Expr) {
				if len(rets) != 1 || rets[0].S != "nil" {
					return
				}
				key := name + ": success"
				ok := false
				for h := range x.St.Hist {
					if strings.HasPrefix(h, "((len(") && strings.Contains(h, ".members) / 2) + 1) <= len(") {
						ok = true
					}
				}
				if ok {
					r.Hold(rule, key, x.Pos(), "majority of members answered")
				} else {
					var hs []string
					for h := range x.St.Hist {
						hs = append(hs, h)
					}
					sort.Strings(hs)
					r.Violate(rule, key, x.Pos(), "round succeeds without len(responses) >= len(members)/2+1 on the path ("+stable(strings.Join(hs, "; "))+"): two disjoint minorities could both win", x.St.Trace)
				}
			},
		})
		ex.Run(fn, nil)
	}
}

func c12R4(p *core.Prog, r *core.Report) {
	const rule = "C12/R4"
	r.Rule(rule, "DoVote: a reply is selected only after the eligibility filter for that reply; replacement only on newer log / greater weight / greater host", 3)
	fn := mustFunc(p, r, "server.(*ArbiterVoter).DoVote")
	if fn == nil {
		return
	}
	// the filter's branch instructions and their 'eligible' successor
	var eligible []*ssa.BasicBlock
	for _, b := range fn.Blocks {
		if len(b.Instrs) == 0 {
			continue
		}
		iff, ok := b.Instrs[len(b.Instrs)-1].(*ssa.If)
		if !ok {
			continue
		}
		x := &core.X{Fr: &core.Frame{Fn: fn}, St: core.NewState()}
		c := core.Plain(x.Canon(iff.Cond).S)
		switch {
		case strings.HasSuffix(c, ".Arbiter != 0)"):
			eligible = append(eligible, b.Succs[1])
		case strings.HasSuffix(c, ".Weight == 0)"):
			eligible = append(eligible, b.Succs[1])
		}
	}
	if len(eligible) < 2 {
		r.Violate(rule, "server.(*ArbiterVoter).DoVote: eligibility filter", p.Pos(fn.Pos()), "the eligibility tests (Arbiter != 0, Weight == 0) were not found in DoVote", nil)
		return
	}
	// selectVoteResponse is a phi: every edge carrying the current reply must come from a block dominated by both eligible successors
	n := 0
	for _, b := range fn.Blocks {
		for _, ins := range b.Instrs {
			phi, ok := ins.(*ssa.Phi)
			if !ok || phi.Comment != "selectVoteResponse" {
				continue
			}
			for i, e := range phi.Edges {
				if _, isPhi := e.(*ssa.Phi); isPhi {
					continue
				}
				if c, isC := e.(*ssa.Const); isC && c.Value == nil {
					continue
				}
				n++
				pred := b.Preds[i]
				key := fmt.Sprintf("server.(*ArbiterVoter).DoVote: selection from block %s", pred.Comment)
				ok := true
				for _, eb := range eligible {
					if !eb.Dominates(pred) {
						ok = false
					}
				}
				if ok {
					r.Hold(rule, key+fmt.Sprintf("#%d", n), p.InstrPos(phi), "assignment dominated by the eligibility filter")
				} else {
					r.Violate(rule, key+fmt.Sprintf("#%d", n), p.InstrPos(phi), "a vote reply can become the selected candidate without passing the eligibility filter (arbiter / weight 0 members could be proposed as leader)", nil)
				}
			}
		}
	}
	if n == 0 {
		r.Fail("C12/R4: no assignment of selectVoteResponse found (variable renamed?)")
	}
	// replacement conditions
	ex := core.NewExplorer(p, core.Hooks{
		Track: func(x *core.X, a core.Atom) bool {
			s := core.Plain(a.String())
			return strings.Contains(s, "CompareAofId(") || strings.Contains(s, ".Weight") || strings.Contains(s, ".Host") || strings.Contains(s, ".AofId")
		},
	})
	_ = ex
}

func c12R5(p *core.Prog, r *core.Report) {
	const rule = "C12/R5"
	r.Rule(rule, "proposal handlers accept only after testing that the member's own log is not newer than the proposed one", 2)
	propKey := fk("server.ArbiterVoter", "proposalId")
	for _, name := range []string{"server.(*ArbiterManager).commandHandleProposalCommand", "server.(*ArbiterMember).DoSelfProposal"} {
		fn := mustFunc(p, r, name)
		if fn == nil {
			continue
		}
		ex := core.NewExplorer(p, core.Hooks{
			Track: func(x *core.X, a core.Atom) bool {
				s := core.Plain(a.String())
				return strings.HasPrefix(s, "CompareAofId(") && strings.Contains(s, "GetCurrentAofID(") || strings.Contains(s, ".abstianed") || strings.Contains(s, "ownMember.arbiter")
			},
			Instr: func(x *core.X) {
				st, ok := x.Ins.(*ssa.Store)
				if !ok || !x.Top() {
					return
				}
				if k, ok := storeKey(st.Addr); !ok || k != propKey {
					return
				}
				key := siteKey(p, x.Ins) + " (own log)"
				ok2 := false
				for h := range x.St.Hist {
					if strings.HasPrefix(h, "CompareAofId(") && strings.Contains(h, "GetCurrentAofID(") && strings.HasSuffix(h, " <= 0") {
						ok2 = true
					}
					if strings.HasSuffix(h, ".abstianed == true") || strings.Contains(h, "ownMember.arbiter != 0") {
						ok2 = true // members without a log of their own do not compare
					}
				}
				if ok2 {
					r.Hold(rule, key, x.Pos(), "own log compared (or member has no vote on log order)")
				} else {
					r.Violate(rule, key, x.Pos(), "proposal accepted without comparing the member's own log position with the proposed one: a member with a newer log would help elect a stale leader (acknowledged locks lost)", x.St.Trace)
				}
			},
		})
		ex.Run(fn, nil)
	}
}

// c12R6: ArbiterVoter.proposalHost is the acceptor's "commit outstanding"
// marker: set when a commit is accepted, it makes the proposal handlers refuse
// every other candidate until the winner's announcement arrives (or the winner
// is seen to fail). Clearing it anywhere else lets a member that already
// accepted one candidate's commit accept another's - two majorities. Who may
// clear it is a closed list.
var c12MarkerClear = map[string]string{
	"server.NewArbiterVoter":                                    "constructor",
	"server.(*ArbiterVoter).DoCommit":                           "the candidate's own commit round failed (no majority)",
	"server.(*ArbiterVoter).DoAnnouncement":                     "announcing to the elected leader failed: restart the election",
	"server.(*ArbiterManager).QuitMember":                       "member leaves the replica set",
	"server.(*ArbiterManager).voteSucced":                       "the elected member is not reachable after the election",
	"server.(*ArbiterManager).memberStatusUpdated":              "the elected member / the committing candidate went offline",
	"server.(*ArbiterManager).commandHandleAnnouncementCommand": "the winner's announcement arrived: election finished",
}

func c12R6(p *core.Prog, r *core.Report) {
	const rule = "C12/R6"
	r.Rule(rule, "the acceptor's outstanding-commit marker (ArbiterVoter.proposalHost) is cleared only at the listed points (failed own round, announcement, winner offline, leaving the set)", 6)
	mk := fk("server.ArbiterVoter", "proposalHost")
	for _, fn := range p.FuncsIn("server") {
		if fn.Blocks == nil {
			continue
		}
		name := core.FuncName(fn)
		for fn2 := fn; fn2.Parent() != nil; fn2 = fn2.Parent() {
			name = core.FuncName(fn2.Parent())
		}
		n := 0
		for _, b := range fn.Blocks {
			for _, ins := range b.Instrs {
				st, ok := ins.(*ssa.Store)
				if !ok {
					continue
				}
				k, ok := storeKey(st.Addr)
				if !ok || k != mk {
					continue
				}
				c, isConst := st.Val.(*ssa.Const)
				if !isConst || c.Value == nil || c.Value.ExactString() != `""` {
					continue
				}
				n++
				key := fmt.Sprintf("%s: clear marker#%d", name, n)
				if why, ok := c12MarkerClear[name]; ok {
					r.Hold(rule, key, p.InstrPos(ins), "listed: "+why)
				} else if p.IsNewFunc(fn) {
					r.Undecide(rule, key, p.InstrPos(ins), "the marker is cleared in a function the rule table does not know")
				} else {
					r.Violate(rule, key, p.InstrPos(ins), "the outstanding-commit marker is cleared here: a member that already accepted another candidate's commit forgets it and can accept (or gather) a second commit majority - two leaders", nil)
				}
			}
		}
	}
}

// c12R7: writer/reader table agreement for the log position. The log writes a
// position as (record number in the file, file index) into bytes 0..7 of the
// 16-byte id (AofLock.GetAofId); rotation restarts the record number at 0 and
// increments the file index, so the index is the major key of "newer". The
// election's comparator must weigh the bytes the same way.
func c12R7(p *core.Prog, r *core.Report) {
	const rule = "C12/R7"
	r.Rule(rule, "the election's log-position comparator weighs the id bytes the way the log writes them: file index major, record number minor, bytes of each in the written order", 2)
	get := mustFunc(p, r, "server.(*AofLock).GetAofId")
	cur := mustFunc(p, r, "server.(*Aof).GetCurrentAofID")
	cmp := mustFunc(p, r, "server.(*ArbiterManager).CompareAofId")
	if get == nil || cur == nil || cmp == nil {
		return
	}
	// (1) writer table: id byte -> (field of AofLock, shift)
	type fb struct {
		field string
		shift int64
	}
	writer := map[int64]fb{}
	loadField := func(v ssa.Value) (string, bool) {
		u, ok := v.(*ssa.UnOp)
		if !ok {
			return "", false
		}
		fa, ok := u.X.(*ssa.FieldAddr)
		if !ok {
			return "", false
		}
		return core.FieldKeyOf(fa.X.Type(), fa.Field).Field, true
	}
	for _, b := range get.Blocks {
		for _, ins := range b.Instrs {
			st, ok := ins.(*ssa.Store)
			if !ok {
				continue
			}
			ia, ok := st.Addr.(*ssa.IndexAddr)
			if !ok {
				continue
			}
			ic, ok := ia.Index.(*ssa.Const)
			if !ok {
				continue
			}
			cv, ok := st.Val.(*ssa.Convert)
			if !ok {
				continue
			}
			if f, ok := loadField(cv.X); ok {
				writer[ic.Int64()] = fb{f, 0}
			} else if bo, ok := cv.X.(*ssa.BinOp); ok && bo.Op == token.SHR {
				if f, ok := loadField(bo.X); ok {
					if k, ok := bo.Y.(*ssa.Const); ok {
						writer[ic.Int64()] = fb{f, k.Int64()}
					}
				}
			}
		}
	}
	// (2) which AofLock field is the file index: GetCurrentAofID copies the log's two
	// cursors into the id; the cursor that a method of Aof restarts at constant 0 while it
	// stores a computed value into the other one is the minor key.
	cursorOf := map[string]string{} // Aof field -> AofLock field
	isAofLockField := func(k core.FieldKey) bool { return k.Type == "server.AofLock" }
	isAofField := func(k core.FieldKey) bool { return k.Type == "server.Aof" }
	loadKey := func(v ssa.Value) (core.FieldKey, bool) {
		u, ok := v.(*ssa.UnOp)
		if !ok {
			return core.FieldKey{}, false
		}
		fa, ok := u.X.(*ssa.FieldAddr)
		if !ok {
			return core.FieldKey{}, false
		}
		return core.FieldKeyOf(fa.X.Type(), fa.Field), true
	}
	// which parameter of an AofLock method is stored into which AofLock field
	paramField := map[*ssa.Function]map[int]string{}
	for _, fn := range p.FuncsIn("server") {
		if fn.Blocks == nil || recvName(fn) != "AofLock" {
			continue
		}
		for _, b := range fn.Blocks {
			for _, ins := range b.Instrs {
				st, ok := ins.(*ssa.Store)
				if !ok {
					continue
				}
				fa, ok := st.Addr.(*ssa.FieldAddr)
				if !ok {
					continue
				}
				k := core.FieldKeyOf(fa.X.Type(), fa.Field)
				if pr, ok := st.Val.(*ssa.Parameter); ok && isAofLockField(k) {
					for i, fp := range fn.Params {
						if fp == pr {
							if paramField[fn] == nil {
								paramField[fn] = map[int]string{}
							}
							paramField[fn][i] = k.Field
						}
					}
				}
			}
		}
	}
	_ = cur
	for _, fn := range p.FuncsIn("server") {
		for _, b := range fn.Blocks {
			for _, ins := range b.Instrs {
				switch t := ins.(type) {
				case *ssa.Store:
					fa, ok := t.Addr.(*ssa.FieldAddr)
					if !ok {
						continue
					}
					dst := core.FieldKeyOf(fa.X.Type(), fa.Field)
					src, ok := loadKey(t.Val)
					if !ok {
						continue
					}
					if isAofLockField(dst) && isAofField(src) {
						cursorOf[src.Field] = dst.Field // id built from the log's cursors
					}
					if isAofField(dst) && isAofLockField(src) {
						cursorOf[dst.Field] = src.Field // cursor adopted from a replicated record
					}
				case ssa.CallInstruction:
					callee := t.Common().StaticCallee()
					if callee == nil || paramField[callee] == nil {
						continue
					}
					for i, a := range t.Common().Args {
						if f, ok := paramField[callee][i]; ok {
							if src, ok := loadKey(a); ok && isAofField(src) {
								cursorOf[src.Field] = f
							}
						}
					}
				}
			}
		}
	}
	major, minor, where := "", "", ""
	for _, fn := range p.FuncsIn("server") {
		if fn.Signature.Recv() == nil || recvName(fn) != "Aof" {
			continue
		}
		zeroed, computed := map[string]bool{}, map[string]bool{}
		for _, b := range fn.Blocks {
			for _, ins := range b.Instrs {
				st, ok := ins.(*ssa.Store)
				if !ok {
					continue
				}
				fa, ok := st.Addr.(*ssa.FieldAddr)
				if !ok {
					continue
				}
				f := core.FieldKeyOf(fa.X.Type(), fa.Field).Field
				if _, ok := cursorOf[f]; !ok {
					continue
				}
				if c, ok := st.Val.(*ssa.Const); ok {
					if c.Value != nil && c.Int64() == 0 {
						zeroed[f] = true
					}
				} else if _, isParam := st.Val.(*ssa.Parameter); !isParam {
					if _, isLoad := loadField(st.Val); !isLoad {
						computed[f] = true
					}
				}
			}
		}
		for z := range zeroed {
			for c := range computed {
				if z != c && !zeroed[c] {
					if major != "" && major != cursorOf[c] {
						r.Fail("C12/R7: the log's methods disagree on which cursor restarts (%s vs %s)", where, core.FuncName(fn))
						return
					}
					major, minor, where = cursorOf[c], cursorOf[z], core.FuncName(fn)
				}
			}
		}
	}
	if major == "" || len(writer) < 8 {
		r.Fail("C12/R7: could not establish the log position's layout (writer bytes %d, rotation site %q)", len(writer), where)
		return
	}
	// (3) reader table per operand of the comparator: id byte -> weight in the compared word
	params := cmp.Params
	if cmp.Signature.Recv() != nil {
		params = params[1:]
	}
	spill := map[ssa.Value]string{}
	type scanUnit struct {
		fn     *ssa.Function
		rename map[string]string // parameter of fn -> operand of the comparator
	}
	units := []scanUnit{{cmp, nil}}
	for _, b := range cmp.Blocks {
		for _, ins := range b.Instrs {
			if st, ok := ins.(*ssa.Store); ok {
				if pr, ok := st.Val.(*ssa.Parameter); ok {
					spill[st.Addr] = pr.Name()
				}
			}
		}
	}
	// a helper that turns one operand into its position word (one level)
	for _, b := range cmp.Blocks {
		for _, ins := range b.Instrs {
			ci, ok := ins.(ssa.CallInstruction)
			if !ok {
				continue
			}
			callee := ci.Common().StaticCallee()
			if callee == nil || !core.InModule(callee) || callee.Blocks == nil || callee == cmp {
				continue
			}
			rn := map[string]string{}
			for i, a := range ci.Common().Args {
				name := ""
				if pr, ok := a.(*ssa.Parameter); ok {
					name = pr.Name()
				} else if u, ok := a.(*ssa.UnOp); ok {
					name = spill[u.X]
				}
				if name != "" && i < len(callee.Params) {
					rn[callee.Params[i].Name()] = name
				}
			}
			if len(rn) == 0 {
				continue
			}
			units = append(units, scanUnit{callee, rn})
		}
	}
	rename := map[string]string{}
	type term struct {
		op    string
		pos   int64
		shift int64
	}
	var leaf func(v ssa.Value) (term, bool)
	leaf = func(v ssa.Value) (term, bool) {
		sh := int64(0)
		if bo, ok := v.(*ssa.BinOp); ok && bo.Op == token.SHL {
			k, ok := bo.Y.(*ssa.Const)
			if !ok {
				return term{}, false
			}
			sh = k.Int64()
			v = bo.X
		}
		cv, ok := v.(*ssa.Convert)
		if !ok {
			return term{}, false
		}
		u, ok := cv.X.(*ssa.UnOp)
		if !ok {
			return term{}, false
		}
		ia, ok := u.X.(*ssa.IndexAddr)
		if !ok {
			return term{}, false
		}
		ic, ok := ia.Index.(*ssa.Const)
		if !ok {
			return term{}, false
		}
		name, ok := spill[ia.X]
		if !ok {
			if pr, isP := ia.X.(*ssa.Parameter); isP {
				name, ok = pr.Name(), true
			} else if al, isA := ia.X.(*ssa.Alloc); isA {
				// the parameter's spill slot in a helper
				for _, ref := range *al.Referrers() {
					if st, isS := ref.(*ssa.Store); isS && st.Addr == ssa.Value(al) {
						if pr, isP := st.Val.(*ssa.Parameter); isP {
							name, ok = pr.Name(), true
						}
					}
				}
			}
			if ok && rename != nil {
				name, ok = rename[name]
			}
		}
		if !ok {
			return term{}, false
		}
		return term{name, ic.Int64(), sh}, true
	}
	var collect func(v ssa.Value, out *[]term) bool
	collect = func(v ssa.Value, out *[]term) bool {
		if bo, ok := v.(*ssa.BinOp); ok && bo.Op == token.OR {
			return collect(bo.X, out) && collect(bo.Y, out)
		}
		t, ok := leaf(v)
		if !ok {
			return false
		}
		*out = append(*out, t)
		return true
	}
	found := map[string]bool{}
	type word struct {
		bo     *ssa.BinOp
		rename map[string]string
	}
	var words []word
	for _, unit := range units {
		for _, b := range unit.fn.Blocks {
			for _, ins := range b.Instrs {
				if bo, ok := ins.(*ssa.BinOp); ok && bo.Op == token.OR {
					words = append(words, word{bo, unit.rename})
				}
			}
		}
	}
	{
		for _, w := range words {
			bo := w.bo
			rename = w.rename
			root := true
			for _, ref := range *bo.Referrers() {
				if rb, ok := ref.(*ssa.BinOp); ok && rb.Op == token.OR {
					root = false
				}
			}
			if !root {
				continue
			}
			var ts []term
			if !collect(bo, &ts) || len(ts) == 0 {
				continue
			}
			weight := map[int64]int64{}
			op := ts[0].op
			covers := false
			for _, t := range ts {
				if t.op != op {
					op = ""
				}
				weight[t.pos] = t.shift
				if w, ok := writer[t.pos]; ok && (w.field == major || w.field == minor) {
					covers = true
				}
			}
			if !covers || op == "" {
				continue
			}
			found[op] = true
			key := "server.(*ArbiterManager).CompareAofId: operand " + op
			bad := ""
			var poss []int64
			for pi := range writer {
				poss = append(poss, pi)
			}
			sort.Slice(poss, func(i, j int) bool { return poss[i] < poss[j] })
			for _, pi := range poss {
				for _, pj := range poss {
					wi, wj := writer[pi], writer[pj]
					if bad != "" {
						break
					}
					if wi.field != major && wi.field != minor || wj.field != major && wj.field != minor {
						continue
					}
					si, oki := weight[pi]
					sj, okj := weight[pj]
					if !oki || !okj {
						bad = fmt.Sprintf("id byte %d (%s) does not take part in the comparison", map[bool]int64{true: pj, false: pi}[oki], map[bool]string{true: wj.field, false: wi.field}[oki])
						continue
					}
					if wi.field == major && wj.field == minor && si <= sj {
						bad = fmt.Sprintf("id byte %d holds %s>>%d (file index, restarted never) but weighs <<%d, not above byte %d holding %s>>%d (record number, restarted at 0 by %s) which weighs <<%d", pi, wi.field, wi.shift, si, pj, wj.field, wj.shift, where, sj)
					}
					if wi.field == wj.field && si-sj != wi.shift-wj.shift {
						bad = fmt.Sprintf("bytes %d and %d of %s are written %d bits apart but compared %d bits apart", pi, pj, wi.field, wi.shift-wj.shift, si-sj)
					}
				}
			}
			if bad == "" {
				r.Hold(rule, key, p.Pos(bo.Pos()), "file index ("+major+") above record number ("+minor+"), byte order as written by GetAofId")
			} else {
				r.Violate(rule, key, p.Pos(bo.Pos()), "the comparator does not order log positions the way the log assigns them: "+bad+"; a member that missed a file rotation is then taken for the newest log", nil)
			}
		}
	}
	for _, pr := range params {
		if !found[pr.Name()] {
			r.Fail("C12/R7: no byte-wise position word found for operand %s of CompareAofId (comparator form not recognised: not decided)", pr.Name())
		}
	}
}

// c12R9: the committed number is the acceptor's promise; "at most one member
// wins an election number" has to survive a restart of an acceptor between
// two candidates' commit rounds. meta.pb carries CommitId, so every function
// that raises the in-memory committed number from a commit (a store to
// ArbiterVoter.commitId whose value is not a constant and not read from the
// saved metadata) saves the member state before it returns.
func c12R9(p *core.Prog, r *core.Report) {
	const rule = "C12/R9"
	r.Rule(rule, "every store that raises ArbiterVoter.commitId from a commit is followed, in the same function, by ArbiterStore.Save", 2)
	n := 0
	for _, fn := range p.FuncsIn("server") {
		if fn.Blocks == nil {
			continue
		}
		var saves []ssa.Instruction
		for _, b := range fn.Blocks {
			for _, ins := range b.Instrs {
				if c := core.StaticCallee(ins); c != nil && c.Name() == "Save" && strings.Contains(recvName(c), "ArbiterStore") {
					saves = append(saves, ins)
				}
			}
		}
		ord := 0
		for _, b := range fn.Blocks {
			for _, ins := range b.Instrs {
				st, ok := ins.(*ssa.Store)
				if !ok {
					continue
				}
				k, ok := storeKey(st.Addr)
				if !ok || k != fk("server.ArbiterVoter", "commitId") {
					continue
				}
				if _, isConst := st.Val.(*ssa.Const); isConst {
					continue // reset
				}
				// restored from the saved metadata
				if u, ok := st.Val.(*ssa.UnOp); ok {
					if kk, ok := storeKey(u.X); ok && kk.Type == "protobuf.ReplSet" {
						continue
					}
				}
				ord++
				n++
				key := fmt.Sprintf("%s: commitId raised#%d", core.FuncName(fn), ord)
				saved := false
				for _, s := range saves {
					if instrDominates(ins, s) {
						saved = true
					}
				}
				if saved {
					r.Hold(rule, key, p.InstrPos(ins), "member state saved afterwards")
				} else {
					r.Violate(rule, key, p.InstrPos(ins), "the committed number is raised in memory only: a member that answered a candidate's commit and is restarted from meta.pb comes back with the old CommitId (and no pending-commit marker) and commits an overlapping candidate's proposal of the same number - two members win one election number", nil)
				}
			}
		}
	}
	if n == 0 {
		r.Fail("C12/R9: no store raises ArbiterVoter.commitId")
	}
}
