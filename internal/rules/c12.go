package rules

import (
	"fmt"
	"sort"
	"strings"

	"golang.org/x/tools/go/ssa"

	"slockverif/internal/core"
)

func init() { Registry["C12"] = checkC12 }

func checkC12(p *core.Prog, r *core.Report) {
	r.Explanation = "Decides structural necessary conditions of election safety on the acceptor side: (R1) every store to the acceptor's accepted number (ArbiterVoter.proposalId) in the proposal handlers happens under the voter mutex on a path that tested new > accepted, new > committed and 'no commit outstanding' (proposalHost empty); every store to the committed number (commitId) in the commit handlers happens under the mutex on a path that tested 'this is the accepted proposal' and new > committed; all other stores to the two numbers are listed lifecycle sites (constructor, load from saved metadata, configuration, leaving the set, the candidate's own bookkeeping after a majority); (R3) the candidate's vote / proposal / commit rounds succeed only with at least len(members)/2+1 answers; (R4) in DoVote a reply becomes the selected candidate only after the eligibility filter (data member, non-zero weight) for that reply, and replaces the selection only on newer log / greater weight / greater host; (R5) the proposal handlers refuse before accepting when the member's own log is newer (CompareAofId(own, proposed) > 0 for a voting data member). (R6) the acceptor's outstanding-commit marker (proposalHost) is cleared only at a closed list of points. NOT decided: any interleaving of two candidates, message loss, that at most one winner emerges, persistence of the committed number across a restart (the candidate-side stores and the save points are listed, not proven), kill -9 of a real cluster."
	r.Assumptions = []string{"Go type checker, go/ssa and VTA call graph are correct for /repo", "the voter mutex serialises the acceptor handlers"}
	c12R1(p, r)
	c12R3(p, r)
	c12R4(p, r)
	c12R5(p, r)
	c12R6(p, r)
}

// lifecycle stores of the two numbers outside the acceptor handlers
var c12Lifecycle = map[string]string{
	"server.NewArbiterVoter":                                    "constructor",
	"server.(*ArbiterStore).Load":                               "seed from saved metadata at start",
	"server.(*ArbiterManager).Load":                             "seed from saved metadata at start",
	"server.(*ArbiterManager).Config":                           "first configuration of a replica set",
	"server.(*ArbiterManager).QuitMember":                       "member leaves the replica set",
	"server.(*ArbiterVoter).DoProposal":                         "candidate's own accepted number, written after a majority accepted it (proposer side, not decided)",
	"server.(*ArbiterVoter).DoCommit":                           "candidate's own committed number, written after a majority committed (proposer side, not decided)",
	"server.(*ArbiterManager).commandHandleAnnouncementCommand": "adopting the winner's announcement (clears the outstanding commit)",
	"server.(*ArbiterManager).voteSucced":                       "winner bookkeeping after the election",
	"server.(*ArbiterVoter).clearVote":                          "vote state reset",
}

func c12R1(p *core.Prog, r *core.Report) {
	const rule = "C12/R1"
	r.Rule(rule, "acceptor stores of proposalId/commitId are guarded monotone stores under the voter mutex; every other store is a listed lifecycle site", 6)
	propKey, commKey := fk("server.ArbiterVoter", "proposalId"), fk("server.ArbiterVoter", "commitId")
	acceptors := map[string]string{
		"server.(*ArbiterManager).commandHandleProposalCommand": "proposal",
		"server.(*ArbiterMember).DoSelfProposal":                "proposal",
		"server.(*ArbiterManager).commandHandleCommitCommand":   "commit",
		"server.(*ArbiterMember).DoSelfCommit":                  "commit",
	}
	for _, fn := range p.FuncsIn("server") {
		if fn.Blocks == nil {
			continue
		}
		has := false
		for _, b := range fn.Blocks {
			for _, ins := range b.Instrs {
				if st, ok := ins.(*ssa.Store); ok {
					if k, ok := storeKey(st.Addr); ok && (k == propKey || k == commKey) {
						has = true
					}
				}
			}
		}
		if !has {
			continue
		}
		name := core.FuncName(fn)
		kind, isAcceptor := acceptors[name]
		if !isAcceptor {
			for _, b := range fn.Blocks {
				for _, ins := range b.Instrs {
					if st, ok := ins.(*ssa.Store); ok {
						if k, ok := storeKey(st.Addr); ok && (k == propKey || k == commKey) {
							key := siteKey(p, ins)
							if why, ok := c12Lifecycle[name]; ok {
								r.Hold(rule, key, p.InstrPos(ins), "lifecycle: "+why)
							} else {
								r.Violate(rule, key, p.InstrPos(ins), "store to "+k.String()+" outside the acceptor handlers and the listed lifecycle sites: an accepted/committed number could regress", nil)
							}
						}
					}
				}
			}
			continue
		}
		ex := core.NewExplorer(p, core.Hooks{
			Track: func(x *core.X, a core.Atom) bool {
				s := core.Plain(a.String())
				return strings.Contains(s, ".proposalId") || strings.Contains(s, ".commitId") || strings.Contains(s, ".proposalHost") || strings.Contains(s, ".ProposalId")
			},
			Instr: func(x *core.X) {
				trackLocks(x)
				st, ok := x.Ins.(*ssa.Store)
				if !ok || !x.Top() {
					return
				}
				k, ok := storeKey(st.Addr)
				if !ok || (k != propKey && k != commKey) {
					return
				}
				key := siteKey(p, x.Ins)
				nv := core.Plain(x.Canon(st.Val).S)
				voter := core.Plain(strings.TrimSuffix(strings.TrimPrefix(x.Canon(st.Addr).S, "&"), "."+k.Field))
				var miss []string
				if !held(x, "glock") {
					miss = append(miss, "voter mutex held")
				}
				if kind == "proposal" && k == propKey {
					if !x.Passed(voter + ".proposalId < " + nv) {
						miss = append(miss, "new > accepted ("+voter+".proposalId < "+nv+")")
					}
					if !x.Passed(voter + ".commitId < " + nv) {
						miss = append(miss, "new > committed")
					}
					if !x.Passed(voter + ".proposalHost == \"\"") {
						miss = append(miss, "no commit outstanding (proposalHost == \"\")")
					}
				} else if kind == "commit" && k == commKey {
					if !x.Passed(voter+".proposalId == "+nv) && !x.Passed(nv+" == "+voter+".proposalId") {
						miss = append(miss, "commit is for the accepted proposal (proposalId == new)")
					}
					if !x.Passed(voter + ".commitId < " + nv) {
						miss = append(miss, "new > committed")
					}
				} else {
					miss = append(miss, "a "+kind+" handler writes "+k.Field)
				}
				if len(miss) > 0 {
					r.Violate(rule, key, x.Pos(), "store to "+k.Field+" without: "+strings.Join(miss, "; ")+" - two overlapping candidacies could both be accepted/committed by this member", x.St.Trace)
				} else {
					r.Hold(rule, key, x.Pos(), "guarded monotone store under the voter mutex")
				}
			},
		})
		ex.Run(fn, nil)
		if ex.Imprecise != "" {
			r.Fail("C12/R1 %s: %s", name, ex.Imprecise)
		}
	}
}

func c12R3(p *core.Prog, r *core.Report) {
	const rule = "C12/R3"
	r.Rule(rule, "DoVote / DoProposal / DoCommit succeed only with len(responses) >= len(members)/2 + 1", 3)
	for _, name := range []string{"server.(*ArbiterVoter).DoVote", "server.(*ArbiterVoter).DoProposal", "server.(*ArbiterVoter).DoCommit"} {
		fn := mustFunc(p, r, name)
		if fn == nil {
			continue
		}
		ex := core.NewExplorer(p, core.Hooks{
			Track: func(x *core.X, a core.Atom) bool {
				return strings.Contains(a.String(), "len(") && strings.Contains(a.String(), ".members)")
			},
			Exit: func(x *core.X, rets []core.Expr) {
				if len(rets) != 1 || rets[0].S != "nil" {
					return
				}
				key := name + ": success"
				ok := false
				for h := range x.St.Hist {
					if strings.HasPrefix(h, "((len(") && strings.Contains(h, ".members) / 2) + 1) <= len(") {
						ok = true
					}
				}
				if ok {
					r.Hold(rule, key, x.Pos(), "majority of members answered")
				} else {
					var hs []string
					for h := range x.St.Hist {
						hs = append(hs, h)
					}
					sort.Strings(hs)
					r.Violate(rule, key, x.Pos(), "round succeeds without len(responses) >= len(members)/2+1 on the path ("+stable(strings.Join(hs, "; "))+"): two disjoint minorities could both win", x.St.Trace)
				}
			},
		})
		ex.Run(fn, nil)
	}
}

func c12R4(p *core.Prog, r *core.Report) {
	const rule = "C12/R4"
	r.Rule(rule, "DoVote: a reply is selected only after the eligibility filter for that reply; replacement only on newer log / greater weight / greater host", 3)
	fn := mustFunc(p, r, "server.(*ArbiterVoter).DoVote")
	if fn == nil {
		return
	}
	// the filter's branch instructions and their 'eligible' successor
	var eligible []*ssa.BasicBlock
	for _, b := range fn.Blocks {
		if len(b.Instrs) == 0 {
			continue
		}
		iff, ok := b.Instrs[len(b.Instrs)-1].(*ssa.If)
		if !ok {
			continue
		}
		x := &core.X{Fr: &core.Frame{Fn: fn}, St: core.NewState()}
		c := core.Plain(x.Canon(iff.Cond).S)
		switch {
		case strings.HasSuffix(c, ".Arbiter != 0)"):
			eligible = append(eligible, b.Succs[1])
		case strings.HasSuffix(c, ".Weight == 0)"):
			eligible = append(eligible, b.Succs[1])
		}
	}
	if len(eligible) < 2 {
		r.Violate(rule, "server.(*ArbiterVoter).DoVote: eligibility filter", p.Pos(fn.Pos()), "the eligibility tests (Arbiter != 0, Weight == 0) were not found in DoVote", nil)
		return
	}
	// selectVoteResponse is a phi: every edge carrying the current reply must come from a block dominated by both eligible successors
	n := 0
	for _, b := range fn.Blocks {
		for _, ins := range b.Instrs {
			phi, ok := ins.(*ssa.Phi)
			if !ok || phi.Comment != "selectVoteResponse" {
				continue
			}
			for i, e := range phi.Edges {
				if _, isPhi := e.(*ssa.Phi); isPhi {
					continue
				}
				if c, isC := e.(*ssa.Const); isC && c.Value == nil {
					continue
				}
				n++
				pred := b.Preds[i]
				key := fmt.Sprintf("server.(*ArbiterVoter).DoVote: selection from block %s", pred.Comment)
				ok := true
				for _, eb := range eligible {
					if !eb.Dominates(pred) {
						ok = false
					}
				}
				if ok {
					r.Hold(rule, key+fmt.Sprintf("#%d", n), p.InstrPos(phi), "assignment dominated by the eligibility filter")
				} else {
					r.Violate(rule, key+fmt.Sprintf("#%d", n), p.InstrPos(phi), "a vote reply can become the selected candidate without passing the eligibility filter (arbiter / weight 0 members could be proposed as leader)", nil)
				}
			}
		}
	}
	if n == 0 {
		r.Fail("C12/R4: no assignment of selectVoteResponse found (variable renamed?)")
	}
	// replacement conditions
	ex := core.NewExplorer(p, core.Hooks{
		Track: func(x *core.X, a core.Atom) bool {
			s := core.Plain(a.String())
			return strings.Contains(s, "CompareAofId(") || strings.Contains(s, ".Weight") || strings.Contains(s, ".Host") || strings.Contains(s, ".AofId")
		},
	})
	_ = ex
}

func c12R5(p *core.Prog, r *core.Report) {
	const rule = "C12/R5"
	r.Rule(rule, "proposal handlers accept only after testing that the member's own log is not newer than the proposed one", 2)
	propKey := fk("server.ArbiterVoter", "proposalId")
	for _, name := range []string{"server.(*ArbiterManager).commandHandleProposalCommand", "server.(*ArbiterMember).DoSelfProposal"} {
		fn := mustFunc(p, r, name)
		if fn == nil {
			continue
		}
		ex := core.NewExplorer(p, core.Hooks{
			Track: func(x *core.X, a core.Atom) bool {
				s := core.Plain(a.String())
				return strings.HasPrefix(s, "CompareAofId(") && strings.Contains(s, "GetCurrentAofID(") || strings.Contains(s, ".abstianed") || strings.Contains(s, "ownMember.arbiter")
			},
			Instr: func(x *core.X) {
				st, ok := x.Ins.(*ssa.Store)
				if !ok || !x.Top() {
					return
				}
				if k, ok := storeKey(st.Addr); !ok || k != propKey {
					return
				}
				key := siteKey(p, x.Ins) + " (own log)"
				ok2 := false
				for h := range x.St.Hist {
					if strings.HasPrefix(h, "CompareAofId(") && strings.Contains(h, "GetCurrentAofID(") && strings.HasSuffix(h, " <= 0") {
						ok2 = true
					}
					if strings.HasSuffix(h, ".abstianed == true") || strings.Contains(h, "ownMember.arbiter != 0") {
						ok2 = true // members without a log of their own do not compare
					}
				}
				if ok2 {
					r.Hold(rule, key, x.Pos(), "own log compared (or member has no vote on log order)")
				} else {
					r.Violate(rule, key, x.Pos(), "proposal accepted without comparing the member's own log position with the proposed one: a member with a newer log would help elect a stale leader (acknowledged locks lost)", x.St.Trace)
				}
			},
		})
		ex.Run(fn, nil)
	}
}

// c12R6: ArbiterVoter.proposalHost is the acceptor's "commit outstanding"
// marker: set when a commit is accepted, it makes the proposal handlers refuse
// every other candidate until the winner's announcement arrives (or the winner
// is seen to fail). Clearing it anywhere else lets a member that already
// accepted one candidate's commit accept another's - two majorities. Who may
// clear it is a closed list.
var c12MarkerClear = map[string]string{
	"server.NewArbiterVoter":                                    "constructor",
	"server.(*ArbiterVoter).DoCommit":                           "the candidate's own commit round failed (no majority)",
	"server.(*ArbiterVoter).DoAnnouncement":                     "announcing to the elected leader failed: restart the election",
	"server.(*ArbiterManager).QuitMember":                       "member leaves the replica set",
	"server.(*ArbiterManager).voteSucced":                       "the elected member is not reachable after the election",
	"server.(*ArbiterManager).memberStatusUpdated":              "the elected member / the committing candidate went offline",
	"server.(*ArbiterManager).commandHandleAnnouncementCommand": "the winner's announcement arrived: election finished",
}

func c12R6(p *core.Prog, r *core.Report) {
	const rule = "C12/R6"
	r.Rule(rule, "the acceptor's outstanding-commit marker (ArbiterVoter.proposalHost) is cleared only at the listed points (failed own round, announcement, winner offline, leaving the set)", 6)
	mk := fk("server.ArbiterVoter", "proposalHost")
	for _, fn := range p.FuncsIn("server") {
		if fn.Blocks == nil {
			continue
		}
		name := core.FuncName(fn)
		for fn2 := fn; fn2.Parent() != nil; fn2 = fn2.Parent() {
			name = core.FuncName(fn2.Parent())
		}
		n := 0
		for _, b := range fn.Blocks {
			for _, ins := range b.Instrs {
				st, ok := ins.(*ssa.Store)
				if !ok {
					continue
				}
				k, ok := storeKey(st.Addr)
				if !ok || k != mk {
					continue
				}
				c, isConst := st.Val.(*ssa.Const)
				if !isConst || c.Value == nil || c.Value.ExactString() != `""` {
					continue
				}
				n++
				key := fmt.Sprintf("%s: clear marker#%d", name, n)
				if why, ok := c12MarkerClear[name]; ok {
					r.Hold(rule, key, p.InstrPos(ins), "listed: "+why)
				} else if p.IsNewFunc(fn) {
					r.Undecide(rule, key, p.InstrPos(ins), "the marker is cleared in a function the rule table does not know")
				} else {
					r.Violate(rule, key, p.InstrPos(ins), "the outstanding-commit marker is cleared here: a member that already accepted another candidate's commit forgets it and can accept (or gather) a second commit majority - two leaders", nil)
				}
			}
		}
	}
}
