package rules

import (
	"fmt"
	"go/token"
	"go/types"
	"strings"

	"golang.org/x/tools/go/ssa"

	"slockverif/internal/core"
)

func init() { Registry["C20"] = checkC20 }

// checkC20 decides a deliberately narrow set of structural necessary
// conditions of "the queues refine a deque"; the cursor arithmetic of the
// segmented deques (node boundaries, growth, shrink, restructure) is NOT
// decided - it needs an inductive invariant, i.e. a proof or an exploration.
func checkC20(p *core.Prog, r *core.Report) {
	r.Explanation = "Decides six structural necessary conditions of queue refinement and nothing else: (R1) the per-key wait queue and holder queue serve their inline slice before their overflow structure (ring / scale queue), so a new element may be appended to the inline slice only on a path where the overflow structure is absent or was tested empty - otherwise a newer element is served before older ones; (R2) Pop and PopRight of the three segmented deques (LockQueue, LockCommandQueue, LockManagerQueue) clear the slot they vacate, because Restructuring re-pushes every non-nil slot (a stale slot resurrects a removed element); (R3) Push of the three deques stores at the tail cursor before advancing it and allocates the next node when the cursor reaches the node size; (R4) every read of an element in Pop / PopRight / Head / Tail of the three deques is on the non-empty side of an emptiness test; (R5) in the slice-and-cursor queues (ring queue, inline part of the wait and holder queues) every path that re-bases the slice also resets the cursor; (R6) the wait queue's overflow field and its mode sentinel (fastIndex < 0 = priority ring) change together. (R7) the holder queue's IterNodes puts exactly one entry for the inline part in front of the overflow nodes (the index convention of IterNodeQueues). (R8) Pop / PopRight / Head / Tail of the three deques return the empty answer only on a path that compared both coordinates (node index and in-node index) of the head and tail cursors - one coordinate alone reports a queue that spans nodes as empty. NOT decided (the bulk of the property): the (node, index) cursor arithmetic across node boundaries, Len, growth / shrink / Resize / Rellac / Restructuring / Reset, iteration, the priority ring's order, stability of the priority queue, holes left by in-place removal. A wrong index computation inside those operations is not seen."
	r.Assumptions = []string{"Go type checker and go/ssa are correct for /repo"}
	c20R1(p, r)
	c20R234(p, r)
	c20R5(p, r)
	c20R6(p, r)
	c20R7(p, r)
	c20R9(p, r)
}

func c20R1(p *core.Prog, r *core.Report) {
	const rule = "C20/R1"
	r.Rule(rule, "wait queue / holder queue Push appends to the inline slice only where the overflow structure is absent or tested empty (the slice is served first)", 6)
	for _, spec := range []struct{ fn, over string }{
		{"server.(*LockManagerWaitQueue).Push", "ringQueue"},
		{"server.(*LockManagerLockQueue).Push", "scaleQueue"},
	} {
		fn := mustFunc(p, r, spec.fn)
		if fn == nil {
			continue
		}
		self := fn.Params[0].Name()
		over := self + "." + spec.over
		n := 0
		ex := core.NewExplorer(p, core.Hooks{
			Track: func(x *core.X, a core.Atom) bool {
				s := core.Plain(a.String())
				return strings.Contains(s, "."+spec.over)
			},
			Instr: func(x *core.X) {
				if !x.Top() {
					return
				}
				st, ok := x.Ins.(*ssa.Store)
				if !ok {
					return
				}
				k, ok := storeKey(st.Addr)
				if !ok || k.Field != "fastQueue" {
					return
				}
				v := core.Plain(x.Canon(st.Val).S)
				if !strings.HasPrefix(v, "append(") {
					return
				}
				n++
				key := siteKey(p, x.Ins)
				absent := false
				for h := range x.St.Hist {
					if h == over+" == nil" {
						absent = true
					}
					// tested empty: Len(over) == 0 / Head(over) == nil
					if (strings.HasPrefix(h, "Len("+over) && (strings.HasSuffix(h, " == 0") || strings.HasSuffix(h, " <= 0"))) || (strings.HasPrefix(h, "Head("+over) && strings.HasSuffix(h, " == nil")) {
						absent = true
					}
				}
				if absent {
					r.Hold(rule, key, x.Pos(), "overflow structure absent or empty on this path")
				} else {
					r.Violate(rule, key, x.Pos(), "an element is appended to the inline slice on a path that has not established that the overflow "+spec.over+" is absent or empty: the slice is served first, so this element overtakes the older ones parked in the "+spec.over, x.St.Trace)
				}
			},
		})
		ex.Run(fn, nil)
		if ex.Imprecise != "" {
			r.Fail("C20/R1 %s: %s", spec.fn, ex.Imprecise)
		}
		if n == 0 {
			r.Fail("C20/R1 %s: no append to the inline slice found", spec.fn)
		}
	}
}

func c20R234(p *core.Prog, r *core.Report) {
	const r2, r3, r4, r8 = "C20/R2", "C20/R3", "C20/R4", "C20/R8"
	r.Rule(r2, "Pop / PopRight of the segmented deques store nil into the slot they vacate", 6)
	r.Rule(r3, "Push of the segmented deques stores at the tail cursor before advancing it and calls mallocQueue when the cursor reaches the node size", 3)
	r.Rule(r8, "Pop / PopRight / Head / Tail of the segmented deques declare the queue empty only after comparing both the node index and the in-node index of the head and tail cursors", 12)
	r.Rule(r4, "element reads in Pop / PopRight / Head / Tail of the segmented deques are on the non-empty side of an emptiness test", 12)
	for _, typ := range []string{"LockQueue", "LockCommandQueue", "LockManagerQueue"} {
		// R2 + R4 for Pop / PopRight, R4 for Head / Tail
		for _, m := range []string{"Pop", "PopRight", "Head", "Tail"} {
			name := "server.(*" + typ + ")." + m
			fn := mustFunc(p, r, name)
			if fn == nil {
				continue
			}
			self := fn.Params[0].Name()
			side := "head"
			if m == "PopRight" || m == "Tail" {
				side = "tail"
			}
			reads := 0
			ex := core.NewExplorer(p, core.Hooks{
				Track: func(x *core.X, a core.Atom) bool {
					s := core.Plain(a.String())
					return strings.Contains(s, "QueueIndex") || strings.Contains(s, "NodeIndex") || strings.HasPrefix(s, "Len(")
				},
				Instr: func(x *core.X) {
					if !x.Top() {
						return
					}
					switch t := x.Ins.(type) {
					case *ssa.UnOp:
						ia, ok := t.X.(*ssa.IndexAddr)
						if !ok {
							return
						}
						base := core.Plain(x.Canon(ia.X).S)
						if !strings.HasPrefix(base, self+".") || !(strings.HasSuffix(base, "Queue") || strings.Contains(base, ".queues[")) {
							return
						}
						// an element (pointer) read from a node
						if !strings.HasPrefix(t.Type().String(), "*") {
							return
						}
						reads++
						x.Set("slot", core.Plain(x.Canon(ia).S))
						// emptiness test passed on its non-empty side: some comparison between the
						// tail and head cursors (or Len) decided on this path
						tested := false
						for h := range x.St.Hist {
							if (strings.Contains(h, "tailQueueIndex") && strings.Contains(h, "headQueueIndex")) || (strings.Contains(h, "tailNodeIndex") && strings.Contains(h, "headNodeIndex")) || strings.HasPrefix(h, "0 < Len(") || (strings.HasPrefix(h, "Len(") && strings.HasSuffix(h, " != 0")) {
								tested = true
							}
						}
						key := name + ": element read"
						if tested {
							r.Hold(r4, key, x.Pos(), "behind the emptiness test")
						} else {
							r.Violate(r4, key, x.Pos(), "an element is read without an emptiness test on the path: an empty queue returns a stale or foreign element", x.St.Trace)
						}
					case *ssa.Store:
						if m != "Pop" && m != "PopRight" {
							return
						}
						ia, ok := t.Addr.(*ssa.IndexAddr)
						if !ok {
							return
						}
						if x.Canon(t.Val).S == "nil" && core.Plain(x.Canon(ia).S) == x.Get("slot") && x.Get("slot") != "" {
							x.Set("cleared", "1")
						}
					}
				},
				Exit: func(x *core.X, rets []core.Expr) {
					if len(rets) == 1 && rets[0].S == "nil" && x.Get("slot") == "" {
						// R8: the empty verdict (nil returned, no element read) needs both
						// coordinates of the two cursors compared, or a Len test
						qi, ni, nonEmpty := false, false, false
						for h := range x.St.Hist {
							// the non-empty side of a cursor comparison was taken: a later nil
							// return (Tail's defensive arm) is not an empty verdict of the test
							if strings.Contains(h, "headQueueIndex < ") || strings.Contains(h, "headNodeIndex < ") {
								nonEmpty = true
							}
							if strings.Contains(h, "tailQueueIndex") && strings.Contains(h, "headQueueIndex") {
								qi = true
							}
							if strings.Contains(h, "tailNodeIndex") && strings.Contains(h, "headNodeIndex") {
								ni = true
							}
							if strings.HasPrefix(h, "Len(") || strings.Contains(h, " Len(") {
								qi, ni = true, true
							}
						}
						key := name + ": empty verdict"
						if nonEmpty {
						} else if qi && ni {
							r.Hold(r8, key, x.Pos(), "node index and in-node index of both cursors compared")
						} else {
							r.Violate(r8, key, x.Pos(), "the queue is declared empty (nil returned, nothing read) after comparing only one coordinate of the head and tail cursors: a non-empty queue whose contents span nodes is reported empty", x.St.Trace)
						}
					}
					if m != "Pop" && m != "PopRight" {
						return
					}
					if len(rets) != 1 || rets[0].S == "nil" || x.Get("slot") == "" {
						return
					}
					key := name + ": vacated slot"
					if x.Get("cleared") == "1" {
						r.Hold(r2, key, x.Pos(), "slot set to nil")
					} else {
						r.Violate(r2, key, x.Pos(), "the "+side+" element is returned without clearing its slot: Restructuring re-pushes every non-nil slot, so the removed element comes back", x.St.Trace)
					}
				},
			})
			ex.Run(fn, nil)
			if ex.Imprecise != "" {
				r.Fail("C20 %s: %s", name, ex.Imprecise)
			}
			if reads == 0 {
				r.Fail("C20/R4 %s: no element read found", name)
			}
		}
		// R3 Push
		name := "server.(*" + typ + ").Push"
		fn := mustFunc(p, r, name)
		if fn == nil {
			continue
		}
		self := fn.Params[0].Name()
		ex := core.NewExplorer(p, core.Hooks{
			Track: func(x *core.X, a core.Atom) bool { return strings.Contains(core.Plain(a.String()), "tailQueueIndex") },
			Instr: func(x *core.X) {
				if !x.Top() {
					return
				}
				if st, ok := x.Ins.(*ssa.Store); ok {
					if ia, ok := st.Addr.(*ssa.IndexAddr); ok {
						if core.Plain(x.Canon(ia.X).S) == self+".tailQueue" && core.Plain(x.Canon(ia.Index).S) == self+".tailQueueIndex" && x.Get("advanced") == "" {
							x.Set("stored", "1")
						}
					}
					if k, ok := storeKey(st.Addr); ok && k.Field == "tailQueueIndex" && signOf(st) == "+" {
						x.Set("advanced", "1")
					}
				}
				if c := core.StaticCallee(x.Ins); c != nil && c.Name() == "mallocQueue" {
					x.Set("grown", "1")
				}
			},
			Exit: func(x *core.X, rets []core.Expr) {
				key := name + ": store then advance"
				if x.Get("stored") == "1" && x.Get("advanced") == "1" {
					r.Hold(r3, key, x.Pos(), "element stored at the tail cursor before the cursor moves")
				} else {
					r.Violate(r3, key, x.Pos(), "Push does not store the element at the tail cursor before advancing it", x.St.Trace)
				}
				// after the advance the cursor is inside the node, or the next node was taken
				inside := false
				for h := range x.St.Hist {
					if h == self+".tailQueueIndex < "+self+".tailQueueSize" {
						inside = true
					}
				}
				key = name + ": cursor stays inside a node"
				switch {
				case x.Get("grown") == "1":
					r.Hold(r3, key, x.Pos(), "next node taken when the cursor reached the node size")
				case inside:
					r.Hold(r3, key, x.Pos(), "cursor tested below the node size")
				default:
					r.Violate(r3, key, x.Pos(), "Push returns without the path establishing tailQueueIndex < tailQueueSize and without taking a new node: the next Push writes past the node", x.St.Trace)
				}
			},
		})
		ex.Run(fn, nil)
		if ex.Imprecise != "" {
			r.Fail("C20/R3 %s: %s", name, ex.Imprecise)
		}
	}
}

// c20R5: the slice-and-cursor queues (a growable slice whose consumed prefix
// is skipped by an integer cursor: the ring queue, the inline part of the wait
// queue and of the holder queue). Whenever the slice is re-based - replaced by
// anything other than an append to itself - the elements move relative to the
// cursor, so the cursor has to be reset on the same path; a stale cursor skips
// the oldest live elements for ever (Len under-reports, later arrivals
// overtake). First creation (slice tested nil on the path) is exempt.
func c20R5(p *core.Prog, r *core.Report) {
	const rule = "C20/R5"
	r.Rule(rule, "in the slice-and-cursor queues every path that re-bases the slice (stores anything but an append to itself) also resets the cursor to 0, unless the slice was nil", 6)
	type pair struct{ typ, slice, cursor string }
	pairs := map[pair]bool{}
	appends := map[string]bool{} // typ.slice that some method appends to
	fieldLoad := func(v ssa.Value) (base ssa.Value, k core.FieldKey, ok bool) {
		u, ok1 := v.(*ssa.UnOp)
		if !ok1 {
			return nil, core.FieldKey{}, false
		}
		fa, ok2 := u.X.(*ssa.FieldAddr)
		if !ok2 {
			return nil, core.FieldKey{}, false
		}
		return fa.X, core.FieldKeyOf(fa.X.Type(), fa.Field), true
	}
	for _, fn := range p.FuncsIn("server") {
		if fn.Blocks == nil || fn.Signature.Recv() == nil {
			continue
		}
		for _, b := range fn.Blocks {
			for _, ins := range b.Instrs {
				switch t := ins.(type) {
				case *ssa.IndexAddr:
					b1, ks, ok1 := fieldLoad(t.X)
					b2, kc, ok2 := fieldLoad(t.Index)
					if ok1 && ok2 && b1 == b2 && ks.Type == kc.Type {
						if _, isSlice := t.X.Type().Underlying().(*types.Slice); isSlice {
							pairs[pair{ks.Type, ks.Field, kc.Field}] = true
						}
					}
				case *ssa.Store:
					if fa, ok := t.Addr.(*ssa.FieldAddr); ok {
						if c, ok := t.Val.(*ssa.Call); ok {
							if bi, ok := c.Common().Value.(*ssa.Builtin); ok && bi.Name() == "append" {
								if _, k2, ok := fieldLoad(c.Common().Args[0]); ok && k2 == core.FieldKeyOf(fa.X.Type(), fa.Field) {
									appends[k2.Type+"."+k2.Field] = true
								}
							}
						}
					}
				}
			}
		}
	}
	n := 0
	for pr := range pairs {
		if !appends[pr.typ+"."+pr.slice] {
			continue
		}
		short := strings.TrimPrefix(pr.typ, "server.")
		for _, fn := range p.FuncsIn("server") {
			if fn.Blocks == nil || p.IsNewFunc(fn) || recvName(fn) != short {
				continue
			}
			stores := false
			for _, b := range fn.Blocks {
				for _, ins := range b.Instrs {
					if st, ok := ins.(*ssa.Store); ok {
						if k, ok := storeKey(st.Addr); ok && k.Type == pr.typ && k.Field == pr.slice {
							stores = true
						}
					}
				}
			}
			if !stores {
				continue
			}
			self := fn.Params[0].Name()
			name := core.FuncName(fn)
			bad := false
			any := false
			ex := core.NewExplorer(p, core.Hooks{
				Track: func(x *core.X, a core.Atom) bool {
					return strings.Contains(core.Plain(a.String()), self+"."+pr.slice)
				},
				Instr: func(x *core.X) {
					if !x.Top() {
						return
					}
					st, ok := x.Ins.(*ssa.Store)
					if !ok {
						return
					}
					fa, ok := st.Addr.(*ssa.FieldAddr)
					if !ok || core.Plain(x.Canon(fa.X).S) != self {
						return
					}
					k := core.FieldKeyOf(fa.X.Type(), fa.Field)
					if k.Type != pr.typ {
						return
					}
					switch k.Field {
					case pr.slice:
						v := core.Plain(x.Canon(st.Val).S)
						if strings.HasPrefix(v, "append("+self+"."+pr.slice) || strings.HasPrefix(v, "append(append("+self+"."+pr.slice) {
							return
						}
						if x.Get("rebased") == "" {
							x.Set("rebased", x.Pos())
						}
					case pr.cursor:
						if c, ok := st.Val.(*ssa.Const); ok && c.Value != nil && c.Int64() <= 0 {
							x.Set("reset", "1")
						}
					}
				},
				Exit: func(x *core.X, rets []core.Expr) {
					if x.Get("rebased") == "" {
						return
					}
					any = true
					if x.Get("reset") == "1" || bad {
						return
					}
					for h := range x.St.Hist {
						if core.Plain(h) == self+"."+pr.slice+" == nil" {
							return
						}
					}
					bad = true
					r.Violate(rule, name+": cursor reset with the re-based "+pr.slice, x.Get("rebased"), "the slice "+pr.slice+" is replaced (not appended to) on a path that leaves the cursor "+pr.cursor+" as it was: the elements moved but the cursor still skips the old consumed prefix, so the oldest live elements are never served and Len under-reports", x.St.Trace)
				},
			})
			ex.Run(fn, nil)
			if ex.Imprecise != "" {
				r.Fail("C20/R5 %s: %s", name, ex.Imprecise)
			}
			if any {
				n++
				if !bad {
					r.Hold(rule, name+": cursor reset with the re-based "+pr.slice, p.Pos(fn.Pos()), "every re-basing path resets "+pr.cursor)
				}
			}
		}
	}
	if n == 0 {
		r.Fail("C20/R5: no slice-and-cursor queue found")
	}
}

// c20R6: the wait queue has two modes told apart by a sentinel: fastIndex < 0
// means "ringQueue is the priority ring and the inline slice is not used"
// (Pop / Head / Len / iteration ignore the slice then). The overflow field and
// the sentinel therefore change together: a path that replaces ringQueue while
// one is installed must also set fastIndex, otherwise later pushes land in a
// slice that the readers skip and the elements are lost.
func c20R6(p *core.Prog, r *core.Report) {
	const rule = "C20/R6"
	r.Rule(rule, "LockManagerWaitQueue: a path that replaces an installed ringQueue also stores the mode sentinel fastIndex (first installation, with ringQueue tested nil, is exempt)", 2)
	n := 0
	for _, fn := range p.FuncsIn("server") {
		if fn.Blocks == nil || p.IsNewFunc(fn) || recvName(fn) != "LockManagerWaitQueue" {
			continue
		}
		stores := false
		for _, b := range fn.Blocks {
			for _, ins := range b.Instrs {
				if st, ok := ins.(*ssa.Store); ok {
					if k, ok := storeKey(st.Addr); ok && k.Type == "server.LockManagerWaitQueue" && k.Field == "ringQueue" {
						stores = true
					}
				}
			}
		}
		if !stores {
			continue
		}
		self := fn.Params[0].Name()
		name := core.FuncName(fn)
		bad, any := false, false
		ex := core.NewExplorer(p, core.Hooks{
			Track: func(x *core.X, a core.Atom) bool {
				s := core.Plain(a.String())
				return strings.Contains(s, self+".ringQueue") || strings.Contains(s, self+".fastIndex")
			},
			Instr: func(x *core.X) {
				if !x.Top() {
					return
				}
				st, ok := x.Ins.(*ssa.Store)
				if !ok {
					return
				}
				fa, ok := st.Addr.(*ssa.FieldAddr)
				if !ok || core.Plain(x.Canon(fa.X).S) != self {
					return
				}
				switch core.FieldKeyOf(fa.X.Type(), fa.Field).Field {
				case "ringQueue":
					if x.Get("replaced") == "" {
						x.Set("replaced", x.Pos())
					}
				case "fastIndex":
					if _, ok := st.Val.(*ssa.Const); ok {
						x.Set("mode", "1")
					}
				}
			},
			Exit: func(x *core.X, rets []core.Expr) {
				if x.Get("replaced") == "" {
					return
				}
				any = true
				if x.Get("mode") == "1" || bad {
					return
				}
				for h := range x.St.Hist {
					if core.Plain(h) == self+".ringQueue == nil" {
						return
					}
					// FIFO mode established on the path: the sentinel is already right
					if hp := core.Plain(h); hp == "0 <= "+self+".fastIndex" || hp == "-1 < "+self+".fastIndex" || hp == self+".fastIndex != -1" {
						return
					}
				}
				bad = true
				r.Violate(rule, name+": overflow field and mode sentinel change together", x.Get("replaced"), "ringQueue is replaced while one is installed and the mode sentinel fastIndex is left as it was: in priority mode (fastIndex < 0) later pushes go to the inline slice, which Pop / Head / Len ignore - queued requests are lost", x.St.Trace)
			},
		})
		ex.Run(fn, nil)
		if ex.Imprecise != "" {
			r.Fail("C20/R6 %s: %s", name, ex.Imprecise)
		}
		if any {
			n++
			if !bad {
				r.Hold(rule, name+": overflow field and mode sentinel change together", p.Pos(fn.Pos()), "sentinel stored on every replacing path (or first installation)")
			}
		}
	}
	if n == 0 {
		r.Fail("C20/R6: no method of LockManagerWaitQueue stores ringQueue")
	}
}

// c20R7: the holder queue is iterated as `for i := range q.IterNodes() {
// q.IterNodeQueues(i) }`. IterNodeQueues hard-wires index 0 to the inline part
// and index n to node n-1 of the overflow queue, so IterNodes has to hand out
// exactly one entry for the inline part (the slice, or an empty placeholder)
// in front of the overflow queue's nodes whenever there is an overflow queue -
// otherwise the iteration stops one node short and the last live node is never
// visited (LIST_LOCKED, admin "show lock").
func c20R7(p *core.Prog, r *core.Report) {
	const rule = "C20/R7"
	r.Rule(rule, "LockManagerLockQueue.IterNodes puts exactly one entry for the inline part in front of the overflow queue's nodes (the index convention of IterNodeQueues: 0 = inline part, n = overflow node n-1)", 1)
	fn := mustFunc(p, r, "server.(*LockManagerLockQueue).IterNodes")
	byIdx := mustFunc(p, r, "server.(*LockManagerLockQueue).IterNodeQueues")
	if fn == nil || byIdx == nil {
		return
	}
	// the convention exists only while IterNodeQueues forwards index-1
	conv := false
	for _, b := range byIdx.Blocks {
		for _, ins := range b.Instrs {
			if c := core.StaticCallee(ins); c != nil && c.Name() == "IterNodeQueues" {
				for _, a := range core.CallArgs(ins) {
					if bo, ok := a.(*ssa.BinOp); ok && bo.Op == token.SUB {
						if k, ok := constIntOf(bo.Y); ok && k == 1 {
							conv = true
						}
					}
				}
			}
		}
	}
	key := "server.(*LockManagerLockQueue).IterNodes: one entry for the inline part before the overflow nodes"
	if !conv {
		r.Hold(rule, key, p.Pos(byIdx.Pos()), "IterNodeQueues does not shift the index: no placeholder needed")
		return
	}
	n, bad, badTrace := 0, "", []string(nil)
	ex := core.NewExplorer(p, core.Hooks{
		Instr: func(x *core.X) {
			if !x.Top() {
				return
			}
			call, ok := x.Ins.(*ssa.Call)
			if !ok {
				return
			}
			bi, ok := call.Call.Value.(*ssa.Builtin)
			if !ok || bi.Name() != "append" || len(call.Call.Args) != 2 {
				return
			}
			if c, ok := call.Call.Args[1].(*ssa.Call); ok && c.Call.StaticCallee() != nil && c.Call.StaticCallee().Name() == "IterNodes" {
				n++
				if x.Get("front") != "1" && bad == "" {
					bad, badTrace = x.Pos(), x.St.Trace
				}
				return
			}
			x.Set("front", x.Get("front")+"1")
		},
	})
	ex.NoHist = true
	ex.Run(fn, nil)
	switch {
	case ex.Imprecise != "":
		r.Fail("C20/R7: %s", ex.Imprecise)
	case n == 0:
		r.Fail("C20/R7: IterNodes never appends the overflow queue's nodes")
	case bad != "":
		r.Violate(rule, key, bad, "on a path the overflow queue's nodes are appended without exactly one entry for the inline part in front: IterNodeQueues(i) reads overflow node i-1, so `for i := range IterNodes()` stops one node short and never visits the last live node (once the inline part is drained while the overflow queue still holds elements)", badTrace)
	default:
		r.Hold(rule, key, p.Pos(fn.Pos()), "slice or placeholder on every path")
	}
}

// c20R9: nodeIndex is the index of the top allocated node (mallocQueue raises
// it when it allocates, Reset and growth read nodeQueueSizes[nodeIndex] as the
// size to double). A restructure pass that frees nodes therefore frees the node
// AT nodeIndex and lowers nodeIndex in the same step; freeing by another index
// (the old tail) leaves nodeIndex on a freed node whose recorded size is 0 -
// the next growth allocates an empty node and the push after it panics
// (reproduced: findings/c20_restructuring_stale_nodeindex_probe_test.go,
// findings/c20_longwait_restructure_pool_reuse_probe_test.go; repaired).
// Scope: the five restructure passes only - Shrink and Resize free by other
// conventions (shrinkNodeSize, node moves) that this rule does not decide.
func c20R9(p *core.Prog, r *core.Report) {
	const rule = "C20/R9"
	r.Rule(rule, "a restructure pass frees a node only at nodeIndex (the top allocated node) and lowers nodeIndex in the same block", 5)
	for _, name := range []string{
		"server.(*LockQueue).Restructuring", "server.(*LockCommandQueue).Restructuring", "server.(*LockManagerQueue).Restructuring",
		"server.(*LockDB).restructuringLongTimeOutQueue", "server.(*LockDB).restructuringLongExpriedQueue",
	} {
		fn := mustFunc(p, r, name)
		if fn == nil {
			continue
		}
		n := 0
		for _, b := range fn.Blocks {
			for _, ins := range b.Instrs {
				st, ok := ins.(*ssa.Store)
				if !ok {
					continue
				}
				ia, ok := st.Addr.(*ssa.IndexAddr)
				if !ok {
					continue
				}
				c, isConst := st.Val.(*ssa.Const)
				if !isConst || !c.IsNil() {
					continue
				}
				// a node slot: element of a slice of slices loaded from a field named queues
				ld, ok := ia.X.(*ssa.UnOp)
				if !ok {
					continue
				}
				fa, ok := ld.X.(*ssa.FieldAddr)
				if !ok || fieldName(fa) != "queues" {
					continue
				}
				n++
				key := fmt.Sprintf("%s: node freed#%d", name, n)
				// index is a load of <same queue>.nodeIndex
				atTop := false
				if il, ok := ia.Index.(*ssa.UnOp); ok {
					if ifa, ok := il.X.(*ssa.FieldAddr); ok && fieldName(ifa) == "nodeIndex" && sameBase(ifa.X, fa.X) {
						atTop = true
					}
				}
				lowered := false
				for _, j := range b.Instrs {
					if s2, ok := j.(*ssa.Store); ok {
						if f2, ok := s2.Addr.(*ssa.FieldAddr); ok && fieldName(f2) == "nodeIndex" && sameBase(f2.X, fa.X) {
							if bo, ok := s2.Val.(*ssa.BinOp); ok && bo.Op.String() == "-" {
								lowered = true
							}
						}
					}
				}
				if atTop && lowered {
					r.Hold(rule, key, p.InstrPos(st), "freed at nodeIndex, nodeIndex lowered in the same block")
				} else {
					r.Violate(rule, key, p.InstrPos(st), "a restructure pass frees a node by an index other than nodeIndex, or without lowering nodeIndex: nodeIndex is left on a freed node (recorded size 0), the next growth allocates an empty node and the following push panics", nil)
				}
			}
		}
		if n == 0 {
			r.Fail("C20/R9 %s: no node-freeing store found", name)
		}
	}
}

func fieldName(fa *ssa.FieldAddr) string {
	t := fa.X.Type().Underlying()
	if pt, ok := t.(*types.Pointer); ok {
		if st, ok := pt.Elem().Underlying().(*types.Struct); ok {
			return st.Field(fa.Field).Name()
		}
	}
	return ""
}

// sameBase: two address bases denote the same queue object - identical SSA
// values, or loads / field addresses of the same field chain (go/ssa has no
// CSE, so every `longLocks.locks` is a new load).
func sameBase(a, b ssa.Value) bool {
	if a == b {
		return true
	}
	switch x := a.(type) {
	case *ssa.UnOp:
		if y, ok := b.(*ssa.UnOp); ok && x.Op == y.Op {
			return sameBase(x.X, y.X)
		}
	case *ssa.FieldAddr:
		if y, ok := b.(*ssa.FieldAddr); ok && x.Field == y.Field {
			return sameBase(x.X, y.X)
		}
	}
	return false
}
