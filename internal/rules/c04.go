package rules

import (
	"fmt"
	"go/token"
	"sort"
	"strconv"
	"strings"

	"golang.org/x/tools/go/ssa"

	"slockverif/internal/core"
)

func init() { Registry["C04"] = checkC04 }

func checkC04(p *core.Prog, r *core.Report) {
	r.Explanation = "Decides structural necessary conditions of no-lost-wake-up and queue order: (R1) in every function that lowers a key's depth (store LockManager.locked := locked - n), every path from that store to the function's exit calls wakeUpWaitLocks for the same manager; (R2) the wake-up pass re-reads the queue head after every grant and exits only when not waited / head nil / head inadmissible; (R3) GetWaitLock returns the container's Head() and discards only tombstoned or ack-pending entries; (R4) in Lock a newcomer is granted while the key is held and has waiters only with the priority flag and doCheckLockWaitPriority==true; (R5) doCheckLockWaitPriority is strict (>); (R6) AddWaitLock skips the switch to the priority ring only when priorities cannot differ. (R7) the migration to the priority ring feeds it in arrival order (inline slice before overflow ring). (R8) in Lock a path that adds a new holder and does not run the wake-up pass has tested the manager's waited flag false. (R9) doTimeOut and cancelWaitLock run the wake-up pass when a queued request leaves the queue ungranted (a real defect was repaired). NOT decided: FIFO/priority order inside the containers and their migrations (C20 territory), interleavings between the unlock and the pass."
	r.Assumptions = []string{"Go type checker and go/ssa are correct for /repo", "container methods Head/Pop/Push/MaxPriority behave as a queue (C20, not claimed)"}
	c04R1(p, r)
	c04R2(p, r)
	c04R3(p, r)
	c04R4(p, r)
	c04R5(p, r)
	c04R6(p, r)
	c04R7(p, r)
	c04R8(p, r)
	c04R9(p, r)
}

var lmLocked = fk("server.LockManager", "locked")

// isDepthDecrease reports whether a store lowers LockManager.locked and
// returns the manager's canonical expression.
func isDepthDecrease(x *core.X, st *ssa.Store) (string, bool) {
	k, ok := storeKey(st.Addr)
	if !ok || k != lmLocked {
		return "", false
	}
	b, ok := st.Val.(*ssa.BinOp)
	if !ok || b.Op != token.SUB {
		return "", false
	}
	addr := strings.TrimPrefix(x.Canon(st.Addr).S, "&")
	return strings.TrimSuffix(addr, ".locked"), true
}

func c04R1(p *core.Prog, r *core.Report) {
	const rule = "C04/R1"
	r.Rule(rule, "every store that lowers LockManager.locked is followed on every path to the function's exit by wakeUpWaitLocks(sameManager)", 7)
	// discover functions with a depth decrease
	var fns []*ssa.Function
	for _, f := range p.FuncsIn("server") {
		has := false
		for _, b := range f.Blocks {
			for _, ins := range b.Instrs {
				if st, ok := ins.(*ssa.Store); ok {
					if k, ok := storeKey(st.Addr); ok && k == lmLocked {
						if bo, ok := st.Val.(*ssa.BinOp); ok && bo.Op == token.SUB {
							has = true
						}
					}
				}
			}
		}
		if has {
			fns = append(fns, f)
		}
	}
	wake := mustFunc(p, r, "server.(*LockDB).wakeUpWaitLocks")
	inl := inlineSet(p, c03Inline...)
	for _, fn := range fns {
		type res struct {
			pos  string
			bad  bool
			path []string
		}
		sites := map[string]*res{}
		ex := core.NewExplorer(p, core.Hooks{
			Inline: inl,
			Instr: func(x *core.X) {
				switch t := x.Ins.(type) {
				case *ssa.Store:
					if mgr, ok := isDepthDecrease(x, t); ok {
						key := siteKey(p, x.Ins)
						if sites[key] == nil {
							sites[key] = &res{pos: x.Pos()}
						}
						x.Set("dec", x.Get("dec")+"|"+key+"="+mgr)
					}
				case ssa.CallInstruction:
					if core.StaticCallee(x.Ins) == wake && wake != nil {
						mgr := argCanon(x, x.Ins, 1)
						var keep []string
						for _, d := range strings.Split(x.Get("dec"), "|") {
							if d == "" {
								continue
							}
							if strings.SplitN(d, "=", 2)[1] != mgr {
								keep = append(keep, d)
							}
						}
						if len(keep) == 0 {
							x.Set("dec", "")
						} else {
							x.Set("dec", "|"+strings.Join(keep, "|"))
						}
					}
				}
			},
			Exit: func(x *core.X, rets []core.Expr) {
				for _, d := range strings.Split(x.Get("dec"), "|") {
					if d == "" {
						continue
					}
					key := strings.SplitN(d, "=", 2)[0]
					if s := sites[key]; s != nil && !s.bad {
						s.bad = true
						s.path = x.St.Trace
					}
				}
			},
		})
		ex.Run(fn, nil)
		if ex.Imprecise != "" {
			r.Fail("C04/R1 %s: %s", core.FuncName(fn), ex.Imprecise)
		}
		keys := make([]string, 0, len(sites))
		for k := range sites {
			keys = append(keys, k)
		}
		sort.Strings(keys)
		for _, k := range keys {
			if sites[k].bad {
				r.Violate(rule, k, sites[k].pos, "depth lowered but a path reaches the function exit without wakeUpWaitLocks for that manager (lost wake-up)", sites[k].path)
			} else {
				r.Hold(rule, k, sites[k].pos, "wakeUpWaitLocks on every path to exit")
			}
		}
	}
}

func c04R2(p *core.Prog, r *core.Report) {
	const rule = "C04/R2"
	r.Rule(rule, "wakeUpWaitLocks re-reads GetWaitLock() after every grant and returns only when the key has no waiters flag, the head is nil, or the head is inadmissible (doLock false)", 3)
	fn := mustFunc(p, r, "server.(*LockDB).wakeUpWaitLocks")
	doLock := mustFunc(p, r, "server.(*LockDB).doLock")
	if fn == nil || doLock == nil {
		return
	}
	mgr := fn.Params[1].Name()
	ex := core.NewExplorer(p, core.Hooks{
		Inline: func(x *core.X, c *ssa.Function) bool {
			return c == doLock || (underFrame(x, doLock) && pureBoolHelper(p, c))
		},
		Track: func(x *core.X, a core.Atom) bool {
			return strings.HasPrefix(a.L, "GetWaitLock(") || core.Plain(a.L) == mgr+".waited"
		},
		InlineReturn: func(x *core.X, c *ssa.Function, rets []core.Expr) {
			if c == doLock && len(rets) == 1 {
				x.Set("adm", rets[0].S)
			}
		},
		Instr: func(x *core.X) {
			trackLocks(x)
			if calleeIs(x.Ins, "LockDB", "wakeUpWaitLock") {
				if x.Get("adm") != "true" {
					r.Violate(rule, siteKey(p, x.Ins), x.Pos(), "waiter granted without doLock==true for it in this iteration", x.St.Trace)
				}
				x.Set("granted", "1")
				x.Set("adm", "")
			}
			if calleeIs(x.Ins, "LockManager", "GetWaitLock") {
				x.Set("granted", "")
				x.Set("adm", "")
				if !held(x, "shard") {
					r.Violate(rule, siteKey(p, x.Ins), x.Pos(), "queue head read without the shard mutex", x.St.Trace)
				}
			}
		},
		Exit: func(x *core.X, rets []core.Expr) {
			why := ""
			for _, a := range plainAtoms(&x.St.Facts) {
				if a.L == mgr+".waited" && a.R == "false" {
					why = "no waiters flag"
				}
				if strings.HasPrefix(a.L, "GetWaitLock(") && a.Op == "==" && a.R == "nil" {
					why = "queue head nil"
				}
			}
			if x.Get("adm") == "false" {
				why = "head inadmissible"
			}
			key := "server.(*LockDB).wakeUpWaitLocks: exit{" + why + "}"
			switch {
			case x.Get("granted") == "1":
				r.Violate(rule, "server.(*LockDB).wakeUpWaitLocks: exit after grant", x.Pos(), "the pass returns right after granting a waiter without re-examining the queue head", x.St.Trace)
			case why == "":
				r.Violate(rule, "server.(*LockDB).wakeUpWaitLocks: exit{unjustified}", x.Pos(), "the pass returns although the head was neither nil nor inadmissible", x.St.Trace)
			case held(x, "shard"):
				r.Violate(rule, key, x.Pos(), "returns with the shard mutex held", x.St.Trace)
			default:
				r.Hold(rule, key, x.Pos(), "")
			}
		},
	})
	ex.Run(fn, nil)
	if ex.Imprecise != "" {
		r.Fail("C04/R2: %s", ex.Imprecise)
	}
}

func c04R3(p *core.Prog, r *core.Report) {
	const rule = "C04/R3"
	r.Rule(rule, "GetWaitLock returns the wait queue's Head() and pops only entries with timeouted or ackCount != 0xff", 2)
	fn := mustFunc(p, r, "server.(*LockManager).GetWaitLock")
	if fn == nil {
		return
	}
	ex := core.NewExplorer(p, core.Hooks{
		Track: func(x *core.X, a core.Atom) bool { return true },
		Instr: func(x *core.X) {
			if n, _ := core.CallName(x.Ins); n == "Pop" && core.StaticCallee(x.Ins) != nil && strings.Contains(core.FuncName(core.StaticCallee(x.Ins)), "LockManagerWaitQueue") {
				ok := false
				for _, a := range plainAtoms(&x.St.Facts) {
					if strings.HasPrefix(a.L, "Head(") && (strings.HasSuffix(a.String(), ".timeouted == true") || strings.HasSuffix(a.String(), ".ackCount != 255")) {
						ok = true
					}
				}
				if ok {
					r.Hold(rule, siteKey(p, x.Ins), x.Pos(), "discard guarded by tombstone / ack-pending test on the head")
				} else {
					r.Violate(rule, siteKey(p, x.Ins), x.Pos(), "queue entry discarded without the timeouted / ack-pending test on the current head", x.St.Trace)
				}
			}
		},
		Exit: func(x *core.X, rets []core.Expr) {
			if len(rets) != 1 || rets[0].S == "nil" {
				return
			}
			ret := rets[0].S
			key := "server.(*LockManager).GetWaitLock: non-nil return"
			f := &x.St.Facts
			if !strings.HasPrefix(ret, "Head(") {
				r.Violate(rule, key, x.Pos(), "returns "+ret+", not the queue's Head()", x.St.Trace)
				return
			}
			if f.HasPlain(core.Plain(ret)+".timeouted == false") && f.HasPlain(core.Plain(ret)+".ackCount == 255") {
				r.Hold(rule, key, x.Pos(), "head returned only if live")
			} else {
				r.Violate(rule, key, x.Pos(), "head returned without checking timeouted==false and ackCount==0xff", x.St.Trace)
			}
		},
	})
	ex.Run(fn, nil)
}

func c04R4(p *core.Prog, r *core.Report) {
	const rule = "C04/R4"
	r.Rule(rule, "in LockDB.Lock a request is granted while the key is held and has queued waiters only with the priority flag and a priority strictly above every waiter (no wait queue, or MaxPriority() < request priority), whether that test is written inline or in doCheckLockWaitPriority", 2)
	fn := mustFunc(p, r, "server.(*LockDB).Lock")
	prio := p.Func("server.(*LockDB).doCheckLockWaitPriority") // optional: may have been inlined into Lock
	doLock := mustFunc(p, r, "server.(*LockDB).doLock")
	if fn == nil || doLock == nil {
		return
	}
	cmd := fn.Params[2].Name()
	ex := core.NewExplorer(p, core.Hooks{
		Inline: func(x *core.X, c *ssa.Function) bool {
			return (prio != nil && c == prio) || c == doLock || ((underFrame(x, doLock) || (prio != nil && underFrame(x, prio))) && pureBoolHelper(p, c))
		},
		Track: func(x *core.X, a core.Atom) bool {
			l, rr := core.Plain(a.L), core.Plain(a.R)
			return strings.HasSuffix(l, ".waited") || strings.HasSuffix(rr, ".locked") || strings.HasSuffix(l, ".locked") || strings.Contains(l, ".TimeoutFlag & 16)") ||
				strings.HasSuffix(l, ".waitLocks") || strings.HasPrefix(l, "MaxPriority(") || strings.HasPrefix(rr, "MaxPriority(")
		},
		InlineReturn: func(x *core.X, c *ssa.Function, rets []core.Expr) {
			if c == prio && len(rets) == 1 {
				x.Set("prio", rets[0].S)
			}
			if c == doLock && len(rets) == 1 {
				x.Set("adm", rets[0].S)
			}
		},
		Instr: func(x *core.X) {
			isGrant := false
			if calleeIs(x.Ins, "LockManager", "AddLock") {
				isGrant = true
			}
			if rq, res, _, ok := replyCall(x, x.Ins); ok && rq == cmd && res == "0" && x.Get("adm") == "true" && x.Get("granted") == "" {
				isGrant = true // zero-expiry success: counted as served
			}
			if !isGrant || !x.Top() {
				return
			}
			x.Set("granted", "1")
			key := siteKey(p, x.Ins)
			heldKey := false
			waitedFalse := false
			waitedKnown := false
			for h := range x.St.Hist {
				if strings.HasPrefix(h, "0 < ") && strings.HasSuffix(h, ".locked") && !strings.Contains(h, "GetLockedLock(") {
					heldKey = true
				}
				if strings.HasSuffix(h, ".waited == false") {
					waitedKnown, waitedFalse = true, true
				}
				if strings.HasSuffix(h, ".waited == true") {
					waitedKnown = true
				}
			}
			switch {
			case !heldKey:
				r.Hold(rule, key, x.Pos(), "key not held on this path (newcomer is not overtaking a held key's queue)")
			case waitedFalse:
				r.Hold(rule, key, x.Pos(), "no waiters")
			case c04Outranks(x, cmd):
				r.Hold(rule, key, x.Pos(), "priority flag set and strictly higher than every waiter")
			default:
				_ = waitedKnown
				r.Violate(rule, key, x.Pos(), "granted on a held key with waiters queued, without priority flag + doCheckLockWaitPriority==true (barging)", x.St.Trace)
			}
		},
	})
	ex.Run(fn, nil)
	if ex.Imprecise != "" {
		r.Fail("C04/R4: %s", ex.Imprecise)
	}
}

// c04Outranks: the path tested the priority flag set and (no wait queue, or
// the queue's maximum priority strictly below the request's).
func c04Outranks(x *core.X, cmd string) bool {
	flag, strict := false, false
	for h := range x.St.Hist {
		switch {
		case strings.HasSuffix(h, ".TimeoutFlag & 16) != 0") && strings.Contains(h, cmd+"."):
			flag = true
		case strings.HasSuffix(h, ".waitLocks == nil"):
			strict = true
		case strings.HasPrefix(h, "MaxPriority(") && strings.Contains(h, " < ") && !strings.Contains(h, " <= ") && strings.HasSuffix(h, ".Rcount"):
			strict = true
		}
	}
	return flag && strict
}

func c04R5(p *core.Prog, r *core.Report) {
	const rule = "C04/R5"
	fn := p.Func("server.(*LockDB).doCheckLockWaitPriority")
	if fn == nil {
		// the predicate was inlined into Lock: R4 checks its content on the path
		return
	}
	r.Rule(rule, "true-paths of doCheckLockWaitPriority entail waitLocks==nil or request priority strictly greater than MaxPriority()", 2)
	mgr, lk := fn.Params[1].Name(), fn.Params[2].Name()
	ex := core.NewExplorer(p, core.Hooks{
		Track: func(x *core.X, a core.Atom) bool { return true },
		Exit: func(x *core.X, rets []core.Expr) {
			if len(rets) != 1 || rets[0].S == "false" {
				return
			}
			var cls []string
			ok := false
			for _, a := range plainAtoms(&x.St.Facts) {
				cls = append(cls, a.String())
				if a.L == mgr+".waitLocks" && a.Op == "==" && a.R == "nil" {
					ok = true
				}
				if strings.HasPrefix(a.L, "MaxPriority(") && a.Op == "<" && a.R == lk+".command.Rcount" {
					ok = true
				}
			}
			key := "server.(*LockDB).doCheckLockWaitPriority: true-path{" + stable(strings.Join(cls, " && ")) + "}"
			if rets[0].S != "true" {
				r.Violate(rule, key, x.Pos(), "non-constant result "+rets[0].S, x.St.Trace)
			} else if ok {
				r.Hold(rule, key, x.Pos(), "")
			} else {
				r.Violate(rule, key, x.Pos(), "bypasses the queue without a strictly higher priority", x.St.Trace)
			}
		},
	})
	ex.Run(fn, nil)
}

func c04R6(p *core.Prog, r *core.Report) {
	const rule = "C04/R6"
	r.Rule(rule, "AddWaitLock pushes into a FIFO-mode queue without switching to the priority ring only when priorities cannot differ (new queue, not waited, already priority mode, empty, or equal priority)", 2)
	fn := mustFunc(p, r, "server.(*LockManager).AddWaitLock")
	if fn == nil {
		return
	}
	self := fn.Params[0].Name()
	ex := core.NewExplorer(p, core.Hooks{
		Track: func(x *core.X, a core.Atom) bool { return true },
		Instr: func(x *core.X) {
			callee := core.StaticCallee(x.Ins)
			if callee == nil {
				return
			}
			name := core.FuncName(callee)
			if strings.HasSuffix(name, "LockManagerWaitQueue).RePushPriorityRingQueue") {
				x.Set("switched", "1")
			}
			if strings.HasSuffix(name, "NewLockManagerWaitQueue") {
				x.Set("fresh", "1")
			}
			if !strings.HasSuffix(name, "LockManagerWaitQueue).Push") {
				return
			}
			why := ""
			if x.Get("switched") == "1" {
				why = "switched to the priority ring"
			}
			if x.Get("fresh") == "1" {
				why = "new queue"
			}
			for _, a := range plainAtoms(&x.St.Facts) {
				s := a.String()
				switch {
				case s == self+".waited == false":
					why = "no live waiters"
				case a.L == self+".waitLocks.fastIndex" && a.Op == "<" && a.R == "0":
					why = "already in priority mode"
				case strings.HasPrefix(a.L, "Head(") && a.Op == "==" && a.R == "nil":
					why = "queue empty"
				case a.Op == "==" && (strings.HasPrefix(a.L, "MaxPriority(") || strings.HasPrefix(a.R, "MaxPriority(")):
					why = "same priority as the queue"
				}
			}
			key := siteKey(p, x.Ins) + " {" + why + "}"
			if why == "" {
				r.Violate(rule, siteKey(p, x.Ins)+" {unjustified}", x.Pos(), "request queued FIFO without switching to the priority ring although priorities may differ", x.St.Trace)
			} else {
				r.Hold(rule, key, x.Pos(), why)
			}
		},
	})
	ex.Run(fn, nil)
}

// c04R7: the wait queue serves its inline slice before its overflow ring, so
// everything in the slice arrived before everything in the ring. When the
// queue is migrated to the priority ring (first request with a different
// priority), each priority level of the new ring is FIFO: the migration has to
// feed it in arrival order - slice entries before ring entries - or later
// requests of a priority end up in front of earlier ones of the same priority.
func c04R7(p *core.Prog, r *core.Report) {
	const rule = "C04/R7"
	r.Rule(rule, "RePushPriorityRingQueue feeds the new priority ring in arrival order: no entry of the old overflow ring is pushed before an entry of the inline slice", 1)
	fn := mustFunc(p, r, "server.(*LockManagerWaitQueue).RePushPriorityRingQueue")
	if fn == nil {
		return
	}
	pushes := 0
	bad := false
	ex := core.NewExplorer(p, core.Hooks{
		Instr: func(x *core.X) {
			// the old overflow ring adopted as it is (its entries enter the new
			// structure at this point, all at once)
			if st, ok := x.Ins.(*ssa.Store); ok && x.Top() {
				if k, ok := storeKey(st.Addr); ok && k.Type != "server.LockManagerWaitQueue" && strings.Contains(core.Plain(x.Canon(st.Val).S), ".ringQueue") {
					pushes++
					x.Set("ring", "1")
				}
				return
			}
			c := core.StaticCallee(x.Ins)
			if c == nil || c.Name() != "Push" || !strings.Contains(recvName(c), "RingQueue") {
				return
			}
			v := core.Plain(argCanon(x, x.Ins, 1))
			switch {
			case strings.Contains(v, ".fastQueue["):
				pushes++
				if x.Get("ring") == "1" && !bad {
					bad = true
					r.Violate(rule, "server.(*LockManagerWaitQueue).RePushPriorityRingQueue: migration order", x.Pos(), "an entry of the inline slice (earlier arrival) is pushed into the new priority ring after entries of the overflow ring (later arrivals): within a priority level later requests overtake earlier ones", x.St.Trace)
				}
			case strings.HasPrefix(v, "Pop(") || strings.Contains(v, ".ringQueue"):
				pushes++
				x.Set("ring", "1")
			}
		},
	})
	ex.NoHist = true
	ex.Run(fn, nil)
	if ex.Imprecise != "" {
		r.Fail("C04/R7: %s", ex.Imprecise)
	}
	if pushes == 0 {
		r.Fail("C04/R7: no push into the new ring found")
	} else if !bad {
		r.Hold(rule, "server.(*LockManagerWaitQueue).RePushPriorityRingQueue: migration order", p.Pos(fn.Pos()), "slice entries are pushed before ring entries on every path")
	}
}

// c04R8: a newcomer that is granted directly as a new holder changes what the
// queued requests may do (a request that waits because the key was unlocked, a
// reader behind a writer that gave way): "at every quiescent moment no key has
// an admissible live request at the head of its queue" needs the wake-up pass
// after such a grant whenever requests are queued. Decided on the paths of
// Lock: a path that adds a holder (AddLock) and reaches the exit without
// wakeUpWaitLocks has tested, on the manager's own waited flag, that nothing
// is queued - or that the granted lock object was not a fresh one.
func c04R8(p *core.Prog, r *core.Report) {
	const rule = "C04/R8"
	r.Rule(rule, "Lock (non-ack arms): a path that adds a new holder and does not run the wake-up pass has tested the manager's waited flag false (or the lock object's depth non-zero)", 1)
	fn := mustFunc(p, r, "server.(*LockDB).Lock")
	if fn == nil {
		return
	}
	n, bad, badTrace := 0, "", []string(nil)
	ackFlag := strconv.FormatInt(mustConst(p, r, "protocol", "TIMEOUT_FLAG_REQUIRE_ACKED"), 10)
	lockDepth := map[string]bool{}
	ex := core.NewExplorer(p, core.Hooks{
		Track: func(x *core.X, a core.Atom) bool {
			s := core.Plain(a.String())
			if strings.HasSuffix(s, ".locked != 0") {
				for _, d := range a.Deps {
					if d == fk("server.Lock", "locked") {
						lockDepth[a.String()] = true // the granted lock object was not a fresh one
						return true
					}
				}
			}
			return strings.Contains(s, ".waited ") || strings.HasSuffix(s, "TimeoutFlag & "+ackFlag+") != 0")
		},
		Instr: func(x *core.X) {
			if !x.Top() {
				return
			}
			if calleeIs(x.Ins, "LockManager", "AddLock") {
				x.Set("granted", x.Pos())
				// only tests made from here on count: forget earlier ones
				x.Set("mark", strconv.Itoa(len(x.St.Trace)))
			}
			if calleeIs(x.Ins, "LockDB", "wakeUpWaitLocks") {
				x.Set("woke", "1")
			}
		},
		Exit: func(x *core.X, rets []core.Expr) {
			if x.Get("granted") == "" {
				return
			}
			for h := range x.St.Hist {
				if strings.HasSuffix(core.Plain(h), "TimeoutFlag & "+ackFlag+") != 0") {
					return // the ack-pending arm answers and wakes later (C11); not decided here
				}
			}
			n++
			if x.Get("woke") == "1" {
				return
			}
			ok := false
			for h := range x.St.Hist {
				if lockDepth[h] || strings.HasSuffix(core.Plain(h), ".waited == false") {
					ok = true
				}
			}
			if !ok && bad == "" {
				bad, badTrace = x.Get("granted"), x.St.Trace
			}
		},
	})
	ex.Run(fn, nil)
	key := "server.(*LockDB).Lock: direct grant of a new holder is followed by the wake-up pass when requests are queued"
	switch {
	case ex.Imprecise != "":
		r.Fail("C04/R8: %s", ex.Imprecise)
	case n == 0:
		r.Fail("C04/R8: no grant path found in Lock")
	case bad != "":
		r.Violate(rule, key, bad, "a path grants the newcomer as a new holder and leaves without the wake-up pass and without having tested the manager's waited flag: a request queued because the key was unlocked (unlock_to_wait) stays queued although it is now admissible - and a later unlock does not help either", badTrace)
	default:
		r.Hold(rule, key, p.Pos(fn.Pos()), fmt.Sprintf("%d grant paths", n))
	}
}

// c04R9: a queued request that leaves the queue without being granted - its
// wait timed out (doTimeOut) or it was cancelled (cancelWaitLock) - may have
// been the only thing that kept the requests behind it waiting (an exclusive
// request in front of shared ones that fit beside the current holders). "At
// every quiescent moment no key has an admissible live request at the head of
// its queue" therefore needs the wake-up pass on these exits too, unless
// nothing is queued any more.
func c04R9(p *core.Prog, r *core.Report) {
	const rule = "C04/R9"
	r.Rule(rule, "doTimeOut / cancelWaitLock: a path that takes a queued request out of the queue (tombstone set, depth untouched) runs the wake-up pass before it returns, or has tested the manager's waited flag false", 2)
	for _, name := range []string{"server.(*LockDB).doTimeOut", "server.(*LockDB).cancelWaitLock"} {
		fn := mustFunc(p, r, name)
		if fn == nil {
			continue
		}
		n, bad, badTrace := 0, "", []string(nil)
		ex := core.NewExplorer(p, core.Hooks{
			Track: func(x *core.X, a core.Atom) bool { return strings.Contains(a.String(), ".waited ") },
			Instr: func(x *core.X) {
				if !x.Top() {
					return
				}
				if st, ok := x.Ins.(*ssa.Store); ok {
					if k, ok := storeKey(st.Addr); ok {
						if k == fk("server.Lock", "timeouted") && x.Canon(st.Val).S == "true" {
							x.Set("left", x.Pos())
						}
						if k == fk("server.LockManager", "locked") {
							x.Set("depth", "1") // a hold ended: C04/R1's case
						}
					}
					return
				}
				if calleeIs(x.Ins, "LockDB", "wakeUpWaitLocks") {
					x.Set("woke", "1")
				}
			},
			Exit: func(x *core.X, rets []core.Expr) {
				if x.Get("left") == "" || x.Get("depth") == "1" {
					return
				}
				n++
				if x.Get("woke") == "1" {
					return
				}
				for h := range x.St.Hist {
					if strings.HasSuffix(core.Plain(h), ".waited == false") {
						return
					}
				}
				if bad == "" {
					bad, badTrace = x.Get("left"), x.St.Trace
				}
			},
		})
		ex.Run(fn, nil)
		key := name + ": a queued request that leaves is followed by the wake-up pass"
		switch {
		case ex.Imprecise != "":
			r.Fail("C04/R9 %s: %s", name, ex.Imprecise)
		case n == 0:
			r.Fail("C04/R9: %s has no path on which a queued request leaves", name)
		case bad != "":
			r.Violate(rule, key, bad, "a queued request leaves the queue (timed out / cancelled) and the function returns without the wake-up pass: the request behind it can be admissible now (H holds shared, an exclusive A queued, a shared B behind A; A gives up: B is the live, admissible head and gets no reply until some later hold ends)", badTrace)
		default:
			r.Hold(rule, key, p.Pos(fn.Pos()), fmt.Sprintf("%d paths", n))
		}
	}
}
